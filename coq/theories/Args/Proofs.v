(** C18 - lemmas about Args/Model.v (statements of the property theorems are in Props/C18.v). *)
From Coq Require Import List ZArith String Ascii Bool Lia ZifyBool ZifyNat.
From Thunder Require Import Lib.Json Args.Model Args.Spec.
Import ListNotations.
Open Scope string_scope.
Local Open Scope Z_scope.

(** * Induction principle for the nested type language *)
Section TyInd.
  Variable P : ty -> Prop.
  Hypothesis Hbool : P TBool.
  Hypothesis Hint : forall k, P (TInt k).
  Hypothesis Hf32 : P TF32.
  Hypothesis Hf64 : P TF64.
  Hypothesis Hstring : P TString.
  Hypothesis Hbytes : P TBytes.
  Hypothesis Htime : P TTime.
  Hypothesis Henum : forall z names, P (TEnum z names).
  Hypothesis Htext : P TText.
  Hypothesis Hptr : forall t, P t -> P (TPtr t).
  Hypothesis Hopt : forall t, P t -> P (TOpt t).
  Hypothesis Hlist : forall t, P t -> P (TList t).
  Hypothesis Hstruct : forall fs, Forall (fun nt => P (snd nt)) fs -> P (TStruct fs).

  Fixpoint ty_ind' (t : ty) : P t :=
    match t with
    | TBool => Hbool
    | TInt k => Hint k
    | TF32 => Hf32
    | TF64 => Hf64
    | TString => Hstring
    | TBytes => Hbytes
    | TTime => Htime
    | TEnum z names => Henum z names
    | TText => Htext
    | TPtr t' => Hptr t' (ty_ind' t')
    | TOpt t' => Hopt t' (ty_ind' t')
    | TList t' => Hlist t' (ty_ind' t')
    | TStruct fs =>
        Hstruct fs ((fix go (fs : list (string * ty)) : Forall (fun nt => P (snd nt)) fs :=
                       match fs with
                       | [] => Forall_nil _
                       | nt :: r => Forall_cons _ (ty_ind' (snd nt)) (go r)
                       end) fs)
    end.
End TyInd.

(** * Named forms of the inner loops *)
Fixpoint mapr {A B} (f : A -> result B) (l : list A) : result (list B) :=
  match l with
  | [] => Ok []
  | x :: r => match f x with
              | Err e => Err e
              | Ok v => match mapr f r with Ok vs => Ok (v :: vs) | Err e => Err e end
              end
  end.

Section ParseLemmas.
  Variable b64 : string -> option (list Z).
  Variable tdec : string -> option tval.
  Variable xdec : string -> option string.
  Notation parse := (parse b64 tdec xdec).
  Notation renders := (renders b64 tdec xdec).

  Fixpoint parse_fields (o : list (string * jv)) (fs : list (string * ty)) : result (list (string * gv)) :=
    match fs with
    | [] => Ok []
    | (n, t') :: r => match parse t' (field_val n o) with
                      | Err e => Err e
                      | Ok v => match parse_fields o r with
                                | Ok vs => Ok ((n, v) :: vs)
                                | Err e => Err e
                                end
                      end
    end.

  Lemma parse_list_eq t' l :
    parse (TList t') (VArr l) = match mapr (parse t') l with Ok vs => Ok (GList vs) | Err e => Err e end.
  Proof.
    cbn [Model.parse].
    induction l as [|x r IH]; [reflexivity|].
    cbn [mapr]. destruct (parse t' x) as [v|e]; [|reflexivity].
    match type of IH with match ?F with _ => _ end = _ => destruct F end;
      destruct (mapr (parse t') r); inversion IH; subst; reflexivity.
  Qed.

  Lemma parse_struct_eq fs o :
    parse (TStruct fs) (VObj o) = match parse_fields o fs with Ok vs => Ok (GStruct vs) | Err e => Err e end.
  Proof.
    cbn [Model.parse].
    induction fs as [|[n t'] r IH]; [reflexivity|].
    cbn [parse_fields]. destruct (parse t' (field_val n o)) as [v|e]; [|reflexivity].
    match type of IH with match ?F with _ => _ end = _ => destruct F end;
      destruct (parse_fields o r); inversion IH; subst; reflexivity.
  Qed.
End ParseLemmas.

(** * Numbers *)
Ltac Zify.zify_post_hook ::= Z.div_mod_to_equations.

Ltac pows :=
  repeat match goal with
         | |- context [2 ^ ?n] => let v := eval vm_compute in (2 ^ n) in progress change (2 ^ n) with v
         end.
Ltac pows_in H :=
  repeat match type of H with
         | context [2 ^ ?n] => let v := eval vm_compute in (2 ^ n) in progress change (2 ^ n) with v in H
         end.

Lemma cvt32_id z : - 2 ^ 31 <= z < 2 ^ 31 -> cvt32 z = z.
Proof. unfold cvt32. intros H. pows_in H; pows. destruct (_ && _) eqn:E; lia. Qed.

Lemma cvt64_id z : - 2 ^ 63 <= z < 2 ^ 63 -> cvt64 z = z.
Proof. unfold cvt64. intros H. pows_in H; pows. destruct (_ && _) eqn:E; lia. Qed.

Lemma wrap_signed_id w z : 0 < w -> - 2 ^ (w - 1) <= z < 2 ^ (w - 1) -> wrap w true z = z.
Proof.
  intros Hw H. unfold wrap. cbv zeta. cbn [andb].
  assert (E : 2 ^ w = 2 * 2 ^ (w - 1)).
  { replace w with (Z.succ (w - 1)) at 1 by lia. rewrite Z.pow_succ_r by lia. reflexivity. }
  rewrite E. set (h := 2 ^ (w - 1)) in *.
  assert (0 < h) by (apply Z.pow_pos_nonneg; lia).
  destruct (Z.neg_nonneg_cases z) as [Hn | Hn].
  - assert (Em : z mod (2 * h) = z + 2 * h).
    { symmetry. apply (Z.mod_unique z (2 * h) (-1) (z + 2 * h)); [left; lia | lia]. }
    rewrite Em. destruct (h <=? z + 2 * h) eqn:C; lia.
  - rewrite Z.mod_small by lia. destruct (h <=? z) eqn:C; lia.
Qed.

Lemma wrap_unsigned_id w z : 0 <= z < 2 ^ w -> wrap w false z = z.
Proof. intros H. unfold wrap. cbv zeta. cbn [andb]. apply Z.mod_small. exact H. Qed.

Lemma conv_id k z : conv_ok k z -> conv k z = z.
Proof.
  unfold conv_ok, int_lo, int_hi, conv.
  destruct k; cbn [width signed]; intros [H H63]; pows_in H.
  - rewrite cvt32_id by (pows; lia). apply wrap_signed_id; pows; lia.
  - rewrite cvt32_id by (pows; lia). apply wrap_signed_id; pows; lia.
  - rewrite cvt32_id by (pows; lia). apply wrap_signed_id; pows; lia.
  - rewrite cvt64_id by (pows; lia). apply wrap_signed_id; pows; lia.
  - rewrite cvt64_id by (pows; lia). apply wrap_signed_id; pows; lia.
  - rewrite cvt32_id by (pows; lia). apply wrap_unsigned_id; pows; lia.
  - rewrite cvt32_id by (pows; lia). apply wrap_unsigned_id; pows; lia.
  - rewrite cvt64_id by (pows; lia). apply wrap_unsigned_id; pows; lia.
  - (* uint64 goes through int64: exact below 2^63 only *)
    specialize (H63 eq_refl). pows_in H63.
    rewrite cvt64_id by (pows; lia). apply wrap_unsigned_id; pows; lia.
  - destruct (z <? 2 ^ 63) eqn:C; pows_in C.
    + rewrite cvt64_id by (pows; lia). apply wrap_unsigned_id; pows; lia.
    + destruct (z <? 2 ^ 64) eqn:C2; pows_in C2; [reflexivity | lia].
Qed.

Lemma trunc_int z : trunc z 0 = z.
Proof. unfold trunc. rewrite Z.leb_refl, Z.pow_0_r, Z.mul_1_r. reflexivity. Qed.

Lemma round_sig_small p m e : 0 < p -> Z.abs m < 2 ^ p -> round_sig p m e = (m, e).
Proof.
  intros Hp Hm. unfold round_sig.
  destruct (Z.abs m =? 0) eqn:E0.
  - destruct (0 <=? p) eqn:E; [reflexivity | lia].
  - assert (Ha : 0 < Z.abs m) by lia.
    apply Z.log2_lt_pow2 in Hm; [|exact Ha].
    destruct (Z.log2 (Z.abs m) + 1 <=? p) eqn:E; [reflexivity | lia].
Qed.

Lemma round53_int z :
  - 2 ^ 53 <= z <= 2 ^ 53 -> forall m e, round_sig 53 z 0 = (m, e) -> trunc m e = z.
Proof.
  intros H m e Hr.
  assert (C : Z.abs z < 2 ^ 53 \/ z = 2 ^ 53 \/ z = - 2 ^ 53) by (pows_in H; pows; lia).
  destruct C as [C | [-> | ->]].
  - rewrite round_sig_small in Hr by (try lia; exact C). inversion Hr; subst. apply trunc_int.
  - vm_compute in Hr. inversion Hr; subst. reflexivity.
  - vm_compute in Hr. inversion Hr; subst. reflexivity.
Qed.

(** * Every rendering parses to the value it renders *)
Section Master.
  Variable b64 : string -> option (list Z).
  Variable tdec : string -> option tval.
  Variable xdec : string -> option string.
  Notation parse := (parse b64 tdec xdec).
  Notation renders := (renders b64 tdec xdec).
  Notation parse_fields := (parse_fields b64 tdec xdec).

  Lemma parse_ptr_nonnull t' j :
    j <> VNull -> parse (TPtr t') j = match parse t' j with Ok v => Ok (GPtr v) | Err e => Err e end.
  Proof. destruct j; intros H; try reflexivity. congruence. Qed.

  Lemma parse_opt_nonnull t' j : j <> VNull -> parse (TOpt t') j = parse t' j.
  Proof. destruct j; intros H; try reflexivity. congruence. Qed.

  Theorem renders_parse : forall t v j, renders t v j -> parse t j = Ok v.
  Proof.
    induction t using ty_ind'; intros v j HR; cbn [Spec.renders] in HR.
    - destruct HR as (b & -> & ->). reflexivity.
    - destruct HR as (z & m & e & -> & -> & Ht & Hr). cbn [Model.parse]. rewrite Ht, conv_id by exact Hr. reflexivity.
    - destruct HR as (m & e & m' & e' & -> & -> & Ha & Hn). cbn [Model.parse].
      rewrite round_sig_small by (try lia; exact Ha). rewrite Hn. reflexivity.
    - destruct HR as (m & e & m' & e' & -> & -> & Hn). cbn [Model.parse]. rewrite Hn. reflexivity.
    - destruct HR as (s & -> & ->). reflexivity.
    - destruct HR as (b & s & -> & -> & Hd). cbn [Model.parse]. rewrite Hd. reflexivity.
    - destruct HR as (x & s & -> & -> & Hd). cbn [Model.parse]. rewrite Hd. reflexivity.
    - destruct HR as (n & -> & Hl). cbn [Model.parse]. rewrite Hl. reflexivity.
    - destruct HR as (x & s & -> & -> & Hd). cbn [Model.parse]. rewrite Hd. reflexivity.
    - destruct HR as [[-> ->] | [Hn (v' & -> & Hr)]]; [reflexivity|].
      rewrite parse_ptr_nonnull by exact Hn. rewrite (IHt _ _ Hr). reflexivity.
    - destruct HR as [[-> ->] | [Hn Hr]]; [reflexivity|].
      rewrite parse_opt_nonnull by exact Hn. apply IHt. exact Hr.
    - destruct HR as (vs & js & -> & -> & HF). rewrite parse_list_eq.
      assert (E : mapr (parse t) js = Ok vs).
      { induction HF as [|x y l l' Hxy HF IH]; [reflexivity|].
        cbn [mapr]. rewrite (IHt _ _ Hxy), IH. reflexivity. }
      rewrite E. reflexivity.
    - destruct HR as (vs & o & -> & -> & HF). rewrite parse_struct_eq.
      assert (E : parse_fields o fs = Ok vs).
      { revert vs HF. induction H as [|[n t'] r Hh Ht IH]; intros vs HF.
        - destruct vs; [reflexivity | contradiction].
        - destruct vs as [|[n' v'] vs']; [contradiction|].
          destruct HF as (-> & Hr & HF). cbn [Proofs.parse_fields].
          cbn [snd] in Hh. rewrite (Hh _ _ Hr), (IH _ HF). reflexivity. }
      rewrite E. reflexivity.
  Qed.
End Master.

(** * Association lists *)
Lemma lookup_in_nodup {A} (l : list (string * A)) n v :
  NoDup (map fst l) -> In (n, v) l -> lookup n l = Some v.
Proof.
  induction l as [|[k x] r IH]; intros Hnd Hin; [contradiction|].
  cbn [map fst] in Hnd. inversion Hnd as [|? ? Hk Hr]; subst.
  cbn [lookup]. destruct Hin as [E | Hin].
  - inversion E; subst. rewrite String.eqb_refl. reflexivity.
  - destruct (String.eqb n k) eqn:E.
    + apply String.eqb_eq in E; subst. exfalso. apply Hk.
      change k with (fst (k, v)). apply in_map. exact Hin.
    + apply IH; assumption.
Qed.

Lemma enum_eqb_eq a b : enum_eqb a b = true -> a = b.
Proof.
  destruct a, b; cbn; try discriminate; intros H.
  - apply Z.eqb_eq in H; congruence.
  - apply String.eqb_eq in H; congruence.
Qed.

Lemma rev_lookup_in v names n : rev_lookup v names = Some n -> In (n, v) names.
Proof.
  induction names as [|[k x] r IH]; cbn [rev_lookup]; [discriminate|].
  destruct (enum_eqb x v) eqn:E; intros H.
  - inversion H; subst. apply enum_eqb_eq in E; subst. left; reflexivity.
  - right; auto.
Qed.

Lemma rev_lookup_lookup v names n :
  NoDup (map fst names) -> rev_lookup v names = Some n -> lookup n names = Some v.
Proof. intros Hnd H. apply lookup_in_nodup; [exact Hnd | apply rev_lookup_in; exact H]. Qed.

(** * Renderings of base types are never null; a null rendering is the zero value *)
Section RendersFacts.
  Variable b64 : string -> option (list Z).
  Variable tdec : string -> option tval.
  Variable xdec : string -> option string.
  Notation renders := (renders b64 tdec xdec).

  Lemma renders_nonnull t v j : base_ty t -> renders t v j -> j <> VNull.
  Proof.
    destruct t; cbn [base_ty Spec.renders]; intros B H; try contradiction;
      repeat match goal with
             | H : exists _, _ |- _ => destruct H
             | H : _ /\ _ |- _ => destruct H
             end; subst; discriminate.
  Qed.

  Lemma renders_null_zero t v : renders t v VNull -> v = zero t.
  Proof.
    destruct t; cbn [Spec.renders]; intros H;
      try (repeat match goal with
                  | H : exists _, _ |- _ => destruct H
                  | H : _ /\ _ |- _ => destruct H
                  end; discriminate).
    - destruct H as [[_ ->] | [Hn _]]; [reflexivity | congruence].
    - destruct H as [[_ ->] | [Hn _]]; [reflexivity | congruence].
  Qed.

  (** Struct members: a list of (name, rendering) pairs with unique names renders the struct. *)
  Inductive frel : list (string * ty) -> list (string * gv) -> list (string * jv) -> Prop :=
  | frel_nil : frel [] [] []
  | frel_cons n t v j fs vs o :
      renders t v j -> frel fs vs o -> frel ((n, t) :: fs) ((n, v) :: vs) ((n, j) :: o).

  Lemma frel_names fs vs o : frel fs vs o -> map fst o = map fst fs.
  Proof. induction 1; cbn; congruence. Qed.

  Lemma frel_renders_wrt fs vs o o0 :
    frel fs vs o -> (forall n j, In (n, j) o -> lookup n o0 = Some j) ->
    renders (TStruct fs) (GStruct vs) (VObj o0).
  Proof.
    intros HF Hl. cbn [Spec.renders]. exists vs, o0. split; [reflexivity|]. split; [reflexivity|].
    induction HF as [|n t v j fs vs o Hr HF IH]; [exact I|].
    split; [reflexivity|]. split.
    - unfold field_val. rewrite (Hl n j) by (left; reflexivity). exact Hr.
    - apply IH. intros n' j' Hin. apply Hl. right; exact Hin.
  Qed.

  Lemma frel_renders fs vs o :
    NoDup (map fst fs) -> frel fs vs o -> renders (TStruct fs) (GStruct vs) (VObj o).
  Proof.
    intros Hnd HF. apply (frel_renders_wrt fs vs o o HF).
    intros n j Hin. apply lookup_in_nodup; [|exact Hin].
    rewrite (frel_names _ _ _ HF). exact Hnd.
  Qed.
End RendersFacts.

(** * Variable transport: the canonical JSON of an in-range value renders it *)
Section Transport.
  Variable b64 : string -> option (list Z).
  Variable tdec : string -> option tval.
  Variable xdec : string -> option string.
  Variable b64e : list Z -> string.
  Variable tenc : tval -> string.
  Variable xenc : string -> string.
  Variable time_ok : tval -> Prop.
  Variable text_ok : string -> Prop.
  Hypothesis b64_rt : forall b, bytes_ok b -> b64 (b64e b) = Some b.
  Hypothesis time_rt : forall x, time_ok x -> tdec (tenc x) = Some x.
  Hypothesis text_rt : forall s, text_ok s -> xdec (xenc s) = Some s.

  Notation parse := (parse b64 tdec xdec).
  Notation renders := (renders b64 tdec xdec).
  Notation sendable := (sendable time_ok text_ok).
  Notation json_of := (json_of b64e tenc xenc).

  Lemma sendable_conv_ok k z :
    int_lo k <= z <= int_hi k -> - 2 ^ 53 <= z <= 2 ^ 53 -> conv_ok k z.
  Proof. intros H1 H2. split; [exact H1|]. intros _. pows_in H2. pows. lia. Qed.

  Theorem json_renders : forall t, wf_ty t -> forall v, sendable t v -> renders t v (json_of t v).
  Proof.
    induction t using ty_ind'; intros W v S; cbn [wf_ty Spec.sendable] in W, S.
    - cbn [Spec.json_of Spec.renders]. destruct S as (b & ->). exists b. auto.
    - cbn [Spec.json_of Spec.renders]. destruct S as (z & -> & Hr & H53). exists z, z, 0.
      split; [reflexivity|]. split; [reflexivity|].
      split; [apply trunc_int | apply sendable_conv_ok; assumption].
    - cbn [Spec.json_of Spec.renders]. destruct S as (m & e & -> & Hn & Ha). exists m, e, m, e. auto.
    - cbn [Spec.json_of Spec.renders]. destruct S as (m & e & -> & Hn). exists m, e, m, e. auto.
    - cbn [Spec.json_of Spec.renders]. destruct S as (s & ->). exists s. auto.
    - cbn [Spec.json_of Spec.renders]. destruct S as (b & -> & Hb). exists b, (b64e b). auto.
    - cbn [Spec.json_of Spec.renders]. destruct S as (x & -> & Hx). exists x, (tenc x). auto.
    - cbn [Spec.json_of Spec.renders]. destruct S as (n & Hn). rewrite Hn. exists n. split; [reflexivity|].
      apply rev_lookup_lookup; assumption.
    - cbn [Spec.json_of Spec.renders]. destruct S as (x & -> & Hx). exists x, (xenc x). auto.
    - cbn [Spec.json_of Spec.renders]. destruct W as [B W]. destruct S as [-> | (v' & -> & S)]; [left; auto|].
      right. pose proof (IHt W _ S) as Hr. split.
      + eapply renders_nonnull; eauto.
      + exists v'. auto.
    - cbn [Spec.json_of Spec.renders]. pose proof (IHt W _ S) as Hr.
      destruct (json_of t v) eqn:E; try (right; split; [discriminate | exact Hr]).
      left. split; [reflexivity|]. eapply renders_null_zero; eauto.
    - cbn [Spec.json_of Spec.renders]. destruct S as (vs & -> & HF). exists vs, (map (json_of t) vs).
      split; [reflexivity|]. split; [reflexivity|].
      induction HF as [|x l Hx HF IH]; constructor; auto.
    - destruct S as (vs & -> & HF). destruct W as [Hnd W].
      cbn [Spec.json_of].
      match goal with |- Spec.renders _ _ _ _ _ (VObj ?o) => set (O := o) end.
      apply frel_renders; [exact Hnd|]. subst O. clear Hnd.
      revert vs HF. induction H as [|[n t'] r Hh Ht IH]; intros vs HF.
      + destruct vs; [constructor | contradiction].
      + destruct vs as [|[n' v'] vs']; [contradiction|].
        destruct HF as (-> & Sv & HF). destruct W as [Wt Wr]. cbn [snd] in Hh.
        constructor; [apply Hh; assumption | apply IH; assumption].
  Qed.

  Theorem variable_roundtrip : forall t v, wf_ty t -> sendable t v -> parse t (json_of t v) = Ok v.
  Proof. intros t v W S. apply renders_parse. apply json_renders; assumption. Qed.
End Transport.

(** * Literal transport *)
Fixpoint vtj_fields (vars : list (string * jv)) (fs : list (string * lit)) (seen : list string)
  : result (list (string * jv)) :=
  match fs with
  | [] => Ok []
  | (n, x) :: r =>
      if mem_str n seen then Err EParse
      else match vtj vars x with
           | Err e => Err e
           | Ok v => match vtj_fields vars r (n :: seen) with
                     | Ok vs => Ok ((n, v) :: vs)
                     | Err e => Err e
                     end
           end
  end.

Lemma vtj_list_eq vars l :
  vtj vars (LList l) = match mapr (vtj vars) l with Ok vs => Ok (VArr vs) | Err e => Err e end.
Proof.
  cbn [vtj].
  induction l as [|x r IH]; [reflexivity|].
  cbn [mapr]. destruct (vtj vars x) as [v|e]; [|reflexivity].
  match type of IH with match ?F with _ => _ end = _ => destruct F end;
    destruct (mapr (vtj vars) r); inversion IH; subst; reflexivity.
Qed.

Lemma vtj_obj_eq vars fs :
  vtj vars (LObj fs) = match vtj_fields vars fs [] with Ok vs => Ok (VObj vs) | Err e => Err e end.
Proof.
  cbn [vtj]. generalize (@nil string) as seen.
  induction fs as [|[n x] r IH]; intros seen; [reflexivity|].
  cbn [vtj_fields]. destruct (mem_str n seen); [reflexivity|].
  destruct (vtj vars x) as [v|e]; [|reflexivity].
  specialize (IH (n :: seen)).
  match type of IH with match ?F with _ => _ end = _ => destruct F end;
    destruct (vtj_fields vars r (n :: seen)); inversion IH; subst; reflexivity.
Qed.

Lemma mem_str_false n seen : ~ In n seen -> mem_str n seen = false.
Proof.
  intros H. unfold mem_str. destruct (existsb (String.eqb n) seen) eqn:E; [|reflexivity].
  apply existsb_exists in E as (x & Hin & Hx). apply String.eqb_eq in Hx; subst. contradiction.
Qed.

Section Literal.
  Variable b64 : string -> option (list Z).
  Variable tdec : string -> option tval.
  Variable xdec : string -> option string.
  Variable b64e : list Z -> string.
  Variable tenc : tval -> string.
  Variable xenc : string -> string.
  Variable time_ok : tval -> Prop.
  Variable text_ok : string -> Prop.
  Hypothesis b64_rt : forall b, bytes_ok b -> b64 (b64e b) = Some b.
  Hypothesis time_rt : forall x, time_ok x -> tdec (tenc x) = Some x.
  Hypothesis text_rt : forall s, text_ok s -> xdec (xenc s) = Some s.
  Variable nullvar : string.
  Variable vars : list (string * jv).
  Hypothesis null_unbound : lookup nullvar vars = None \/ lookup nullvar vars = Some VNull.

  Notation parse := (parse b64 tdec xdec).
  Notation renders := (renders b64 tdec xdec).
  Notation sendable := (sendable time_ok text_ok).
  Notation lit_of := (lit_of b64e tenc xenc nullvar).
  Notation frel := (frel b64 tdec xdec).

  Fixpoint lit_fields (fs : list (string * ty)) (vs : list (string * gv)) : list (string * lit) :=
    match fs, vs with
    | (n, t') :: fs', (_, v') :: vs' => (n, lit_of t' v') :: lit_fields fs' vs'
    | _, _ => []
    end.

  Lemma lit_struct_eq fs vs : lit_of (TStruct fs) (GStruct vs) = LObj (lit_fields fs vs).
  Proof. reflexivity. Qed.

  Lemma vtj_nullvar : vtj vars (LVar nullvar) = Ok VNull.
  Proof. cbn [vtj]. destruct null_unbound as [-> | ->]; reflexivity. Qed.

  Lemma int64_ok_53 z : - 2 ^ 53 <= z <= 2 ^ 53 -> int64_ok z = true.
  Proof. intros H. unfold int64_ok. pows_in H. pows. lia. Qed.

  Theorem lit_renders :
    forall t, wf_ty t -> forall v, sendable t v -> exists j, vtj vars (lit_of t v) = Ok j /\ renders t v j.
  Proof.
    induction t using ty_ind'; intros W v S; cbn [wf_ty Spec.sendable] in W, S.
    - destruct S as (b & ->). exists (VBool b). split; [reflexivity|]. exists b. auto.
    - destruct S as (z & -> & Hr & H53). cbn [Spec.lit_of vtj]. rewrite int64_ok_53 by exact H53.
      destruct (round_sig 53 z 0) as [m e] eqn:E. exists (VNum m e). split; [reflexivity|].
      exists z, m, e. split; [reflexivity|]. split; [reflexivity|].
      split; [eapply round53_int; eauto | apply sendable_conv_ok; assumption].
    - destruct S as (m & e & -> & Hn & Ha). exists (VNum m e). split; [reflexivity|]. exists m, e, m, e. auto.
    - destruct S as (m & e & -> & Hn). exists (VNum m e). split; [reflexivity|]. exists m, e, m, e. auto.
    - destruct S as (s & ->). exists (VStr s). split; [reflexivity|]. exists s. auto.
    - destruct S as (b & -> & Hb). exists (VStr (b64e b)). split; [reflexivity|]. exists b, (b64e b). auto.
    - destruct S as (x & -> & Hx). exists (VStr (tenc x)). split; [reflexivity|]. exists x, (tenc x). auto.
    - destruct S as (n & Hn). cbn [Spec.lit_of]. rewrite Hn. exists (VStr n). split; [reflexivity|].
      exists n. split; [reflexivity|]. apply rev_lookup_lookup; assumption.
    - destruct S as (x & -> & Hx). exists (VStr (xenc x)). split; [reflexivity|]. exists x, (xenc x). auto.
    - destruct W as [B W]. destruct S as [-> | (v' & -> & S)].
      + exists VNull. split; [apply vtj_nullvar|]. left. auto.
      + destruct (IHt W _ S) as (j & Hj & Hr). exists j. split; [exact Hj|].
        right. split; [eapply renders_nonnull; eauto|]. exists v'. auto.
    - destruct (IHt W _ S) as (j & Hj & Hr). exists j. split; [exact Hj|].
      cbn [Spec.renders].
      destruct j; try (right; split; [discriminate | exact Hr]).
      left. split; [reflexivity|]. eapply renders_null_zero; eauto.
    - destruct S as (vs & -> & HF). cbn [Spec.lit_of]. rewrite vtj_list_eq.
      assert (E : exists js, mapr (vtj vars) (map (lit_of t) vs) = Ok js /\ Forall2 (renders t) vs js).
      { induction HF as [|x l Hx HF IH]; [exists []; split; [reflexivity | constructor]|].
        destruct (IHt W _ Hx) as (j & Hj & Hr). destruct IH as (js & Hjs & HR).
        exists (j :: js). cbn [map mapr]. rewrite Hj, Hjs. split; [reflexivity | constructor; assumption]. }
      destruct E as (js & Hjs & HR). rewrite Hjs. exists (VArr js). split; [reflexivity|].
      exists vs, js. auto.
    - destruct S as (vs & -> & HF). destruct W as [Hnd W]. rewrite lit_struct_eq, vtj_obj_eq.
      assert (E : forall seen, (forall n, In n (map fst fs) -> ~ In n seen) ->
                    exists o, vtj_fields vars (lit_fields fs vs) seen = Ok o /\ frel fs vs o).
      { clear - H W HF Hnd. revert W Hnd vs HF.
        induction H as [|[n t'] r Hh Ht IH]; intros W Hnd vs HF seen Hs.
        - destruct vs; [|contradiction]. exists []. split; [reflexivity | constructor].
        - destruct vs as [|[n' v'] vs']; [contradiction|].
          destruct HF as (-> & Sv & HF). destruct W as [Wt Wr]. cbn [snd] in Hh.
          cbn [map fst] in Hnd. inversion Hnd as [|? ? Hn' Hr']; subst.
          destruct (Hh Wt _ Sv) as (j & Hj & Hr).
          destruct (IH Wr Hr' vs' HF (n' :: seen)) as (o & Ho & HFo).
          { intros m Hm [E | Hin]; [subst; contradiction|]. apply (Hs m); [right; exact Hm | exact Hin]. }
          exists ((n', j) :: o). cbn [lit_fields vtj_fields].
          rewrite mem_str_false by (apply Hs; left; reflexivity).
          rewrite Hj, Ho. split; [reflexivity | constructor; assumption]. }
      destruct (E [] (fun _ _ F => F)) as (o & Ho & HFo). rewrite Ho.
      exists (VObj o). split; [reflexivity|]. apply frel_renders; assumption.
  Qed.

  Theorem literal_roundtrip :
    forall t v, wf_ty t -> sendable t v ->
      exists j, vtj vars (lit_of t v) = Ok j /\ parse t j = Ok v.
  Proof.
    intros t v W S. destruct (lit_renders t W v S) as (j & Hj & Hr).
    exists j. split; [exact Hj | apply renders_parse; exact Hr].
  Qed.
End Literal.

(** * Two-phase machine: no resolver call unless every argument list of the request parsed *)
Section Machine.
  Variable b64 : string -> option (list Z).
  Variable tdec : string -> option tval.
  Variable xdec : string -> option string.

  Notation prepare := (prepare b64 tdec xdec).
  Notation step := (step b64 tdec xdec).
  Notation run := (run b64 tdec xdec).

  (** Invariant of every reachable state. *)
  Definition inv (rq : request) (st : mstate) : Prop :=
    match st with
    | MInit => True
    | MFailed e => prepare rq = Err e
    | MRunning args calls =>
        prepare rq = Ok args /\ forall i a, In (i, a) calls -> nth_error args i = Some a
    end.

  Lemma step_inv rq st l st' : inv rq st -> step rq st l = Some st' -> inv rq st'.
  Proof.
    destruct st as [|e|args calls]; destruct l as [|i]; simpl; try discriminate.
    - intros _. destruct (prepare rq) as [args|e] eqn:E; intros H; inversion H; subst; simpl; auto.
      split; auto. intros i a [].
    - intros [Hp Hc]. destruct (nth_error args i) as [a|] eqn:E; [|discriminate].
      intros H; inversion H; subst; simpl. split; auto.
      intros j b Hin. apply in_app_or in Hin as [Hin|[Heq|[]]]; auto.
      inversion Heq; subst; auto.
  Qed.

  Lemma run_inv rq ls : forall st st', inv rq st -> run rq st ls = Some st' -> inv rq st'.
  Proof.
    induction ls as [|l ls IH]; simpl; intros st st' Hi Hr.
    - inversion Hr; subst; auto.
    - destruct (step rq st l) as [st1|] eqn:E; [|discriminate].
      eapply IH; [eapply step_inv; eauto | eauto].
  Qed.

  Lemma no_resolver_before_args rq ls st :
    run rq MInit ls = Some st ->
    (forall e, prepare rq = Err e -> calls_of st = []) /\
    (forall i a, In (i, a) (calls_of st) ->
       exists args, prepare rq = Ok args /\ nth_error args i = Some a).
  Proof.
    intros Hr. pose proof (run_inv rq ls MInit st I Hr) as Hi.
    destruct st as [|e|args calls]; simpl in *.
    - split; [auto | intros ? ? []].
    - split; [auto | intros ? ? []].
    - destruct Hi as [Hp Hc]. split.
      + intros e He. rewrite Hp in He. discriminate.
      + intros i a Hin. exists args. auto.
  Qed.
End Machine.
