(** C18 - literal and variable transport agree on every input, well formed or not: replacing any
    sub-literal that converts by a variable bound to its JSON leaves valueToJson's result unchanged
    (so whatever the argument parser then does - accept, truncate, reject - it does for both). *)
From Coq Require Import List ZArith String Ascii Bool.
From Thunder Require Import Lib.Json Args.Model Args.Spec Args.Proofs.
Import ListNotations.
Open Scope string_scope.

Section LitInd.
  Variable P : lit -> Prop.
  Hypothesis Hint : forall z, P (LInt z).
  Hypothesis Hfloat : forall m e, P (LFloat m e).
  Hypothesis Hstr : forall s, P (LStr s).
  Hypothesis Hbool : forall b, P (LBool b).
  Hypothesis Henum : forall s, P (LEnum s).
  Hypothesis Hvar : forall x, P (LVar x).
  Hypothesis Hlist : forall l, Forall P l -> P (LList l).
  Hypothesis Hobj : forall l, Forall (fun nv => P (snd nv)) l -> P (LObj l).

  Fixpoint lit_ind' (l : lit) : P l :=
    match l with
    | LInt z => Hint z
    | LFloat m e => Hfloat m e
    | LStr s => Hstr s
    | LBool b => Hbool b
    | LEnum s => Henum s
    | LVar x => Hvar x
    | LList ls => Hlist ls ((fix go (ls : list lit) : Forall P ls :=
                               match ls with
                               | [] => Forall_nil _
                               | a :: r => Forall_cons _ (lit_ind' a) (go r)
                               end) ls)
    | LObj fs => Hobj fs ((fix go (fs : list (string * lit)) : Forall (fun nv => P (snd nv)) fs :=
                             match fs with
                             | [] => Forall_nil _
                             | nv :: r => Forall_cons _ (lit_ind' (snd nv)) (go r)
                             end) fs)
    end.
End LitInd.

(** [lsub vars l l']: [l'] is [l] with some sub-literals replaced by variables whose binding in [vars]
    is the JSON the sub-literal converts to. *)
Fixpoint lsub (vars : list (string * jv)) (l l' : lit) {struct l} : Prop :=
  l' = l \/
  (exists x j, l' = LVar x /\ vtj vars l = Ok j /\ lookup x vars = Some j) \/
  match l, l' with
  | LList ls, LList ls' =>
      (fix go (ls ls' : list lit) : Prop :=
         match ls, ls' with
         | [], [] => True
         | a :: r, a' :: r' => lsub vars a a' /\ go r r'
         | _, _ => False
         end) ls ls'
  | LObj fs, LObj fs' =>
      (fix go (fs fs' : list (string * lit)) : Prop :=
         match fs, fs' with
         | [], [] => True
         | (n, a) :: r, (n', a') :: r' => n = n' /\ lsub vars a a' /\ go r r'
         | _, _ => False
         end) fs fs'
  | _, _ => False
  end.

Theorem lsub_vtj vars : forall l l', lsub vars l l' -> vtj vars l' = vtj vars l.
Proof.
  induction l using lit_ind'; intros l' HS; cbn [lsub] in HS;
    (destruct HS as [-> | [(y & jy & -> & Hj & Hx) | HS]];
     [reflexivity | cbn [vtj] in *; rewrite Hx; symmetry; exact Hj |]); try contradiction.
  - destruct l' as [| | | | | |ls'|]; try contradiction.
    rewrite !vtj_list_eq.
    assert (E : mapr (vtj vars) ls' = mapr (vtj vars) l).
    { revert ls' HS. induction H as [|a r Ha Hr IH]; intros ls' HS.
      - destruct ls'; [reflexivity | contradiction].
      - destruct ls' as [|a' r']; [contradiction|]. destruct HS as [Hs1 Hs2].
        cbn [mapr]. rewrite (Ha _ Hs1), (IH _ Hs2). reflexivity. }
    rewrite E. reflexivity.
  - destruct l' as [| | | | | | |fs']; try contradiction.
    rewrite !vtj_obj_eq.
    assert (E : forall seen, vtj_fields vars fs' seen = vtj_fields vars l seen).
    { revert fs' HS. induction H as [|[n a] r Ha Hr IH]; intros fs' HS seen.
      - destruct fs'; [reflexivity | contradiction].
      - destruct fs' as [|[n' a'] r']; [contradiction|]. destruct HS as (-> & Hs1 & Hs2).
        cbn [vtj_fields]. cbn [snd] in Ha. rewrite (Ha _ Hs1), (IH _ Hs2). reflexivity. }
    rewrite E. reflexivity.
Qed.

(** Consequence for a whole request: same argument names, sub-literals replaced by bound variables. *)
Theorem transport_equivalence b64 tdec xdec t defs vars vars' args args' :
  apply_defaults defs vars vars = Ok vars' ->
  lsub vars' (LObj args) (LObj args') ->
  run_args b64 tdec xdec t defs vars args' = run_args b64 tdec xdec t defs vars args.
Proof.
  intros HA HS. unfold run_args, args_to_json. rewrite HA. rewrite (lsub_vtj vars' _ _ HS). reflexivity.
Qed.
