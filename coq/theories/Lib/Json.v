(** JSON values as thunder's diff/merge, executor output and federation see them.
    Numbers are integers (Z); objects are association lists (Go maps are unordered:
    results are compared through [norm], which sorts keys, or through [jeq]). *)
From Coq Require Import List ZArith String Ascii Bool Lia.
Import ListNotations.
Open Scope string_scope.

Inductive json : Type :=
| JNull
| JBool (b : bool)
| JNum (z : Z)
| JStr (s : string)
| JArr (l : list json)
| JObj (l : list (string * json)).

(** Nested induction principle. *)
Section JsonInd.
  Variable P : json -> Prop.
  Hypothesis Hnull : P JNull.
  Hypothesis Hbool : forall b, P (JBool b).
  Hypothesis Hnum : forall z, P (JNum z).
  Hypothesis Hstr : forall s, P (JStr s).
  Hypothesis Harr : forall l, Forall P l -> P (JArr l).
  Hypothesis Hobj : forall l, Forall (fun kv => P (snd kv)) l -> P (JObj l).

  Fixpoint json_ind' (j : json) : P j :=
    match j with
    | JNull => Hnull
    | JBool b => Hbool b
    | JNum z => Hnum z
    | JStr s => Hstr s
    | JArr l =>
        Harr l ((fix go (l : list json) : Forall P l :=
                   match l with
                   | [] => Forall_nil _
                   | x :: t => Forall_cons _ (json_ind' x) (go t)
                   end) l)
    | JObj l =>
        Hobj l ((fix go (l : list (string * json)) : Forall (fun kv => P (snd kv)) l :=
                   match l with
                   | [] => Forall_nil _
                   | kv :: t => Forall_cons _ (json_ind' (snd kv)) (go t)
                   end) l)
    end.
End JsonInd.

(** Boolean (syntactic) equality. *)
Fixpoint json_eqb (a b : json) {struct a} : bool :=
  match a, b with
  | JNull, JNull => true
  | JBool x, JBool y => Bool.eqb x y
  | JNum x, JNum y => Z.eqb x y
  | JStr x, JStr y => String.eqb x y
  | JArr x, JArr y =>
      (fix go (x y : list json) {struct x} : bool :=
         match x, y with
         | [], [] => true
         | a :: x', b :: y' => json_eqb a b && go x' y'
         | _, _ => false
         end) x y
  | JObj x, JObj y =>
      (fix go (x y : list (string * json)) {struct x} : bool :=
         match x, y with
         | [], [] => true
         | (k, a) :: x', (k', b) :: y' => String.eqb k k' && json_eqb a b && go x' y'
         | _, _ => false
         end) x y
  | _, _ => false
  end.

Lemma json_eqb_refl : forall a, json_eqb a a = true.
Proof.
  induction a using json_ind'; simpl; auto using Bool.eqb_reflx, Z.eqb_refl, String.eqb_refl.
  - induction H; simpl; auto. rewrite H, IHForall; auto.
  - induction H; simpl; auto. destruct x as [k v]; simpl in *.
    rewrite String.eqb_refl, H, IHForall; auto.
Qed.

Lemma json_eqb_eq : forall a b, json_eqb a b = true -> a = b.
Proof.
  induction a using json_ind'; intros b'; destruct b'; simpl; try discriminate; intros He; auto.
  - apply Bool.eqb_prop in He; congruence.
  - apply Z.eqb_eq in He; congruence.
  - apply String.eqb_eq in He; congruence.
  - f_equal. revert l0 He. induction H; destruct l0; try discriminate; auto.
    intros He. apply andb_prop in He as [H1 H2]. f_equal; auto.
  - f_equal. revert l0 He. induction H; destruct l0; try discriminate; auto.
    + destruct x; discriminate.
    + destruct x as [k v], p as [k' v']. intros He.
      apply andb_prop in He as [Hkv Hrest]. apply andb_prop in Hkv as [Hk Hv].
      apply String.eqb_eq in Hk. simpl in H. f_equal; auto. f_equal; auto.
Qed.

Lemma json_eqb_spec a b : json_eqb a b = true <-> a = b.
Proof. split; [apply json_eqb_eq | intros ->; apply json_eqb_refl]. Qed.

Definition json_eq_dec (a b : json) : {a = b} + {a <> b}.
Proof.
  destruct (json_eqb a b) eqn:E.
  - left; apply json_eqb_eq; exact E.
  - right; intros ->. rewrite json_eqb_refl in E; discriminate.
Defined.

(** Association-list helpers (first binding wins, like a well-formed map). *)
Fixpoint lookup {A} (k : string) (l : list (string * A)) : option A :=
  match l with
  | [] => None
  | (k', v) :: t => if String.eqb k k' then Some v else lookup k t
  end.

Definition has_key {A} (k : string) (l : list (string * A)) : bool :=
  match lookup k l with Some _ => true | None => false end.

Fixpoint remove_key {A} (k : string) (l : list (string * A)) : list (string * A) :=
  match l with
  | [] => []
  | (k', v) :: t => if String.eqb k k' then remove_key k t else (k', v) :: remove_key k t
  end.

Definition keys {A} (l : list (string * A)) : list string := map fst l.

(** String order (for canonical forms only). *)
Fixpoint str_ltb (a b : string) : bool :=
  match a, b with
  | EmptyString, EmptyString => false
  | EmptyString, _ => true
  | _, EmptyString => false
  | String c a', String d b' =>
      let x := nat_of_ascii c in let y := nat_of_ascii d in
      if Nat.ltb x y then true else if Nat.ltb y x then false else str_ltb a' b'
  end.

Fixpoint insert_kv {A} (kv : string * A) (l : list (string * A)) : list (string * A) :=
  match l with
  | [] => [kv]
  | kv' :: t => if str_ltb (fst kv') (fst kv) then kv' :: insert_kv kv t else kv :: l
  end.

Definition sort_kv {A} (l : list (string * A)) : list (string * A) :=
  fold_right insert_kv [] l.

(** Canonical form: object keys sorted (stable for equal keys). *)
Fixpoint norm (j : json) : json :=
  match j with
  | JArr l => JArr (map norm l)
  | JObj l => JObj (sort_kv ((fix go (l : list (string * json)) :=
                               match l with
                               | [] => []
                               | (k, v) :: t => (k, norm v) :: go t
                               end) l))
  | _ => j
  end.

(** Semantic equality: objects are finite maps. *)
Inductive orel {A} (R : A -> A -> Prop) : option A -> option A -> Prop :=
| orel_none : orel R None None
| orel_some : forall a b, R a b -> orel R (Some a) (Some b).

Inductive jeq : json -> json -> Prop :=
| jeq_null : jeq JNull JNull
| jeq_bool : forall b, jeq (JBool b) (JBool b)
| jeq_num : forall z, jeq (JNum z) (JNum z)
| jeq_str : forall s, jeq (JStr s) (JStr s)
| jeq_arr : forall l1 l2, Forall2 jeq l1 l2 -> jeq (JArr l1) (JArr l2)
| jeq_obj : forall l1 l2, (forall k, orel jeq (lookup k l1) (lookup k l2)) -> jeq (JObj l1) (JObj l2).

Fixpoint nodup_keys (l : list string) : bool :=
  match l with
  | [] => true
  | k :: t => negb (existsb (String.eqb k) t) && nodup_keys t
  end.

Definition is_scalar (j : json) : bool :=
  match j with JBool _ | JNum _ | JStr _ => true | _ => false end.

Fixpoint jsize (j : json) : nat :=
  match j with
  | JArr l => S (fold_right (fun x n => jsize x + n) 0 l)
  | JObj l => S ((fix go (l : list (string * json)) := match l with [] => 0 | (_, v) :: t => jsize v + go t end) l)
  | _ => 1
  end.
