(** [jeq] (objects as finite maps) implies equal canonical forms [norm], for values whose objects have
    unique keys.  This ties the semantic equality used in the theorems to the canonical comparison used by
    the correspondence checks. *)
From Coq Require Import List ZArith String Ascii Bool Arith Lia.
From Thunder Require Import Lib.Json.
Import ListNotations.
Open Scope string_scope.
Open Scope list_scope.

(** * str_ltb is a strict total order *)
Lemma str_ltb_irrefl a : str_ltb a a = false.
Proof. induction a as [|c a IH]; cbn [str_ltb]; [reflexivity|]. rewrite Nat.ltb_irrefl. exact IH. Qed.

Lemma nat_of_ascii_inj c d : nat_of_ascii c = nat_of_ascii d -> c = d.
Proof. intros H. rewrite <- (ascii_nat_embedding c), <- (ascii_nat_embedding d), H. reflexivity. Qed.

Lemma str_ltb_trans a : forall b c, str_ltb a b = true -> str_ltb b c = true -> str_ltb a c = true.
Proof.
  induction a as [|x a IH]; intros b c Hab Hbc.
  - destruct b; [discriminate|]. destruct c; [discriminate | reflexivity].
  - destruct b as [|y b]; [discriminate|]. destruct c as [|z c]; [discriminate|].
    cbn [str_ltb] in *.
    destruct (Nat.ltb_spec (nat_of_ascii x) (nat_of_ascii y)), (Nat.ltb_spec (nat_of_ascii y) (nat_of_ascii x)),
      (Nat.ltb_spec (nat_of_ascii y) (nat_of_ascii z)), (Nat.ltb_spec (nat_of_ascii z) (nat_of_ascii y)),
      (Nat.ltb_spec (nat_of_ascii x) (nat_of_ascii z)), (Nat.ltb_spec (nat_of_ascii z) (nat_of_ascii x));
      try reflexivity; try discriminate; try lia.
    eapply IH; eassumption.
Qed.

Lemma str_ltb_total a : forall b, str_ltb a b = true \/ a = b \/ str_ltb b a = true.
Proof.
  induction a as [|x a IH]; intros b.
  - destruct b; [right; left; reflexivity | left; reflexivity].
  - destruct b as [|y b]; [right; right; reflexivity|]. cbn [str_ltb].
    destruct (Nat.ltb_spec (nat_of_ascii x) (nat_of_ascii y)) as [H1|H1]; [left; reflexivity|].
    destruct (Nat.ltb_spec (nat_of_ascii y) (nat_of_ascii x)) as [H2|H2]; [right; right; reflexivity|].
    assert (x = y) by (apply nat_of_ascii_inj; lia). subst y.
    destruct (IH b) as [H|[H|H]]; [left; exact H | right; left; f_equal; exact H | right; right; exact H].
Qed.

(** * sorted association lists *)
Inductive ksorted {A} : list (string * A) -> Prop :=
| ks_nil : ksorted []
| ks_cons : forall kv t, ksorted t -> (forall kv', In kv' t -> str_ltb (fst kv) (fst kv') = true) -> ksorted (kv :: t).

Lemma insert_kv_in {A} (kv x : string * A) l : In x (insert_kv kv l) <-> x = kv \/ In x l.
Proof.
  induction l as [|kv' t IH]; cbn [insert_kv].
  - cbn [In]. intuition congruence.
  - destruct (str_ltb (fst kv') (fst kv)); cbn [In]; [rewrite IH|]; intuition congruence.
Qed.

Lemma insert_kv_sorted {A} (kv : string * A) l :
  ksorted l -> ~ In (fst kv) (map fst l) -> ksorted (insert_kv kv l).
Proof.
  induction l as [|kv' t IH]; intros Hs Hn; cbn [insert_kv].
  - constructor; [constructor | intros ? []].
  - inversion Hs as [|? ? Hst Hlt]; subst.
    destruct (str_ltb (fst kv') (fst kv)) eqn:E.
    + constructor.
      * apply IH; [exact Hst | intros Hc; apply Hn; right; exact Hc].
      * intros x Hx. apply insert_kv_in in Hx as [->|Hx]; [exact E | apply Hlt; exact Hx].
    + assert (Hlt' : str_ltb (fst kv) (fst kv') = true).
      { destruct (str_ltb_total (fst kv) (fst kv')) as [H|[H|H]]; [exact H | | congruence].
        exfalso. apply Hn. left. symmetry. exact H. }
      constructor; [exact Hs|]. intros x [<-|Hx]; [exact Hlt'|].
      eapply str_ltb_trans; [exact Hlt' | apply Hlt; exact Hx].
Qed.

Lemma sort_kv_in {A} (x : string * A) l : In x (sort_kv l) <-> In x l.
Proof.
  unfold sort_kv. induction l as [|kv t IH]; cbn [fold_right]; [tauto|].
  rewrite insert_kv_in, IH. cbn [In]. intuition congruence.
Qed.

Lemma sort_kv_keys {A} k (l : list (string * A)) : In k (map fst (sort_kv l)) <-> In k (map fst l).
Proof.
  split; intros H; apply in_map_iff in H as [x [E Hx]]; apply in_map_iff; exists x; split; auto; apply sort_kv_in; exact Hx.
Qed.

Lemma sort_kv_sorted {A} (l : list (string * A)) : NoDup (map fst l) -> ksorted (sort_kv l).
Proof.
  unfold sort_kv. induction l as [|kv t IH]; intros Hnd; cbn [fold_right]; [constructor|].
  inversion Hnd; subst. apply insert_kv_sorted; [apply IH; assumption|].
  intros Hc. apply (sort_kv_keys (fst kv) t) in Hc. contradiction.
Qed.

Lemma ksorted_nodup {A} (l : list (string * A)) : ksorted l -> NoDup (map fst l).
Proof.
  induction 1 as [|kv t Hs IH Hlt]; cbn [map]; constructor; [|exact IH].
  intros Hc. apply in_map_iff in Hc as [x [E Hx]]. specialize (Hlt x Hx). rewrite E, str_ltb_irrefl in Hlt. discriminate.
Qed.

Lemma lookup_in' {A} k (l : list (string * A)) v : lookup k l = Some v -> In (k, v) l.
Proof.
  induction l as [|[k' v'] t IH]; cbn [lookup]; [discriminate|].
  destruct (String.eqb k k') eqn:E; [intros [= ->]; apply String.eqb_eq in E; subst; left; reflexivity | right; auto].
Qed.

Lemma in_lookup' {A} k v (l : list (string * A)) : NoDup (map fst l) -> In (k, v) l -> lookup k l = Some v.
Proof.
  induction l as [|[k' v'] t IH]; cbn [map lookup]; intros Hnd Hin; [contradiction|].
  inversion Hnd; subst. destruct Hin as [E|Hin].
  - inversion E; subst. rewrite String.eqb_refl. reflexivity.
  - destruct (String.eqb k k') eqn:E; [|auto]. apply String.eqb_eq in E. subst.
    exfalso. match goal with H : ~ In _ _ |- _ => apply H end. apply in_map_iff. exists (k', v). auto.
Qed.

Lemma lookup_none_iff {A} k (l : list (string * A)) : lookup k l = None <-> ~ In k (map fst l).
Proof.
  induction l as [|[k' v'] t IH]; cbn [lookup map fst In]; [tauto|].
  destruct (String.eqb k k') eqn:E.
  - apply String.eqb_eq in E. subst. split; [discriminate | intros H; exfalso; apply H; left; reflexivity].
  - rewrite IH. apply String.eqb_neq in E. split; [intros H [Hc|Hc]; [congruence | contradiction] | tauto].
Qed.

Lemma sort_kv_lookup {A} k (l : list (string * A)) : NoDup (map fst l) -> lookup k (sort_kv l) = lookup k l.
Proof.
  intros Hnd. pose proof (ksorted_nodup _ (sort_kv_sorted l Hnd)) as Hnd'.
  destruct (lookup k l) as [v|] eqn:E.
  - apply in_lookup'; [exact Hnd'|]. apply sort_kv_in. apply lookup_in'. exact E.
  - destruct (lookup k (sort_kv l)) as [v|] eqn:E'; [|reflexivity].
    apply lookup_in' in E'. apply (proj1 (sort_kv_in _ _)) in E'. apply (in_lookup' k v l Hnd) in E'. congruence.
Qed.

Lemma ksorted_ext {A} (l1 : list (string * A)) : forall l2,
  ksorted l1 -> ksorted l2 -> (forall k, lookup k l1 = lookup k l2) -> l1 = l2.
Proof.
  induction l1 as [|[k1 v1] t1 IH]; intros l2 H1 H2 Hl.
  - destruct l2 as [|[k2 v2] t2]; [reflexivity|]. specialize (Hl k2). cbn [lookup] in Hl. rewrite String.eqb_refl in Hl. discriminate.
  - destruct l2 as [|[k2 v2] t2].
    { specialize (Hl k1). cbn [lookup] in Hl. rewrite String.eqb_refl in Hl. discriminate. }
    inversion H1 as [|? ? Hs1 Hlt1]; inversion H2 as [|? ? Hs2 Hlt2]; subst. cbn [fst] in *.
    assert (Hk : k1 = k2).
    { destruct (str_ltb_total k1 k2) as [H|[H|H]]; [|exact H|]; exfalso.
      - (* k1 < k2: k1 is not in l2 *)
        pose proof (Hl k1) as E. cbn [lookup] in E. rewrite String.eqb_refl in E.
        destruct (String.eqb k1 k2) eqn:Ek; [apply String.eqb_eq in Ek; subst; rewrite str_ltb_irrefl in H; discriminate|].
        symmetry in E. apply lookup_in' in E. specialize (Hlt2 _ E). cbn [fst] in Hlt2.
        pose proof (str_ltb_trans _ _ _ H Hlt2) as Hc. rewrite str_ltb_irrefl in Hc. discriminate.
      - pose proof (Hl k2) as E. cbn [lookup] in E. rewrite String.eqb_refl in E.
        destruct (String.eqb k2 k1) eqn:Ek; [apply String.eqb_eq in Ek; subst; rewrite str_ltb_irrefl in H; discriminate|].
        apply lookup_in' in E. specialize (Hlt1 _ E). cbn [fst] in Hlt1.
        pose proof (str_ltb_trans _ _ _ H Hlt1) as Hc. rewrite str_ltb_irrefl in Hc. discriminate. }
    subst k2. pose proof (Hl k1) as E. cbn [lookup] in E. rewrite String.eqb_refl in E. inversion E; subst v2.
    f_equal. apply IH; auto. intros k. specialize (Hl k). cbn [lookup] in Hl.
    destruct (String.eqb k k1) eqn:Ek; [|exact Hl]. apply String.eqb_eq in Ek. subst k.
    pose proof (ksorted_nodup _ H1) as N1. pose proof (ksorted_nodup _ H2) as N2. cbn [map fst] in N1, N2.
    inversion N1; inversion N2; subst.
    rewrite (proj2 (lookup_none_iff k1 t1)), (proj2 (lookup_none_iff k1 t2)); auto.
Qed.

(** * unique keys everywhere *)
Fixpoint keys_ok (j : json) : bool :=
  match j with
  | JArr l => forallb keys_ok l
  | JObj l => nodup_keys (map fst l)
              && (fix go (l : list (string * json)) := match l with [] => true | (_, v) :: t => keys_ok v && go t end) l
  | _ => true
  end.

Definition norm_fields (l : list (string * json)) : list (string * json) :=
  map (fun kv => (fst kv, norm (snd kv))) l.

Lemma norm_obj l : norm (JObj l) = JObj (sort_kv (norm_fields l)).
Proof.
  cbn [norm]. f_equal. f_equal. unfold norm_fields.
  induction l as [|[k v] t IH]; [reflexivity|]. cbn [map fst snd]. rewrite <- IH. reflexivity.
Qed.

Lemma lookup_norm_fields k l : lookup k (norm_fields l) = option_map norm (lookup k l).
Proof.
  unfold norm_fields. induction l as [|[k' v] t IH]; [reflexivity|]. cbn [map fst snd lookup].
  destruct (String.eqb k k'); [reflexivity | exact IH].
Qed.

Lemma nodup_keys_NoDup l : nodup_keys l = true -> NoDup l.
Proof.
  induction l as [|k t IH]; cbn [nodup_keys]; intros H; [constructor|].
  apply andb_prop in H as [H1 H2]. constructor; [|auto].
  intros Hin. apply negb_true_iff in H1.
  assert (existsb (String.eqb k) t = true) by (apply existsb_exists; exists k; split; [exact Hin | apply String.eqb_refl]).
  congruence.
Qed.

Lemma keys_ok_obj l :
  keys_ok (JObj l) = true -> NoDup (map fst l) /\ (forall k v, In (k, v) l -> keys_ok v = true).
Proof.
  cbn [keys_ok]. intros H. apply andb_prop in H as [H1 H2]. split; [apply nodup_keys_NoDup; exact H1|].
  induction l as [|[k' v'] t IH]; intros k v Hin; [contradiction|].
  apply andb_prop in H2 as [Hv Ht]. destruct Hin as [E|Hin]; [inversion E; subst; exact Hv|].
  apply (IH (proj2 (andb_prop _ _ (eq_trans (eq_sym eq_refl) H1))) Ht k v Hin) || (cbn [map nodup_keys] in H1; apply andb_prop in H1 as [_ H1]; exact (IH H1 Ht k v Hin)).
Qed.

Lemma map_norm_forall2 l : forall l2,
  Forall (fun a => forall b, jeq a b -> keys_ok a = true -> keys_ok b = true -> norm a = norm b) l ->
  Forall2 jeq l l2 ->
  (forall x, In x l -> keys_ok x = true) -> (forall x, In x l2 -> keys_ok x = true) ->
  map norm l = map norm l2.
Proof.
  induction l as [|x t IHt]; intros l2 IH HF Ha Hb; inversion HF; subst; [reflexivity|].
  inversion IH as [|? ? Hx Ht]; subst. cbn [map]. f_equal.
  - apply Hx; [assumption | apply Ha; left; reflexivity | apply Hb; left; reflexivity].
  - apply IHt; auto; intros z Hz; [apply Ha | apply Hb]; right; exact Hz.
Qed.

Theorem jeq_norm : forall a b, jeq a b -> keys_ok a = true -> keys_ok b = true -> norm a = norm b.
Proof.
  induction a as [| x | x | x | l IH | l IH] using json_ind'; intros b Hj Ha Hb; inversion Hj; subst; try reflexivity.
  - (* arrays *)
    cbn [norm]. f_equal.
    cbn [keys_ok] in Ha, Hb. rewrite forallb_forall in Ha, Hb.
    eapply map_norm_forall2; eassumption.
  - (* objects *)
    rewrite !norm_obj. f_equal.
    destruct (keys_ok_obj l Ha) as [N1 K1].
    match goal with H : keys_ok (JObj ?l2) = true |- _ => destruct (keys_ok_obj l2 H) as [N2 K2]; rename l2 into m end.
    assert (NN1 : NoDup (map fst (norm_fields l))) by (unfold norm_fields; rewrite map_map; exact N1).
    assert (NN2 : NoDup (map fst (norm_fields m))) by (unfold norm_fields; rewrite map_map; exact N2).
    apply ksorted_ext; [apply sort_kv_sorted; exact NN1 | apply sort_kv_sorted; exact NN2 |].
    intros k. rewrite !sort_kv_lookup by assumption. rewrite !lookup_norm_fields.
    match goal with H : forall k, orel jeq (lookup k l) (lookup k m) |- _ => specialize (H k); inversion H as [|x y Hxy Ex Ey] end; [reflexivity|].
    cbn [option_map]. f_equal. symmetry in Ex, Ey.
    apply lookup_in' in Ex. apply lookup_in' in Ey.
    rewrite Forall_forall in IH. apply (IH (k, x) Ex); [exact Hxy | apply (K1 k x Ex) | apply (K2 k y Ey)].
Qed.
