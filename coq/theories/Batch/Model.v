(* C05 - batching: labelled transition system of /repo/batch/batch.go, Func.Invoke
   (DESIGN.md Appendix A.2).  Executable definitions only.

   One batchContext, any number of Funcs (a Func is identified by a number; its MaxSize is the entry of
   [maxsizes] at that number, 0 = no limit); pendingBatchGroups is keyed by funcShard = (Func, shard).
   Labels are the atomic sections of Invoke: the first bctx.mu section (LJoin), the creator's
   select (LWake), the second bctx.mu section (LUnpublish), the ctx.Err() test followed by safeInvoke
   (LRun, with what Many did) or by bg.err = ctx.Err() (LCancel), close(doneCh) (LDone), the final read
   of bg.err / bg.result[index] (LReturn); LCtxCancel is the cancellation of the creator's context.
   Timers are not modelled: a wake-up by the interval or max-duration timer is possible at any time.
   A caller is identified by the position of its Join in the schedule; a group's args are caller ids,
   the values handed to Many are the callers' argument values. *)
From Coq Require Import List Arith Bool.
From Thunder Require Import Limiter.Model.   (* upd, count *)
Import ListNotations.

Inductive cause := CInterval | CMaxDur | CCtxDone | CMaxSize.
Inductive berr := EUser | EPanic | EWrongLen | ECtx.
(* what Many panicked with: a string, an error value, a runtime.Error (nil-map write, index out of range, nil
   dereference, failed type assertion), a value of any other type.  safeInvoke recovers every one of them alike. *)
Inductive pkind := PString | PError | PRuntime | PCustom.
Inductive outcome := ORes (rs : list nat) | OErr | OPanic (k : pkind).
Inductive ret := RVal (v : nat) | RErr (e : berr) | RIndexPanic.
Inductive phase := Open | Woken | Unpub | Ran | Cancelled.

Record group := mkGroup {
  g_fid : nat;                 (* the Func the group belongs to *)
  g_shard : nat;
  g_args : list nat;           (* caller ids, in append order: bg.args *)
  g_closed : bool;             (* maxSizeCh closed *)
  g_phase : phase;             (* where the creator is *)
  g_ctxc : bool;               (* the creator's context is cancelled *)
  g_many : option (list nat);  (* callers whose arguments Many was called with *)
  g_res : option (list nat);   (* bg.result *)
  g_err : option berr;         (* bg.err *)
  g_done : bool                (* doneCh closed *)
}.

Record caller := mkCaller {
  c_fid : nat; c_arg : nat; c_shard : nat; c_gid : nat; c_index : nat; c_creator : bool; c_ret : option ret
}.

Record state := mkState {
  maxsizes : list nat;               (* Func.MaxSize by Func, 0 = no limit *)
  pending : list (nat * nat * nat);  (* bctx.pendingBatchGroups: (Func, shard) -> group *)
  groups : list group;
  callers : list caller
}.

Inductive label :=
| LJoin (fid argv shard : nat) (cancelled : bool)
    (* cancelled: state of the caller's own context; it only matters when the caller creates the group *)
| LCtxCancel (g : nat)
| LWake (g : nat) (c : cause)
| LUnpublish (g : nat)
| LRun (g : nat) (o : outcome)
| LCancel (g : nat)
| LDone (g : nat)
| LReturn (c : nat).

Definition key_eqb (f sh f' sh' : nat) : bool := Nat.eqb f f' && Nat.eqb sh sh'.

Fixpoint lookup (f sh : nat) (l : list (nat * nat * nat)) : option nat :=
  match l with
  | [] => None
  | (f', sh', v) :: t => if key_eqb f sh f' sh' then Some v else lookup f sh t
  end.

Fixpoint remove_key (f sh : nat) (l : list (nat * nat * nat)) : list (nat * nat * nat) :=
  match l with
  | [] => []
  | (f', sh', v) :: t => if key_eqb f sh f' sh' then remove_key f sh t else (f', sh', v) :: remove_key f sh t
  end.

Definition init (mss : list nat) : state := mkState mss [] [] [].

Definition msz (s : state) (f : nat) : nat := nth f (maxsizes s) 0.

Definition set_group (s : state) (gi : nat) (g : group) : state :=
  mkState (maxsizes s) (pending s) (upd (groups s) gi g) (callers s).

Definition with_phase (g : group) (p : phase) : group :=
  mkGroup (g_fid g) (g_shard g) (g_args g) (g_closed g) p (g_ctxc g) (g_many g) (g_res g) (g_err g) (g_done g).

(* bctx.mu section 1 hits MaxSize: close(maxSizeCh); delete(pending, fs) *)
Definition full (ms n : nat) : bool := (0 <? ms) && (n =? ms).

Definition ret_of (g : group) (i : nat) : ret :=
  match g_err g with
  | Some e => RErr e
  | None => match g_res g with
            | Some rs => match nth_error rs i with Some v => RVal v | None => RIndexPanic end
            | None => RIndexPanic
            end
  end.

Definition step (s : state) (l : label) : option state :=
  match l with
  | LJoin fid argv sh cancelled =>
      let cid := length (callers s) in
      match lookup fid sh (pending s) with
      | Some gi =>
          match nth_error (groups s) gi with
          | Some g =>
              let index := length (g_args g) in
              let f := full (msz s fid) (S index) in
              let g' := mkGroup (g_fid g) (g_shard g) (g_args g ++ [cid]) (g_closed g || f) (g_phase g) (g_ctxc g)
                                (g_many g) (g_res g) (g_err g) (g_done g) in
              Some (mkState (maxsizes s)
                            (if f then remove_key fid sh (pending s) else pending s)
                            (upd (groups s) gi g')
                            (callers s ++ [mkCaller fid argv sh gi index false None]))
          | None => None
          end
      | None =>
          let gi := length (groups s) in
          let f := full (msz s fid) 1 in
          Some (mkState (maxsizes s)
                        (if f then pending s else (fid, sh, gi) :: pending s)
                        (groups s ++ [mkGroup fid sh [cid] f Open cancelled None None None false])
                        (callers s ++ [mkCaller fid argv sh gi 0 true None]))
      end
  | LCtxCancel gi =>
      match nth_error (groups s) gi with
      | Some g => Some (set_group s gi (mkGroup (g_fid g) (g_shard g) (g_args g) (g_closed g) (g_phase g) true
                                                (g_many g) (g_res g) (g_err g) (g_done g)))
      | None => None
      end
  | LWake gi c =>
      match nth_error (groups s) gi with
      | Some g =>
          match g_phase g with
          | Open =>
              let ok := match c with
                        | CCtxDone => g_ctxc g
                        | CMaxSize => g_closed g
                        | _ => true
                        end in
              if ok then Some (set_group s gi (with_phase g Woken)) else None
          | _ => None
          end
      | None => None
      end
  | LUnpublish gi =>
      match nth_error (groups s) gi with
      | Some g =>
          match g_phase g with
          | Woken =>
              let p := match lookup (g_fid g) (g_shard g) (pending s) with
                       | Some gj => if Nat.eqb gj gi then remove_key (g_fid g) (g_shard g) (pending s) else pending s
                       | None => pending s
                       end in
              Some (mkState (maxsizes s) p (upd (groups s) gi (with_phase g Unpub)) (callers s))
          | _ => None
          end
      | None => None
      end
  | LRun gi o =>
      match nth_error (groups s) gi with
      | Some g =>
          match g_phase g with
          | Unpub =>
              if g_ctxc g then None else
              let '(res, err) :=
                match o with
                | ORes rs => if Nat.eqb (length rs) (length (g_args g)) then (Some rs, None) else (None, Some EWrongLen)
                | OErr => (None, Some EUser)
                | OPanic _ => (None, Some EPanic)
                end in
              Some (set_group s gi (mkGroup (g_fid g) (g_shard g) (g_args g) (g_closed g) Ran (g_ctxc g)
                                            (Some (g_args g)) res err false))
          | _ => None
          end
      | None => None
      end
  | LCancel gi =>
      match nth_error (groups s) gi with
      | Some g =>
          match g_phase g with
          | Unpub =>
              if g_ctxc g then
                Some (set_group s gi (mkGroup (g_fid g) (g_shard g) (g_args g) (g_closed g) Cancelled (g_ctxc g)
                                              None None (Some ECtx) false))
              else None
          | _ => None
          end
      | None => None
      end
  | LDone gi =>
      match nth_error (groups s) gi with
      | Some g =>
          match g_phase g with
          | Ran | Cancelled =>
              if g_done g then None else
              Some (set_group s gi (mkGroup (g_fid g) (g_shard g) (g_args g) (g_closed g) (g_phase g) (g_ctxc g)
                                            (g_many g) (g_res g) (g_err g) true))
          | _ => None
          end
      | None => None
      end
  | LReturn ci =>
      match nth_error (callers s) ci with
      | Some c =>
          match c_ret c with
          | Some _ => None
          | None =>
              match nth_error (groups s) (c_gid c) with
              | Some g =>
                  if g_done g then
                    Some (mkState (maxsizes s) (pending s) (groups s)
                                  (upd (callers s) ci (mkCaller (c_fid c) (c_arg c) (c_shard c) (c_gid c) (c_index c)
                                                                (c_creator c) (Some (ret_of g (c_index c))))))
                  else None
              | None => None
              end
          end
      | None => None
      end
  end.

Fixpoint run (s : state) (tr : list label) : option state :=
  match tr with
  | [] => Some s
  | l :: t => match step s l with
              | Some s' => run s' t
              | None => None
              end
  end.

(* argument values of a list of caller ids *)
Definition arg_values (s : state) (cs : list nat) : list nat :=
  map (fun c => match nth_error (callers s) c with Some cl => c_arg cl | None => 0 end) cs.

(* ---- trace conformance ---- *)

Definition cause_code (c : cause) : nat :=
  match c with CInterval => 0 | CMaxDur => 1 | CCtxDone => 2 | CMaxSize => 3 end.

Inductive obs :=
| ObJoin (gid index : nat) (existed closed : bool)  (* what the hook inside the mutex saw *)
| ObUnpub (deleted : bool)                          (* the creator found itself still published *)
| ObMany (fid : nat) (args : list nat)              (* the Func whose Many was called, and the argument values *)
| ObRet (r : ret)                                   (* what Invoke returned *)
| ObNone.

Definition event := (label * obs)%type.

Definition ret_eqb (a b : ret) : bool :=
  match a, b with
  | RVal x, RVal y => Nat.eqb x y
  | RErr EUser, RErr EUser | RErr EPanic, RErr EPanic | RErr EWrongLen, RErr EWrongLen | RErr ECtx, RErr ECtx => true
  | RIndexPanic, RIndexPanic => true
  | _, _ => false
  end.

Fixpoint list_eqb (a b : list nat) : bool :=
  match a, b with
  | [], [] => true
  | x :: a', y :: b' => Nat.eqb x y && list_eqb a' b'
  | _, _ => false
  end.

Definition last_caller (s : state) : option caller := nth_error (callers s) (length (callers s) - 1).

Definition obs_ok (s s' : state) (l : label) (o : obs) : bool :=
  match l, o with
  | LJoin _ _ _ _, ObJoin gid index existed closed =>
      match last_caller s' with
      | Some c =>
          Nat.eqb (c_gid c) gid && Nat.eqb (c_index c) index && Bool.eqb (negb (c_creator c)) existed &&
          match nth_error (groups s') (c_gid c) with
          | Some g => Bool.eqb (full (msz s' (g_fid g)) (length (g_args g))) closed
          | None => false
          end
      | None => false
      end
  | LUnpublish gi, ObUnpub deleted =>
      match nth_error (groups s) gi with
      | Some g => Bool.eqb (match lookup (g_fid g) (g_shard g) (pending s) with Some gj => Nat.eqb gj gi | None => false end) deleted
      | None => false
      end
  | LRun gi _, ObMany fid args =>
      match nth_error (groups s') gi with
      | Some g => Nat.eqb (g_fid g) fid &&
                  match g_many g with Some cs => list_eqb (arg_values s' cs) args | None => false end
      | None => false
      end
  | LReturn ci, ObRet r =>
      match nth_error (callers s') ci with
      | Some c => match c_ret c with Some r' => ret_eqb r' r | None => false end
      | None => false
      end
  | _, ObNone => true
  | _, _ => false
  end.

(* returns (final state or None if an event is not an enabled step, number of observation mismatches) *)
Fixpoint replay (evs : list event) (s : state) (bad : nat) : option state * nat :=
  match evs with
  | [] => (Some s, bad)
  | (l, o) :: t =>
      match step s l with
      | None => (None, bad)
      | Some s' => replay t s' (if obs_ok s s' l o then bad else S bad)
      end
  end.

Record case := mk_case {
  k_maxsizes : list nat;
  k_events : list event;
  k_all_returned : bool        (* every Invoke returned *)
}.

Definition all_returned (s : state) : bool :=
  forallb (fun c => match c_ret c with Some _ => true | None => false end) (callers s).

(* component codes: 1 an observed atomic section is not an enabled step; 2 an observable (group, index,
   created/joined, MaxSize roll-over, still-published, arguments seen by Many, return value) differs;
   3 callers that returned *)
Definition check_case (c : case) : list nat :=
  match replay (k_events c) (init (k_maxsizes c)) 0 with
  | (None, _) => [1]
  | (Some s, bad) =>
      (if Nat.eqb bad 0 then [] else [2]) ++
      (if Bool.eqb (all_returned s) (k_all_returned c) then [] else [3])
  end.

Fixpoint mismatches_from_sparse (_ : nat) (cs : list (nat * case)) : list (nat * list nat) :=
  match cs with
  | [] => []
  | (i, c) :: t => match check_case c with
                   | [] => mismatches_from_sparse 0 t
                   | l => (i, l) :: mismatches_from_sparse 0 t
                   end
  end.
