(* C05 - invariants of the batching transition system, by induction over label lists. *)
From Coq Require Import List Arith Bool Lia ZifyBool ZifyNat.
From Thunder Require Import Limiter.Model Limiter.Proofs Batch.Model.
Import ListNotations.

(* ---- association list of pending groups ---- *)

Lemma key_eqb_spec : forall f sh f' sh', reflect (f = f' /\ sh = sh') (key_eqb f sh f' sh').
Proof.
  intros. unfold key_eqb. destruct (Nat.eqb_spec f f'), (Nat.eqb_spec sh sh'); simpl; constructor; tauto.
Qed.

Lemma lookup_remove_key : forall f sh f' sh' l,
  lookup f sh (remove_key f' sh' l) = if key_eqb f sh f' sh' then None else lookup f sh l.
Proof.
  induction l as [|[[a b] v] l IH]; simpl.
  - destruct (key_eqb f sh f' sh'); reflexivity.
  - destruct (key_eqb_spec f' sh' a b) as [[-> ->]|N].
    + rewrite IH. destruct (key_eqb_spec f sh a b); reflexivity.
    + simpl. rewrite IH. destruct (key_eqb_spec f sh a b) as [[-> ->]|N2].
      * destruct (key_eqb_spec a b f' sh') as [[-> ->]|N3]; [tauto|reflexivity].
      * reflexivity.
Qed.

Lemma nth_error_upd_inv : forall A (l : list A) i j x y,
  nth_error (upd l i x) j = Some y -> (i = j /\ y = x /\ exists a, nth_error l i = Some a) \/ (i <> j /\ nth_error l j = Some y).
Proof.
  intros A l i j x y H. destruct (Nat.eq_dec i j) as [->|N].
  - left. destruct (nth_error l j) as [a|] eqn:E.
    + rewrite (nth_error_upd_same _ _ _ _ x E) in H. injection H as <-. eauto.
    + exfalso. apply nth_error_None in E. assert (L : j < length (upd l j x)) by (apply nth_error_Some; congruence).
      rewrite length_upd in L. lia.
  - right. rewrite nth_error_upd_other in H by assumption. auto.
Qed.

(* ---- the invariant ---- *)

Definition gwf (ms : nat) (g : group) : Prop :=
  (0 < ms -> length (g_args g) <= ms) /\
  match g_phase g with
  | Open | Woken | Unpub => g_many g = None /\ g_res g = None /\ g_err g = None /\ g_done g = false
  | Ran => g_many g = Some (g_args g) /\
           ((g_err g = None /\ exists rs, g_res g = Some rs /\ length rs = length (g_args g)) \/
            (g_res g = None /\ exists e, g_err g = Some e /\ e <> ECtx))
  | Cancelled => g_many g = None /\ g_res g = None /\ g_err g = Some ECtx /\ g_ctxc g = true
  end.

Record Inv (s : state) : Prop := mkInv {
  (* a caller's recorded (group, index) holds the caller, and the group has the caller's shard *)
  iA : forall ci cl, nth_error (callers s) ci = Some cl ->
       exists g, nth_error (groups s) (c_gid cl) = Some g /\ nth_error (g_args g) (c_index cl) = Some ci /\
                 g_shard g = c_shard cl /\ g_fid g = c_fid cl;
  (* every entry of a group's args is the caller recorded there, and nowhere else *)
  iB : forall gi g i ci, nth_error (groups s) gi = Some g -> nth_error (g_args g) i = Some ci ->
       exists cl, nth_error (callers s) ci = Some cl /\ c_gid cl = gi /\ c_index cl = i;
  (* a published group is still waiting or about to unpublish, and has room *)
  iC : forall f sh gi, lookup f sh (pending s) = Some gi ->
       exists g, nth_error (groups s) gi = Some g /\ (g_fid g = f /\ g_shard g = sh) /\
                 (g_phase g = Open \/ g_phase g = Woken) /\ (0 < msz s f -> length (g_args g) < msz s f);
  iD : forall gi g, nth_error (groups s) gi = Some g -> gwf (msz s (g_fid g)) g;
  (* a caller that returned got the value / error of its group, after the group was done *)
  iE : forall ci cl r, nth_error (callers s) ci = Some cl -> c_ret cl = Some r ->
       exists g, nth_error (groups s) (c_gid cl) = Some g /\ g_done g = true /\ r = ret_of g (c_index cl)
}.

Lemma inv_init : forall mss, Inv (init mss).
Proof.
  intros mss. constructor; simpl; intros.
  - destruct ci; discriminate.
  - destruct gi; discriminate.
  - discriminate.
  - destruct gi; discriminate.
  - destruct ci; discriminate.
Qed.

(* replacing group gi by a group with the same shard and args *)
Lemma inv_set_group : forall s gi g g' p',
  Inv s -> nth_error (groups s) gi = Some g ->
  g_fid g' = g_fid g -> g_shard g' = g_shard g -> g_args g' = g_args g -> gwf (msz s (g_fid g)) g' ->
  (forall f sh, lookup f sh p' = Some gi -> g_phase g' = Open \/ g_phase g' = Woken) ->
  (forall f sh gj, lookup f sh p' = Some gj -> lookup f sh (pending s) = Some gj) ->
  (g_done g = true -> g_done g' = true /\ forall i, ret_of g' i = ret_of g i) ->
  Inv (mkState (maxsizes s) p' (upd (groups s) gi g') (callers s)).
Proof.
  intros s gi g g' p' [A B C D E] Hg Hfid Hsh Hargs Hwf Hpend Hsub Hret.
  constructor; unfold msz in *; cbn [maxsizes pending groups callers].
  - intros ci cl Hc. destruct (A ci cl Hc) as [g0 [G0 [N0 [S0 F0]]]].
    destruct (Nat.eq_dec (c_gid cl) gi) as [Q|Q].
    + rewrite Q in *. assert (g0 = g) by congruence. subst g0.
      exists g'. split; [eapply nth_error_upd_same; eauto|]. rewrite Hargs, Hsh, Hfid. auto.
    + exists g0. rewrite nth_error_upd_other by auto. auto.
  - intros gj gx i ci Hgj Hn. apply nth_error_upd_inv in Hgj. destruct Hgj as [[-> [-> _]]|[N Hgj]].
    + rewrite Hargs in Hn. eapply B; eauto.
    + eapply B; eauto.
  - intros f sh gj Hl. pose proof (Hsub _ _ _ Hl) as Hl0. destruct (C f sh gj Hl0) as [g0 [G0 [S0 [P0 L0]]]].
    destruct (Nat.eq_dec gj gi) as [->|Q].
    + assert (g0 = g) by congruence. subst g0. exists g'.
      split; [eapply nth_error_upd_same; eauto|]. rewrite Hsh, Hargs, Hfid. split; auto. split; auto. eapply Hpend; eauto.
    + exists g0. rewrite nth_error_upd_other by auto. auto.
  - intros gj gx Hgj. apply nth_error_upd_inv in Hgj. destruct Hgj as [[-> [-> _]]|[N Hgj]]; eauto.
    rewrite Hfid. exact Hwf.
  - intros ci cl r Hc Hr. destruct (E ci cl r Hc Hr) as [g0 [G0 [D0 R0]]].
    destruct (Nat.eq_dec (c_gid cl) gi) as [Q|Q].
    + rewrite Q in *. assert (g0 = g) by congruence. subst g0. destruct (Hret D0) as [D1 R1].
      exists g'. split; [eapply nth_error_upd_same; eauto|]. split; auto. rewrite R1. auto.
    + exists g0. rewrite nth_error_upd_other by auto. auto.
Qed.

Lemma full_false_lt : forall ms n, full ms (S n) = false -> (0 < ms -> n < ms) -> (0 < ms -> S n < ms).
Proof. unfold full. intros ms n F H P. specialize (H P). lia. Qed.

Lemma join_existing : forall s fid argv sh gi g,
  Inv s -> lookup fid sh (pending s) = Some gi -> nth_error (groups s) gi = Some g ->
  Inv (mkState (maxsizes s)
        (if full (msz s fid) (S (length (g_args g))) then remove_key fid sh (pending s) else pending s)
        (upd (groups s) gi
           (mkGroup (g_fid g) (g_shard g) (g_args g ++ [length (callers s)])
                    (g_closed g || full (msz s fid) (S (length (g_args g)))) (g_phase g) (g_ctxc g)
                    (g_many g) (g_res g) (g_err g) (g_done g)))
        (callers s ++ [mkCaller fid argv sh gi (length (g_args g)) false None])).
Proof.
  intros s fid argv sh gi g HI EL EG. pose proof HI as [A B C D E].
  destruct (C _ _ _ EL) as [g0 [G0 [[F0 S0] [P0 L0]]]]. assert (g0 = g) by congruence. subst g0.
  pose proof (D _ _ EG) as [W1 W2]. rewrite F0 in W1.
  assert (Hnd : g_many g = None /\ g_res g = None /\ g_err g = None /\ g_done g = false)
    by (destruct P0 as [P0|P0]; rewrite P0 in W2; exact W2).
  set (g' := mkGroup _ _ _ _ _ _ _ _ _ _).
  set (f := full (msz s fid) (S (length (g_args g)))).
  constructor; cbn [pending groups callers];
    try (change (msz (mkState (maxsizes s) _ _ _)) with (msz s)).
  - (* A *) intros ci cl Hc. apply nth_error_app_last in Hc. destruct Hc as [[_ Hc]|[-> ->]].
    + destruct (A ci cl Hc) as [g0 [G0' [N0 S0']]].
      destruct (Nat.eq_dec (c_gid cl) gi) as [Q|Q].
      * rewrite Q in *. assert (g0 = g) by congruence. subst g0. exists g'.
        split; [eapply nth_error_upd_same; eauto|]. subst g'; cbn. split; auto.
        rewrite nth_error_app1; auto. apply nth_error_Some. congruence.
      * exists g0. rewrite nth_error_upd_other by auto. auto.
    + cbn. exists g'. split; [eapply nth_error_upd_same; eauto|]. subst g'; cbn. split; auto.
      apply nth_error_app_new.
  - (* B *) intros gj gx i ci Hgj Hn. apply nth_error_upd_inv in Hgj. destruct Hgj as [[-> [-> _]]|[N Hgj]].
    + subst g'; cbn in Hn. apply nth_error_app_last in Hn. destruct Hn as [[_ Hn]|[-> ->]].
      * destruct (B _ _ _ _ EG Hn) as [cl [H1 H2]]. exists cl. split; auto. apply nth_error_app_old; auto.
      * eexists. split; [apply nth_error_app_new|]. cbn. auto.
    + destruct (B _ _ _ _ Hgj Hn) as [cl [H1 H2]]. exists cl. split; auto. apply nth_error_app_old; auto.
  - (* C *) intros f' sh' gj Hl.
    assert (Hl0 : lookup f' sh' (pending s) = Some gj /\ (f = true -> ~ (f' = fid /\ sh' = sh))).
    { destruct f eqn:F.
      - rewrite lookup_remove_key in Hl. destruct (key_eqb_spec f' sh' fid sh); [discriminate|]. auto.
      - split; auto. discriminate. }
    destruct Hl0 as [Hl0 Hf]. destruct (C _ _ _ Hl0) as [g0 [G0' [[F0' S0'] [P0' L0']]]].
    destruct (Nat.eq_dec gj gi) as [->|Q].
    + assert (g0 = g) by congruence. subst g0. assert (sh' = sh) by congruence. assert (f' = fid) by congruence. subst sh' f'.
      destruct f eqn:F; [exfalso; apply Hf; auto|].
      exists g'. split; [eapply nth_error_upd_same; eauto|]. subst g'; cbn. split; auto. split; auto.
      rewrite app_length; cbn. rewrite F0. intro P. pose proof (full_false_lt _ _ F L0 P). lia.
    + exists g0. rewrite nth_error_upd_other by auto. auto.
  - (* D *) intros gj gx Hgj. apply nth_error_upd_inv in Hgj. destruct Hgj as [[-> [-> _]]|[N Hgj]]; eauto.
    unfold gwf. subst g'; cbn. rewrite app_length; cbn. rewrite F0. split.
    + intro P. specialize (L0 P). lia.
    + destruct P0 as [P0|P0]; rewrite P0; exact Hnd.
  - (* E *) intros ci cl r Hc Hr. apply nth_error_app_last in Hc. destruct Hc as [[_ Hc]|[-> ->]]; [|discriminate].
    destruct (E ci cl r Hc Hr) as [g0 [G0' [D0 R0]]].
    destruct (Nat.eq_dec (c_gid cl) gi) as [Q|Q].
    + rewrite Q in *. assert (g0 = g) by congruence. subst g0. destruct Hnd as [_ [_ [_ Hd]]]. congruence.
    + exists g0. rewrite nth_error_upd_other by auto. auto.
Qed.

Lemma join_new : forall s fid argv sh c,
  Inv s -> lookup fid sh (pending s) = None ->
  Inv (mkState (maxsizes s)
        (if full (msz s fid) 1 then pending s else (fid, sh, length (groups s)) :: pending s)
        (groups s ++ [mkGroup fid sh [length (callers s)] (full (msz s fid) 1) Open c None None None false])
        (callers s ++ [mkCaller fid argv sh (length (groups s)) 0 true None])).
Proof.
  intros s fid argv sh c HI EL. pose proof HI as [A B C D E].
  set (g' := mkGroup _ _ _ _ _ _ _ _ _ _).
  constructor; cbn [pending groups callers];
    try (change (msz (mkState (maxsizes s) _ _ _)) with (msz s)).
  - intros ci cl Hc. apply nth_error_app_last in Hc. destruct Hc as [[_ Hc]|[-> ->]].
    + destruct (A ci cl Hc) as [g0 [G0 [N0 S0]]]. exists g0. split; auto. apply nth_error_app_old; auto.
    + cbn. exists g'. split; [apply nth_error_app_new|]. subst g'; cbn. auto.
  - intros gj gx i ci Hgj Hn. apply nth_error_app_last in Hgj. destruct Hgj as [[_ Hgj]|[-> ->]].
    + destruct (B _ _ _ _ Hgj Hn) as [cl [H1 H2]]. exists cl. split; auto. apply nth_error_app_old; auto.
    + subst g'; cbn in Hn. destruct i as [|i]; [|destruct i; discriminate]. cbn in Hn. injection Hn as <-.
      eexists. split; [apply nth_error_app_new|]. cbn. auto.
  - intros f' sh' gj Hl.
    assert (Hl0 : (f' = fid /\ sh' = sh /\ gj = length (groups s) /\ full (msz s fid) 1 = false) \/ lookup f' sh' (pending s) = Some gj).
    { destruct (full (msz s fid) 1) eqn:F; auto. cbn in Hl. destruct (key_eqb_spec f' sh' fid sh) as [[-> ->]|]; auto.
      injection Hl as <-. auto. }
    destruct Hl0 as [[-> [-> [-> F]]]|Hl0].
    + exists g'. split; [apply nth_error_app_new|]. subst g'; cbn. split; auto. split; auto.
      unfold full in F. lia.
    + destruct (C _ _ _ Hl0) as [g0 [G0 R]]. exists g0. split; auto. apply nth_error_app_old; auto.
  - intros gj gx Hgj. apply nth_error_app_last in Hgj. destruct Hgj as [[_ Hgj]|[-> ->]]; eauto.
    unfold gwf. subst g'; cbn. split; auto; try lia.
  - intros ci cl r Hc Hr. apply nth_error_app_last in Hc. destruct Hc as [[_ Hc]|[-> ->]]; [|discriminate].
    destruct (E ci cl r Hc Hr) as [g0 [G0 R]]. exists g0. split; auto. apply nth_error_app_old; auto.
Qed.

Lemma return_step : forall s ci cl g,
  Inv s -> nth_error (callers s) ci = Some cl -> c_ret cl = None ->
  nth_error (groups s) (c_gid cl) = Some g -> g_done g = true ->
  Inv (mkState (maxsizes s) (pending s) (groups s)
        (upd (callers s) ci (mkCaller (c_fid cl) (c_arg cl) (c_shard cl) (c_gid cl) (c_index cl) (c_creator cl)
                                      (Some (ret_of g (c_index cl)))))).
Proof.
  intros s ci cl g HI Hc Hn Hg Hd. pose proof HI as [A B C D E].
  constructor; cbn [pending groups callers];
    try (change (msz (mkState (maxsizes s) _ _ _)) with (msz s)); auto.
  - intros cj cx Hcj. apply nth_error_upd_inv in Hcj. destruct Hcj as [[-> [-> _]]|[N Hcj]]; cbn; eauto.
  - intros gj gx i cj Hgj Hi. destruct (B _ _ _ _ Hgj Hi) as [cx [H1 [H2 H3]]].
    destruct (Nat.eq_dec ci cj) as [->|N].
    + assert (cx = cl) by congruence. subst cx. eexists. split; [eapply nth_error_upd_same; eauto|]. cbn. auto.
    + exists cx. rewrite nth_error_upd_other by auto. auto.
  - intros cj cx r Hcj Hr. apply nth_error_upd_inv in Hcj. destruct Hcj as [[-> [-> _]]|[N Hcj]]; cbn in *; eauto.
    injection Hr as <-. eauto.
Qed.

Ltac gwf_same W :=
  (* the new group differs from the old one only in fields gwf does not constrain in this phase *)
  unfold gwf in *; cbn [g_fid g_shard g_args g_closed g_phase g_ctxc g_many g_res g_err g_done with_phase] in *;
  destruct W as [W1 W2]; split; [exact W1|].

Lemma not_pending_if_late : forall s gi g f sh,
  Inv s -> nth_error (groups s) gi = Some g -> lookup f sh (pending s) = Some gi ->
  g_phase g = Open \/ g_phase g = Woken.
Proof.
  intros s gi g f sh HI EG EL. destruct (iC _ HI _ _ _ EL) as [g0 [G0 [_ [P0 _]]]]. congruence.
Qed.

Lemma inv_step : forall s l s', Inv s -> step s l = Some s' -> Inv s'.
Proof.
  intros s l s' HI H. destruct l; unfold step in H.
  - (* LJoin *)
    destruct (lookup fid shard (pending s)) as [gi|] eqn:EL.
    + destruct (nth_error (groups s) gi) as [g|] eqn:EG; [|discriminate]. injection H as <-.
      apply join_existing; auto.
    + injection H as <-. apply join_new; auto.
  - (* LCtxCancel *)
    destruct (nth_error (groups s) g) as [gr|] eqn:EG; [|discriminate]. injection H as <-. unfold set_group.
    pose proof (iD _ HI _ _ EG) as W.
    eapply inv_set_group; [exact HI|exact EG|reflexivity|reflexivity|reflexivity| | | |]; cbn.
    + gwf_same W. destruct (g_phase gr); intuition.
    + intros f sh EL. eapply not_pending_if_late; eauto.
    + auto.
    + intros D0. split; auto.
  - (* LWake *)
    destruct (nth_error (groups s) g) as [gr|] eqn:EG; [|discriminate].
    destruct (g_phase gr) eqn:EP; try discriminate.
    match type of H with (if ?b then _ else _) = _ => destruct b; [|discriminate] end.
    injection H as <-. unfold set_group.
    pose proof (iD _ HI _ _ EG) as W.
    eapply inv_set_group; [exact HI|exact EG|reflexivity|reflexivity|reflexivity| | | |]; cbn.
    + gwf_same W. rewrite EP in W2. exact W2.
    + auto.
    + auto.
    + intros D0. split; auto.
  - (* LUnpublish *)
    destruct (nth_error (groups s) g) as [gr|] eqn:EG; [|discriminate].
    destruct (g_phase gr) eqn:EP; try discriminate. injection H as <-.
    pose proof (iD _ HI _ _ EG) as W.
    eapply inv_set_group; [exact HI|exact EG|reflexivity|reflexivity|reflexivity| | | |]; cbn.
    + gwf_same W. rewrite EP in W2. exact W2.
    + (* after this section the group is not published *)
      intros f sh EL. exfalso.
      destruct (lookup (g_fid gr) (g_shard gr) (pending s)) as [gj|] eqn:EL0.
      * destruct (Nat.eqb_spec gj g) as [->|N].
        -- rewrite lookup_remove_key in EL. destruct (key_eqb_spec f sh (g_fid gr) (g_shard gr)) as [|NK]; [discriminate|].
           destruct (iC _ HI _ _ _ EL) as [g0 [G0 [[F0 S0] _]]]. assert (g0 = gr) by congruence. subst g0. apply NK. split; congruence.
        -- destruct (iC _ HI _ _ _ EL) as [g0 [G0 [[F0 S0] _]]]. assert (g0 = gr) by congruence. subst g0. congruence.
      * destruct (iC _ HI _ _ _ EL) as [g0 [G0 [[F0 S0] _]]]. assert (g0 = gr) by congruence. subst g0. congruence.
    + intros f sh gj EL.
      destruct (lookup (g_fid gr) (g_shard gr) (pending s)) as [gk|] eqn:EL0; auto.
      destruct (Nat.eqb gk g); auto.
      rewrite lookup_remove_key in EL. destruct (key_eqb f sh (g_fid gr) (g_shard gr)); [discriminate|auto].
    + intros D0. split; auto.
  - (* LRun *)
    destruct (nth_error (groups s) g) as [gr|] eqn:EG; [|discriminate].
    destruct (g_phase gr) eqn:EP; try discriminate.
    destruct (g_ctxc gr) eqn:EC; [discriminate|].
    pose proof (iD _ HI _ _ EG) as W.
    assert (Hnd : g_done gr = false) by (destruct W as [_ W2]; rewrite EP in W2; tauto).
    assert (Hpend : forall f sh, lookup f sh (pending s) = Some g -> False).
    { intros f sh EL. destruct (not_pending_if_late _ _ _ _ _ HI EG EL); congruence. }
    destruct o as [rs| |]; [destruct (Nat.eqb_spec (length rs) (length (g_args gr)))|..];
      injection H as <-; unfold set_group;
      (eapply inv_set_group; [exact HI|exact EG|reflexivity|reflexivity|reflexivity| | | |]; cbn;
       [ gwf_same W; split; auto;
         first [ left; split; auto; eexists; split; eauto; fail
               | right; split; auto; eexists; split; eauto; discriminate ]
       | intros f sh EL; exfalso; eauto
       | auto
       | intros D0; congruence ]).
  - (* LCancel *)
    destruct (nth_error (groups s) g) as [gr|] eqn:EG; [|discriminate].
    destruct (g_phase gr) eqn:EP; try discriminate.
    destruct (g_ctxc gr) eqn:EC; [|discriminate]. injection H as <-. unfold set_group.
    pose proof (iD _ HI _ _ EG) as W.
    assert (Hnd : g_done gr = false) by (destruct W as [_ W2]; rewrite EP in W2; tauto).
    eapply inv_set_group; [exact HI|exact EG|reflexivity|reflexivity|reflexivity| | | |]; cbn.
    + gwf_same W. auto.
    + intros f sh EL. exfalso. destruct (not_pending_if_late _ _ _ _ _ HI EG EL); congruence.
    + auto.
    + intros D0. congruence.
  - (* LDone *)
    destruct (nth_error (groups s) g) as [gr|] eqn:EG; [|discriminate].
    pose proof (iD _ HI _ _ EG) as W.
    destruct (g_phase gr) eqn:EP; try discriminate;
      (destruct (g_done gr) eqn:ED; [discriminate|]); injection H as <-; unfold set_group;
      (eapply inv_set_group; [exact HI|exact EG|reflexivity|reflexivity|reflexivity| | | |]; cbn;
       [ gwf_same W; rewrite EP in *; cbn; tauto
       | intros f sh EL; exfalso; destruct (not_pending_if_late _ _ _ _ _ HI EG EL); congruence
       | auto
       | intros D0; congruence ]).
  - (* LReturn *)
    destruct (nth_error (callers s) c) as [cl|] eqn:EC; [|discriminate].
    destruct (c_ret cl) eqn:ER; [discriminate|].
    destruct (nth_error (groups s) (c_gid cl)) as [g|] eqn:EG; [|discriminate].
    destruct (g_done g) eqn:ED; [|discriminate]. injection H as <-.
    apply return_step; auto.
Qed.

Lemma run_invariant : forall (P : state -> Prop),
  (forall s l s', P s -> step s l = Some s' -> P s') ->
  forall tr s s', P s -> run s tr = Some s' -> P s'.
Proof.
  intros P Hstep. induction tr as [|l tr IH]; intros s s' Hs Hr; simpl in Hr.
  - injection Hr as <-. exact Hs.
  - destruct (step s l) as [s1|] eqn:E; [|discriminate]. eapply IH; [|exact Hr]. eapply Hstep; eauto.
Qed.

Lemma inv_run : forall mss tr s, run (init mss) tr = Some s -> Inv s.
Proof.
  intros ms tr s H. eapply (run_invariant Inv); eauto using inv_step, inv_init.
Qed.

(* ---- 1. what a caller gets ---- *)

Lemma return_value_lemma : forall mss tr s ci cl r,
  run (init mss) tr = Some s -> nth_error (callers s) ci = Some cl -> c_ret cl = Some r ->
  exists g, nth_error (groups s) (c_gid cl) = Some g /\ g_done g = true /\
            nth_error (g_args g) (c_index cl) = Some ci /\
            ((exists e, g_err g = Some e /\ r = RErr e) \/
             (g_err g = None /\ g_many g = Some (g_args g) /\
              exists rs v, g_res g = Some rs /\ length rs = length (g_args g) /\
                           nth_error rs (c_index cl) = Some v /\ r = RVal v)).
Proof.
  intros mss tr s ci cl r H Hc Hr. pose proof (inv_run _ _ _ H) as HI.
  destruct (iE _ HI _ _ _ Hc Hr) as [g [G [Dn R]]].
  destruct (iA _ HI _ _ Hc) as [g0 [G0 [N0 _]]]. assert (g0 = g) by congruence. subst g0.
  exists g. split; auto. split; auto. split; auto.
  destruct (iD _ HI _ _ G) as [_ W]. unfold ret_of in R.
  destruct (g_phase g); try (destruct W as [_ [_ [_ W]]]; congruence).
  - destruct W as [M [[E1 [rs [E2 E3]]]|[E1 [e [E2 _]]]]].
    + right. rewrite E1, E2 in R. split; auto. split; auto.
      assert (L : c_index cl < length rs) by (rewrite E3; apply nth_error_Some; congruence).
      apply nth_error_Some in L. destruct (nth_error rs (c_index cl)) as [v|] eqn:EV; [|congruence].
      exists rs, v. auto.
    + left. rewrite E2 in R. eauto.
  - destruct W as [_ [_ [E1 _]]]. left. rewrite E1 in R. eauto.
Qed.

(* ---- 2. every argument is in exactly one group, at its recorded index; Many sees it at most once ---- *)

Lemma args_placement_lemma : forall mss tr s,
  run (init mss) tr = Some s ->
  (forall ci cl, nth_error (callers s) ci = Some cl ->
     exists g, nth_error (groups s) (c_gid cl) = Some g /\ nth_error (g_args g) (c_index cl) = Some ci) /\
  (forall gi g i ci, nth_error (groups s) gi = Some g -> nth_error (g_args g) i = Some ci ->
     exists cl, nth_error (callers s) ci = Some cl /\ c_gid cl = gi /\ c_index cl = i) /\
  (forall gi g i gj g2 j ci, nth_error (groups s) gi = Some g -> nth_error (g_args g) i = Some ci ->
     nth_error (groups s) gj = Some g2 -> nth_error (g_args g2) j = Some ci -> gi = gj /\ i = j).
Proof.
  intros mss tr s H. pose proof (inv_run _ _ _ H) as HI. split; [|split].
  - intros ci cl Hc. destruct (iA _ HI _ _ Hc) as [g [G [N _]]]. eauto.
  - intros. eapply (iB _ HI); eauto.
  - intros gi g i gj g2 j ci G1 N1 G2 N2.
    destruct (iB _ HI _ _ _ _ G1 N1) as [c1 [C1 [A1 B1]]].
    destruct (iB _ HI _ _ _ _ G2 N2) as [c2 [C2 [A2 B2]]].
    assert (c1 = c2) by congruence. subst. auto.
Qed.

Definition is_run (gi : nat) (l : label) : nat :=
  match l with LRun g _ => if Nat.eqb g gi then 1 else 0 | _ => 0 end.
Fixpoint runs_of (gi : nat) (tr : list label) : nat :=
  match tr with [] => 0 | l :: t => is_run gi l + runs_of gi t end.
Definition is_ran (g : group) : nat := match g_phase g with Ran => 1 | _ => 0 end.
Definition ran (s : state) (gi : nat) : nat :=
  match nth_error (groups s) gi with Some g => is_ran g | None => 0 end.

Lemma ran_set : forall ms p gs cs gj g g' gi,
  nth_error gs gj = Some g ->
  ran (mkState ms p (upd gs gj g') cs) gi = if Nat.eqb gj gi then is_ran g' else ran (mkState ms p gs cs) gi.
Proof.
  intros. unfold ran; cbn [groups]. destruct (Nat.eqb_spec gj gi) as [->|N].
  - rewrite (nth_error_upd_same _ _ _ _ g' H). reflexivity.
  - rewrite nth_error_upd_other by auto. reflexivity.
Qed.

Lemma ran_step : forall s l s' gi, step s l = Some s' -> ran s' gi = ran s gi + is_run gi l.
Proof.
  intros s l s' gi H. destruct l; unfold step in H; cbn [is_run].
  - destruct (lookup fid shard (pending s)) as [gj|] eqn:EL.
    + destruct (nth_error (groups s) gj) as [g|] eqn:EG; [|discriminate]. injection H as <-.
      rewrite (ran_set _ _ _ _ _ _ _ _ EG). unfold ran at 2; cbn [groups].
      destruct (Nat.eqb_spec gj gi) as [->|N]; [rewrite EG; unfold is_ran; cbn; lia|unfold ran; cbn; lia].
    + injection H as <-. unfold ran; cbn [groups].
      destruct (nth_error (groups s) gi) as [g|] eqn:EG.
      * rewrite (nth_error_app_old _ _ _ _ _ EG). lia.
      * apply nth_error_None in EG.
        destruct (Nat.eq_dec gi (length (groups s))) as [->|N].
        -- rewrite nth_error_app_new. cbn. lia.
        -- assert (E : nth_error (groups s ++ [mkGroup fid shard [length (callers s)] (full (msz s fid) 1) Open cancelled None None None false]) gi = None)
             by (apply nth_error_None; rewrite app_length; cbn; lia).
           rewrite E. lia.
  - destruct (nth_error (groups s) g) as [gr|] eqn:EG; [|discriminate]. injection H as <-. unfold set_group.
    rewrite (ran_set _ _ _ _ _ _ _ _ EG). unfold ran; cbn [groups].
    destruct (Nat.eqb_spec g gi) as [->|N]; [rewrite EG; unfold is_ran; cbn; lia|lia].
  - destruct (nth_error (groups s) g) as [gr|] eqn:EG; [|discriminate].
    destruct (g_phase gr) eqn:EP; try discriminate.
    match type of H with (if ?b then _ else _) = _ => destruct b; [|discriminate] end.
    injection H as <-. unfold set_group. rewrite (ran_set _ _ _ _ _ _ _ _ EG). unfold ran; cbn [groups].
    destruct (Nat.eqb_spec g gi) as [->|N]; [rewrite EG; unfold is_ran; cbn; rewrite EP; lia|lia].
  - destruct (nth_error (groups s) g) as [gr|] eqn:EG; [|discriminate].
    destruct (g_phase gr) eqn:EP; try discriminate. injection H as <-.
    rewrite (ran_set _ _ _ _ _ _ _ _ EG). unfold ran; cbn [groups].
    destruct (Nat.eqb_spec g gi) as [->|N]; [rewrite EG; unfold is_ran; cbn; rewrite EP; lia|lia].
  - destruct (nth_error (groups s) g) as [gr|] eqn:EG; [|discriminate].
    destruct (g_phase gr) eqn:EP; try discriminate.
    destruct (g_ctxc gr); [discriminate|].
    assert (R : forall res err, ran (set_group s g (mkGroup (g_fid gr) (g_shard gr) (g_args gr) (g_closed gr) Ran false (Some (g_args gr)) res err false)) gi
                                = ran s gi + (if Nat.eqb g gi then 1 else 0)).
    { intros. unfold set_group. rewrite (ran_set _ _ _ _ _ _ _ _ EG). unfold ran; cbn [groups].
      destruct (Nat.eqb_spec g gi) as [->|N]; [rewrite EG; unfold is_ran; cbn; rewrite EP; lia|lia]. }
    destruct o as [rs| |]; [destruct (Nat.eqb (length rs) (length (g_args gr)))|..]; injection H as <-; apply R.
  - destruct (nth_error (groups s) g) as [gr|] eqn:EG; [|discriminate].
    destruct (g_phase gr) eqn:EP; try discriminate.
    destruct (g_ctxc gr); [|discriminate]. injection H as <-. unfold set_group.
    rewrite (ran_set _ _ _ _ _ _ _ _ EG). unfold ran; cbn [groups].
    destruct (Nat.eqb_spec g gi) as [->|N]; [rewrite EG; unfold is_ran; cbn; rewrite EP; lia|lia].
  - destruct (nth_error (groups s) g) as [gr|] eqn:EG; [|discriminate].
    destruct (g_phase gr) eqn:EP; try discriminate;
      (destruct (g_done gr); [discriminate|]); injection H as <-; unfold set_group;
      rewrite (ran_set _ _ _ _ _ _ _ _ EG); unfold ran; cbn [groups];
      (destruct (Nat.eqb_spec g gi) as [->|N]; [rewrite EG; unfold is_ran; cbn; rewrite EP; lia|lia]).
  - destruct (nth_error (callers s) c) as [cl|]; [|discriminate].
    destruct (c_ret cl); [discriminate|].
    destruct (nth_error (groups s) (c_gid cl)) as [g|]; [|discriminate].
    destruct (g_done g); [|discriminate]. injection H as <-. unfold ran; cbn [groups]. lia.
Qed.

Lemma ran_run : forall gi tr s s', run s tr = Some s' -> ran s' gi = ran s gi + runs_of gi tr.
Proof.
  induction tr as [|l tr IH]; intros s s' H; simpl in H.
  - injection H as <-. simpl. lia.
  - destruct (step s l) as [s1|] eqn:E; [|discriminate]. rewrite (IH _ _ H), (ran_step _ _ _ gi E). simpl. lia.
Qed.

Lemma many_once_lemma : forall mss tr s gi,
  run (init mss) tr = Some s ->
  (* Many is called at most once per group over the whole schedule ... *)
  runs_of gi tr <= 1 /\
  (forall g, nth_error (groups s) gi = Some g ->
     (* ... exactly once iff the group ended in Ran, with exactly the group's final args ... *)
     (runs_of gi tr = 1 <-> g_phase g = Ran) /\
     (g_phase g = Ran -> g_many g = Some (g_args g)) /\
     (* ... and a group that is done without a call of Many was cancelled *)
     (g_done g = true -> runs_of gi tr = 0 -> g_phase g = Cancelled /\ g_ctxc g = true /\ g_err g = Some ECtx)).
Proof.
  intros mss tr s gi H. pose proof (ran_run gi _ _ _ H) as R. pose proof (inv_run _ _ _ H) as HI.
  assert (R0 : ran (init mss) gi = 0) by (unfold ran; destruct gi; reflexivity). rewrite R0 in R. simpl in R.
  split.
  - rewrite <- R. unfold ran. destruct (nth_error (groups s) gi) as [g|]; [unfold is_ran; destruct (g_phase g)|]; lia.
  - intros g G. unfold ran in R. rewrite G in R. destruct (iD _ HI _ _ G) as [_ W].
    split; [|split].
    + unfold is_ran in R. destruct (g_phase g); split; intro; try discriminate; try lia; auto.
    + intro P. rewrite P in W. tauto.
    + intros Dn Z. unfold is_ran in R. destruct (g_phase g); try lia;
        try (destruct W as [_ [_ [_ W]]]; congruence). tauto.
Qed.

(* ---- 3. sizes, 4. shards ---- *)

Lemma maxsizes_run : forall mss tr s, run (init mss) tr = Some s -> maxsizes s = mss.
Proof.
  intros mss tr s H. apply (run_invariant (fun s => maxsizes s = mss)) with (tr := tr) (s := init mss); auto.
  intros s0 l s1 E St. rewrite <- E. clear - St. destruct l; unfold step in St;
    repeat match type of St with
    | context[match ?x with _ => _ end] => destruct x; try discriminate St
    end; injection St as <-; reflexivity.
Qed.

Lemma size_lemma : forall mss tr s gi g,
  run (init mss) tr = Some s -> nth_error (groups s) gi = Some g ->
  0 < nth (g_fid g) mss 0 -> length (g_args g) <= nth (g_fid g) mss 0.
Proof.
  intros mss tr s gi g H G P. pose proof (inv_run _ _ _ H) as HI. destruct (iD _ HI _ _ G) as [W _].
  unfold msz in W. rewrite (maxsizes_run _ _ _ H) in W. auto.
Qed.

(* a batch never mixes shards nor Funcs: every caller in a group called the group's Func with the group's shard *)
Lemma shard_lemma : forall mss tr s gi g i ci,
  run (init mss) tr = Some s -> nth_error (groups s) gi = Some g -> nth_error (g_args g) i = Some ci ->
  exists cl, nth_error (callers s) ci = Some cl /\ c_shard cl = g_shard g /\ c_fid cl = g_fid g.
Proof.
  intros mss tr s gi g i ci H G N. pose proof (inv_run _ _ _ H) as HI.
  destruct (iB _ HI _ _ _ _ G N) as [cl [C [A B]]]. exists cl. split; auto.
  destruct (iA _ HI _ _ C) as [g0 [G0 [_ [S0 F0]]]]. rewrite A in G0. split; congruence.
Qed.

(* two published groups of the same (Func, shard) never coexist, and groups of different Funcs have different keys:
   the pending map sends (f, sh) to a group of exactly that Func and shard *)
Lemma pending_key_lemma : forall mss tr s f sh gi,
  run (init mss) tr = Some s -> lookup f sh (pending s) = Some gi ->
  exists g, nth_error (groups s) gi = Some g /\ g_fid g = f /\ g_shard g = sh.
Proof.
  intros mss tr s f sh gi H L. pose proof (inv_run _ _ _ H) as HI.
  destruct (iC _ HI _ _ _ L) as [g [G [[F S] _]]]. eauto.
Qed.

(* Invoke ignores the context of a caller that joins an existing group *)
Lemma waiter_context_ignored_lemma : forall s f a sh c1 c2 gi,
  lookup f sh (pending s) = Some gi -> step s (LJoin f a sh c1) = step s (LJoin f a sh c2).
Proof. intros s f a sh c1 c2 gi L. unfold step. rewrite L. reflexivity. Qed.

(* ---- 5. done is reached on every path: the creator always has an enabled step, at most four are left ---- *)

Definition rank (g : group) : nat :=
  if g_done g then 0 else match g_phase g with Open => 4 | Woken => 3 | Unpub => 2 | Ran | Cancelled => 1 end.

Definition label_group (l : label) : option nat :=
  match l with
  | LCtxCancel g | LWake g _ | LUnpublish g | LRun g _ | LCancel g | LDone g => Some g
  | _ => None
  end.

Lemma creator_step : forall s gi g k,
  nth_error (groups s) gi = Some g -> rank g = S k ->
  exists l s' g', label_group l = Some gi /\ step s l = Some s' /\ nth_error (groups s') gi = Some g' /\ rank g' = k.
Proof.
  intros s gi g k G R. unfold rank in R. destruct (g_done g) eqn:Dn; [discriminate|].
  destruct (g_phase g) eqn:P.
  - exists (LWake gi CInterval). eexists. eexists. split; [reflexivity|]. unfold step. rewrite G, P. split; [reflexivity|].
    split; [cbn; eapply nth_error_upd_same; eauto|]. unfold rank; cbn. rewrite Dn. lia.
  - exists (LUnpublish gi). eexists. eexists. split; [reflexivity|]. unfold step. rewrite G, P. split; [reflexivity|].
    split; [cbn; eapply nth_error_upd_same; eauto|]. unfold rank; cbn. rewrite Dn. lia.
  - destruct (g_ctxc g) eqn:C.
    + exists (LCancel gi). eexists. eexists. split; [reflexivity|]. unfold step. rewrite G, P, C. split; [reflexivity|].
      split; [cbn; eapply nth_error_upd_same; eauto|]. unfold rank; cbn. lia.
    + exists (LRun gi OErr). eexists. eexists. split; [reflexivity|]. unfold step. rewrite G, P, C. split; [reflexivity|].
      split; [cbn; eapply nth_error_upd_same; eauto|]. unfold rank; cbn. lia.
  - exists (LDone gi). eexists. eexists. split; [reflexivity|]. unfold step. rewrite G, P, Dn. split; [reflexivity|].
    split; [cbn; eapply nth_error_upd_same; eauto|]. unfold rank; cbn. lia.
  - exists (LDone gi). eexists. eexists. split; [reflexivity|]. unfold step. rewrite G, P, Dn. split; [reflexivity|].
    split; [cbn; eapply nth_error_upd_same; eauto|]. unfold rank; cbn. lia.
Qed.

Lemma done_reachable_lemma : forall mss tr s gi g,
  run (init mss) tr = Some s -> nth_error (groups s) gi = Some g ->
  exists tr' s' g', length tr' = rank g /\ length tr' <= 4 /\ (forall l, In l tr' -> label_group l = Some gi) /\
                    run s tr' = Some s' /\ nth_error (groups s') gi = Some g' /\ g_done g' = true.
Proof.
  intros mss tr s gi g _ G.
  assert (B : rank g <= 4) by (unfold rank; destruct (g_done g), (g_phase g); lia).
  remember (rank g) as k eqn:K. revert s g G K B. induction k as [|k IH]; intros s g G K B.
  - exists [], s, g. repeat split; auto; try lia. { intros l []. }
    unfold rank in K. destruct (g_done g); auto. destruct (g_phase g); discriminate.
  - destruct (creator_step s gi g k G (eq_sym K)) as [l [s1 [g1 [L [St [G1 R1]]]]]].
    destruct (IH s1 g1 G1 (eq_sym R1) ltac:(lia)) as [tr' [s' [g' [Len [_ [Lab [Rn [G' Dn]]]]]]]].
    exists (l :: tr'), s', g'. repeat split; auto; try (simpl; lia).
    + intros l0 [<-|I]; auto.
    + simpl. rewrite St. exact Rn.
Qed.

(* once the group is done every caller of it that has not returned can return, with the group's value / error *)
Lemma return_enabled_lemma : forall mss tr s ci cl,
  run (init mss) tr = Some s -> nth_error (callers s) ci = Some cl -> c_ret cl = None ->
  exists g, nth_error (groups s) (c_gid cl) = Some g /\
    (g_done g = true ->
     exists s' cl', step s (LReturn ci) = Some s' /\ nth_error (callers s') ci = Some cl' /\
                    c_ret cl' = Some (ret_of g (c_index cl))).
Proof.
  intros mss tr s ci cl H C R. pose proof (inv_run _ _ _ H) as HI.
  destruct (iA _ HI _ _ C) as [g [G _]]. exists g. split; auto. intro Dn.
  unfold step. rewrite C, R, G, Dn. eexists. eexists. split; [reflexivity|].
  cbn. split; [eapply nth_error_upd_same; eauto|]. reflexivity.
Qed.

(* ---- 6. cancellation: whose context matters, and what the other callers of the group get ---- *)

(* creator-cancel: a group that ended Cancelled (its CREATOR's context was cancelled before the ctx.Err() test)
   never calls Many, and every member that returns - the creator and every caller that joined on a live context
   alike - gets the context error; a group that ran never hands out the context error, whatever was cancelled
   afterwards; and a cancelled (or run) group is never joinable: the pending map only holds groups whose creator
   has not unpublished yet *)
Lemma cancel_outcomes_lemma : forall mss tr s gi g,
  run (init mss) tr = Some s -> nth_error (groups s) gi = Some g ->
  (g_phase g = Cancelled ->
     g_ctxc g = true /\ runs_of gi tr = 0 /\ g_many g = None /\
     forall ci cl r, nth_error (callers s) ci = Some cl -> c_gid cl = gi -> c_ret cl = Some r -> r = RErr ECtx) /\
  (g_phase g = Ran ->
     forall ci cl r, nth_error (callers s) ci = Some cl -> c_gid cl = gi -> c_ret cl = Some r -> r <> RErr ECtx) /\
  (forall f sh, lookup f sh (pending s) = Some gi -> g_phase g = Open \/ g_phase g = Woken).
Proof.
  intros mss tr s gi g H G. pose proof (inv_run _ _ _ H) as HI.
  destruct (many_once_lemma _ _ _ gi H) as [M1 M2]. destruct (M2 g G) as [M3 _].
  destruct (iD _ HI _ _ G) as [_ W].
  split; [|split].
  - intro P. rewrite P in W. destruct W as [W1 [W2 [W3 W4]]]. split; auto. split.
    + destruct (runs_of gi tr) as [|[|k]] eqn:R; auto; [|lia]. destruct M3 as [M3 _]. specialize (M3 eq_refl). congruence.
    + split; auto. intros ci cl r C Gi Rt. destruct (iE _ HI _ _ _ C Rt) as [g0 [G0 [_ ->]]].
      rewrite Gi in G0. assert (g0 = g) by congruence. subst g0. unfold ret_of. rewrite W3. reflexivity.
  - intro P. rewrite P in W. destruct W as [_ W]. intros ci cl r C Gi Rt.
    destruct (iE _ HI _ _ _ C Rt) as [g0 [G0 [_ ->]]]. rewrite Gi in G0. assert (g0 = g) by congruence. subst g0.
    unfold ret_of. destruct W as [[E [rs [Rs _]]]|[_ [e [E N]]]].
    + rewrite E, Rs. destruct (nth_error rs (c_index cl)); discriminate.
    + rewrite E. intro X. injection X as ->. congruence.
  - intros f sh L. destruct (iC _ HI _ _ _ L) as [g0 [G0 [_ [P _]]]]. assert (g0 = g) by congruence. subst g0. exact P.
Qed.

(* joiner-cancel: the step of a caller that finds a published group leaves every group's cancellation flag and
   phase as they are, whatever the state of the caller's own context: only the creator's context can cancel a group *)
Lemma joiner_cannot_cancel_lemma : forall s f a sh c gi s',
  lookup f sh (pending s) = Some gi -> step s (LJoin f a sh c) = Some s' ->
  length (groups s') = length (groups s) /\
  forall gj g', nth_error (groups s') gj = Some g' ->
    exists g, nth_error (groups s) gj = Some g /\ g_ctxc g' = g_ctxc g /\ g_phase g' = g_phase g /\ g_done g' = g_done g.
Proof.
  intros s f a sh c gi s' L H. unfold step in H. rewrite L in H.
  destruct (nth_error (groups s) gi) as [g|] eqn:G; [|discriminate]. injection H as <-. cbn [groups].
  split; [apply length_upd|]. intros gj g' G'. destruct (Nat.eq_dec gi gj) as [<-|Q].
  - rewrite (nth_error_upd_same _ _ _ _ _ G) in G'. injection G' as <-. exists g. cbn. auto.
  - rewrite nth_error_upd_other in G' by auto. exists g'. auto.
Qed.

(* the flag is only ever set by the label that cancels that group's creator, or at creation on a context already cancelled *)
Lemma ctxc_only_by_creator_lemma : forall s l s' gi g',
  step s l = Some s' -> nth_error (groups s') gi = Some g' -> g_ctxc g' = true ->
  (exists g, nth_error (groups s) gi = Some g /\ g_ctxc g = true) \/ l = LCtxCancel gi \/
  (gi = length (groups s) /\ exists f a sh, l = LJoin f a sh true /\ lookup f sh (pending s) = None).
Proof.
  intros s l s' gi g' H G' C.
  destruct l as [f a sh c|g|g c|g|g o|g|g|c0].
  - unfold step in H. destruct (lookup f sh (pending s)) as [gj|] eqn:L.
    + destruct (joiner_cannot_cancel_lemma s f a sh c gj s' L) as [_ J].
      { unfold step. rewrite L. exact H. }
      destruct (J _ _ G') as [g [G0 [E _]]]. left. exists g. split; auto. congruence.
    + injection H as <-. cbn [groups] in G'. apply nth_error_app_last in G'. destruct G' as [[_ G']|[E ->]].
      * left. eauto.
      * cbn in C. subst c. right. right. split; auto. exists f, a, sh. auto.
  - destruct (Nat.eq_dec g gi) as [->|Q]; [right; left; reflexivity|]. left.
    unfold step in H. dmatch H. injection H as <-. cbn [groups set_group] in G'.
    rewrite nth_error_upd_other in G' by auto. eauto.
  - left. unfold step in H. dmatch H. injection H as <-. cbn [groups set_group] in G'.
    destruct (Nat.eq_dec g gi) as [->|Q].
    + erewrite nth_error_upd_same in G' by eauto. injection G' as <-. cbn in C. eauto.
    + rewrite nth_error_upd_other in G' by auto. eauto.
  - left. unfold step in H. dmatch H; injection H as <-; cbn [groups] in G';
      (destruct (Nat.eq_dec g gi) as [->|Q];
       [ erewrite nth_error_upd_same in G' by eauto; injection G' as <-; cbn in C; eauto
       | rewrite nth_error_upd_other in G' by auto; eauto ]).
  - left. unfold step in H. dmatch H; injection H as <-; cbn [groups set_group] in G';
      (destruct (Nat.eq_dec g gi) as [->|Q];
       [ erewrite nth_error_upd_same in G' by eauto; injection G' as <-; cbn in C; eauto
       | rewrite nth_error_upd_other in G' by auto; eauto ]).
  - left. unfold step in H. dmatch H; injection H as <-; cbn [groups set_group] in G';
      (destruct (Nat.eq_dec g gi) as [->|Q];
       [ erewrite nth_error_upd_same in G' by eauto; injection G' as <-; cbn in C; eauto
       | rewrite nth_error_upd_other in G' by auto; eauto ]).
  - left. unfold step in H. dmatch H; injection H as <-; cbn [groups set_group] in G';
      (destruct (Nat.eq_dec g gi) as [->|Q];
       [ erewrite nth_error_upd_same in G' by eauto; injection G' as <-; cbn in C; eauto
       | rewrite nth_error_upd_other in G' by auto; eauto ]).
  - left. unfold step in H. dmatch H. injection H as <-. cbn [groups] in G'. eauto.
Qed.

(* ---- 7. what Many panics with does not matter ---- *)

(* safeInvoke's recover turns every panic value into the same error: the step is the same for every kind *)
Lemma panic_kind_irrelevant_lemma : forall s g k1 k2, step s (LRun g (OPanic k1)) = step s (LRun g (OPanic k2)).
Proof. intros. reflexivity. Qed.

(* and a panic of any kind is followed by done like any other outcome: the creator's next step closes doneCh *)
Lemma panic_then_done_lemma : forall s g k s', step s (LRun g (OPanic k)) = Some s' ->
  exists s2 g2, step s' (LDone g) = Some s2 /\ nth_error (groups s2) g = Some g2 /\ g_done g2 = true /\ g_err g2 = Some EPanic.
Proof.
  intros s g k s' H. unfold step in H. destruct (nth_error (groups s) g) as [gr|] eqn:G; [|discriminate].
  destruct (g_phase gr) eqn:P; try discriminate. destruct (g_ctxc gr); [discriminate|]. injection H as <-.
  unfold step. cbn [groups set_group]. rewrite (nth_error_upd_same _ _ _ _ _ G). cbn.
  eexists. eexists. split; [reflexivity|]. cbn [groups set_group]. split.
  - eapply nth_error_upd_same. eapply nth_error_upd_same. exact G.
  - cbn. auto.
Qed.
