(* C05 - the timed system refines the untimed one, and in every schedule in which timers fire on time a group is
   dispatched no later than MaxDuration after its creation and no later than WaitInterval after its last join. *)
From Coq Require Import List Arith Bool ZArith Lia ZifyBool ZifyNat.
From Thunder Require Import Limiter.Model Limiter.Proofs Batch.Model Batch.Proofs Batch.ModelTimed.
Import ListNotations.
Local Open Scope Z_scope.

Lemma eff_wait_pos : forall cfg f, 0 < eff_wait cfg f.
Proof. intros. unfold eff_wait, default_wait. destruct (0 <? fst (nth f cfg (0, 0))) eqn:E; lia. Qed.

Lemma eff_maxdur_pos : forall cfg f, 0 < eff_maxdur cfg f.
Proof. intros. unfold eff_maxdur, default_maxdur. destruct (0 <? snd (nth f cfg (0, 0))) eqn:E; lia. Qed.

(* ---- 1. refinement: erasing the stamps gives a schedule of Batch/Model.v ---- *)

Lemma tstep_erase : forall cfg s lo hi l s', tstep cfg s (lo, hi, l) = Some s' -> step (ts s) l = Some (ts s').
Proof.
  intros cfg s lo hi l s' H. unfold tstep in H. cbv beta iota in H. destruct (step (ts s) l) as [s0|] eqn:E; [|discriminate].
  destruct l; dmatch H; try (injection H as <-; reflexivity).
Qed.

Lemma trun_erase : forall cfg tr s s', trun cfg s tr = Some s' -> run (ts s) (erase tr) = Some (ts s').
Proof.
  intros cfg. induction tr as [|[[lo hi] l] tr IH]; intros s s' H; cbn [trun erase map snd run] in *.
  - injection H as <-. reflexivity.
  - destruct (tstep cfg s (lo, hi, l)) as [s1|] eqn:E; [|discriminate].
    rewrite (tstep_erase _ _ _ _ _ _ E). apply IH. exact H.
Qed.

Lemma prun_trun : forall cfg tr s s', prun cfg s tr = Some s' -> trun cfg s tr = Some s'.
Proof.
  intros cfg. induction tr as [|tl tr IH]; intros s s' H; cbn [prun trun] in *; auto.
  destruct (on_time s tl); [|discriminate]. destruct (tstep cfg s tl); [|discriminate]. auto.
Qed.

Lemma timed_refines_lemma : forall cfg mss tr s,
  trun cfg (tinit mss) tr = Some s -> run (init mss) (erase tr) = Some (ts s).
Proof. intros. apply (trun_erase cfg tr (tinit mss) s). assumption. Qed.

(* ---- 2. a timer never wakes the creator early (by definition of the step; stated for reference) ---- *)

Lemma timer_wake_not_early_lemma : forall cfg s lo hi gi c s' tg,
  tstep cfg s (lo, hi, LWake gi c) = Some s' -> nth_error (tgs s) gi = Some tg ->
  (c = CInterval -> tg_ideadline tg <= hi) /\ (c = CMaxDur -> tg_mdeadline tg <= hi).
Proof.
  intros cfg s lo hi gi c s' tg H T. unfold tstep in H. cbv beta iota in H.
  destruct (step (ts s) (LWake gi c)) as [s0|]; [|discriminate]. rewrite T in H.
  split; intros ->; destruct (_ <=? hi) eqn:E; try discriminate; lia.
Qed.

(* ---- 3. schedules in which timers fire on time ---- *)

Definition GI (cfg : tconfig) (now : Z) (g : group) (tg : tgroup) : Prop :=
  tg_mdeadline tg = tg_created tg + eff_maxdur cfg (g_fid g) /\
  tg_ideadline tg = tg_lastjoin tg + eff_wait cfg (g_fid g) /\
  tg_created tg <= tg_lastjoin tg /\ tg_lastjoin tg <= now /\
  match g_phase g with
  | Open => now <= tg_ideadline tg /\ now <= tg_mdeadline tg /\ tg_dispatched tg = None
  | Woken | Unpub => tg_woken tg = Some now /\ now <= tg_ideadline tg /\ now <= tg_mdeadline tg /\ tg_dispatched tg = None
  | Ran | Cancelled => exists d, tg_dispatched tg = Some d /\ d <= tg_ideadline tg /\ d <= tg_mdeadline tg
  end.

Definition TInv (cfg : tconfig) (s : tstate) : Prop :=
  length (tgs s) = length (groups (ts s)) /\
  forall gi g tg, nth_error (groups (ts s)) gi = Some g -> nth_error (tgs s) gi = Some tg -> GI cfg (tnow s) g tg.

Lemma on_time_groups_nth : forall gs tgl at_ gi g t,
  on_time_groups gs tgl at_ = true -> nth_error gs gi = Some g -> nth_error tgl gi = Some t ->
  (g_phase g = Open -> at_ <= tg_ideadline t /\ at_ <= tg_mdeadline t) /\
  (g_phase g = Woken \/ g_phase g = Unpub -> exists w, tg_woken t = Some w /\ at_ <= w).
Proof.
  induction gs as [|g0 gs IH]; intros tgl at_ gi g t H G T; [destruct gi; discriminate|].
  destruct tgl as [|t0 tgl]; [destruct gi; discriminate|].
  simpl in H. apply andb_true_iff in H. destruct H as [H H3]. apply andb_true_iff in H. destruct H as [H1 H2].
  destruct gi; simpl in G, T.
  - injection G as ->. injection T as ->. split.
    + intro P. rewrite P in H1. simpl in H1. lia.
    + intros [P|P]; rewrite P in H2; simpl in H2; destruct (tg_woken t) as [w|]; try discriminate; exists w; split; auto; lia.
  - eapply IH; eauto.
Qed.

Lemma GI_frame : forall cfg now hi g tg gs tgl gi,
  GI cfg now g tg -> now <= hi -> on_time_groups gs tgl hi = true ->
  nth_error gs gi = Some g -> nth_error tgl gi = Some tg -> GI cfg hi g tg.
Proof.
  intros cfg now hi g tg gs tgl gi [A [B [C [C' D]]]] L OT G T.
  destruct (on_time_groups_nth _ _ _ _ _ _ OT G T) as [O1 O2].
  split; auto. split; auto. split; auto. split; [lia|].
  destruct (g_phase g) eqn:P.
  - destruct (O1 eq_refl). destruct D as [_ [_ D]]. auto.
  - destruct D as [W [D1 [D2 D3]]]. destruct (O2 (or_introl eq_refl)) as [w [W' Lw]].
    assert (w = now) by congruence. subst w. assert (hi = now) by lia. subst hi. auto.
  - destruct D as [W [D1 [D2 D3]]]. destruct (O2 (or_intror eq_refl)) as [w [W' Lw]].
    assert (w = now) by congruence. subst w. assert (hi = now) by lia. subst hi. auto.
  - exact D.
  - exact D.
Qed.

Lemma GI_same : forall cfg now g g' tg,
  g_fid g' = g_fid g -> g_phase g' = g_phase g -> GI cfg now g tg -> GI cfg now g' tg.
Proof. intros cfg now g g' tg F P H. unfold GI in *. rewrite F, P. exact H. Qed.

Lemma tinv_init : forall cfg mss, TInv cfg (tinit mss).
Proof. intros. split; simpl; auto. intros gi g tg H. destruct gi; discriminate. Qed.

Lemma tinv_update : forall cfg s hi gi g g' tg tg' s0,
  TInv cfg s -> tnow s <= hi -> on_time_groups (groups (ts s)) (tgs s) hi = true ->
  nth_error (groups (ts s)) gi = Some g -> nth_error (tgs s) gi = Some tg ->
  groups s0 = upd (groups (ts s)) gi g' -> GI cfg hi g' tg' ->
  TInv cfg (mkTS s0 (upd (tgs s) gi tg') hi).
Proof.
  intros cfg s hi gi g g' tg tg' s0 [HL HG] L OT G T E N. split; cbn [ts tgs tnow].
  - rewrite E, !length_upd. exact HL.
  - intros gj g1 t1 G1 T1. rewrite E in G1. destruct (Nat.eq_dec gi gj) as [<-|Q].
    + rewrite (nth_error_upd_same _ _ _ _ g' G) in G1. rewrite (nth_error_upd_same _ _ _ _ tg' T) in T1.
      injection G1 as <-. injection T1 as <-. exact N.
    + rewrite nth_error_upd_other in G1, T1 by auto. eapply GI_frame; eauto.
Qed.

Lemma tinv_keep : forall cfg s hi s0,
  TInv cfg s -> tnow s <= hi -> on_time_groups (groups (ts s)) (tgs s) hi = true ->
  groups s0 = groups (ts s) -> TInv cfg (mkTS s0 (tgs s) hi).
Proof.
  intros cfg s hi s0 [HL HG] L OT E. split; cbn [ts tgs tnow].
  - rewrite E. exact HL.
  - intros gj g1 t1 G1 T1. rewrite E in G1. eapply GI_frame; eauto.
Qed.

Lemma tinv_append : forall cfg s hi g' tg' s0,
  TInv cfg s -> tnow s <= hi -> on_time_groups (groups (ts s)) (tgs s) hi = true ->
  groups s0 = groups (ts s) ++ [g'] -> GI cfg hi g' tg' ->
  TInv cfg (mkTS s0 (tgs s ++ [tg']) hi).
Proof.
  intros cfg s hi g' tg' s0 [HL HG] L OT E N. split; cbn [ts tgs tnow].
  - rewrite E, !app_length, HL. reflexivity.
  - intros gj g1 t1 G1 T1. rewrite E in G1.
    apply nth_error_app_last in G1. destruct G1 as [[Lg G1]|[Lg ->]].
    + apply nth_error_app_last in T1. destruct T1 as [[_ T1]|[Lt _]]; [eapply GI_frame; eauto|].
      assert (gj < length (groups (ts s)))%nat by (apply nth_error_Some; congruence). lia.
    + apply nth_error_app_last in T1. destruct T1 as [[Lt T1]|[_ ->]]; [|exact N].
      assert (gj < length (tgs s))%nat by (apply nth_error_Some; congruence). lia.
Qed.

Lemma tg_exists : forall cfg s gi g, TInv cfg s -> nth_error (groups (ts s)) gi = Some g -> exists tg, nth_error (tgs s) gi = Some tg.
Proof.
  intros cfg s gi g [HL _] G. destruct (nth_error (tgs s) gi) as [tg|] eqn:T; [eauto|].
  apply nth_error_None in T. assert (gi < length (groups (ts s)))%nat by (apply nth_error_Some; congruence). lia.
Qed.

Lemma set_tg_upd : forall l gi tg f, nth_error l gi = Some tg -> set_tg l gi f = upd l gi (f tg).
Proof. intros l gi tg f H. unfold set_tg. rewrite H. reflexivity. Qed.

Lemma tinv_step : forall cfg s tl s',
  TInv cfg s -> Inv (ts s) -> on_time s tl = true -> tstep cfg s tl = Some s' -> TInv cfg s'.
Proof.
  intros cfg s [[lo hi] l] s' HT HI OT H.
  unfold on_time in OT. rewrite !andb_true_iff in OT. destruct OT as [[OE ON] OG].
  apply Z.eqb_eq in OE. subst lo. apply Z.leb_le in ON.
  unfold tstep in H. cbv beta iota in H. destruct (step (ts s) l) as [s0|] eqn:St; [|discriminate].
  destruct l as [f a sh c|gi|gi c|gi|gi o|gi|gi|ci].
  - (* LJoin *)
    unfold step in St. destruct (lookup f sh (pending (ts s))) as [gi|] eqn:P.
    + destruct (nth_error (groups (ts s)) gi) as [g|] eqn:G; [|discriminate]. injection St as <-. injection H as <-.
      destruct (tg_exists _ _ _ _ HT G) as [tg T]. rewrite (set_tg_upd _ _ _ _ T).
      destruct (iC _ HI _ _ _ P) as [g0 [G0 [_ [PH _]]]]. assert (g0 = g) by congruence. subst g0.
      pose proof (proj2 HT _ _ _ G T) as [A [B [C [C' D]]]].
      destruct (on_time_groups_nth _ _ _ _ _ _ OG G T) as [O1 O2].
      pose proof (eff_wait_pos cfg f) as WP.
      assert (Fg : g_fid g = f) by (destruct (iC _ HI _ _ _ P) as [g1 [G1 [[F1 _] _]]]; congruence).
      eapply tinv_update; eauto; [reflexivity|].
      unfold GI. cbn [g_fid g_phase]. rewrite Fg in *.
      destruct (hi <? tg_ideadline tg) eqn:LT; cbn [tg_created tg_ideadline tg_mdeadline tg_lastjoin tg_woken tg_dispatched].
      * split; auto. split; auto. split; [lia|]. split; [lia|].
        destruct PH as [PH|PH]; rewrite PH in *.
        -- destruct (O1 eq_refl). destruct D as [_ [_ D]]. repeat split; auto; lia.
        -- destruct D as [W [D1 [D2 D3]]]. destruct (O2 (or_introl eq_refl)) as [w [W' Lw]].
           assert (w = tnow s) by congruence. subst w. assert (hi = tnow s) by lia. subst hi. repeat split; auto; lia.
      * rewrite Z.min_l by lia. split; auto. split; auto. split; [lia|]. split; [lia|].
        destruct PH as [PH|PH]; rewrite PH in *.
        -- destruct (O1 eq_refl). destruct D as [_ [_ D]]. repeat split; auto; lia.
        -- destruct D as [W [D1 [D2 D3]]]. destruct (O2 (or_introl eq_refl)) as [w [W' Lw]].
           assert (w = tnow s) by congruence. subst w. assert (hi = tnow s) by lia. subst hi. repeat split; auto; lia.
    + injection St as <-. injection H as <-.
      eapply tinv_append; eauto; [reflexivity|].
      unfold GI. cbn. pose proof (eff_wait_pos cfg f). pose proof (eff_maxdur_pos cfg f). repeat split; auto; lia.
  - (* LCtxCancel *)
    injection H as <-. unfold step in St. destruct (nth_error (groups (ts s)) gi) as [g|] eqn:G; [|discriminate]. injection St as <-.
    destruct (tg_exists _ _ _ _ HT G) as [tg T].
    rewrite <- (upd_same _ (tgs s) gi tg T).
    eapply tinv_update; eauto; [reflexivity|].
    eapply GI_same; [| |eapply GI_frame; eauto; exact (proj2 HT _ _ _ G T)]; reflexivity.
  - (* LWake *)
    destruct (nth_error (tgs s) gi) as [tg|] eqn:T; [|discriminate].
    match type of H with (if ?ok then _ else _) = _ => destruct ok eqn:OK; [|discriminate] end. injection H as <-.
    unfold step in St. destruct (nth_error (groups (ts s)) gi) as [g|] eqn:G; [|discriminate].
    destruct (g_phase g) eqn:PH; try discriminate.
    match type of St with (if ?ok then _ else _) = _ => destruct ok; [|discriminate] end. injection St as <-.
    pose proof (proj2 HT _ _ _ G T) as [A [B [C [C' D]]]]. rewrite PH in D.
    destruct (on_time_groups_nth _ _ _ _ _ _ OG G T) as [O1 _]. destruct (O1 PH).
    eapply tinv_update; eauto; [reflexivity|].
    unfold GI. cbn. destruct D as [_ [_ D]]. repeat split; auto; lia.
  - (* LUnpublish *)
    injection H as <-. unfold step in St. destruct (nth_error (groups (ts s)) gi) as [g|] eqn:G; [|discriminate].
    destruct (g_phase g) eqn:PH; try discriminate. injection St as <-.
    destruct (tg_exists _ _ _ _ HT G) as [tg T].
    rewrite <- (upd_same _ (tgs s) gi tg T).
    eapply tinv_update; eauto; [reflexivity|].
    pose proof (GI_frame _ _ _ _ _ _ _ _ (proj2 HT _ _ _ G T) ON OG G T) as X.
    unfold GI in *. cbn [g_fid g_phase with_phase]. rewrite PH in X. exact X.
  - (* LRun *)
    unfold step in St. destruct (nth_error (groups (ts s)) gi) as [g|] eqn:G; [|discriminate].
    destruct (g_phase g) eqn:PH; try discriminate. destruct (g_ctxc g); [discriminate|].
    destruct (tg_exists _ _ _ _ HT G) as [tg T]. rewrite (set_tg_upd _ _ _ _ T) in H. injection H as <-.
    pose proof (GI_frame _ _ _ _ _ _ _ _ (proj2 HT _ _ _ G T) ON OG G T) as [A [B [C [C' D]]]]. rewrite PH in D.
    destruct D as [W [D1 [D2 D3]]].
    assert (E : exists g', groups s0 = upd (groups (ts s)) gi g' /\ g_fid g' = g_fid g /\ g_phase g' = Ran).
    { destruct o as [rs| |]; [destruct (Nat.eqb (length rs) (length (g_args g)))| |]; injection St as <-; eexists; split; try reflexivity; split; reflexivity. }
    destruct E as [g' [E [F P']]].
    eapply tinv_update; eauto.
    unfold GI. rewrite F, P'. cbn. repeat split; auto. exists hi. repeat split; auto; lia.
  - (* LCancel *)
    unfold step in St. destruct (nth_error (groups (ts s)) gi) as [g|] eqn:G; [|discriminate].
    destruct (g_phase g) eqn:PH; try discriminate. destruct (g_ctxc g); [|discriminate]. injection St as <-.
    destruct (tg_exists _ _ _ _ HT G) as [tg T]. rewrite (set_tg_upd _ _ _ _ T) in H. injection H as <-.
    pose proof (GI_frame _ _ _ _ _ _ _ _ (proj2 HT _ _ _ G T) ON OG G T) as [A [B [C [C' D]]]]. rewrite PH in D.
    destruct D as [W [D1 [D2 D3]]].
    eapply tinv_update; eauto; [reflexivity|].
    unfold GI. cbn. repeat split; auto. exists hi. repeat split; auto; lia.
  - (* LDone *)
    injection H as <-. unfold step in St. destruct (nth_error (groups (ts s)) gi) as [g|] eqn:G; [|discriminate].
    destruct (tg_exists _ _ _ _ HT G) as [tg T].
    rewrite <- (upd_same _ (tgs s) gi tg T).
    destruct (g_phase g) eqn:PH; try discriminate; destruct (g_done g); try discriminate; injection St as <-;
      (eapply tinv_update; eauto; [reflexivity|]);
      (eapply GI_same; [| |eapply GI_frame; eauto; exact (proj2 HT _ _ _ G T)]; [reflexivity | cbn; congruence]).
  - (* LReturn *)
    injection H as <-. eapply tinv_keep; eauto.
    unfold step in St. dmatch St. injection St as <-. reflexivity.
Qed.

Lemma prun_inv : forall cfg mss tr s, prun cfg (tinit mss) tr = Some s -> TInv cfg s /\ Inv (ts s).
Proof.
  intros cfg mss tr s H.
  assert (G : forall tr s0 s1, TInv cfg s0 /\ Inv (ts s0) -> prun cfg s0 tr = Some s1 -> TInv cfg s1 /\ Inv (ts s1)).
  { clear. induction tr as [|tl tr IH]; intros s0 s1 [A B] H; cbn [prun] in H.
    - injection H as <-. auto.
    - destruct (on_time s0 tl) eqn:OT; [|discriminate]. destruct (tstep cfg s0 tl) as [s2|] eqn:E; [|discriminate].
      apply (IH s2 s1); auto. split; [eapply tinv_step; eauto|].
      destruct tl as [[lo hi] l]. eapply inv_step; [exact B|]. eapply tstep_erase; eauto. }
  apply (G tr (tinit mss)); auto. split; [apply tinv_init|apply inv_init].
Qed.

Lemma dispatch_deadline_lemma : forall cfg mss tr s gi g,
  prun cfg (tinit mss) tr = Some s -> nth_error (groups (ts s)) gi = Some g ->
  exists tg, nth_error (tgs s) gi = Some tg /\
    tg_mdeadline tg = tg_created tg + eff_maxdur cfg (g_fid g) /\
    tg_ideadline tg = tg_lastjoin tg + eff_wait cfg (g_fid g) /\
    (g_phase g = Open \/ g_phase g = Woken \/ g_phase g = Unpub ->
       tnow s <= tg_created tg + eff_maxdur cfg (g_fid g) /\ tnow s <= tg_lastjoin tg + eff_wait cfg (g_fid g)) /\
    (g_phase g = Ran \/ g_phase g = Cancelled ->
       exists d, tg_dispatched tg = Some d /\
                 d <= tg_created tg + eff_maxdur cfg (g_fid g) /\ d <= tg_lastjoin tg + eff_wait cfg (g_fid g)) /\
    (tg_created tg + eff_maxdur cfg (g_fid g) < tnow s \/ tg_lastjoin tg + eff_wait cfg (g_fid g) < tnow s ->
       g_phase g = Ran \/ g_phase g = Cancelled).
Proof.
  intros cfg mss tr s gi g H G. destruct (prun_inv _ _ _ _ H) as [HT HI].
  destruct (tg_exists _ _ _ _ HT G) as [tg T]. exists tg. split; auto.
  destruct (proj2 HT _ _ _ G T) as [A [B [C [C' D]]]]. split; auto. split; auto.
  destruct (g_phase g) eqn:P.
  - destruct D as [D1 [D2 _]]. split; [intros _; lia|]. split; [intros [X|X]; discriminate|]. intro; lia.
  - destruct D as [_ [D1 [D2 _]]]. split; [intros _; lia|]. split; [intros [X|X]; discriminate|]. intro; lia.
  - destruct D as [_ [D1 [D2 _]]]. split; [intros _; lia|]. split; [intros [X|X]; discriminate|]. intro; lia.
  - destruct D as [d [D0 [D1 D2]]]. split; [intros [X|[X|X]]; discriminate|]. split; [|auto].
    intros _. exists d. split; auto. lia.
  - destruct D as [d [D0 [D1 D2]]]. split; [intros [X|[X|X]]; discriminate|]. split; [|auto].
    intros _. exists d. split; auto. lia.
Qed.
