(* C05 - the timers of batch.Func.Invoke as data.  Executable definitions only.

   batch.go: the creator of a group arms two timers inside its first mutex section,
       bg.intervalTimer = time.NewTimer(waitInterval)      waitInterval = f.WaitInterval if > 0, else 1 ms
       timer            = time.NewTimer(maxDuration)       maxDuration  = f.MaxDuration  if > 0, else 20 ms
   every later caller that finds the group does, inside its mutex section,
       if bg.intervalTimer.Stop() { bg.intervalTimer.Reset(waitInterval) }
   and the creator's select wakes on intervalTimer.C, on timer.C, on ctx.Done() or on maxSizeCh.

   The untimed system Batch/Model.v lets the two timers fire at any time.  Here every step carries two time
   stamps lo <= hi between which it happened (an exact schedule has lo = hi), and a group carries the earliest
   instants at which its two timers can have fired.  A Go timer never fires before its duration has elapsed:
   a wake-up by the interval (max-duration) timer is a step only when its stamp is not before that instant.
   A join that certainly came before the interval timer was due (hi < deadline) certainly stopped it and re-armed
   it for the full interval counted from lo at the earliest; a join whose stamps do not decide that keeps the
   earlier of the two possibilities.  For exact schedules this is precisely Stop-then-Reset: re-armed iff the
   join is strictly before the deadline.  Times and durations are integers (us), durations may be <= 0 as in Go. *)
From Coq Require Import List Arith Bool ZArith.
From Thunder Require Import Limiter.Model Batch.Model.   (* upd from Limiter.Model; Batch.Model shadows the rest *)
Import ListNotations.
Local Open Scope Z_scope.

(* f.WaitInterval, f.MaxDuration per Func, as configured (not yet defaulted) *)
Definition tconfig := list (Z * Z).

(* the unit of time is 1 us (what the harness configures and stamps in; any unit would do for the theorems) *)
Definition default_wait : Z := 1000.      (* DefaultWaitInterval = 1 ms *)
Definition default_maxdur : Z := 20000.   (* DefaultMaxDuration = 20 ms *)

Definition eff_wait (cfg : tconfig) (f : nat) : Z :=
  let w := fst (nth f cfg (0, 0)) in if 0 <? w then w else default_wait.
Definition eff_maxdur (cfg : tconfig) (f : nat) : Z :=
  let m := snd (nth f cfg (0, 0)) in if 0 <? m then m else default_maxdur.

Record tgroup := mkTG {
  tg_created : Z;              (* earliest instant of the creating join *)
  tg_ideadline : Z;            (* the interval timer cannot have fired before *)
  tg_mdeadline : Z;            (* the max-duration timer cannot have fired before *)
  tg_lastjoin : Z;             (* earliest instant of the latest join that re-armed the interval timer (or of the creation) *)
  tg_woken : option Z;         (* latest instant of the creator's wake-up *)
  tg_dispatched : option Z     (* latest instant of the ctx.Err() test that was followed by Many or by bg.err = ctx.Err() *)
}.

Record tstate := mkTS { ts : state; tgs : list tgroup; tnow : Z }.

Definition tlabel := (Z * Z * label)%type.   (* lo, hi, the section *)

Definition tinit (mss : list nat) : tstate := mkTS (init mss) [] 0.

Definition set_tg (l : list tgroup) (gi : nat) (f : tgroup -> tgroup) : list tgroup :=
  match nth_error l gi with Some tg => upd l gi (f tg) | None => l end.

Definition tstep (cfg : tconfig) (s : tstate) (tl : tlabel) : option tstate :=
  let '(lo, hi, l) := tl in
  match step (ts s) l with
  | None => None
  | Some s' =>
      match l with
      | LJoin f _ sh _ =>
          match lookup f sh (pending (ts s)) with
          | None =>
              Some (mkTS s' (tgs s ++ [mkTG lo (lo + eff_wait cfg f) (lo + eff_maxdur cfg f) lo None None]) hi)
          | Some gi =>
              Some (mkTS s'
                     (set_tg (tgs s) gi (fun tg =>
                        if hi <? tg_ideadline tg
                        then mkTG (tg_created tg) (lo + eff_wait cfg f) (tg_mdeadline tg) lo (tg_woken tg) (tg_dispatched tg)
                        else mkTG (tg_created tg) (Z.min (tg_ideadline tg) (lo + eff_wait cfg f)) (tg_mdeadline tg)
                                  (tg_lastjoin tg) (tg_woken tg) (tg_dispatched tg)))
                     hi)
          end
      | LWake gi c =>
          match nth_error (tgs s) gi with
          | Some tg =>
              let ok := match c with
                        | CInterval => tg_ideadline tg <=? hi
                        | CMaxDur => tg_mdeadline tg <=? hi
                        | _ => true
                        end in
              if ok then
                Some (mkTS s' (upd (tgs s) gi (mkTG (tg_created tg) (tg_ideadline tg) (tg_mdeadline tg) (tg_lastjoin tg)
                                                    (Some hi) (tg_dispatched tg))) hi)
              else None
          | None => None
          end
      | LRun gi _ | LCancel gi =>
          Some (mkTS s' (set_tg (tgs s) gi (fun tg => mkTG (tg_created tg) (tg_ideadline tg) (tg_mdeadline tg) (tg_lastjoin tg)
                                                           (tg_woken tg) (Some hi))) hi)
      | _ => Some (mkTS s' (tgs s) hi)
      end
  end.

Fixpoint trun (cfg : tconfig) (s : tstate) (tr : list tlabel) : option tstate :=
  match tr with
  | [] => Some s
  | l :: t => match tstep cfg s l with
              | Some s' => trun cfg s' t
              | None => None
              end
  end.

Definition erase (tr : list tlabel) : list label := map (fun tl => snd tl) tr.

(* ---- schedules in which timers fire on time and the creator is not delayed ---- *)

Definition is_waiting (p : phase) : bool := match p with Open => true | _ => false end.
Definition is_busy (p : phase) : bool := match p with Woken | Unpub => true | _ => false end.

(* the step is exact (lo = hi), time does not go backwards, it does not pass the instant at which a timer of a
   group whose creator still waits is due (the creator would have woken first), and it does not pass the instant
   at which a woken creator woke up (the creator goes on to dispatch without delay) *)
Fixpoint on_time_groups (gs : list group) (tg : list tgroup) (at_ : Z) : bool :=
  match gs, tg with
  | g :: gs', t :: tg' =>
      (if is_waiting (g_phase g) then (at_ <=? tg_ideadline t) && (at_ <=? tg_mdeadline t) else true) &&
      (if is_busy (g_phase g) then match tg_woken t with Some w => at_ <=? w | None => false end else true) &&
      on_time_groups gs' tg' at_
  | _, _ => true
  end.

Definition on_time (s : tstate) (tl : tlabel) : bool :=
  let '(lo, hi, _) := tl in
  (lo =? hi) && (tnow s <=? lo) && on_time_groups (groups (ts s)) (tgs s) hi.

Fixpoint prun (cfg : tconfig) (s : tstate) (tr : list tlabel) : option tstate :=
  match tr with
  | [] => Some s
  | l :: t => if on_time s l then
                match tstep cfg s l with
                | Some s' => prun cfg s' t
                | None => None
                end
              else None
  end.

(* ---- trace conformance with measured stamps ---- *)

Definition tevent := (Z * Z * label * obs)%type.

(* how the harness writes an event: the stamps are parsed as integers through the argument scope *)
Definition ev (lo hi : Z) (l : label) (o : obs) : tevent := (lo, hi, l, o).

(* returns (final state or None if an event is not an enabled step of the untimed system, observation
   mismatches, events that are steps of the untimed system but not of the timed one: a timer wake-up that came
   too early) *)
Fixpoint treplay (cfg : tconfig) (evs : list tevent) (s : tstate) (bad early : nat) : option tstate * nat * nat :=
  match evs with
  | [] => (Some s, bad, early)
  | (lo, hi, l, o) :: t =>
      match step (ts s) l with
      | None => (None, bad, early)
      | Some s' =>
          let bad' := if obs_ok (ts s) s' l o then bad else S bad in
          match tstep cfg s (lo, hi, l) with
          | Some s2 => treplay cfg t s2 bad' early
          | None =>
              (* go on with the wake-up taken at its deadline, so that one early timer is counted once *)
              let s2 := match l with
                        | LWake gi _ => mkTS s' (set_tg (tgs s) gi (fun tg => mkTG (tg_created tg) (tg_ideadline tg) (tg_mdeadline tg)
                                                                              (tg_lastjoin tg) (Some hi) (tg_dispatched tg))) hi
                        | _ => mkTS s' (tgs s) hi
                        end in
              treplay cfg t s2 bad' (S early)
          end
      end
  end.

Record tcase := mk_tcase {
  tk_maxsizes : list nat;
  tk_config : tconfig;
  tk_events : list tevent;
  tk_all_returned : bool
}.

(* component codes: 1-3 as in Batch.Model.check_case; 4 a wake-up by the interval or max-duration timer before
   the timer's duration had elapsed since it was (re-)armed *)
Definition check_tcase (c : tcase) : list nat :=
  match treplay (tk_config c) (tk_events c) (tinit (tk_maxsizes c)) 0 0 with
  | (None, _, _) => [1%nat]
  | (Some s, bad, early) =>
      (if Nat.eqb bad 0 then [] else [2%nat]) ++
      (if Bool.eqb (all_returned (ts s)) (tk_all_returned c) then [] else [3%nat]) ++
      (if Nat.eqb early 0 then [] else [4%nat])
  end.

Fixpoint tmismatches_from_sparse (_ : nat) (cs : list (nat * tcase)) : list (nat * list nat) :=
  match cs with
  | [] => []
  | (i, c) :: t => match check_tcase c with
                   | [] => tmismatches_from_sparse 0 t
                   | l => (i, l) :: tmismatches_from_sparse 0 t
                   end
  end.
