(** C02: first message full, updates carry their own id, nothing after unsubscribe, and convergence:
    the merge.ts client that folds the updates of one subscription holds the stripped result of its last
    successful run.  Convergence is proved inside a Section whose hypothesis is the C03 round trip. *)
From Coq Require Import List ZArith String Bool Arith Lia.
From Thunder Require Import Lib.Json DiffMerge.Model Server.Model Server.Spec Server.Proofs Server.ProofsLife
     Server.ProofsJeq.
Import ListNotations.
Open Scope list_scope.

(** * What one computation does, as two functions *)

Definition run_env (rid : nat) (r : runner) (o : outcome) : option envelope :=
  let id := r_sub r in
  match r_kind r with
  | KSub =>
      match o with
      | OCancelled => None
      | OErr m => if r_initial r then Some (mk_env id EError (JStr m) (Some rid)) else None
      | OOk v =>
          match Diff (r_prev r) v with
          | Some d => Some (mk_env id EUpdate d (Some rid))
          | None => if r_initial r then Some (mk_env id EUpdate (JObj []) (Some rid)) else None
          end
      end
  | KMut =>
      match o with
      | OOk v => Some (mk_env id EResult (match Diff JNull v with Some d => d | None => JNull end) (Some rid))
      | OErr m => Some (mk_env id EError (JStr m) (Some rid))
      | OCancelled => Some (mk_env id EError (JStr internal_error) (Some rid))
      end
  end.

Definition run_runner (r : runner) (o : outcome) : runner :=
  match r_kind r with
  | KSub =>
      match o with
      | OCancelled => set_stat r Failed
      | OErr m => if r_initial r then set_stat r Failed else r
      | OOk v => mk_runner (r_sub r) KSub Live false v
      end
  | KMut => set_stat r Failed
  end.

Lemma do_run_out_gen s rid r o :
  st_out (do_run s rid r o) =
  match run_env rid r o with Some e => if st_wfail s then st_out s else e :: st_out s | None => st_out s end.
Proof.
  unfold do_run, run_env. destruct (r_kind r); destruct o; cbn;
    repeat match goal with
           | |- context [if r_initial r then _ else _] => destruct (r_initial r); cbn
           | |- context [match Diff ?a ?b with Some _ => _ | None => _ end] => destruct (Diff a b); cbn
           end; reflexivity.
Qed.

(** as long as writes succeed *)
Lemma do_run_out s rid r o : st_wfail s = false ->
  st_out (do_run s rid r o) = match run_env rid r o with Some e => e :: st_out s | None => st_out s end.
Proof. intros W. rewrite do_run_out_gen, W. reflexivity. Qed.

Lemma do_run_out_incl s rid r o e : In e (st_out (do_run s rid r o)) ->
  In e (match run_env rid r o with Some e0 => e0 :: st_out s | None => st_out s end).
Proof.
  rewrite do_run_out_gen. destruct (run_env rid r o); [|auto]. destruct (st_wfail s); [right; assumption | auto].
Qed.

Lemma do_run_runner s rid r o : st_runners s rid = Some r -> st_runners (do_run s rid r o) rid = Some (run_runner r o).
Proof.
  intros Hr. unfold do_run, run_runner. destruct (r_kind r); destruct o; cbn;
    repeat match goal with
           | |- context [if r_initial r then _ else _] => destruct (r_initial r); cbn
           | |- context [match Diff ?a ?b with Some _ => _ | None => _ end] => destruct (Diff a b); cbn
           end; try apply upd_same; exact Hr.
Qed.

Lemma do_run_other s rid r o rid' : rid' <> rid -> st_runners (do_run s rid r o) rid' = st_runners s rid'.
Proof.
  intros Hne. unfold do_run. destruct (r_kind r); destruct o; cbn;
    repeat match goal with
           | |- context [if r_initial r then _ else _] => destruct (r_initial r); cbn
           | |- context [match Diff ?a ?b with Some _ => _ | None => _ end] => destruct (Diff a b); cbn
           end; try reflexivity; apply upd_other; exact Hne.
Qed.

Lemma do_run_next s rid r o : st_next (do_run s rid r o) = st_next s.
Proof.
  unfold do_run. destruct (r_kind r); destruct o; cbn;
    repeat match goal with
           | |- context [if r_initial r then _ else _] => destruct (r_initial r); cbn
           | |- context [match Diff ?a ?b with Some _ => _ | None => _ end] => destruct (Diff a b); cbn
           end; reflexivity.
Qed.

Lemma run_env_src rid r o e : run_env rid r o = Some e -> e_src e = Some rid /\ e_id e = r_sub r.
Proof.
  unfold run_env. destruct (r_kind r); destruct o;
    repeat match goal with
           | |- context [if r_initial r then _ else _] => destruct (r_initial r)
           | |- context [match Diff ?a ?b with Some _ => _ | None => _ end] => destruct (Diff a b)
           end; intros H; inversion H; subst; cbn; auto.
Qed.

(** * Steps that are not run completions *)

Definition inv_pend2 (s : state) : Prop := forall e, st_pend s = Some e -> e_src e = None /\ e_type e = EError.

Lemma step_pend2 cfg s l s' : inv_pend2 s -> step cfg s l = Some s' -> inv_pend2 s'.
Proof.
  unfold inv_pend2. intros Hp Hs. destruct l; crush_step Hs;
    try exact Hp; try (intros e [= <-]; split; reflexivity); try discriminate.
Qed.

Definition is_run (l : label) : bool := match l with LRun _ _ => true | _ => false end.

Inductive change0 (s s' : state) (rid : nat) : Prop :=
| c0_same : st_runners s' rid = st_runners s rid -> change0 s s' rid
| c0_stop : forall r, st_runners s rid = Some r -> st_runners s' rid = Some (set_stat r Stopped) -> change0 s s' rid
| c0_new : forall id k, st_runners s rid = None -> rid = st_next s ->
                        st_runners s' rid = Some (mk_runner id k Live true JNull) -> change0 s s' rid.

Lemma change0_ext s s1 s' rid : st_runners s1 = st_runners s -> st_next s1 = st_next s -> change0 s1 s' rid -> change0 s s' rid.
Proof.
  intros E1 E2 H. destruct H as [E|r E0 E3|id k E0 E3 E5].
  - apply c0_same. rewrite E, E1. reflexivity.
  - eapply c0_stop; [rewrite <- E1; exact E0 | exact E3].
  - eapply c0_new; [rewrite <- E1; exact E0 | rewrite <- E2; exact E3 | exact E5].
Qed.

Lemma change0_accept s id k b rid : inv_fresh s -> change0 s (accept s id k b) rid.
Proof.
  intros Hf. unfold accept. destruct (Nat.eq_dec rid (st_next s)) as [->|Hne].
  - eapply c0_new; cbn [st_runners st_next]; [|reflexivity|apply upd_same].
    destruct (st_runners s (st_next s)) eqn:E; [|reflexivity]. apply Hf in E. lia.
  - apply c0_same. cbn [st_runners]. apply upd_other. exact Hne.
Qed.

Lemma change0_close_entry s id rid' rid : change0 s (close_entry s id rid') rid.
Proof.
  unfold close_entry. destruct (Nat.eq_dec rid rid') as [->|Hne].
  - destruct (st_runners s rid') eqn:E.
    + eapply c0_stop; [exact E|]. cbn [st_runners]. apply stop_in_same. exact E.
    + apply c0_same. cbn [st_runners]. unfold stop_in. rewrite E. exact E.
  - apply c0_same. cbn [st_runners]. apply stop_in_other. exact Hne.
Qed.

Lemma change0_close_id s id rid : change0 s (close_id s id) rid.
Proof. unfold close_id. destruct (find_id id (st_subs s)); [apply change0_close_entry | apply c0_same; reflexivity]. Qed.

Lemma change0_close_all cfg s rid : change0 s (close_all cfg s) rid.
Proof.
  unfold close_all. destruct (st_runners s rid) eqn:E.
  - destruct (has_rid rid (st_subs s)) eqn:Eh.
    + eapply c0_stop; [exact E|]. cbn [st_runners]. rewrite E, Eh. reflexivity.
    + apply c0_same. cbn [st_runners]. rewrite E, Eh. reflexivity.
  - apply c0_same. cbn [st_runners]. rewrite E. reflexivity.
Qed.

Lemma step_change0 cfg s l s' rid : inv_fresh s -> is_run l = false -> step cfg s l = Some s' -> change0 s s' rid.
Proof.
  intros Hf Hl Hs. destruct l; try discriminate Hl; cbn [step] in Hs.
  - destruct (ready s); [|discriminate]. inversion Hs; subst; clear Hs. unfold do_subscribe.
    destruct q; try (apply c0_same; reflexivity);
      (destruct (has_id id (st_subs s)); [apply c0_same; reflexivity|]);
      (destruct (Nat.ltb (c_max cfg) (List.length (st_subs s) + 1)); [apply c0_same; reflexivity|]).
    + apply change0_accept; assumption.
    + apply c0_same; reflexivity.
  - destruct (ready s); [|discriminate]. inversion Hs; subst; clear Hs. unfold do_mutate.
    destruct q; try (apply c0_same; reflexivity);
      (destruct (c_fix_mutdup cfg && has_id id (st_subs s)); [apply c0_same; reflexivity|]).
    + apply change0_accept; assumption.
    + apply c0_same; reflexivity.
  - destruct (ready s); [|discriminate]. inversion Hs; subst. apply change0_close_id.
  - destruct (ready s); [|discriminate]. inversion Hs; subst. apply c0_same; reflexivity.
  - destruct (ready s); [|discriminate]. inversion Hs; subst. destruct ok; apply c0_same; reflexivity.
  - destruct (ready s); [|discriminate]. inversion Hs; subst. apply c0_same; reflexivity.
  - destruct (ready0 s); [|discriminate]. inversion Hs; subst. apply change0_close_all.
  - destruct (st_pend s); [|discriminate]. destruct (st_closed s); [discriminate|]. inversion Hs; subst. apply c0_same; reflexivity.
  - inversion Hs; subst. apply c0_same; reflexivity.
  - inversion Hs; subst. apply c0_same; reflexivity.
  - destruct (mem_task (id, rid0) (st_tasks s)); [|discriminate]. inversion Hs; subst; clear Hs.
    unfold do_close_task.
    set (s1 := set_tasks s (remove_task (id, rid0) (st_tasks s))).
    apply (change0_ext s s1); [reflexivity | reflexivity |].
    destruct (c_fix_aba cfg); [|apply change0_close_id].
    destruct (find_id id (st_subs s1)); [|apply c0_same; reflexivity].
    destruct (Nat.eqb n rid0); [apply change0_close_entry | apply c0_same; reflexivity].
  - destruct (ready0 s); [|discriminate]. inversion Hs; subst. apply change0_close_all.
  - inversion Hs; subst. apply c0_same; reflexivity.
  - inversion Hs; subst. apply c0_same; reflexivity.
Qed.

(** What a step that is not a run completion writes: nothing, or one envelope of the reader goroutine
    (an error reply or an echo). *)
Lemma step_out0 cfg s l s' : inv_pend2 s -> is_run l = false -> step cfg s l = Some s' ->
  st_out s' = st_out s \/ exists e, st_out s' = e :: st_out s /\ e_src e = None /\ e_type e <> EUpdate.
Proof.
  intros Hp Hl Hs. destruct l; try discriminate Hl; crush_step Hs; auto;
    try (destruct (st_wfail s); [left; reflexivity|]);
    try (right; eexists; repeat split; cbn; congruence).
  right. match goal with [ H : st_pend s = Some ?e |- _ ] => destruct (Hp _ H) as [A B]; exists e end.
  repeat split; auto. congruence.
Qed.

(** * Chronological views after one more envelope *)

Lemma writes_cons rid s s' e : st_out s' = e :: st_out s ->
  writes_of rid s' = writes_of rid s ++ (if src_is rid e then [e] else []).
Proof.
  unfold writes_of, out_of. intros ->. cbn [rev]. rewrite filter_app. cbn [filter]. destruct (src_is rid e); reflexivity.
Qed.

Lemma updates_cons rid s s' e : st_out s' = e :: st_out s ->
  updates_of rid s' = updates_of rid s ++ (if src_is rid e && is_update e then [e] else []).
Proof.
  unfold updates_of, out_of. intros ->. cbn [rev]. rewrite filter_app. cbn [filter].
  destruct (src_is rid e && is_update e); reflexivity.
Qed.

Lemma writes_same rid s s' : st_out s' = st_out s -> writes_of rid s' = writes_of rid s.
Proof. unfold writes_of, out_of. intros ->. reflexivity. Qed.

Lemma updates_same rid s s' : st_out s' = st_out s -> updates_of rid s' = updates_of rid s.
Proof. unfold updates_of, out_of. intros ->. reflexivity. Qed.

Definition first_ok (l : list envelope) : Prop :=
  match l with [] => True | e :: _ => is_full e \/ e_type e = EError end.

Lemma first_ok_app l x : l <> [] -> first_ok l -> first_ok (l ++ x).
Proof. destruct l; [congruence | auto]. Qed.

(** every envelope with a source was written by a rerunner that exists *)
Definition inv_src (s : state) : Prop := forall e rid, In e (st_out s) -> e_src e = Some rid -> rid < st_next s.

Lemma step_inv_src cfg s l s' : Lite s -> inv_pend2 s -> inv_src s -> step cfg s l = Some s' -> inv_src s'.
Proof.
  intros [Hf Hp] Hp2 H Hs e rid Hin Hsrc. pose proof (step_next _ _ _ _ Hs) as Hn.
  destruct (is_run l) eqn:R.
  - destruct l; try discriminate. cbn [step] in Hs.
    destruct (st_runners s rid0) as [r0|] eqn:E; [|discriminate]. destruct (is_live r0); [|discriminate].
    inversion Hs; subst. apply do_run_out_incl in Hin. rewrite do_run_next.
    destruct (run_env rid0 r0 o) as [e0|] eqn:Ee.
    + destruct Hin as [<-|Hin]; [|eauto]. apply run_env_src in Ee as [A _]. rewrite A in Hsrc. inversion Hsrc; subst.
      eapply Hf; eauto.
    + eauto.
  - destruct (step_out0 cfg s l s' Hp2 R Hs) as [E|(e0 & E & A & _)]; rewrite E in Hin.
    + specialize (H _ _ Hin Hsrc). lia.
    + destruct Hin as [<-|Hin]; [congruence|]. specialize (H _ _ Hin Hsrc). lia.
Qed.

Lemma no_writes_fresh s rid : inv_src s -> st_next s <= rid -> writes_of rid s = [] /\ updates_of rid s = [].
Proof.
  intros H Hle.
  assert (X : forall f, (forall e, f e = true -> src_is rid e = true) -> filter f (out_of s) = []).
  { intros f Hfe. unfold out_of. induction (rev (st_out s)) as [|e t IH] eqn:Q; [reflexivity|].
    assert (Hall : forall e', In e' (rev (st_out s)) -> f e' = false).
    { intros e' Hin. destruct (f e') eqn:F; [|reflexivity]. apply Hfe in F. unfold src_is in F.
      destruct (e_src e') as [r|] eqn:S; [|discriminate]. apply Nat.eqb_eq in F. subst r.
      apply in_rev in Hin. specialize (H _ _ Hin S). lia. }
    rewrite Q in Hall. clear - Hall. induction (e :: t) as [|a l IH]; [reflexivity|]. cbn [filter].
    rewrite (Hall a) by (left; reflexivity). apply IH. intros e' Hin. apply Hall. right; exact Hin. }
  split; [apply X; auto | apply X]. intros e He. apply andb_prop in He. apply He.
Qed.

Section Convergence.

  (** The C03 round trip for the JavaScript client (Props/C03.v, [roundtrip_js]). *)
  Hypothesis roundtrip : forall old new, wf old = true -> wf new = true ->
    match Diff old new with
    | None => jeq (strip old) (strip new)
    | Some d => jeq (MergeJS (strip old) d) (strip new)
    end.

  (** What holds of a subscription's rerunner, the envelopes it wrote and the client that folded them. *)
  Definition runner_ok (s : state) (rid : nat) (r : runner) : Prop :=
    r_kind r = KSub ->
    (r_initial r = true -> r_prev r = JNull /\ updates_of rid s = [] /\ (is_live r = true -> writes_of rid s = []))
    /\ (r_initial r = false -> wf (r_prev r) = true /\ jeq (client_state rid s) (strip (r_prev r)) /\ writes_of rid s <> [])
    /\ first_ok (writes_of rid s).

  Definition inv_conv (s : state) : Prop := forall rid r, st_runners s rid = Some r -> runner_ok s rid r.

  Lemma runner_ok_ext s s' rid r :
    writes_of rid s' = writes_of rid s -> updates_of rid s' = updates_of rid s -> runner_ok s rid r -> runner_ok s' rid r.
  Proof. unfold runner_ok, client_state. intros -> ->. auto. Qed.

  Lemma runner_ok_stat s rid r st : st <> Live -> runner_ok s rid r -> runner_ok s rid (set_stat r st).
  Proof.
    unfold runner_ok. cbn. intros Hst H K. destruct (H K) as (A & B & C). repeat split; auto.
    - apply A; assumption.
    - apply A; assumption.
    - unfold is_live. cbn. destruct st; congruence.
    - apply B; assumption.
    - apply B; assumption.
    - apply B; assumption.
  Qed.

  Lemma client_snoc l d : client_fold (l ++ [d]) = merge_js d (client_fold l).
  Proof. unfold client_fold. rewrite fold_left_app. reflexivity. Qed.

  Lemma Diff_null_obj l : Diff JNull (JObj l) = Some (JArr [strip (JObj l)]).
  Proof. reflexivity. Qed.

  Lemma step_conv cfg s l s' :
    good_label l = true -> st_wfail s = false -> Lite s -> inv_pend2 s -> inv_src s -> inv_conv s ->
    step cfg s l = Some s' -> inv_conv s'.
  Proof.
    intros G Hw [Hf Hp] Hp2 Hsrc H Hs rid r' Hr'.
    destruct (is_run l) eqn:R.
    - (* a computation of rid0 completes *)
      destruct l as [| | | | | | | | rid0 o | | | | | |]; try discriminate. cbn [step] in Hs.
      destruct (st_runners s rid0) as [r0|] eqn:E; [|discriminate]. destruct (is_live r0) eqn:L; [|discriminate].
      inversion Hs; subst s'; clear Hs.
      pose proof (do_run_out s rid0 r0 o Hw) as Ho.
      destruct (Nat.eq_dec rid rid0) as [->|Hne].
      + rewrite (do_run_runner s rid0 r0 o E) in Hr'. inversion Hr'; subst r'; clear Hr'.
        specialize (H _ _ E). intros K.
        assert (K0 : r_kind r0 = KSub).
        { unfold run_runner in K. destruct (r_kind r0) eqn:Q; [reflexivity|]. cbn in K. congruence. }
        destruct (H K0) as (HA & HB & HC).
        unfold run_runner, run_env in *. rewrite K0 in *.
        destruct o as [v | m |].
        * (* OOk v *)
          cbn [good_label] in G. apply andb_prop in G as [Gw Go]. destruct v as [| | | | |fields]; try discriminate.
          cbn [r_initial r_prev r_kind r_sub].
          destruct (r_initial r0) eqn:I.
          -- destruct (HA eq_refl) as (P & U & W). specialize (W L). rewrite P in Ho. rewrite Diff_null_obj in Ho.
             unfold client_state.
             rewrite (writes_cons _ _ _ _ Ho), (updates_cons _ _ _ _ Ho). rewrite U, W.
             unfold src_is, is_update. cbn [e_src e_type]. rewrite Nat.eqb_refl. cbn [andb app map e_msg].
             split; [intros X; discriminate X|]. split.
             ++ intros _. split; [exact Gw|]. split; [|discriminate].
                unfold client_fold. cbn [fold_left merge_js hd]. apply jeq_refl.
             ++ left. split; [reflexivity | eexists; reflexivity].
          -- destruct (HB eq_refl) as (Wp & J & Wn).
             pose proof (roundtrip (r_prev r0) (JObj fields) Wp Gw) as RT.
             destruct (Diff (r_prev r0) (JObj fields)) as [d|] eqn:D.
             ++ unfold client_state. rewrite (writes_cons _ _ _ _ Ho), (updates_cons _ _ _ _ Ho).
                unfold src_is, is_update. cbn [e_src e_type]. rewrite Nat.eqb_refl. cbn [andb].
                split; [intros X; discriminate X|]. split.
                ** intros _. split; [exact Gw|]. split.
                   --- rewrite map_app. cbn [map]. rewrite client_snoc. cbn [e_msg].
                       eapply jeq_trans; [apply merge_js_jeq; exact J | exact RT].
                   --- intros X. apply app_eq_nil in X as [_ X]. discriminate.
                ** apply first_ok_app; assumption.
             ++ unfold client_state. rewrite (writes_same _ _ _ Ho), (updates_same _ _ _ Ho).
                split; [intros X; discriminate X|]. split; [|exact HC].
                intros _. split; [exact Gw|]. split; [|exact Wn].
                eapply jeq_trans; [exact J | exact RT].
        * (* OErr m *)
          destruct (r_initial r0) eqn:I.
          -- destruct (HA eq_refl) as (P & U & W). specialize (W L).
             rewrite (writes_cons _ _ _ _ Ho), (updates_cons _ _ _ _ Ho). rewrite U, W.
             unfold src_is, is_update. cbn [e_src e_type]. rewrite Nat.eqb_refl. cbn [andb app].
             cbn [set_stat r_initial r_prev]. rewrite I.
             split; [|split].
             ++ intros _. split; [exact P|]. split; [reflexivity|]. unfold is_live; cbn. discriminate.
             ++ intros X; discriminate X.
             ++ right. reflexivity.
          -- unfold client_state. rewrite (writes_same _ _ _ Ho), (updates_same _ _ _ Ho). rewrite I.
             split; [intros X; discriminate X|]. split; [|exact HC]. intros _. exact (HB eq_refl).
        * (* OCancelled *)
          cbn [set_stat r_initial r_prev]. unfold client_state in *.
          rewrite (writes_same _ _ _ Ho), (updates_same _ _ _ Ho).
          split; [|split; [exact HB | exact HC]].
          intros X. destruct (HA X) as (P & U & W). split; [exact P|]. split; [exact U|]. unfold is_live; cbn. discriminate.
      + rewrite (do_run_other s rid0 r0 o rid Hne) in Hr'. specialize (H _ _ Hr').
        apply (runner_ok_ext s); [| |exact H].
        * destruct (run_env rid0 r0 o) as [e|] eqn:Ee; [|apply writes_same; exact Ho].
          rewrite (writes_cons _ _ _ _ Ho). apply run_env_src in Ee as [A _].
          rewrite (src_is_other rid rid0 e A) by auto. apply app_nil_r.
        * destruct (run_env rid0 r0 o) as [e|] eqn:Ee; [|apply updates_same; exact Ho].
          rewrite (updates_cons _ _ _ _ Ho). apply run_env_src in Ee as [A _].
          rewrite (src_is_other rid rid0 e A) by auto. apply app_nil_r.
    - (* any other step: the rerunner is untouched, stopped, or brand new; nothing is written in its name *)
      assert (W : writes_of rid s' = writes_of rid s /\ updates_of rid s' = updates_of rid s).
      { destruct (step_out0 cfg s l s' Hp2 R Hs) as [E|(e & E & A & _)].
        - split; [apply writes_same | apply updates_same]; exact E.
        - rewrite (writes_cons _ _ _ _ E), (updates_cons _ _ _ _ E). unfold src_is. rewrite A. cbn. rewrite !app_nil_r. auto. }
      destruct W as [W1 W2].
      destruct (step_change0 cfg s l s' rid Hf R Hs) as [C|r0 C0 C1|id k C0 C1 C2].
      + rewrite C in Hr'. apply (runner_ok_ext s); auto.
      + rewrite C1 in Hr'. inversion Hr'; subst r'. apply (runner_ok_ext s); auto. apply runner_ok_stat; [discriminate | auto].
      + rewrite C2 in Hr'. inversion Hr'; subst r'. intros _.
        destruct (no_writes_fresh s rid Hsrc) as [N1 N2]; [lia|].
        rewrite W1, W2, N1, N2. cbn. repeat split; auto; discriminate.
  Qed.

  Definition Conv (s : state) : Prop := Lite s /\ inv_pend2 s /\ inv_src s /\ inv_conv s.

  Lemma Conv_init : Conv init.
  Proof.
    split; [apply Lite_init|]. split; [intros e H; discriminate|]. split; [intros e rid []|]. intros rid r H; discriminate.
  Qed.

  (** writes never start succeeding again *)
  Lemma step_wfail cfg s l s' : step cfg s l = Some s' -> st_wfail s' = false -> st_wfail s = false.
  Proof.
    intros Hs. destruct l; crush_step Hs; auto; try discriminate.
  Qed.

  Lemma run_wfail cfg h : forall s s', run cfg s h = Some s' -> st_wfail s' = false -> st_wfail s = false.
  Proof.
    induction h as [|l t IH]; intros s s' Hr W; cbn [run] in Hr.
    - inversion Hr; subst; exact W.
    - destruct (step cfg s l) as [s1|] eqn:E; [|discriminate]. eapply step_wfail; eauto.
  Qed.

  Lemma run_Conv cfg h : forall s s',
    forallb good_label h = true -> Conv s -> run cfg s h = Some s' -> st_wfail s' = false -> Conv s'.
  Proof.
    induction h as [|l t IH]; intros s s' G H Hr W; cbn [run] in Hr.
    - inversion Hr; subst; exact H.
    - cbn [forallb] in G. apply andb_prop in G as [G1 G2].
      destruct (step cfg s l) as [s1|] eqn:E; [|discriminate].
      assert (W1 : st_wfail s1 = false) by (eapply run_wfail; eauto).
      assert (W0 : st_wfail s = false) by (eapply step_wfail; eauto).
      destruct H as (A & B & C & D). eapply IH; [exact G2 | | exact Hr | exact W].
      split; [eapply step_Lite; eauto|]. split; [eapply step_pend2; eauto|].
      split; [eapply step_inv_src; eauto | eapply step_conv; eauto].
  Qed.

  (** Convergence: in every state reached by a history whose successful computations return well-formed
      objects and in which no socket write has failed (the client is still there), the merge.ts client that
      folded all update messages of subscription [rid] holds (up to the order of object keys) the
      key-stripped result of that subscription's last successful computation. *)
  Theorem convergence cfg h s rid r :
    forallb good_label h = true -> run cfg init h = Some s -> st_wfail s = false ->
    st_runners s rid = Some r -> r_kind r = KSub -> r_initial r = false ->
    jeq (client_state rid s) (strip (r_prev r)).
  Proof.
    intros G Hr W Hs K I. destruct (run_Conv cfg h init s G Conv_init Hr W) as (_ & _ & _ & C).
    destruct (C _ _ Hs K) as (_ & B & _). apply B. exact I.
  Qed.

  (** First message: the first envelope a subscription's rerunner writes is a full update (or the error
      that ends it). *)
  Theorem first_message_full cfg h s rid r :
    forallb good_label h = true -> run cfg init h = Some s -> st_wfail s = false ->
    st_runners s rid = Some r -> r_kind r = KSub -> first_ok (writes_of rid s).
  Proof.
    intros G Hr W Hs K. destruct (run_Conv cfg h init s G Conv_init Hr W) as (_ & _ & _ & C).
    destruct (C _ _ Hs K) as (_ & _ & F). exact F.
  Qed.

End Convergence.

(** * Updates carry the id of the subscription that computed them *)

Definition inv_own (s : state) : Prop :=
  forall e rid, In e (st_out s) -> e_src e = Some rid -> exists r, st_runners s rid = Some r /\ e_id e = r_sub r.

Lemma run_runner_sub r o : r_sub (run_runner r o) = r_sub r.
Proof. unfold run_runner. destruct (r_kind r); destruct o; try destruct (r_initial r); reflexivity. Qed.

Lemma step_inv_own cfg s l s' : Lite s -> inv_pend2 s -> inv_own s -> step cfg s l = Some s' -> inv_own s'.
Proof.
  intros [Hf Hp] Hp2 H Hs e rid Hin Hsrc.
  destruct (is_run l) eqn:R.
  - destruct l as [| | | | | | | | rid0 o | | | | | |]; try discriminate. cbn [step] in Hs.
    destruct (st_runners s rid0) as [r0|] eqn:E; [|discriminate]. destruct (is_live r0); [|discriminate].
    inversion Hs; subst s'; clear Hs. apply do_run_out_incl in Hin.
    assert (Old : In e (st_out s) -> exists r, st_runners (do_run s rid0 r0 o) rid = Some r /\ e_id e = r_sub r).
    { intros Hin'. destruct (H _ _ Hin' Hsrc) as (r & A & B). destruct (Nat.eq_dec rid rid0) as [->|Hne].
      - rewrite E in A. inversion A; subst r. eexists. split; [apply do_run_runner; exact E|]. rewrite run_runner_sub. exact B.
      - exists r. split; [rewrite do_run_other by exact Hne; exact A | exact B]. }
    destruct (run_env rid0 r0 o) as [e0|] eqn:Ee; [|auto].
    destruct Hin as [<-|Hin]; [|auto]. apply run_env_src in Ee as [A B]. rewrite A in Hsrc. inversion Hsrc; subst rid.
    eexists. split; [apply do_run_runner; exact E|]. rewrite run_runner_sub. exact B.
  - assert (Hin' : In e (st_out s)).
    { destruct (step_out0 cfg s l s' Hp2 R Hs) as [E|(e0 & E & A & _)]; rewrite E in Hin; [exact Hin|].
      destruct Hin as [<-|Hin]; [congruence | exact Hin]. }
    destruct (H _ _ Hin' Hsrc) as (r & A & B).
    destruct (step_change0 cfg s l s' rid Hf R Hs) as [C|r0 C0 C1|id k C0 C1 C2].
    + exists r. rewrite C. auto.
    + rewrite A in C0. inversion C0; subst r0. eexists. split; [exact C1 | exact B].
    + congruence.
Qed.

Theorem updates_carry_own_id cfg h s : run cfg init h = Some s -> inv_own s.
Proof.
  assert (G : forall h s0 s1, Lite s0 -> inv_pend2 s0 -> inv_own s0 -> run cfg s0 h = Some s1 -> inv_own s1).
  { clear. induction h as [|l t IH]; intros s0 s1 A B C Hr; cbn [run] in Hr.
    - inversion Hr; subst; exact C.
    - destruct (step cfg s0 l) as [s2|] eqn:E; [|discriminate].
      eapply IH; [| | |exact Hr]; [eapply step_Lite | eapply step_pend2 | eapply step_inv_own]; eauto. }
  intros Hr. eapply G; eauto; [apply Lite_init | intros e H; discriminate | intros e rid []].
Qed.

(** * Nothing for an id after its unsubscribe was processed *)

(** no rerunner created for [id] is still able to run *)
Definition quiet (id : nat) (s : state) : Prop :=
  forall rid r, st_runners s rid = Some r -> r_sub r = id -> r_stat r = Stopped.

Definition accepts_for (id : nat) (l : label) : bool :=
  match l with
  | LSubscribe i _ | LMutate i _ => Nat.eqb i id
  | _ => false
  end.

Lemma unsubscribe_quiets cfg s id s' : c_fix_mutdup cfg = true -> Inv s -> step cfg s (LUnsubscribe id) = Some s' -> quiet id s'.
Proof.
  intros F HI Hs. pose proof (step_Inv cfg s _ s' F HI Hs) as (Hn & Hm & Hl & Hf & Hc).
  cbn [step] in Hs. destruct (ready s); [|discriminate]. inversion Hs; subst s'; clear Hs.
  assert (Hno : has_id id (st_subs (close_id s id)) = false).
  { unfold close_id. destruct (find_id id (st_subs s)) eqn:E.
    - unfold close_entry; cbn [st_subs]. rewrite has_id_remove_id, Nat.eqb_refl. reflexivity.
    - unfold has_id. rewrite E. reflexivity. }
  intros rid r Hr Hsub. destruct (r_stat r) eqn:St; auto; exfalso.
  - assert (X : r_stat r <> Stopped) by congruence. specialize (Hl _ _ Hr X). rewrite Hsub in Hl.
    apply has_id_false_notin in Hno. apply Hno. apply (in_map fst) in Hl. exact Hl.
  - assert (X : r_stat r <> Stopped) by congruence. specialize (Hl _ _ Hr X). rewrite Hsub in Hl.
    apply has_id_false_notin in Hno. apply Hno. apply (in_map fst) in Hl. exact Hl.
Qed.

(** a rerunner appears only through a subscribe / mutate message with its id *)
Lemma step_new_sub cfg s l s' rid r' :
  step cfg s l = Some s' -> st_runners s rid = None -> st_runners s' rid = Some r' -> accepts_for (r_sub r') l = true.
Proof.
  intros Hs Hn Hr'. destruct l; crush_step Hs; cbn in Hr';
    try (rewrite Hn in Hr'; discriminate);
    repeat match type of Hr' with
           | context [stop_in ?m ?k] => unfold stop_in in Hr'
           | context [match st_runners s ?k with _ => _ end] => destruct (st_runners s k) eqn:?
           | context [upd ?m ?k ?v ?x] => unfold upd in Hr'
           | context [if Nat.eqb ?a ?b then _ else _] => destruct (Nat.eqb a b) eqn:?
           end;
    try (rewrite Hn in Hr'; discriminate); try discriminate;
    try (inversion Hr'; subst; cbn; apply Nat.eqb_refl);
    try (match goal with [ Q : Nat.eqb rid ?n = true |- _ ] => apply Nat.eqb_eq in Q; subst; congruence end).
Qed.

Lemma step_quiet cfg s l s' id : Lite s -> accepts_for id l = false -> quiet id s -> step cfg s l = Some s' -> quiet id s'.
Proof.
  intros [Hf Hp] Ha Q Hs rid r' Hr' Hsub.
  destruct (is_run l) eqn:R.
  - destruct l as [| | | | | | | | rid0 o | | | | | |]; try discriminate. cbn [step] in Hs.
    destruct (st_runners s rid0) as [r0|] eqn:E; [|discriminate]. destruct (is_live r0) eqn:L; [|discriminate].
    inversion Hs; subst s'; clear Hs. destruct (Nat.eq_dec rid rid0) as [->|Hne].
    + rewrite (do_run_runner _ _ _ _ E) in Hr'. inversion Hr'; subst r'. rewrite run_runner_sub in Hsub.
      specialize (Q _ _ E Hsub). unfold is_live in L. rewrite Q in L. discriminate.
    + rewrite do_run_other in Hr' by exact Hne. eauto.
  - destruct (step_change0 cfg s l s' rid Hf R Hs) as [C|r0 C0 C1|id' k C0 C1 C2].
    + rewrite C in Hr'. eauto.
    + rewrite C1 in Hr'. inversion Hr'; subst r'. reflexivity.
    + pose proof (step_new_sub cfg s l s' rid r' Hs C0 Hr') as X. rewrite Hsub in X. congruence.
Qed.

Lemma step_quiet_out cfg s l s' id e : inv_pend2 s -> quiet id s -> step cfg s l = Some s' ->
  In e (st_out s') -> e_id e = id -> e_type e = EUpdate -> In e (st_out s).
Proof.
  intros Hp2 Q Hs Hin Hid Hty.
  destruct (is_run l) eqn:R.
  - destruct l as [| | | | | | | | rid0 o | | | | | |]; try discriminate. cbn [step] in Hs.
    destruct (st_runners s rid0) as [r0|] eqn:E; [|discriminate]. destruct (is_live r0) eqn:L; [|discriminate].
    inversion Hs; subst s'; clear Hs. apply do_run_out_incl in Hin.
    destruct (run_env rid0 r0 o) as [e0|] eqn:Ee; [|exact Hin].
    destruct Hin as [<-|Hin]; [|exact Hin]. exfalso. apply run_env_src in Ee as [_ B].
    rewrite Hid in B. symmetry in B. specialize (Q _ _ E B). unfold is_live in L. rewrite Q in L. discriminate.
  - destruct (step_out0 cfg s l s' Hp2 R Hs) as [E|(e0 & E & _ & B)]; rewrite E in Hin; [exact Hin|].
    destruct Hin as [<-|Hin]; [contradiction | exact Hin].
Qed.

Lemma run_pend2 cfg h : forall s0 s1, inv_pend2 s0 -> run cfg s0 h = Some s1 -> inv_pend2 s1.
Proof.
  induction h as [|l t IH]; intros s0 s1 A Hr; cbn [run] in Hr.
  - inversion Hr; subst; exact A.
  - destruct (step cfg s0 l) eqn:E; [|discriminate]. eapply IH; [|exact Hr]. eapply step_pend2; eauto.
Qed.

Lemma reachable_pend2 cfg s : reachable cfg s -> inv_pend2 s.
Proof. intros [h Hr]. eapply run_pend2; [|exact Hr]. intros e H; discriminate. Qed.

Lemma quiet_run_out cfg id h : forall s1 s2,
  forallb (fun l => negb (accepts_for id l)) h = true -> quiet id s1 -> Lite s1 -> inv_pend2 s1 -> run cfg s1 h = Some s2 ->
  forall e, In e (st_out s2) -> e_id e = id -> e_type e = EUpdate -> In e (st_out s1).
Proof.
  induction h as [|l t IH]; intros s1 s2 Hh Q L1 P1 Hrun e Hin Hid Hty; cbn [run] in Hrun.
  - inversion Hrun; subst; exact Hin.
  - cbn [forallb] in Hh. apply andb_prop in Hh as [H1 H2]. apply negb_true_iff in H1.
    destruct (step cfg s1 l) as [s3|] eqn:E; [|discriminate].
    eapply (step_quiet_out cfg s1 l s3 id e P1 Q E); auto.
    eapply (IH s3 s2 H2); eauto; [eapply step_quiet | eapply step_Lite | eapply step_pend2]; eauto.
Qed.

(** After the unsubscribe for [id] was processed, no update for [id] is written until a subscribe /
    mutate message with that id arrives (which may start a new subscription). *)
Theorem no_update_after_unsubscribe cfg s id s1 h s2 :
  c_fix_mutdup cfg = true -> reachable cfg s -> step cfg s (LUnsubscribe id) = Some s1 ->
  forallb (fun l => negb (accepts_for id l)) h = true -> run cfg s1 h = Some s2 ->
  forall e, In e (st_out s2) -> e_id e = id -> e_type e = EUpdate -> In e (st_out s1).
Proof.
  intros F R Hs Hh Hrun.
  apply (quiet_run_out cfg id h s1 s2 Hh); auto.
  - exact (unsubscribe_quiets cfg s id s1 F (reachable_Inv cfg s F R) Hs).
  - eapply step_Lite; [apply (reachable_Lite cfg s R) | exact Hs].
  - eapply step_pend2; [apply (reachable_pend2 cfg s R) | exact Hs].
Qed.
