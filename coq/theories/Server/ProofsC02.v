(** The statements of Props/C02.v, proved from Server/ProofsConv.v. *)
From Coq Require Import List ZArith String Bool Arith.
From Thunder Require Import Lib.Json DiffMerge.Model DiffMerge.ProofsJS Server.Model Server.Spec Server.Proofs Server.ProofsLife
     Server.ProofsConv Server.Witness Server.Queries Server.ProofsQueries.
Import ListNotations.

(** The round trip for the JavaScript client, as proved for C03 (DiffMerge/ProofsJS.v). *)
Lemma roundtrip_js_fact : forall old new, wf old = true -> wf new = true ->
  match Diff old new with
  | None => jeq (strip old) (strip new)
  | Some d => jeq (MergeJS (strip old) d) (strip new)
  end.
Proof. intros old new Ho Hn. exact (roundtrip_js_all new old Ho Hn). Qed.

Lemma convergence_l : forall cfg h s rid r,
  forallb good_label h = true -> run cfg init h = Some s -> st_wfail s = false ->
  st_runners s rid = Some r -> r_kind r = KSub -> r_initial r = false ->
  jeq (client_state rid s) (strip (r_prev r)).
Proof. exact (convergence roundtrip_js_fact). Qed.

Lemma first_message_full_l : forall cfg h s rid r,
  forallb good_label h = true -> run cfg init h = Some s -> st_wfail s = false ->
  st_runners s rid = Some r -> r_kind r = KSub ->
  match writes_of rid s with [] => True | e :: _ => is_full e \/ e_type e = EError end.
Proof. exact (first_message_full roundtrip_js_fact). Qed.

(** a successful computation of a subscription stores its result as [previous] *)
Lemma run_stores_result_l : forall cfg s rid r v s',
  st_runners s rid = Some r -> r_kind r = KSub -> step cfg s (LRun rid (OOk v)) = Some s' ->
  exists r', st_runners s' rid = Some r' /\ r_prev r' = v /\ r_initial r' = false /\ r_kind r' = KSub.
Proof.
  intros cfg s rid r v s' Hr K Hs. cbn [step] in Hs. rewrite Hr in Hs. destruct (is_live r); [|discriminate].
  inversion Hs; subst. eexists. split; [apply do_run_runner; exact Hr|]. unfold run_runner. rewrite K. cbn. auto.
Qed.

Lemma updates_carry_own_id_l : forall cfg h s e rid,
  run cfg init h = Some s -> In e (st_out s) -> e_src e = Some rid ->
  exists r, st_runners s rid = Some r /\ e_id e = r_sub r.
Proof. intros cfg h s e rid Hr. exact (updates_carry_own_id cfg h s Hr e rid). Qed.

Lemma no_update_after_unsubscribe_l : forall cfg s id s1 h s2,
  c_fix_mutdup cfg = true -> reachable cfg s -> step cfg s (LUnsubscribe id) = Some s1 ->
  forallb (fun l => negb (accepts_for id l)) h = true -> run cfg s1 h = Some s2 ->
  forall e, In e (st_out s2) -> e_id e = id -> e_type e = EUpdate -> In e (st_out s1).
Proof. exact no_update_after_unsubscribe. Qed.

(** With the original handleMutate an update for id 0 is written after unsubscribe 0 was processed. *)
Definition h_f13_c02 : list label :=
  [LSubscribe 0 QOk; LRun 0 (OOk v1); LMutate 0 QOk; LRun 1 (OOk v1); LCloseTask 0 1].

Lemma no_update_after_unsubscribe_refuted_l :
  exists s s1 s2 e, run (only_mutdup_missing 3) init h_f13_c02 = Some s
    /\ step (only_mutdup_missing 3) s (LUnsubscribe 0) = Some s1
    /\ step (only_mutdup_missing 3) s1 (LRun 0 (OOk v2)) = Some s2
    /\ In e (st_out s2) /\ e_id e = 0 /\ e_type e = EUpdate /\ ~ In e (st_out s1).
Proof.
  destruct (run (only_mutdup_missing 3) init h_f13_c02) as [s|] eqn:E; [|vm_compute in E; discriminate].
  destruct (step (only_mutdup_missing 3) s (LUnsubscribe 0)) as [s1|] eqn:E1;
    [|vm_compute in E; inversion E; subst; vm_compute in E1; discriminate].
  destruct (step (only_mutdup_missing 3) s1 (LRun 0 (OOk v2))) as [s2|] eqn:E2;
    [|vm_compute in E; inversion E; subst; vm_compute in E1; inversion E1; subst; vm_compute in E2; discriminate].
  exists s, s1, s2.
  vm_compute in E; inversion E; subst. vm_compute in E1; inversion E1; subst. vm_compute in E2; inversion E2; subst.
  eexists. split; [reflexivity|]. split; [reflexivity|]. split; [reflexivity|].
  cbn [st_out]. split; [left; reflexivity|]. split; [reflexivity|]. split; [reflexivity|].
  intros H. cbn in H. repeat (destruct H as [H|H]; [inversion H|]). exact H.
Qed.

(** Non-vacuity of convergence: a history with three successful runs (one without change) and the
    client state it leads to. *)
Definition h_conv : list label :=
  [LSubscribe 0 QOk;
   LRun 0 (OOk (JObj [("items", JArr [JObj [("__key", JNum 1); ("n", JNum 5)]; JObj [("__key", JNum 2); ("n", JNum 6)]])]));
   LRun 0 (OOk (JObj [("items", JArr [JObj [("__key", JNum 2); ("n", JNum 7)]; JObj [("__key", JNum 1); ("n", JNum 5)]]); ("a", JNum 3)]));
   LRun 0 (OOk (JObj [("items", JArr [JObj [("__key", JNum 2); ("n", JNum 7)]; JObj [("__key", JNum 1); ("n", JNum 5)]]); ("a", JNum 3)]))].

Lemma conv_example_l :
  forallb good_label h_conv = true /\
  exists s, run (repaired 3) init h_conv = Some s /\ List.length (updates_of 0 s) = 2
            /\ norm (client_state 0 s) = JObj [("a", JNum 3); ("items", JArr [JObj [("n", JNum 7)]; JObj [("n", JNum 5)]])].
Proof.
  split; [reflexivity|]. eexists. split; [vm_compute; reflexivity|]. split; vm_compute; reflexivity.
Qed.

(** * Own query, own variables (Server/Queries.v) *)

Lemma computations_execute_own_query_l : forall cfg h1 s1 qs1 rid t h2 s2 qs2 o tok p3,
  runQ cfg (init, []) h1 = Some (s1, qs1) -> qlookup rid qs1 = Some t ->
  runQ cfg (s1, qs1) h2 = Some (s2, qs2) -> stepQ cfg (s2, qs2) (LRun rid o, tok) = Some p3 -> tok = t.
Proof. exact computations_execute_own_query. Qed.

Lemma subscribe_records_its_query_l : forall cfg h s qs l tok s' qs',
  runQ cfg (init, []) h = Some (s, qs) -> creates l = true -> stepQ cfg (s, qs) (l, tok) = Some (s', qs') ->
  st_next s < st_next s' -> qlookup (st_next s) qs' = Some tok.
Proof.
  intros cfg h s qs l tok s' qs' H. apply subscribe_records_its_query. exact (runQ_QInv cfg h _ _ QInv_init H).
Qed.

(** two subscriptions with the same text (token family 7x) and different variables, then runs of both *)
Definition h_vars : list (label * nat) :=
  [(LSubscribe 0 QOk, 71); (LSubscribe 1 QOk, 72); (LRun 0 (OOk v1), 71); (LUnsubscribe 0, 0); (LSubscribe 0 QOk, 73);
   (LRun 1 (OOk v2), 72); (LRun 2 (OOk v1), 73)].

Lemma vars_example_l :
  exists s qs, runQ (repaired 3) (init, []) h_vars = Some (s, qs) /\ qs = [(2, 73); (1, 72); (0, 71)]
  /\ stepQ (repaired 3) (s, qs) (LRun 2 (OOk v2), 71) = None.
Proof. eexists. eexists. split; [vm_compute; reflexivity|]. split; reflexivity. Qed.
