(** Which query a computation executes.  handleSubscribe / handleMutate parse the query text together with
    the variables of the message once, and the function given to the rerunner captures that parsed query:
    every computation of the rerunner executes it.  This file adds that to the connection model as a monitor
    over annotated labels (executable definitions only): the annotation of an accepted subscribe / mutate is
    the token of its (query text, variables) pair, the annotation of a run completion is the token of the
    query the computation executed.  [qs] maps rerunners to the token they were created with. *)
From Coq Require Import List ZArith String Bool Arith.
From Thunder Require Import Lib.Json DiffMerge.Model Server.Model Server.Spec.
Import ListNotations.
Open Scope list_scope.

Definition qstate := list (nat * nat).   (* rerunner -> query token, newest first *)

Fixpoint qlookup (rid : nat) (qs : qstate) : option nat :=
  match qs with
  | [] => None
  | (r, t) :: rest => if Nat.eqb r rid then Some t else qlookup rid rest
  end.

Definition creates (l : label) : bool :=
  match l with LSubscribe _ _ | LMutate _ _ => true | _ => false end.

(** [s] before and [s'] after the step of the connection model. *)
Definition qeffect (s s' : state) (l : label) (tok : nat) (qs : qstate) : option qstate :=
  match l with
  | LRun rid _ =>
      match qlookup rid qs with
      | Some t => if Nat.eqb t tok then Some qs else None    (* a computation executes the query of its rerunner *)
      | None => None
      end
  | _ =>
      if creates l && Nat.ltb (st_next s) (st_next s')
      then Some ((st_next s, tok) :: qs)                       (* accepted: the new rerunner captures the query *)
      else Some qs
  end.

Definition stepQ (cfg : config) (p : state * qstate) (lt : label * nat) : option (state * qstate) :=
  match step cfg (fst p) (fst lt) with
  | None => None
  | Some s' =>
      match qeffect (fst p) s' (fst lt) (snd lt) (snd p) with
      | Some qs' => Some (s', qs')
      | None => None
      end
  end.

Fixpoint runQ (cfg : config) (p : state * qstate) (h : list (label * nat)) : option (state * qstate) :=
  match h with
  | [] => Some p
  | lt :: t => match stepQ cfg p lt with Some p' => runQ cfg p' t | None => None end
  end.
