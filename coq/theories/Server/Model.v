(** Executable model of the websocket connection of graphql/server.go
    (conn, handleSubscribe, handleMutate, closeSubscription(s), handle, ServeJSONSocket) over the
    interface of reactive.Rerunner (run / Stop / failed).  See DESIGN.md section 7 (C17 / C02).

    A labelled transition system.  One label = one atomic section of the Go code:
    - a message handled by the reader goroutine (the part of handleSubscribe / handleMutate /
      closeSubscription that runs under conn.mu, or the lock-free echo / url / unknown branches);
    - [LFlush]: the reader goroutine writing the error reply of the message it just handled
      (ServeJSONSocket writes it after handle returned, i.e. after conn.mu was released);
    - [LRun rid o]: one computation of rerunner [rid] completing with outcome [o] (the function passed
      to reactive.NewRerunner runs under the rerunner's own mutex, Stop() waits for it, so the
      completion - diff, write, `go c.closeSubscription(id)`, return value - is one atomic step as far
      as conn is concerned);
    - [LCloseTask id rid]: the body of a `go c.closeSubscription(id)` spawned by a run of [rid];
    - [LSocketClose] / [LMalformed]: ReadJSON fails, ServeJSONSocket returns, closeSubscriptions runs;
    - [LBreak]: the socket starts failing writes; every later write is lost and makes writeOrClose close
      the socket, after which the reader can only observe the close;
    - [LRegister]: a resolver registers a reactive resource (the connection does not react; the release
      obligation of the rerunner interface is layered on top in Server/Release.v);
    - [LInvalidate], [LCtxCancel]: environment events the connection itself does not react to (when a
      rerunner re-runs is the business of the reactive package, C04; this model over-approximates:
      a live rerunner may complete a run at any time).

    [config] carries the subscription limit and one flag per repair, so that the same [step] is the
    model of the code as repaired (all flags [true]) and of the original code (flags [false]):
      c_fix_closelog  closeSubscriptions logs Unsubscribe                     (F12, C17-fix-1)
      c_fix_mutdup    handleMutate rejects an id that is in the map           (F13, C17-fix-2)
      c_fix_mutsub    handleMutate logs Subscribe (closeSubscription logs Unsubscribe for it)  (C17-fix-3)
      c_fix_aba       an asynchronous close only closes the rerunner that spawned it (F14, C17-fix-4) *)
From Coq Require Import List ZArith String Bool Arith.
From Thunder Require Import Lib.Json DiffMerge.Model.
Import ListNotations.
Open Scope string_scope.
Open Scope list_scope.

Inductive kind := KSub | KMut.
Inductive rstat := Live | Failed | Stopped.

(** One reactive.Rerunner together with the variables its closure captured. *)
Record runner := mk_runner {
  r_sub : nat;          (* id of the subscription it was created for *)
  r_kind : kind;
  r_stat : rstat;       (* Live: may run again; Failed: returned a non-retry error; Stopped: Stop() called *)
  r_initial : bool;     (* `initial` *)
  r_prev : json         (* `previous` (JNull = nil) *)
}.

Inductive etype := EUpdate | EResult | EError | EEcho.

(** outEnvelope.  [e_src] is a ghost field: the rerunner whose run wrote it ([None]: the reader goroutine). *)
Record envelope := mk_env { e_id : nat; e_type : etype; e_msg : json; e_src : option nat }.

Inductive logev := LgSub (id : nat) | LgUnsub (id : nat).

Record config := mk_cfg {
  c_max : nat;
  c_fix_closelog : bool;
  c_fix_mutdup : bool;
  c_fix_mutsub : bool;
  c_fix_aba : bool
}.

Definition repaired (max : nat) : config := mk_cfg max true true true true.
Definition original (max : nat) : config := mk_cfg max false false false false.

Record state := mk_state {
  st_runners : nat -> option runner;   (* every rerunner ever created, by creation number *)
  st_next : nat;                       (* number of rerunners created so far *)
  st_subs : list (nat * nat);          (* conn.subscriptions : id -> rerunner *)
  st_out : list envelope;              (* socket output, newest first *)
  st_log : list logev;                 (* SubscriptionLogger calls, newest first *)
  st_tasks : list (nat * nat);         (* spawned, not yet executed `go c.closeSubscription(id)` (id, spawning rerunner) *)
  st_pend : option envelope;           (* error reply the reader goroutine is about to write *)
  st_closed : bool;                    (* ServeJSONSocket has returned *)
  st_wfail : bool;                     (* socket.WriteJSON fails from now on (peer gone, broken pipe) *)
  st_sockclosed : bool                 (* a write has failed: writeOrClose called socket.Close(), the next ReadJSON fails *)
}.

Definition init : state := mk_state (fun _ => None) 0 [] [] [] [] None false false false.

Inductive outcome :=
| OOk (v : json)          (* Execute returned v *)
| OErr (msg : string)     (* Execute failed; msg = SanitizeError err *)
| OCancelled.             (* ErrorCause err = context.Canceled *)

Inductive qres :=
| QOk
| QBadMsg                 (* envelope.message does not unmarshal into subscribeMessage / mutateMessage *)
| QBadQuery (msg : string). (* Parse or PrepareQuery rejects; msg = SanitizeError err *)

Inductive label :=
| LSubscribe (id : nat) (q : qres)
| LMutate (id : nat) (q : qres)
| LUnsubscribe (id : nat)
| LEcho (id : nat)
| LUrl (id : nat) (ok : bool)
| LUnknown (id : nat)
| LMalformed
| LFlush
| LRun (rid : nat) (o : outcome)
| LInvalidate (rid : nat)
| LCtxCancel
| LCloseTask (id rid : nat)
| LSocketClose
| LRegister (rid res : nat)   (* a resolver of a computation of [rid] registers resource [res] (see Server/Release.v) *)
| LBreak.                     (* from now on socket.WriteJSON fails *)

(** * Small helpers *)

Definition upd {A} (m : nat -> option A) (k : nat) (v : A) : nat -> option A :=
  fun k' => if Nat.eqb k' k then Some v else m k'.

Fixpoint find_id (id : nat) (l : list (nat * nat)) : option nat :=
  match l with
  | [] => None
  | (i, r) :: t => if Nat.eqb i id then Some r else find_id id t
  end.

Definition has_id (id : nat) (l : list (nat * nat)) : bool :=
  match find_id id l with Some _ => true | None => false end.

Fixpoint remove_id (id : nat) (l : list (nat * nat)) : list (nat * nat) :=
  match l with
  | [] => []
  | (i, r) :: t => if Nat.eqb i id then remove_id id t else (i, r) :: remove_id id t
  end.

Fixpoint has_rid (rid : nat) (l : list (nat * nat)) : bool :=
  match l with
  | [] => false
  | (_, r) :: t => Nat.eqb r rid || has_rid rid t
  end.

Definition pair_eqb (a b : nat * nat) : bool := Nat.eqb (fst a) (fst b) && Nat.eqb (snd a) (snd b).

Fixpoint mem_task (x : nat * nat) (l : list (nat * nat)) : bool :=
  match l with [] => false | y :: t => pair_eqb x y || mem_task x t end.

Fixpoint remove_task (x : nat * nat) (l : list (nat * nat)) : list (nat * nat) :=
  match l with
  | [] => []
  | y :: t => if pair_eqb x y then t else y :: remove_task x t
  end.

Definition set_stat (r : runner) (st : rstat) : runner :=
  mk_runner (r_sub r) (r_kind r) st (r_initial r) (r_prev r).

Definition is_live (r : runner) : bool := match r_stat r with Live => true | _ => false end.
Definition is_stopped (r : runner) : bool := match r_stat r with Stopped => true | _ => false end.

Definition internal_error : string := "Internal server error".
Definition err_env (id : nat) (msg : string) : envelope := mk_env id EError (JStr msg) None.

(** * State updates *)

Definition set_pend (s : state) (e : envelope) : state :=
  mk_state (st_runners s) (st_next s) (st_subs s) (st_out s) (st_log s) (st_tasks s) (Some e) (st_closed s) (st_wfail s) (st_sockclosed s).

(** writeOrClose: the envelope reaches the socket, or - when WriteJSON fails - is lost and the socket is closed. *)
Definition push_out (s : state) (e : envelope) : state :=
  mk_state (st_runners s) (st_next s) (st_subs s) (if st_wfail s then st_out s else e :: st_out s) (st_log s)
           (st_tasks s) (st_pend s) (st_closed s) (st_wfail s) (st_sockclosed s || st_wfail s).

Definition set_runner (s : state) (rid : nat) (r : runner) : state :=
  mk_state (upd (st_runners s) rid r) (st_next s) (st_subs s) (st_out s) (st_log s) (st_tasks s) (st_pend s) (st_closed s) (st_wfail s) (st_sockclosed s).

Definition add_task (s : state) (id rid : nat) : state :=
  mk_state (st_runners s) (st_next s) (st_subs s) (st_out s) (st_log s) ((id, rid) :: st_tasks s) (st_pend s) (st_closed s) (st_wfail s) (st_sockclosed s).

Definition set_tasks (s : state) (t : list (nat * nat)) : state :=
  mk_state (st_runners s) (st_next s) (st_subs s) (st_out s) (st_log s) t (st_pend s) (st_closed s) (st_wfail s) (st_sockclosed s).

(** `c.subscriptions[id] = reactive.NewRerunner(...)`, preceded by `Subscribe` when [logsub].
    A map assignment replaces an existing entry (only the original handleMutate can get here with one). *)
Definition accept (s : state) (id : nat) (k : kind) (logsub : bool) : state :=
  let rid := st_next s in
  mk_state (upd (st_runners s) rid (mk_runner id k Live true JNull)) (S rid)
           ((id, rid) :: remove_id id (st_subs s)) (st_out s)
           (if logsub then LgSub id :: st_log s else st_log s)
           (st_tasks s) (st_pend s) (st_closed s) (st_wfail s) (st_sockclosed s).

Definition stop_in (m : nat -> option runner) (rid : nat) : nat -> option runner :=
  match m rid with Some r => upd m rid (set_stat r Stopped) | None => m end.

(** The body of `if runner, ok := c.subscriptions[id]; ok { Stop; delete; Unsubscribe }`. *)
Definition close_entry (s : state) (id rid : nat) : state :=
  mk_state (stop_in (st_runners s) rid) (st_next s) (remove_id id (st_subs s)) (st_out s)
           (LgUnsub id :: st_log s) (st_tasks s) (st_pend s) (st_closed s) (st_wfail s) (st_sockclosed s).

Definition close_id (s : state) (id : nat) : state :=
  match find_id id (st_subs s) with Some rid => close_entry s id rid | None => s end.

(** closeSubscriptions: every rerunner in the map is stopped, the map is emptied. *)
Definition close_all (cfg : config) (s : state) : state :=
  mk_state (fun k => match st_runners s k with
                     | Some r => if has_rid k (st_subs s) then Some (set_stat r Stopped) else Some r
                     | None => None
                     end)
           (st_next s) [] (st_out s)
           ((if c_fix_closelog cfg then map (fun p => LgUnsub (fst p)) (st_subs s) else []) ++ st_log s)
           (st_tasks s) (st_pend s) true (st_wfail s) (st_sockclosed s).

(** The reader goroutine is between two messages.  ([st_sockclosed] does not disable the message labels:
    ReadJSON may have handed over a message just before a failing write of some computation closed the
    socket, and that message is then still handled.  The model lets any number of queued messages through,
    the code at most that one; the next ReadJSON fails, which is [LSocketClose].) *)
Definition ready0 (s : state) : bool :=
  negb (st_closed s) && match st_pend s with None => true | Some _ => false end.
Definition ready (s : state) : bool := ready0 s.

Definition do_subscribe (cfg : config) (s : state) (id : nat) (q : qres) : state :=
  match q with
  | QBadMsg => set_pend s (err_env id internal_error)
  | _ =>
      if has_id id (st_subs s) then set_pend s (err_env id "duplicate subscription")
      else if Nat.ltb (c_max cfg) (List.length (st_subs s) + 1) then set_pend s (err_env id "too many subscriptions")
      else match q with
           | QBadQuery m => set_pend s (err_env id m)
           | _ => accept s id KSub true
           end
  end.

Definition do_mutate (cfg : config) (s : state) (id : nat) (q : qres) : state :=
  match q with
  | QBadMsg => set_pend s (err_env id internal_error)
  | _ =>
      if c_fix_mutdup cfg && has_id id (st_subs s) then set_pend s (err_env id "duplicate subscription")
      else match q with
           | QBadQuery m => set_pend s (err_env id m)
           | _ => accept s id KMut (c_fix_mutsub cfg)
           end
  end.

(** One computation of a live rerunner completing. *)
Definition do_run (s : state) (rid : nat) (r : runner) (o : outcome) : state :=
  let id := r_sub r in
  let failed := set_runner s rid (set_stat r Failed) in
  match r_kind r with
  | KSub =>
      match o with
      | OCancelled => add_task failed id rid
      | OErr m =>
          if r_initial r
          then add_task (push_out failed (mk_env id EError (JStr m) (Some rid))) id rid
          else s                                  (* reactive.RetrySentinelError: stays live, nothing sent *)
      | OOk v =>
          let s' := set_runner s rid (mk_runner id KSub Live false v) in
          match Diff (r_prev r) v with
          | Some d => push_out s' (mk_env id EUpdate d (Some rid))
          | None => if r_initial r then push_out s' (mk_env id EUpdate (JObj []) (Some rid)) else s'
          end
      end
  | KMut =>
      match o with
      | OOk v =>
          add_task (push_out failed (mk_env id EResult
                                            (match Diff JNull v with Some d => d | None => JNull end)
                                            (Some rid))) id rid
      | OErr m => add_task (push_out failed (mk_env id EError (JStr m) (Some rid))) id rid
      | OCancelled => add_task (push_out failed (mk_env id EError (JStr internal_error) (Some rid))) id rid
      end
  end.

Definition do_close_task (cfg : config) (s : state) (id rid : nat) : state :=
  let s1 := set_tasks s (remove_task (id, rid) (st_tasks s)) in
  if c_fix_aba cfg
  then match find_id id (st_subs s1) with
       | Some rid' => if Nat.eqb rid' rid then close_entry s1 id rid else s1
       | None => s1
       end
  else close_id s1 id.

Definition step (cfg : config) (s : state) (l : label) : option state :=
  match l with
  | LSubscribe id q => if ready s then Some (do_subscribe cfg s id q) else None
  | LMutate id q => if ready s then Some (do_mutate cfg s id q) else None
  | LUnsubscribe id => if ready s then Some (close_id s id) else None
  | LEcho id => if ready s then Some (push_out s (mk_env id EEcho JNull None)) else None
  | LUrl id ok => if ready s then Some (if ok then s else set_pend s (err_env id internal_error)) else None
  | LUnknown id => if ready s then Some (set_pend s (err_env id "unknown message type")) else None
  | LMalformed | LSocketClose => if ready0 s then Some (close_all cfg s) else None
  | LFlush =>
      match st_pend s with
      | Some e => if st_closed s then None
                  else Some (mk_state (st_runners s) (st_next s) (st_subs s)
                                      (if st_wfail s then st_out s else e :: st_out s) (st_log s)
                                      (st_tasks s) None false (st_wfail s) (st_sockclosed s || st_wfail s))
      | None => None
      end
  | LRun rid o =>
      match st_runners s rid with
      | Some r => if is_live r then Some (do_run s rid r o) else None
      | None => None
      end
  | LInvalidate _ | LCtxCancel => Some s
  | LRegister _ _ => Some s
  | LBreak =>
      Some (mk_state (st_runners s) (st_next s) (st_subs s) (st_out s) (st_log s) (st_tasks s) (st_pend s)
                     (st_closed s) true (st_sockclosed s))
  | LCloseTask id rid =>
      if mem_task (id, rid) (st_tasks s) then Some (do_close_task cfg s id rid) else None
  end.

(** Histories. *)
Fixpoint run (cfg : config) (s : state) (h : list label) : option state :=
  match h with
  | [] => Some s
  | l :: t => match step cfg s l with Some s' => run cfg s' t | None => None end
  end.

(** * Observations on a state (used by the theorems and by the correspondence check). *)

Definition out_of (s : state) : list envelope := rev (st_out s).   (* oldest first *)
Definition log_of (s : state) : list logev := rev (st_log s).

Definition ev_id (e : logev) : nat := match e with LgSub i | LgUnsub i => i end.
Definition log_for (id : nat) (l : list logev) : list logev := filter (fun e => Nat.eqb (ev_id e) id) l.

Definition src_is (rid : nat) (e : envelope) : bool :=
  match e_src e with Some r => Nat.eqb r rid | None => false end.

(** What rerunner [rid] wrote, oldest first. *)
Definition writes_of (rid : nat) (s : state) : list envelope := filter (src_is rid) (out_of s).

(** The client of client/src: folds the update messages of one subscription with merge.ts. *)
Definition client_fold (msgs : list json) : json := fold_left (fun st d => merge_js d st) msgs JNull.

Definition is_update (e : envelope) : bool := match e_type e with EUpdate => true | _ => false end.

(** The update messages rerunner [rid] sent, oldest first. *)
Definition updates_of (rid : nat) (s : state) : list envelope :=
  filter (fun e => src_is rid e && is_update e) (out_of s).

Definition client_state (rid : nat) (s : state) : json := client_fold (map e_msg (updates_of rid s)).

