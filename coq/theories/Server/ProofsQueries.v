(** A rerunner's query (text and variables) is fixed when it is created; every computation executes it. *)
From Coq Require Import List ZArith String Bool Arith Lia.
From Thunder Require Import Lib.Json DiffMerge.Model Server.Model Server.Spec Server.Proofs Server.ProofsLife Server.Queries.
Import ListNotations.
Open Scope list_scope.

(** recorded rerunners exist already: a new record never shadows an old one *)
Definition QInv (p : state * qstate) : Prop :=
  Lite (fst p) /\ forall rid t, qlookup rid (snd p) = Some t -> rid < st_next (fst p).

Lemma stepQ_QInv cfg p lt p' : QInv p -> stepQ cfg p lt = Some p' -> QInv p'.
Proof.
  intros [HL HQ] H. unfold stepQ in H. destruct (step cfg (fst p) (fst lt)) as [s'|] eqn:E; [|discriminate].
  destruct (qeffect (fst p) s' (fst lt) (snd lt) (snd p)) as [qs'|] eqn:Eq; [|discriminate]. inversion H; subst; clear H.
  pose proof (step_next _ _ _ _ E) as Hn. split; [eapply step_Lite; eauto|]. cbn [fst snd].
  intros rid t Hl. unfold qeffect in Eq.
  assert (Old : qlookup rid (snd p) = Some t -> rid < st_next s') by (intros X; apply HQ in X; lia).
  destruct (fst lt); try (destruct (creates _ && Nat.ltb (st_next (fst p)) (st_next s')) eqn:C; inversion Eq; subst; auto;
    cbn [qlookup] in Hl; destruct (Nat.eqb (st_next (fst p)) rid) eqn:R; auto;
    apply Nat.eqb_eq in R; subst; apply andb_prop in C as [_ C]; apply Nat.ltb_lt in C; exact C).
  destruct (qlookup rid0 (snd p)); [|discriminate]. destruct (Nat.eqb n (snd lt)); inversion Eq; subst; auto.
Qed.

(** The token of a rerunner never changes. *)
Lemma stepQ_keeps cfg p lt p' rid t : QInv p -> stepQ cfg p lt = Some p' -> qlookup rid (snd p) = Some t -> qlookup rid (snd p') = Some t.
Proof.
  intros [HL HQ] H Hl. unfold stepQ in H. destruct (step cfg (fst p) (fst lt)) as [s'|] eqn:E; [|discriminate].
  destruct (qeffect (fst p) s' (fst lt) (snd lt) (snd p)) as [qs'|] eqn:Eq; [|discriminate]. inversion H; subst; clear H.
  cbn [snd]. unfold qeffect in Eq.
  destruct (fst lt); try (destruct (creates _ && Nat.ltb (st_next (fst p)) (st_next s')); inversion Eq; subst; auto;
    cbn [qlookup]; destruct (Nat.eqb (st_next (fst p)) rid) eqn:R; auto;
    apply Nat.eqb_eq in R; apply HQ in Hl; lia).
  destruct (qlookup rid0 (snd p)); [|discriminate]. destruct (Nat.eqb n (snd lt)); inversion Eq; subst; auto.
Qed.

Lemma runQ_keeps cfg h : forall p p' rid t, QInv p -> runQ cfg p h = Some p' -> qlookup rid (snd p) = Some t ->
  qlookup rid (snd p') = Some t.
Proof.
  induction h as [|lt r IH]; intros p p' rid t HI H Hl; cbn [runQ] in H.
  - inversion H; subst; exact Hl.
  - destruct (stepQ cfg p lt) as [p1|] eqn:E; [|discriminate].
    eapply IH; [eapply stepQ_QInv; eauto | exact H | eapply stepQ_keeps; eauto].
Qed.

Lemma runQ_QInv cfg h : forall p p', QInv p -> runQ cfg p h = Some p' -> QInv p'.
Proof.
  induction h as [|lt r IH]; intros p p' HI H; cbn [runQ] in H.
  - inversion H; subst; exact HI.
  - destruct (stepQ cfg p lt) as [p1|] eqn:E; [|discriminate]. eapply IH; [eapply stepQ_QInv; eauto | exact H].
Qed.

Lemma QInv_init : QInv (init, []).
Proof. split; [apply Lite_init|]. intros rid t H; discriminate. Qed.

(** Own query, own variables: in every history, whenever a computation of rerunner [rid] completes, the
    query it executed is the one (text and variables) recorded when [rid] was created - however many other
    subscriptions with the same text and other variables came in between. *)
Theorem computations_execute_own_query cfg h1 s1 qs1 rid t h2 s2 qs2 o tok p3 :
  runQ cfg (init, []) h1 = Some (s1, qs1) -> qlookup rid qs1 = Some t ->
  runQ cfg (s1, qs1) h2 = Some (s2, qs2) -> stepQ cfg (s2, qs2) (LRun rid o, tok) = Some p3 -> tok = t.
Proof.
  intros H1 Hl H2 H3.
  pose proof (runQ_QInv cfg h1 _ _ QInv_init H1) as I1.
  pose proof (runQ_keeps cfg h2 _ _ rid t I1 H2 Hl) as Hl2. cbn [snd] in Hl2.
  unfold stepQ in H3. cbn [fst snd] in H3. destruct (step cfg s2 (LRun rid o)); [|discriminate].
  cbn [qeffect] in H3. rewrite Hl2 in H3. destruct (Nat.eqb t tok) eqn:E; [|discriminate].
  apply Nat.eqb_eq in E. auto.
Qed.

(** The token recorded for a new rerunner is the one of the message that created it. *)
Theorem subscribe_records_its_query cfg s qs l tok s' qs' :
  QInv (s, qs) -> creates l = true -> stepQ cfg (s, qs) (l, tok) = Some (s', qs') -> st_next s < st_next s' ->
  qlookup (st_next s) qs' = Some tok.
Proof.
  intros HI C H Hn. unfold stepQ in H. cbn [fst snd] in H. destruct (step cfg s l) as [s1|] eqn:E; [|discriminate].
  destruct (qeffect s s1 l tok qs) as [q1|] eqn:Eq; [|discriminate]. inversion H; subst; clear H.
  unfold qeffect in Eq. destruct l; try discriminate C;
    (apply Nat.ltb_lt in Hn; rewrite C, Hn in Eq; cbn in Eq; inversion Eq; subst; cbn [qlookup]; rewrite Nat.eqb_refl; reflexivity).
Qed.
