(** The statements of Props/C17.v, proved from the invariants. *)
From Coq Require Import List String Bool Arith.
From Thunder Require Import Lib.Json DiffMerge.Model Server.Model Server.Spec Server.Proofs Server.ProofsLife
     Server.ProofsLog Server.Witness Server.Release Server.ProofsRelease.
Import ListNotations.

Lemma map_invariant_l : forall cfg s, c_fix_mutdup cfg = true -> reachable cfg s ->
  NoDup (map fst (st_subs s))
  /\ (forall id rid, In (id, rid) (st_subs s) ->
        exists r, st_runners s rid = Some r /\ r_sub r = id /\ r_stat r <> Stopped)
  /\ (forall rid r, st_runners s rid = Some r -> r_stat r <> Stopped -> In (r_sub r, rid) (st_subs s))
  /\ (st_closed s = true -> st_subs s = []).
Proof.
  intros cfg s F R. destruct (reachable_Inv cfg s F R) as (A & B & C & _ & D). auto.
Qed.

Lemma all_stopped_after_close_l : forall cfg s, c_fix_mutdup cfg = true -> reachable cfg s -> st_closed s = true ->
  forall rid r, st_runners s rid = Some r -> r_stat r = Stopped.
Proof. intros cfg s F R. exact (closed_all_stopped s (reachable_Inv cfg s F R)). Qed.

Lemma silent_after_end_l : forall cfg h s s' rid r,
  reachable cfg s -> st_runners s rid = Some r -> r_stat r = Stopped -> run cfg s h = Some s' ->
  (forall o, step cfg s' (LRun rid o) = None) /\ writes_of rid s' = writes_of rid s.
Proof. exact ProofsLife.silent_after_end. Qed.

Lemma ends_exactly_once_l : forall cfg h s rid, run cfg init h = Some s ->
  end_count cfg init h rid = if stopped_in s rid then 1 else 0.
Proof.
  intros cfg h s rid Hr. destruct (end_count_exact cfg h init s rid Lite_init Hr) as [_ B]. apply B. reflexivity.
Qed.

Lemma end_cause_l : forall cfg s l s' rid r,
  c_fix_aba cfg = true -> c_fix_mutdup cfg = true -> reachable cfg s -> step cfg s l = Some s' ->
  st_runners s rid = Some r -> r_stat r <> Stopped -> stopped_in s' rid = true ->
  l = LUnsubscribe (r_sub r) \/ l = LCloseTask (r_sub r) rid \/ l = LSocketClose \/ l = LMalformed.
Proof.
  intros cfg s l s' rid r Fa Fm R. apply ProofsLife.end_cause; [exact Fa | apply (reachable_Inv cfg s Fm R)].
Qed.

Lemma logger_alternates_l : forall cfg s, log_fixes cfg -> reachable cfg s ->
  forall id, alternates id (st_log s) = true /\ is_open id (st_log s) = has_id id (st_subs s).
Proof. intros cfg s F R. exact (reachable_inv_log cfg s F R). Qed.

Lemma logger_balanced_after_close_l : forall cfg s, log_fixes cfg -> reachable cfg s -> st_closed s = true ->
  forall id, alternates id (st_log s) = true /\ is_open id (st_log s) = false.
Proof.
  intros cfg s F R C id. destruct (reachable_inv_log cfg s F R id) as [A B]. split; [exact A|].
  rewrite B. destruct F as (_ & Fm & _). destruct (reachable_Inv cfg s Fm R) as (_ & _ & _ & _ & D).
  rewrite (D C). reflexivity.
Qed.

Lemma limit_holds_l : forall cfg s, c_fix_mutdup cfg = true -> reachable cfg s -> sub_count s <= c_max cfg.
Proof. exact reachable_inv_limit. Qed.

Lemma no_leak_refuted_l :
  exists s s', run (only_mutdup_missing 3) init h_f13 = Some s /\ st_closed s = true /\ alive_in s 0 = true
               /\ has_rid 0 (st_subs s) = false
               /\ step (only_mutdup_missing 3) s (LRun 0 (OOk v2)) = Some s'
               /\ List.length (st_out s') = S (List.length (st_out s)).
Proof. exact f13_witness. Qed.

Lemma logger_balanced_refuted_l :
  exists s, run (only_closelog_missing 3) init [LSubscribe 0 QOk; LSocketClose] = Some s
            /\ st_closed s = true /\ is_open 0 (st_log s) = true.
Proof. exact f12_witness. Qed.

Lemma logger_alternates_refuted_l :
  exists s, run (only_mutsub_missing 3) init [LMutate 0 QOk; LRun 0 (OOk v1); LCloseTask 0 0] = Some s
            /\ alternates 0 (st_log s) = false.
Proof. exact mutsub_witness. Qed.

Lemma end_cause_refuted_l :
  exists s s', run (only_aba_missing 3) init h_aba = Some s /\ alive_in s 1 = true
               /\ step (only_aba_missing 3) s (LCloseTask 0 0) = Some s' /\ stopped_in s' 1 = true.
Proof. exact aba_witness. Qed.

Lemma reachable_rich_l :
  exists s, run (repaired 5) init h_rich = Some s /\ List.length (st_subs s) = 4 /\ List.length (st_tasks s) = 1
            /\ st_pend s <> None /\ List.length (st_out s) = 3 /\ sub_count s = 3.
Proof. exact rich_reachable. Qed.

(** * A failing socket write *)

Lemma failed_write_closes_socket_l : forall s e, st_wfail s = true ->
  st_out (push_out s e) = st_out s /\ st_sockclosed (push_out s e) = true.
Proof. intros s e W. unfold push_out; cbn. rewrite W. split; [reflexivity | apply orb_true_r]. Qed.

Lemma close_always_possible_l : forall cfg s, st_closed s = false -> st_pend s = None ->
  exists s', step cfg s LSocketClose = Some s' /\ st_closed s' = true.
Proof.
  intros cfg s C P. cbn [step]. unfold ready0. rewrite C, P. cbn. eexists. split; reflexivity.
Qed.

Lemma socket_stays_closed_l : forall cfg s l s', step cfg s l = Some s' -> st_sockclosed s = true -> st_sockclosed s' = true.
Proof. intros cfg s l s' Hs C. destruct l; crush_step Hs; rewrite ?C; auto. Qed.

(** * Release *)

Lemma cleanup_at_most_once_l : forall cfg s rs, reachableR cfg (s, rs) ->
  NoDup (rs_released rs) /\
  forall e, In e (rs_entries rs) -> (In (re_res e) (rs_released rs) <-> re_phase e = RRel).
Proof. exact cleanup_at_most_once. Qed.

Lemma released_when_stopped_l : forall cfg s rs e, reachableR cfg (s, rs) ->
  In e (rs_entries rs) -> stopped_in s (re_rid e) = true ->
  re_phase e = RRel /\ In (re_res e) (rs_released rs).
Proof. exact released_when_stopped. Qed.

Lemma all_released_after_close_l : forall cfg s rs e, c_fix_mutdup cfg = true -> reachableR cfg (s, rs) ->
  st_closed s = true -> In e (rs_entries rs) ->
  re_phase e = RRel /\ In (re_res e) (rs_released rs) /\ NoDup (rs_released rs).
Proof. exact all_released_after_close. Qed.
