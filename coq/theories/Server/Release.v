(** The release obligation of the rerunner interface, layered on the connection model.

    reactive.Rerunner: a computation registers resources (reactive.NewResource + AddDependency, with a
    Cleanup callback; InvalidateAfter timers are of this kind); a successful run publishes its computation
    and releases the previous one, a failed run releases what it registered, Stop() releases the published
    computation; a released computation's resources get their Cleanup callback.  The connection's part of
    "its reactive resources are released" is therefore: call Stop on every rerunner.  This file adds that
    bookkeeping as a monitor that runs alongside [step] (executable definitions only):

    - [LRegister rid res]: a resolver of the computation in flight of rerunner [rid] registers the fresh
      resource [res] (phase [RNew]);
    - [LRun rid (OOk _)] of a subscription: [rid]'s [RCur] resources are released, its [RNew] become [RCur];
      any other run completion (error, retry, cancelled, mutations - their function always returns an
      error): its [RNew] resources are released;
    - after every step, the resources of every rerunner that is now stopped are released
      (Stop releases the computation - whatever made the connection call Stop).
    [rs_released] is the log of Cleanup calls. *)
From Coq Require Import List ZArith String Bool Arith.
From Thunder Require Import Lib.Json DiffMerge.Model Server.Model Server.Spec.
Import ListNotations.
Open Scope list_scope.

Inductive rphase := RNew | RCur | RRel.
Record rentry := mk_rentry { re_res : nat; re_rid : nat; re_phase : rphase }.
Record rstate := mk_rstate { rs_entries : list rentry; rs_released : list nat }.

Definition rinit : rstate := mk_rstate [] [].

Definition is_rel (p : rphase) : bool := match p with RRel => true | _ => false end.

Definition retag (f : rentry -> rphase) (e : rentry) : rentry := mk_rentry (re_res e) (re_rid e) (f e).

(** Apply a phase change to every entry; the resources that become released get their Cleanup call. *)
Definition rapply (f : rentry -> rphase) (rs : rstate) : rstate :=
  mk_rstate (map (retag f) (rs_entries rs))
            (map re_res (filter (fun e => negb (is_rel (re_phase e)) && is_rel (f e)) (rs_entries rs))
             ++ rs_released rs).

Definition f_publish (rid : nat) (e : rentry) : rphase :=
  if Nat.eqb (re_rid e) rid
  then match re_phase e with RCur => RRel | RNew => RCur | RRel => RRel end
  else re_phase e.

Definition f_fail (rid : nat) (e : rentry) : rphase :=
  if Nat.eqb (re_rid e) rid
  then match re_phase e with RNew => RRel | p => p end
  else re_phase e.

Definition f_sweep (s : state) (e : rentry) : rphase :=
  if stopped_in s (re_rid e) then RRel else re_phase e.

Definition has_res (res : nat) (rs : rstate) : bool := existsb (fun e => Nat.eqb (re_res e) res) (rs_entries rs).

Definition label_effect (s : state) (l : label) (rs : rstate) : option rstate :=
  match l with
  | LRegister rid res =>
      match st_runners s rid with
      | Some r => if is_live r && negb (has_res res rs)
                  then Some (mk_rstate (mk_rentry res rid RNew :: rs_entries rs) (rs_released rs))
                  else None
      | None => None
      end
  | LRun rid o =>
      match st_runners s rid with
      | Some r =>
          Some (rapply (match r_kind r, o with
                        | KSub, OOk _ => f_publish rid
                        | _, _ => f_fail rid
                        end) rs)
      | None => Some rs
      end
  | _ => Some rs
  end.

Definition stepR (cfg : config) (p : state * rstate) (l : label) : option (state * rstate) :=
  match step cfg (fst p) l with
  | None => None
  | Some s' =>
      match label_effect (fst p) l (snd p) with
      | None => None
      | Some rs1 => Some (s', rapply (f_sweep s') rs1)
      end
  end.

Fixpoint runR (cfg : config) (p : state * rstate) (h : list label) : option (state * rstate) :=
  match h with
  | [] => Some p
  | l :: t => match stepR cfg p l with Some p' => runR cfg p' t | None => None end
  end.

Definition reachableR (cfg : config) (p : state * rstate) : Prop := exists h, runR cfg (init, rinit) h = Some p.
