(** [jeq] is an equivalence the JavaScript merge respects in its "original" argument.  Needed by the
    convergence theorem of C02: the client state is only [jeq] to the stripped previous result (object
    key order differs), and the next delta is applied to the client state, not to the stripped result. *)
From Coq Require Import List ZArith String Bool Arith Lia.
From Thunder Require Import Lib.Json DiffMerge.Model.
Import ListNotations.
Open Scope string_scope.
Open Scope list_scope.

Lemma jeq_refl : forall j, jeq j j.
Proof.
  induction j using json_ind'; try constructor.
  - induction H; constructor; auto.
  - intros k. induction H as [|[k' v] t Hv Ht IH]; cbn [lookup].
    + constructor.
    + destruct (String.eqb k k'); [constructor; exact Hv | exact IH].
Qed.

Lemma lookup_In {A} k (l : list (string * A)) v : lookup k l = Some v -> In (k, v) l.
Proof.
  induction l as [|[k' v'] t IH]; cbn [lookup]; [discriminate|].
  destruct (String.eqb k k') eqn:E.
  - intros [= <-]. apply String.eqb_eq in E. subst. left; reflexivity.
  - intros H. right. auto.
Qed.

Lemma Forall2_jeq_trans (l1 : list json) :
  Forall (fun x => forall y z, jeq x y -> jeq y z -> jeq x z) l1 ->
  forall l2 l3, Forall2 jeq l1 l2 -> Forall2 jeq l2 l3 -> Forall2 jeq l1 l3.
Proof.
  induction 1 as [|x t Hx Ht IH]; intros l2 l3 H12 H23; inversion H12; subst; inversion H23; subst; constructor; eauto.
Qed.

Lemma jeq_trans : forall x y z, jeq x y -> jeq y z -> jeq x z.
Proof.
  induction x using json_ind'; intros u w Hxy Hyz; inversion Hxy; subst; inversion Hyz; subst; try constructor.
  - eapply Forall2_jeq_trans; eauto.
  - intros k.
    match goal with
    | [ H1 : forall k, orel jeq (lookup k l) (lookup k ?l2), H2 : forall k, orel jeq (lookup k ?l2) (lookup k ?l3) |- _ ] =>
        pose proof (H1 k) as A; pose proof (H2 k) as B
    end.
    destruct (lookup k l) as [a|] eqn:E1; inversion A as [|a' b' Hab Ea Eb]; subst.
    + rewrite <- Eb in B. inversion B as [|b'' c' Hbc Eb' Ec]; subst. constructor.
      apply lookup_In in E1. rewrite Forall_forall in H. specialize (H _ E1). cbn [snd] in H. eauto.
    + match goal with [ Hn : None = lookup k _ |- _ ] => rewrite <- Hn in B end.
      inversion B; subst. constructor.
Qed.

(** Unfolding of the nested fixpoint of [merge_js]. *)
Definition js_apps (entries : list (string * json)) : japps_t :=
  map (fun kv => (fst kv, (snd kv, merge_js (snd kv)))) entries.

Lemma merge_js_obj entries orig :
  merge_js (JObj entries) orig =
  match orig with
  | JArr p => js_array p (js_apps entries)
  | JObj p => js_object p (js_apps entries)
  | _ => js_object [] (js_apps entries)
  end.
Proof.
  cbn [merge_js].
  assert (E : (fix go (l : list (string * json)) : japps_t :=
                 match l with
                 | [] => []
                 | (k, dv) :: t => (k, (dv, merge_js dv)) :: go t
                 end) entries = js_apps entries).
  { induction entries as [|[k v] t IH]; [reflexivity|]. cbn [js_apps map fst snd]. rewrite IH. reflexivity. }
  rewrite E. reflexivity.
Qed.

Definition proper (f : json -> json) : Prop := forall a b, jeq a b -> jeq (f a) (f b).
Definition apps_proper (apps : japps_t) : Prop := Forall (fun e => proper (snd (snd e))) apps.

Definition leq (p1 p2 : list (string * json)) : Prop := forall k, orel jeq (lookup k p1) (lookup k p2).

Lemma lookup_remove_key {A} k k0 (m : list (string * A)) :
  lookup k (remove_key k0 m) = if String.eqb k k0 then None else lookup k m.
Proof.
  induction m as [|[k' v] t IH]; cbn [remove_key lookup].
  - destruct (String.eqb k k0); reflexivity.
  - destruct (String.eqb k0 k') eqn:E0.
    + rewrite IH. destruct (String.eqb k k0) eqn:E; [reflexivity|].
      apply String.eqb_eq in E0. subst k'. rewrite E. reflexivity.
    + cbn [lookup]. destruct (String.eqb k k') eqn:E1.
      * destruct (String.eqb k k0) eqn:E; [|reflexivity].
        apply String.eqb_eq in E. apply String.eqb_eq in E1. subst. rewrite String.eqb_refl in E0. discriminate.
      * exact IH.
Qed.

Lemma lookup_set_key k k0 v (m : list (string * json)) :
  lookup k (set_key k0 v m) = if String.eqb k k0 then Some v else lookup k m.
Proof.
  induction m as [|[k' v'] t IH]; cbn [set_key lookup].
  - destruct (String.eqb k k0); reflexivity.
  - destruct (String.eqb k0 k') eqn:E0; cbn [lookup].
    + apply String.eqb_eq in E0. subst k'. destruct (String.eqb k k0); reflexivity.
    + destruct (String.eqb k k') eqn:E1.
      * destruct (String.eqb k k0) eqn:E; [|reflexivity].
        apply String.eqb_eq in E. apply String.eqb_eq in E1. subst. rewrite String.eqb_refl in E0. discriminate.
      * exact IH.
Qed.

Lemma js_object_leq apps : apps_proper apps ->
  forall p1 p2, leq p1 p2 -> jeq (js_object p1 apps) (js_object p2 apps).
Proof.
  unfold js_object. intros Hp. induction Hp as [|[k0 [dv f]] t Hf Ht IH]; intros p1 p2 Hl; cbn [fold_left].
  - constructor. exact Hl.
  - cbn [snd] in Hf. apply IH. intros k.
    destruct (is_removed dv).
    + rewrite !lookup_remove_key. destruct (String.eqb k k0); [constructor | apply Hl].
    + rewrite !lookup_set_key. destruct (String.eqb k k0); [|apply Hl].
      constructor. apply Hf. specialize (Hl k0).
      destruct (lookup k0 p1); inversion Hl; subst; [assumption | constructor].
Qed.

Lemma Forall2_nth_jeq l1 l2 : Forall2 jeq l1 l2 -> forall i, jeq (nth i l1 JNull) (nth i l2 JNull).
Proof.
  induction 1; intros [|i]; cbn [nth]; auto; constructor.
Qed.

Lemma js_reorder_jeq p1 p2 : Forall2 jeq p1 p2 -> forall c, Forall2 jeq (js_reorder p1 c) (js_reorder p2 c).
Proof.
  intros Hp c. induction c as [|x t IH]; cbn [js_reorder]; [constructor|].
  apply Forall2_app; [|exact IH].
  assert (N : Forall2 jeq [JNull] [JNull]) by (constructor; constructor).
  destruct x as [| bb | zz | ss | ll | ll]; try exact N.
  - destruct (Z.eqb zz (-1)); [exact N|].
    constructor; [|constructor].
    unfold js_index. destruct (z_index zz); [apply Forall2_nth_jeq; exact Hp | constructor].
  - destruct ll as [|a r]; [exact N|].
    destruct a as [| ba | za | sa | la | la]; try exact N.
    destruct r as [|b r]; [exact N|].
    destruct b as [| bb | zb | sb | lb | lb]; try exact N.
    destruct (z_index za) as [n|]; [|constructor]. destruct (z_index zb) as [m|]; [|constructor].
    induction (seq n m) as [|i r' IHr]; cbn [map]; constructor; auto. apply Forall2_nth_jeq; exact Hp.
Qed.

Lemma js_apply_elems_jeq apps : apps_proper apps ->
  forall l1 l2, Forall2 jeq l1 l2 -> forall i, Forall2 jeq (js_apply_elems i l1 apps) (js_apply_elems i l2 apps).
Proof.
  intros Hp l1 l2 H. induction H; intros i; cbn [js_apply_elems]; constructor; auto.
  destruct (lookup (dec i) apps) as [[dv f]|] eqn:E; [|assumption].
  apply lookup_In in E. unfold apps_proper in Hp. rewrite Forall_forall in Hp. apply (Hp _ E). assumption.
Qed.

Lemma apps_proper_remove k apps : apps_proper apps -> apps_proper (remove_key k apps).
Proof.
  unfold apps_proper. induction 1 as [|[k' e] t He Ht IH]; cbn [remove_key]; [constructor|].
  destruct (String.eqb k k'); [exact IH | constructor; assumption].
Qed.

Lemma js_array_jeq apps : apps_proper apps ->
  forall p1 p2, Forall2 jeq p1 p2 -> jeq (js_array p1 apps) (js_array p2 apps).
Proof.
  intros Hp p1 p2 H. unfold js_array. constructor.
  apply js_apply_elems_jeq; [apply apps_proper_remove; exact Hp|].
  destruct (lookup dollar apps) as [[dv f]|]; [|exact H].
  destruct dv; try exact H. apply js_reorder_jeq; exact H.
Qed.

(** merge.ts applied to two [jeq] originals gives [jeq] results. *)
Lemma merge_js_jeq : forall d, proper (merge_js d).
Proof.
  induction d using json_ind'; intros x y Hab; try (cbn [merge_js]; apply jeq_refl).
  rewrite !merge_js_obj.
  assert (Hp : apps_proper (js_apps l)).
  { unfold apps_proper, js_apps. induction H as [|[k v] t Hv Ht IH]; cbn [map]; constructor; auto. }
  inversion Hab; subst; try apply jeq_refl.
  - apply js_array_jeq; assumption.
  - apply js_object_leq; assumption.
Qed.
