(** Convergence does not depend on which delta the server's diff chooses.  diff.go is free in how it matches the
    items of keyed lists that share a key (and hence in the index list and the sub-deltas it sends); the
    connection model fixes one choice ([Diff]).  Here: a client that folds, from nothing, ANY sequence of update
    messages each of which satisfies the round trip against the value the server held before - whatever diff
    produced them - ends up holding the stripped last value.  The model's [Diff] is one such diff (C03). *)
From Coq Require Import List ZArith String Bool Arith.
From Thunder Require Import Lib.Json DiffMerge.Model Server.Model Server.ProofsJeq.
Import ListNotations.
Open Scope list_scope.

(** One successful computation of a subscription: the new value and the update message that was sent for it
    (None: nothing was sent). *)
Definition sent := (json * option json)%type.

(** [d] takes a client holding (something [jeq] to) the stripped [prev] to the stripped [v]. *)
Definition good_delta (prev v : json) (od : option json) : Prop :=
  match od with
  | None => jeq (strip prev) (strip v)
  | Some d => jeq (merge_js d (strip prev)) (strip v)
  end.

Fixpoint good_run (prev : json) (l : list sent) : Prop :=
  match l with
  | [] => True
  | (v, od) :: t => good_delta prev v od /\ good_run v t
  end.

Fixpoint fold_client (st : json) (l : list sent) : json :=
  match l with
  | [] => st
  | (_, Some d) :: t => fold_client (merge_js d st) t
  | (_, None) :: t => fold_client st t
  end.

Fixpoint last_value (prev : json) (l : list sent) : json :=
  match l with
  | [] => prev
  | (v, _) :: t => last_value v t
  end.

Theorem any_diff_converges_l : forall l prev st,
  good_run prev l -> jeq st (strip prev) -> jeq (fold_client st l) (strip (last_value prev l)).
Proof.
  induction l as [|[v od] t IH]; intros prev st G H; cbn in *; [exact H|].
  destruct G as [G1 G2]. destruct od as [d|]; apply (IH v); try exact G2.
  - eapply jeq_trans; [apply merge_js_jeq; exact H | exact G1].
  - eapply jeq_trans; [exact H | exact G1].
Qed.

(** The model's own diff produces good deltas (the C03 round trip). *)
Lemma model_diff_good :
  (forall old new, wf old = true -> wf new = true ->
     match Diff old new with
     | None => jeq (strip old) (strip new)
     | Some d => jeq (MergeJS (strip old) d) (strip new)
     end) ->
  forall prev v, wf prev = true -> wf v = true -> good_delta prev v (Diff prev v).
Proof.
  intros RT prev v Hp Hv. specialize (RT prev v Hp Hv). unfold good_delta.
  destruct (Diff prev v); exact RT.
Qed.

(** Non-vacuity: the same two computations, reported once by the deltas the model's diff produces and once by
    full replacements - two different diffs; both runs are good and both clients end with the last value. *)
Definition w1 : json := JObj [("a", JNum 1); ("l", JArr [JObj [("__key", JNum 1); ("n", JNum 5)]])].
Definition w2 : json := JObj [("a", JNum 2); ("l", JArr [JObj [("__key", JNum 1); ("n", JNum 6)]])].
Definition run_a : list sent := [(w1, Diff JNull w1); (w2, Diff w1 w2)].
Definition run_b : list sent := [(w1, Some (JArr [strip w1])); (w2, Some (JArr [strip w2]))].

Lemma any_diff_example :
  good_run JNull run_a /\ good_run JNull run_b /\ run_a <> run_b
  /\ norm (fold_client JNull run_a) = norm (strip w2) /\ norm (fold_client JNull run_b) = norm (strip w2).
Proof.
  split; [|split; [|split; [|split]]].
  - vm_compute. split; [apply jeq_refl | split; [apply jeq_refl | exact I]].
  - vm_compute. split; [apply jeq_refl | split; [apply jeq_refl | exact I]].
  - vm_compute. discriminate.
  - vm_compute. reflexivity.
  - vm_compute. reflexivity.
Qed.
