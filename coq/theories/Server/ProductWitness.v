(** Concrete histories of the product (Server/Product.v): non-vacuity of the composed theorems.  Closed
    computations only.  The world: two data slots; rerunner 0 a subscription whose resolvers read slot 0
    through a reactive.Cache entry and slot 1 directly; rerunner 1 a mutation (reads slot 1; its function
    returns an error whatever happens, server.go:370); rerunner 2 a subscription reading slot 0, with a
    non-spawning invalidation handler. *)
From Coq Require Import List ZArith String Bool Arith.
From Thunder Require Import Lib.Json DiffMerge.Model Server.Model Server.Spec Server.Iface Server.Product Server.ProductDrive.
From Thunder Require Reactive.Graph Reactive.Rerunner.
Import ListNotations.
Open Scope string_scope.
Open Scope list_scope.

Fixpoint look (sl : nat) (out : list (nat * nat)) : Z :=
  match out with
  | [] => 0%Z
  | (s, v) :: t => if Nat.eqb s sl then Z.of_nat v else look sl t
  end.

Definition wx_render (r : nat) (out : list (nat * nat)) : json :=
  JObj [("a", JNum (look 0 out)); ("items", JArr [JObj [("__key", JNum 7); ("n", JNum (look 1 out))]])].

Definition wx : world :=
  mk_world (repaired 3) 2
           [([RR.OCache 0 [RR.ODep 0]; RR.ODep 1], true); ([RR.ODep 1; RR.OFail], true); ([RR.ODep 0], false)]
           wx_render.

Lemma wx_good : good_world wx.
Proof. intros r out. split; [reflexivity | eexists; reflexivity]. Qed.

Definition go (e : option (pstate * list plabel)) (h : list plabel) : option (pstate * list plabel) :=
  match e with
  | Some (p, h0) => match psettle 300 wx p h with Some (p', h1) => Some (p', h0 ++ h1) | None => None end
  | None => None
  end.
Definition gon (e : option (pstate * list plabel)) (h : list plabel) : option (pstate * list plabel) :=
  match e with
  | Some (p, h0) => match prun wx p h with Some p' => Some (p', h0 ++ h) | None => None end
  | None => None
  end.

Definition mres : json := JObj [("m", JNum 1)].

(** subscribe 5; slot 0 changes; mutate 6 (its computation reads slot 1 and ends with the result), its
    asynchronous close; subscribe 7; slot 0 is strobed, slot 1 invalidated; everything settles. *)
Definition x1 := go (Some (pinit wx, [])) [PServer (LSubscribe 5 QOk)].
Definition x2 := go x1 [PReact (RR.LInvalidate 0) None].
Definition x3 := gon x2 (PServer (LMutate 6 QOk) :: repeat (PReact (RR.LTask 1 0) None) 7).
Definition x4 := go x3 [PReact (RR.LTask 1 1) (Some (OOk mres))].
Definition x5 := go x4 [PServer (LCloseTask 6 1); PServer (LSubscribe 7 QOk)].
Definition x6 := go x5 [PReact (RR.LStrobe 0) None; PReact (RR.LInvalidate 1) None].
(** unsubscribe 5; slot 0 changes again; the socket closes; everything settles. *)
Definition x7 := go x6 [PServer (LUnsubscribe 5)].
Definition x8 := go x7 [PReact (RR.LInvalidate 0) None; PServer LSocketClose].

Definition h_live : list plabel := match x6 with Some (_, h) => h | None => [] end.
Definition h_end : list plabel := match x8 with Some (_, h) => h | None => [] end.

Lemma live_example :
  forallb pgood h_live = true /\
  exists sv rx ru, prun wx (pinit wx) h_live = Some (sv, rx) /\ RR.quiescent rx /\ st_wfail sv = false
    /\ st_runners sv 0 = Some ru /\ r_kind ru = KSub /\ r_stat ru = Live /\ RR.r_cancel (RR.getr rx 0) = false
    /\ RR.slot_ver rx 0 = 2 /\ RR.slot_ver rx 1 = 1 /\ RR.r_out (RR.getr rx 0) = Some [(0, 2); (1, 1)]
    /\ List.length (updates_of 0 sv) = 3 /\ List.length h_live = 136
    /\ norm (client_state 0 sv) = JObj [("a", JNum 2); ("items", JArr [JObj [("n", JNum 1)]])].
Proof.
  split; [vm_compute; reflexivity|].
  destruct (prun wx (pinit wx) h_live) as [[sv rx]|] eqn:E; [|vm_compute in E; discriminate].
  vm_compute in E. inversion E; subst; clear E.
  do 3 eexists. split; [reflexivity|]. split; [reflexivity|]. split; [reflexivity|].
  split; [vm_compute; reflexivity|]. repeat split; vm_compute; reflexivity.
Qed.

Lemma end_example :
  exists sv rx, prun wx (pinit wx) h_end = Some (sv, rx) /\ st_closed sv = true /\ RR.quiescent rx
    /\ stopped_in sv 0 = true /\ stopped_in sv 1 = true /\ stopped_in sv 2 = true
    /\ map RR.r_stop (RR.s_rrs rx) = [true; true; true] /\ map RR.r_runs (RR.s_rrs rx) = [3; 1; 2]
    /\ map Thunder.Reactive.Graph.n_cln (RR.s_nodes rx) = [1; 1; 0; 0; 1; 0; 0; 0; 0; 1; 0; 0; 0; 0; 0]
    /\ List.length (st_out sv) = 6
    /\ log_of sv = [LgSub 5; LgSub 6; LgUnsub 6; LgSub 7; LgUnsub 5; LgUnsub 7].
Proof.
  destruct (prun wx (pinit wx) h_end) as [[sv rx]|] eqn:E; [|vm_compute in E; discriminate].
  vm_compute in E. inversion E; subst; clear E.
  do 2 eexists. split; [reflexivity|]. repeat split; vm_compute; reflexivity.
Qed.

(** The interface trace of a product history, read off the reactive side (see [interface_agrees]). *)
Fixpoint ptrace (w : world) (p : pstate) (h : list plabel) : list (nat * rxev) :=
  match h with
  | [] => []
  | l :: t =>
      match pstep w p l with
      | Some p' =>
          flat_map (fun r => opt_list r (rx_ev (RR.getr (snd p) r) (RR.getr (snd p') r))) (seq 0 (pool w))
          ++ ptrace w p' t
      | None => []
      end
  end.

Lemma trace_example :
  ptrace wx (pinit wx) h_end =
  [(0, XPub false); (0, XPub true); (1, XFail); (1, XStop false); (2, XPub false); (2, XPub true);
   (0, XPub true); (0, XStop true); (2, XStop true)].
Proof. vm_compute. reflexivity. Qed.

Lemma stop_count_example :
  stop_count wx (pinit wx) h_end 0 = 1 /\ stop_count wx (pinit wx) h_end 1 = 1 /\ stop_count wx (pinit wx) h_live 0 = 0.
Proof. vm_compute. auto. Qed.
