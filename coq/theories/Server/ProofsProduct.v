(** Proofs about the product of the connection model with the reactive package (Server/Product.v):
    projections (every product history is a history of the connection model and a schedule of the reactive
    model), the coherence invariant between the connection's view of a rerunner and the rerunner itself, and
    the composed theorems of Props/C02.v (live_convergence) and Props/C17.v (after the end: no computation,
    nothing held). *)
From Coq Require Import List ZArith String Bool Arith Lia.
From Thunder Require Import Lib.Json DiffMerge.Model Server.Model Server.Spec Server.Proofs Server.ProofsLife
     Server.ProofsConv Server.ProofsC02 Server.ProofsC17 Server.Iface Server.Product Server.ProofsRuns.
From Thunder Require Reactive.Graph Reactive.Rerunner Reactive.ProofsBase Reactive.ProofsMutex.
From Thunder Require Props.C04 Props.C08.
Import ListNotations.
Open Scope list_scope.

Module RB := Thunder.Reactive.ProofsBase.
Module RM := Thunder.Reactive.ProofsMutex.
Module RG := Thunder.Reactive.Graph.

(** * Boolean equalities *)

Lemma pairs_eqb_eq a : forall b, pairs_eqb a b = true -> a = b.
Proof.
  induction a as [|[x1 y1] t IH]; intros [|[x2 y2] t2] H; cbn in H; try discriminate; [reflexivity|].
  apply andb_true_iff in H. destruct H as [H H3]. apply andb_true_iff in H. destruct H as [H1 H2].
  apply Nat.eqb_eq in H1. apply Nat.eqb_eq in H2. subst. f_equal. apply IH. exact H3.
Qed.

Lemma oout_eqb_eq a b : oout_eqb a b = true -> a = b.
Proof. destruct a, b; cbn; intros H; try discriminate; [f_equal; apply pairs_eqb_eq; exact H | reflexivity]. Qed.

Lemma onat_eqb_eq a b : onat_eqb a b = true -> a = b.
Proof. destruct a, b; cbn; intros H; try discriminate; [f_equal; apply Nat.eqb_eq; exact H | reflexivity]. Qed.

Lemma eqb_false_neg a b : negb (Bool.eqb a b) = false -> a = b.
Proof. destruct a, b; cbn; congruence. Qed.

(** * What an interface event says about the two records *)

Lemma iev_none x y : iev_of x y = INone ->
  RR.r_stop y = RR.r_stop x /\ RR.r_failed y = RR.r_failed x /\ RR.r_out y = RR.r_out x /\ RR.r_comp y = RR.r_comp x.
Proof.
  unfold iev_of. intros H.
  destruct (negb (Bool.eqb (RR.r_stop x) (RR.r_stop y))) eqn:E1; [discriminate|].
  destruct (negb (Bool.eqb (RR.r_failed x) (RR.r_failed y))) eqn:E2.
  { destruct (RR.r_failed y && oout_eqb (RR.r_out x) (RR.r_out y) && onat_eqb (RR.r_comp x) (RR.r_comp y)); discriminate. }
  destruct (onat_eqb (RR.r_comp x) (RR.r_comp y)) eqn:E3.
  - destruct (oout_eqb (RR.r_out x) (RR.r_out y)) eqn:E4; [|discriminate].
    apply eqb_false_neg in E1. apply eqb_false_neg in E2. apply oout_eqb_eq in E4. apply onat_eqb_eq in E3. auto.
  - destruct (RR.r_comp y); [destruct (RR.r_out y)|]; discriminate.
Qed.

Lemma iev_pub x y out : iev_of x y = IPub out ->
  RR.r_stop y = RR.r_stop x /\ RR.r_failed y = RR.r_failed x /\ RR.r_out y = Some out /\ RR.r_comp y <> None.
Proof.
  unfold iev_of. intros H.
  destruct (negb (Bool.eqb (RR.r_stop x) (RR.r_stop y))) eqn:E1; [discriminate|].
  destruct (negb (Bool.eqb (RR.r_failed x) (RR.r_failed y))) eqn:E2.
  { destruct (RR.r_failed y && oout_eqb (RR.r_out x) (RR.r_out y) && onat_eqb (RR.r_comp x) (RR.r_comp y)); discriminate. }
  destruct (onat_eqb (RR.r_comp x) (RR.r_comp y)) eqn:E3.
  - destruct (oout_eqb (RR.r_out x) (RR.r_out y)); discriminate.
  - apply eqb_false_neg in E1. apply eqb_false_neg in E2.
    destruct (RR.r_comp y); [|discriminate]. destruct (RR.r_out y); [|discriminate].
    inversion H; subst. repeat split; auto. discriminate.
Qed.

Lemma iev_fail x y : iev_of x y = IFail ->
  RR.r_stop y = RR.r_stop x /\ RR.r_failed x = false /\ RR.r_failed y = true /\ RR.r_out y = RR.r_out x
  /\ RR.r_comp y = RR.r_comp x.
Proof.
  unfold iev_of. intros H.
  destruct (negb (Bool.eqb (RR.r_stop x) (RR.r_stop y))) eqn:E1; [discriminate|].
  destruct (negb (Bool.eqb (RR.r_failed x) (RR.r_failed y))) eqn:E2.
  - destruct (RR.r_failed y) eqn:Fy; [|discriminate]. cbn [andb] in H.
    destruct (oout_eqb (RR.r_out x) (RR.r_out y)) eqn:E4; [|discriminate]. cbn [andb] in H.
    destruct (onat_eqb (RR.r_comp x) (RR.r_comp y)) eqn:E3; [|discriminate].
    apply eqb_false_neg in E1. apply oout_eqb_eq in E4. apply onat_eqb_eq in E3.
    destruct (RR.r_failed x); [discriminate E2|]. auto.
  - destruct (onat_eqb (RR.r_comp x) (RR.r_comp y)).
    + destruct (oout_eqb (RR.r_out x) (RR.r_out y)); discriminate.
    + destruct (RR.r_comp y); [destruct (RR.r_out y)|]; discriminate.
Qed.

(** * The list of events of a step *)

Section Events.
  Variable g : nat -> iev.

  Definition evs (l : list nat) : list (nat * iev) :=
    filter (fun p => negb (is_none (snd p))) (map (fun r => (r, g r)) l).

  Lemma evs_nil l : evs l = [] -> forall r, In r l -> g r = INone.
  Proof.
    induction l as [|a t IH]; cbn; intros H r Hin; [contradiction|].
    destruct (g a) eqn:Ea; cbn in H; try discriminate.
    destruct Hin as [<-|Hin]; [exact Ea | apply IH; assumption].
  Qed.

  Lemma evs_single l r0 e0 : evs l = [(r0, e0)] ->
    In r0 l /\ g r0 = e0 /\ e0 <> INone /\ forall r, In r l -> r <> r0 -> g r = INone.
  Proof.
    induction l as [|a t IH]; cbn; intros H; [discriminate|].
    destruct (is_none (g a)) eqn:Ea; cbn in H.
    - destruct (IH H) as (I1 & I2 & I3 & I4). split; [right; exact I1|]. split; [exact I2|]. split; [exact I3|].
      intros r [<-|Hin] Hne; [destruct (g a); try discriminate; reflexivity | apply I4; assumption].
    - inversion H; subst. split; [left; reflexivity|]. split; [reflexivity|].
      split; [intros E; rewrite E in Ea; discriminate|].
      intros r [<-|Hin] Hne; [congruence|]. eapply evs_nil; eassumption.
  Qed.
End Events.

Lemma events_evs n rx rx' :
  events n rx rx' = evs (fun r => iev_of (RR.getr rx r) (RR.getr rx' r)) (seq 0 n).
Proof. reflexivity. Qed.

Lemma in_seq0 r n : In r (seq 0 n) <-> r < n.
Proof. rewrite in_seq. lia. Qed.

(** * Projections *)

Lemma is_run_label_eq l : is_run_label l = is_run l.
Proof. destruct l; reflexivity. Qed.

Lemma stop_seq_reachable s0 rx r rx' : RB.reachable s0 rx -> stop_seq rx r = Some rx' -> RB.reachable s0 rx'.
Proof.
  unfold stop_seq. intros R H.
  destruct (RR.step rx (RR.LStop r)) as [s1|] eqn:E1; [|discriminate].
  destruct (RR.step s1 (RR.LTask (RR.s_tid rx) 0)) as [s2|] eqn:E2; [|discriminate].
  eapply RB.reach_step; [eapply RB.reach_step; [eapply RB.reach_step; [exact R | exact E1] | exact E2] | exact H].
Qed.

Lemma stop_all_reachable s0 rs : forall rx rx', RB.reachable s0 rx -> stop_all rx rs = Some rx' -> RB.reachable s0 rx'.
Proof.
  induction rs as [|r t IH]; cbn; intros rx rx' R H; [inversion H; subst; exact R|].
  destruct (stop_seq rx r) as [rx1|] eqn:E; [|discriminate].
  eapply IH; [eapply stop_seq_reachable; eassumption | exact H].
Qed.

(** One product step is no step or one step of the connection model, and a finite schedule of the reactive
    model. *)
Lemma pstep_server w sv rx pl sv' rx' : pstep w (sv, rx) pl = Some (sv', rx') ->
  sv' = sv \/ exists l, step (w_cfg w) sv l = Some sv'.
Proof.
  unfold pstep. destruct pl as [l|l o].
  - destruct (is_run_label l); [discriminate|].
    destruct (step (w_cfg w) sv l) as [sv1|] eqn:E; [|discriminate].
    destruct (stop_all rx (newly_stopped sv sv1)); [|discriminate].
    destruct (_ && _); [|discriminate]. intros H; inversion H; subst. right. eauto.
  - destruct (is_stop_label l); [discriminate|].
    destruct (RR.step rx l) as [rx1|]; [|discriminate].
    destruct (forallb _ _); [|discriminate].
    destruct (events (pool w) rx rx1) as [|[r e] [|? ?]]; [destruct o; [discriminate|] | | destruct e; discriminate].
    + intros H; inversion H; subst. left; reflexivity.
    + destruct e; try discriminate.
      * destruct o; [discriminate|].
        destruct (step (w_cfg w) sv (LRun r (OOk (w_render w r out)))) as [sv1|] eqn:E; [|discriminate].
        destruct (sub_live_in sv1 r); [|discriminate]. intros H; inversion H; subst. right; eauto.
      * destruct o as [oc|]; [|discriminate].
        destruct (step (w_cfg w) sv (LRun r oc)) as [sv1|] eqn:E; [|discriminate].
        destruct (failed_in sv1 r); [|discriminate]. intros H; inversion H; subst. right; eauto.
Qed.

Lemma pstep_reactive w sv rx pl sv' rx' s0 : pstep w (sv, rx) pl = Some (sv', rx') ->
  RB.reachable s0 rx -> RB.reachable s0 rx'.
Proof.
  unfold pstep. destruct pl as [l|l o]; intros H R.
  - destruct (is_run_label l); [discriminate|].
    destruct (step (w_cfg w) sv l) as [sv1|]; [|discriminate].
    destruct (stop_all rx (newly_stopped sv sv1)) as [rx1|] eqn:E; [|discriminate].
    destruct (_ && _); [|discriminate]. inversion H; subst. eapply stop_all_reachable; eassumption.
  - destruct (is_stop_label l); [discriminate|].
    destruct (RR.step rx l) as [rx1|] eqn:E; [|discriminate].
    assert (R1 : RB.reachable s0 rx1) by (eapply RB.reach_step; eassumption).
    destruct (forallb _ _); [|discriminate].
    destruct (events (pool w) rx rx1) as [|[r e] [|? ?]]; [destruct o; [discriminate|] | | destruct e; discriminate].
    + inversion H; subst. exact R1.
    + destruct e; try discriminate.
      * destruct o; [discriminate|].
        destruct (step (w_cfg w) sv (LRun r (OOk (w_render w r out)))); [|discriminate].
        destruct (sub_live_in _ r); [|discriminate]. inversion H; subst. exact R1.
      * destruct o as [oc|]; [|discriminate].
        destruct (step (w_cfg w) sv (LRun r oc)); [|discriminate].
        destruct (failed_in _ r); [|discriminate]. inversion H; subst. exact R1.
Qed.

(** The history of the connection model that a product history projects to, with its [good_label]s. *)
Definition shist (w : world) (sv : state) : Prop :=
  exists h, forallb good_label h = true /\ run (w_cfg w) init h = Some sv.

Lemma shist_snoc w sv l sv' : shist w sv -> good_label l = true -> step (w_cfg w) sv l = Some sv' -> shist w sv'.
Proof.
  intros (h & G & R) Gl S. exists (h ++ [l]). split.
  - rewrite forallb_app, G. cbn. rewrite Gl. reflexivity.
  - rewrite run_app, R. cbn. rewrite S. reflexivity.
Qed.

Lemma pstep_shist w sv rx pl sv' rx' : good_world w -> pgood pl = true ->
  pstep w (sv, rx) pl = Some (sv', rx') -> shist w sv -> shist w sv'.
Proof.
  intros GW Gp. unfold pstep. destruct pl as [l|l o]; intros H Hs.
  - destruct (is_run_label l) eqn:Il; [discriminate|].
    destruct (step (w_cfg w) sv l) as [sv1|] eqn:E; [|discriminate].
    destruct (stop_all rx (newly_stopped sv sv1)); [|discriminate].
    destruct (_ && _); [|discriminate]. inversion H; subst.
    eapply shist_snoc; [exact Hs | | exact E]. destruct l; try reflexivity. discriminate Il.
  - destruct (is_stop_label l); [discriminate|].
    destruct (RR.step rx l) as [rx1|]; [|discriminate].
    destruct (forallb _ _); [|discriminate].
    destruct (events (pool w) rx rx1) as [|[r e] [|? ?]]; [destruct o; [discriminate|] | | destruct e; discriminate].
    + inversion H; subst. exact Hs.
    + destruct e; try discriminate.
      * destruct o; [discriminate|].
        destruct (step (w_cfg w) sv (LRun r (OOk (w_render w r out)))) as [sv1|] eqn:E; [|discriminate].
        destruct (sub_live_in sv1 r); [|discriminate]. inversion H; subst.
        eapply shist_snoc; [exact Hs | | exact E]. cbn. destruct (GW r out) as [W [kv K]]. rewrite W, K. reflexivity.
      * destruct o as [oc|]; [|discriminate].
        destruct (step (w_cfg w) sv (LRun r oc)) as [sv1|] eqn:E; [|discriminate].
        destruct (failed_in sv1 r); [|discriminate]. inversion H; subst.
        eapply shist_snoc; [exact Hs | | exact E]. destruct oc; try reflexivity. exact Gp.
Qed.

(** * The coherence invariant *)

Definition coh (w : world) (r : nat) (o : option runner) (x : RR.rr) : Prop :=
  match o with
  | None => RR.r_stop x = false /\ RR.r_failed x = false /\ RR.r_out x = None /\ RR.r_comp x = None
  | Some ru =>
      (RR.r_stop x = true <-> r_stat ru = Stopped) /\
      (r_stat ru = Live -> RR.r_failed x = false) /\
      (r_stat ru = Failed -> RR.r_failed x = true) /\
      (r_stat ru = Stopped -> RR.r_comp x = None) /\
      (r_stat ru <> Stopped -> (RR.r_comp x = None <-> RR.r_out x = None)) /\
      match r_kind ru with
      | KSub => match RR.r_out x with
                | Some out => r_initial ru = false /\ r_prev ru = w_render w r out
                | None => r_initial ru = true
                end
      | KMut => RR.r_out x = None
      end
  end.

Definition PI (w : world) (p : pstate) : Prop :=
  Lite (fst p) /\ st_next (fst p) <= pool w /\
  forall r, r < pool w -> coh w r (st_runners (fst p) r) (RR.getr (snd p) r).

Lemma PI_init w : PI w (pinit w).
Proof.
  split; [apply Lite_init|]. split; [cbn; lia|]. intros r Hr. cbn [fst snd pinit init st_runners].
  unfold RR.getr, RR.init. cbn [RR.s_rrs].
  assert (E : nth r (map RR.init_rr (w_progs w)) RR.drr = RR.init_rr (nth r (w_progs w) ([], true))).
  { change RR.drr with (RR.init_rr ([], true)). apply map_nth. }
  rewrite E. cbn. auto.
Qed.

Lemma coh_same w r o x y :
  RR.r_stop y = RR.r_stop x -> RR.r_failed y = RR.r_failed x -> RR.r_out y = RR.r_out x -> RR.r_comp y = RR.r_comp x ->
  coh w r o x -> coh w r o y.
Proof. intros E1 E2 E3 E4. unfold coh. rewrite E1, E2, E3, E4. auto. Qed.

Lemma is_stopped_stat ru : is_stopped ru = true <-> r_stat ru = Stopped.
Proof. unfold is_stopped. destruct (r_stat ru); split; congruence. Qed.

Lemma pstep_PI w p pl p' : PI w p -> pstep w p pl = Some p' -> PI w p'.
Proof.
  destruct p as [sv rx]. destruct p' as [sv' rx']. intros (HL & Hn & Hc) H. cbn [fst snd] in *.
  assert (HL' : Lite sv').
  { destruct (pstep_server _ _ _ _ _ _ H) as [->|[l E]]; [exact HL | eapply step_Lite; eassumption]. }
  split; [exact HL'|]. cbn [fst snd].
  unfold pstep in H. destruct pl as [l|l o].
  - (* a step of the connection *)
    destruct (is_run_label l) eqn:Il; [discriminate|].
    destruct (step (w_cfg w) sv l) as [sv1|] eqn:E; [|discriminate].
    destruct (stop_all rx (newly_stopped sv sv1)) as [rx1|]; [|discriminate].
    destruct (Nat.leb (st_next sv1) (pool w)) eqn:El; [|discriminate]. cbn [andb] in H.
    destruct (forallb _ _) eqn:Ef; [|discriminate]. inversion H; subst; clear H.
    split; [apply Nat.leb_le; exact El|]. intros r Hr.
    rewrite forallb_forall in Ef. specialize (Ef r (proj2 (in_seq0 r _) Hr)).
    specialize (Hc r Hr). unfold server_sync in Ef.
    rewrite is_run_label_eq in Il.
    destruct (step_change0 _ _ _ _ r (proj1 HL) Il E) as [Es|ru E0 E1|id k E0 E1 E2].
    + (* the rerunner is as it was *)
      rewrite Es.
      assert (A : alive_in sv r && stopped_in sv' r = false).
      { unfold alive_in, stopped_in. rewrite Es. destruct (st_runners sv r); [destruct (is_stopped r0)|]; reflexivity. }
      rewrite A in Ef. destruct (iev_of (RR.getr rx r) (RR.getr rx' r)) eqn:Ev; try discriminate.
      destruct (iev_none _ _ Ev) as (A1 & A2 & A3 & A4). eapply coh_same; eassumption.
    + (* the connection stopped it (or found it stopped) *)
      rewrite E0 in Hc. rewrite E1. unfold alive_in, stopped_in in Ef. rewrite E0, E1 in Ef.
      destruct (is_stopped ru) eqn:Is; cbn [negb andb] in Ef.
      * destruct (iev_of (RR.getr rx r) (RR.getr rx' r)) eqn:Ev; try discriminate.
        destruct (iev_none _ _ Ev) as (A1 & A2 & A3 & A4).
        apply (coh_same w r _ _ _ A1 A2 A3 A4). apply is_stopped_stat in Is.
        unfold coh in *. destruct ru as [a b c d e]. cbn in *. subst c. exact Hc.
      * cbn in Ef. apply andb_true_iff in Ef. destruct Ef as [Ef C4]. apply andb_true_iff in Ef. destruct Ef as [Ef C3].
        apply andb_true_iff in Ef. destruct Ef as [C1 C2].
        apply oout_eqb_eq in C3. apply onat_eqb_eq in C4. apply Bool.eqb_prop in C2.
        destruct Hc as (H1 & H2 & H3 & H4 & H4' & H5). unfold coh. cbn [r_stat r_kind r_initial r_prev set_stat].
        split; [split; auto|]. split; [discriminate|]. split; [discriminate|]. split; [auto|].
        split; [intros X; contradiction X; reflexivity|].
        rewrite <- C3. exact H5.
    + (* the connection created it *)
      rewrite E0 in Hc. rewrite E2.
      assert (A : alive_in sv r && stopped_in sv' r = false) by (unfold alive_in; rewrite E0; reflexivity).
      rewrite A in Ef. destruct (iev_of (RR.getr rx r) (RR.getr rx' r)) eqn:Ev; try discriminate.
      destruct (iev_none _ _ Ev) as (A1 & A2 & A3 & A4). destruct Hc as (H1 & H2 & H3 & H3').
      unfold coh. cbn [r_stat r_kind r_initial r_prev]. rewrite A1, A2, A3, A4, H1, H2, H3, H3'.
      split; [split; discriminate|]. split; [auto|]. split; [discriminate|]. split; [discriminate|].
      split; [intros _; split; reflexivity|].
      destruct k; reflexivity.
  - (* a step of the reactive package *)
    destruct (is_stop_label l); [discriminate|].
    destruct (RR.step rx l) as [rx1|]; [|discriminate].
    destruct (forallb _ _); [|discriminate].
    rewrite events_evs in H.
    destruct (evs _ (seq 0 (pool w))) as [|[r0 e] [|? ?]] eqn:Ee; [destruct o; [discriminate|] | | destruct e; discriminate].
    + inversion H; subst; clear H. split; [exact Hn|]. intros r Hr.
      pose proof (evs_nil _ _ Ee r (proj2 (in_seq0 r _) Hr)) as Ev.
      destruct (iev_none _ _ Ev) as (A1 & A2 & A3 & A4). eapply coh_same; eauto.
    + destruct (evs_single _ _ _ _ Ee) as (I0 & Ev0 & _ & Iother). apply in_seq0 in I0.
      destruct e; try discriminate.
      * (* published *)
        destruct o; [discriminate|].
        destruct (step (w_cfg w) sv (LRun r0 (OOk (w_render w r0 out)))) as [sv1|] eqn:E; [|discriminate].
        destruct (sub_live_in sv1 r0) eqn:Sl; [|discriminate]. inversion H; subst; clear H.
        cbn [step] in E. destruct (st_runners sv r0) as [ru|] eqn:Er; [|discriminate].
        destruct (is_live ru) eqn:Li; [|discriminate]. inversion E; subst; clear E.
        split; [rewrite do_run_next; exact Hn|]. intros r Hr.
        destruct (Nat.eq_dec r r0) as [->|Hne].
        -- rewrite (do_run_runner _ _ _ _ Er). specialize (Hc r0 Hr). rewrite Er in Hc.
           destruct (iev_pub _ _ _ Ev0) as (A1 & A2 & A3 & A4).
           unfold sub_live_in in Sl. rewrite (do_run_runner _ _ _ _ Er) in Sl.
           unfold run_runner in *. destruct (r_kind ru) eqn:K; [|unfold is_live in Sl; cbn in Sl; discriminate].
           destruct Hc as (H1 & H2 & H3 & H4 & H4' & H5). unfold coh. cbn [r_stat r_kind r_initial r_prev].
           assert (St : r_stat ru = Live) by (unfold is_live in Li; destruct (r_stat ru); congruence).
           rewrite A1, A2, A3. split; [split; [intros X; apply H1 in X; congruence | discriminate]|].
           split; [auto|]. split; [discriminate|]. split; [discriminate|].
           split; [intros _; split; [intros X; contradiction | discriminate]|]. auto.
        -- rewrite (do_run_other _ _ _ _ _ Hne).
           pose proof (Iother r (proj2 (in_seq0 r _) Hr) Hne) as Ev.
           destruct (iev_none _ _ Ev) as (A1 & A2 & A3 & A4). eapply coh_same; eauto.
      * (* failed *)
        destruct o as [oc|]; [|discriminate].
        destruct (step (w_cfg w) sv (LRun r0 oc)) as [sv1|] eqn:E; [|discriminate].
        destruct (failed_in sv1 r0) eqn:Fl; [|discriminate]. inversion H; subst; clear H.
        cbn [step] in E. destruct (st_runners sv r0) as [ru|] eqn:Er; [|discriminate].
        destruct (is_live ru) eqn:Li; [|discriminate]. inversion E; subst; clear E.
        split; [rewrite do_run_next; exact Hn|]. intros r Hr.
        destruct (Nat.eq_dec r r0) as [->|Hne].
        -- rewrite (do_run_runner _ _ _ _ Er). specialize (Hc r0 Hr). rewrite Er in Hc.
           destruct (iev_fail _ _ Ev0) as (A1 & A2 & A3 & A4 & A5).
           unfold failed_in in Fl. rewrite (do_run_runner _ _ _ _ Er) in Fl.
           assert (St : r_stat ru = Live) by (unfold is_live in Li; destruct (r_stat ru); congruence).
           assert (Rr : run_runner ru oc = set_stat ru Failed).
           { unfold run_runner in *. destruct (r_kind ru); [|reflexivity].
             destruct oc; [cbn in Fl; discriminate | | reflexivity].
             destruct (r_initial ru); [reflexivity|]. rewrite St in Fl. discriminate. }
           rewrite Rr. destruct Hc as (H1 & H2 & H3 & H4 & H4' & H5). unfold coh. cbn [r_stat r_kind r_initial r_prev set_stat].
           rewrite A1, A3, A4, A5. split; [split; [intros X; apply H1 in X; congruence | discriminate]|].
           split; [discriminate|]. split; [auto|]. split; [discriminate|].
           split; [intros _; apply H4'; congruence|]. exact H5.
        -- rewrite (do_run_other _ _ _ _ _ Hne).
           pose proof (Iother r (proj2 (in_seq0 r _) Hr) Hne) as Ev.
           destruct (iev_none _ _ Ev) as (A1 & A2 & A3 & A4). eapply coh_same; eauto.
Qed.

(** * Histories *)

Lemma prun_app w h1 : forall h2 p, prun w p (h1 ++ h2) = match prun w p h1 with Some p1 => prun w p1 h2 | None => None end.
Proof. induction h1 as [|l t IH]; intros h2 p; cbn; [reflexivity|]. destruct (pstep w p l); [apply IH | reflexivity]. Qed.

Lemma preachable_run w p h p' : preachable w p -> prun w p h = Some p' -> preachable w p'.
Proof. intros [h0 H0] H. exists (h0 ++ h). rewrite prun_app, H0. exact H. Qed.

Record Good (w : world) (p : pstate) : Prop := mk_good {
  g_pi : PI w p;
  g_sv : reachable (w_cfg w) (fst p);
  g_rx : RB.reachable (RR.init (w_slots w) (w_progs w)) (snd p)
}.

Lemma Good_init w : Good w (pinit w).
Proof. split; [apply PI_init | exists []; reflexivity | apply RB.reach_init]. Qed.

Lemma pstep_Good w p pl p' : Good w p -> pstep w p pl = Some p' -> Good w p'.
Proof.
  intros [G1 G2 G3] H. destruct p as [sv rx], p' as [sv' rx']. split.
  - eapply pstep_PI; eassumption.
  - cbn [fst] in *. destruct (pstep_server _ _ _ _ _ _ H) as [->|[l E]]; [exact G2 | eapply reachable_step; eassumption].
  - cbn [snd] in *. eapply pstep_reactive; eassumption.
Qed.

Lemma prun_Good w h : forall p p', Good w p -> prun w p h = Some p' -> Good w p'.
Proof.
  induction h as [|l t IH]; cbn; intros p p' G H; [inversion H; subst; exact G|].
  destruct (pstep w p l) as [p1|] eqn:E; [|discriminate]. eapply IH; [eapply pstep_Good; eassumption | exact H].
Qed.

Lemma preachable_Good w p : preachable w p -> Good w p.
Proof. intros [h H]. eapply prun_Good; [apply Good_init | exact H]. Qed.

Lemma prun_shist w h : good_world w -> forall p p', forallb pgood h = true -> prun w p h = Some p' ->
  shist w (fst p) -> shist w (fst p').
Proof.
  intros GW. induction h as [|l t IH]; cbn; intros p p' G H Hs; [inversion H; subst; exact Hs|].
  apply andb_true_iff in G. destruct G as [G1 G2].
  destruct (pstep w p l) as [p1|] eqn:E; [|discriminate].
  eapply IH; [exact G2 | exact H|]. destruct p as [sv rx], p1 as [sv1 rx1]. eapply pstep_shist; eassumption.
Qed.

(** the pool of the reactive state is the world's *)
Lemma rrs_length s0 s : RB.reachable s0 s -> List.length (RR.s_rrs s) = List.length (RR.s_rrs s0).
Proof. induction 1 as [|s l s' R IH H]; [reflexivity|]. rewrite (RM.step_rrs_length _ _ _ H). exact IH. Qed.

Lemma pool_length w p : Good w p -> List.length (RR.s_rrs (snd p)) = pool w.
Proof. intros [_ _ R]. rewrite (rrs_length _ _ R). unfold RR.init. cbn. apply map_length. Qed.

Lemma created_in_pool w p rid ru : Good w p -> st_runners (fst p) rid = Some ru -> rid < pool w.
Proof. intros [(HL & Hn & _) _ _] Hr. apply (proj1 HL) in Hr. lia. Qed.

(** * live_convergence (Props/C02.v) *)

Theorem live_convergence_l : forall w h sv rx rid ru,
  good_world w -> forallb pgood h = true -> prun w (pinit w) h = Some (sv, rx) ->
  RR.quiescent rx -> st_wfail sv = false ->
  st_runners sv rid = Some ru -> r_kind ru = KSub -> r_stat ru = Live -> RR.r_cancel (RR.getr rx rid) = false ->
  exists out,
    RR.r_out (RR.getr rx rid) = Some out
    /\ (forall sl v, In (sl, v) out -> v = RR.slot_ver rx sl)
    /\ jeq (client_state rid sv) (strip (w_render w rid out)).
Proof.
  intros w h sv rx rid ru GW Gh Hrun Q Wf Hr K St Cn.
  assert (G : Good w (sv, rx)) by (eapply prun_Good; [apply Good_init | exact Hrun]).
  pose proof (created_in_pool _ _ _ _ G Hr) as Hp.
  destruct G as [(HL & Hn & Hc) Gs Gr]. cbn [fst snd] in *.
  specialize (Hc rid Hp). rewrite Hr in Hc. destruct Hc as (H1 & H2 & H3 & H4 & H4' & H5). rewrite K in H5.
  assert (Len : rid < List.length (RR.s_rrs rx)).
  { rewrite (rrs_length _ _ Gr). unfold RR.init. cbn. rewrite map_length. exact Hp. }
  destruct (Thunder.Props.C04.published_output_is_current _ _ _ _ Gr Q Len Cn (H2 St)) as [out [O1 O2]].
  exists out. split; [exact O1|]. split; [exact O2|].
  rewrite O1 in H5. destruct H5 as [Hi Hprev].
  assert (Hs : shist w sv).
  { change sv with (fst (sv, rx)). eapply prun_shist; [exact GW | exact Gh | exact Hrun | exists []; split; reflexivity]. }
  destruct Hs as (hs & Gs' & Rs).
  rewrite <- Hprev. eapply convergence_l; eassumption.
Qed.

Lemma on_current_fix rx out : (forall sl v, In (sl, v) out -> v = RR.slot_ver rx sl) -> on_current rx out = out.
Proof.
  unfold on_current. induction out as [|[sl v] t IH]; intros H; cbn; [reflexivity|].
  rewrite <- (H sl v (or_introl eq_refl)). f_equal. apply IH. intros sl' v' Hin. apply H. right. exact Hin.
Qed.

(** ... restated: the client holds the stripped result of the subscription's query on the data as it is. *)
Theorem live_convergence_current_l : forall w h sv rx rid ru,
  good_world w -> forallb pgood h = true -> prun w (pinit w) h = Some (sv, rx) ->
  RR.quiescent rx -> st_wfail sv = false ->
  st_runners sv rid = Some ru -> r_kind ru = KSub -> r_stat ru = Live -> RR.r_cancel (RR.getr rx rid) = false ->
  exists out, RR.r_out (RR.getr rx rid) = Some out
    /\ jeq (client_state rid sv) (strip (w_render w rid (on_current rx out))).
Proof.
  intros w h sv rx rid ru GW Gh Hrun Q Wf Hr K St Cn.
  destruct (live_convergence_l _ _ _ _ _ _ GW Gh Hrun Q Wf Hr K St Cn) as (out & O1 & O2 & O3).
  exists out. split; [exact O1|]. rewrite (on_current_fix _ _ O2). exact O3.
Qed.

(** * After the end (Props/C17.v) *)

Lemma prun_stopped_mono w h rid : forall p p', Lite (fst p) -> stopped_in (fst p) rid = true ->
  prun w p h = Some p' -> stopped_in (fst p') rid = true.
Proof.
  induction h as [|l t IH]; cbn; intros p p' HL S H; [inversion H; subst; exact S|].
  destruct (pstep w p l) as [p1|] eqn:E; [|discriminate]. destruct p as [sv rx], p1 as [sv1 rx1]. cbn [fst] in *.
  destruct (pstep_server _ _ _ _ _ _ E) as [->|[sl Es]].
  - eapply (IH (sv, rx1)); eassumption.
  - eapply (IH (sv1, rx1)); [eapply step_Lite; eassumption | | exact H].
    eapply change_stopped_mono; [eapply step_change; [exact (proj1 HL) | exact Es] | exact S].
Qed.

(** Once a subscription has ended - Stop was called on its rerunner by an unsubscribe, by the close its own
    failure requested, or by the connection closing - then in every continuation of the product: its
    rerunner is stopped in the reactive package, holds no computation, no run of it is going to compute,
    computing or publishing (no frame of Rerunner.run between cache cleaning and handleInvalidate exists:
    the compute function, hence every resolver, runs only above such a frame), and the connection model
    accepts no run completion for it. *)
Theorem never_computes_after_end_l : forall w p h p' rid,
  preachable w p -> stopped_in (fst p) rid = true -> prun w p h = Some p' ->
  RR.r_stop (RR.getr (snd p') rid) = true
  /\ RR.r_comp (RR.getr (snd p') rid) = None
  /\ (forall f, In f (RB.all_frames (snd p')) -> RM.runner rid f = false)
  /\ (forall o, step (w_cfg w) (fst p') (LRun rid o) = None).
Proof.
  intros w p h p' rid R S H.
  pose proof (preachable_Good _ _ R) as G.
  pose proof (prun_Good _ _ _ _ G H) as G'.
  pose proof (prun_stopped_mono _ _ _ _ _ (proj1 (g_pi _ _ G)) S H) as S'.
  unfold stopped_in in S'. destruct (st_runners (fst p') rid) as [ru|] eqn:Er; [|discriminate].
  pose proof (created_in_pool _ _ _ _ G' Er) as Hp.
  destruct G' as [(HL & Hn & Hc) Gs Gr].
  specialize (Hc rid Hp). rewrite Er in Hc. destruct Hc as (H1 & H2 & H3 & H4 & H4' & H5).
  apply is_stopped_stat in S'. pose proof (proj2 H1 S') as St.
  assert (Len : rid < List.length (RR.s_rrs (snd p'))).
  { rewrite (rrs_length _ _ Gr). unfold RR.init. cbn. rewrite map_length. exact Hp. }
  split; [exact St|]. split; [exact (H4 S')|]. split.
  - intros f Hf.
    destruct (Thunder.Props.C04.after_stop _ _ _ _ [] _ Gr Len St eq_refl) as [_ A]. apply A. exact Hf.
  - intros o. cbn [step]. rewrite Er. unfold is_live. rewrite S'. reflexivity.
Qed.

(** When, after the end of a subscription, the system has come to rest: nothing of it is left - no computation
    held, no goroutine - and every resource node that took part in a dependency and has no dependant left (all
    the computations that registered it were superseded, failed or stopped) has been released and its Cleanup
    callback has run exactly once (C08); no callback anywhere has run twice. *)
Theorem released_after_end_l : forall w p rid,
  preachable w p -> stopped_in (fst p) rid = true -> RR.quiescent (snd p) ->
  RR.r_comp (RR.getr (snd p) rid) = None
  /\ RB.all_frames (snd p) = []
  /\ (forall n, RG.n_had (RR.getN (snd p) n) = true -> RG.n_out (RR.getN (snd p) n) = [] ->
                RG.n_hrel (RR.getN (snd p) n) <> None ->
                RG.n_rel (RR.getN (snd p) n) = true /\ RG.n_cln (RR.getN (snd p) n) = 1)
  /\ (forall n, RG.n_had (RR.getN (snd p) n) = true -> RG.n_hrel (RR.getN (snd p) n) <> None ->
                (forall m, In n (RG.n_ins (RR.getN (snd p) m)) -> RG.n_rel (RR.getN (snd p) m) = true) ->
                RG.n_out (RR.getN (snd p) n) = [] /\ RG.n_rel (RR.getN (snd p) n) = true /\ RG.n_cln (RR.getN (snd p) n) = 1)
  /\ (forall n, RG.n_cln (RR.getN (snd p) n) <= 1).
Proof.
  intros w p rid R S Q.
  destruct (never_computes_after_end_l w p [] p rid R S eq_refl) as (_ & C & _ & _).
  pose proof (preachable_Good _ _ R) as [_ _ Gr].
  split; [exact C|]. split; [unfold RB.all_frames; rewrite Q; reflexivity|]. split; [|split].
  - intros n. apply (Thunder.Props.C08.cleanup_exactly_once_at_quiescence _ _ _ n Gr Q).
  - intros n. apply (Thunder.Props.C08.cleanup_exactly_once_after_last_registrant_released _ _ _ n Gr Q).
  - intros n. apply (Thunder.Props.C08.cleanup_at_most_once _ _ _ n Gr).
Qed.

(** THE FULL STATEMENT.  [progs_ok]: the compute scripts of the world only read data slots that exist.  When, after
    the end of a subscription, the system has come to rest, the subscription's rerunner holds nothing (C08
    [stopped_rerunner_holds_nothing_at_quiescence], through the ownership invariant of Reactive/ProofsOwnership.v):
    it has no computation; no goroutine is left; every node of the reactive graph that is still unreleased - a
    computation, or anything that was depended upon - is, through a chain of dependants, a dependency of the
    current computation of ANOTHER rerunner, one whose subscription / mutation has not ended; every resource that
    was depended upon has been released with exactly one Cleanup call, or is such a dependency; no callback
    anywhere ran twice.  So everything only the ended subscription's computations - current, superseded, cached -
    depended on is released, its Cleanup callbacks (the timers of InvalidateAfter included) having run exactly once. *)
From Thunder Require Reactive.ProofsReach Reactive.ProofsClosed Reactive.ProofsOwnership.
Module RC := Thunder.Reactive.ProofsClosed.
Module RH := Thunder.Reactive.ProofsReach.
Module RO := Thunder.Reactive.ProofsOwnership.

Lemma holder_is_alive w p r top : Good w p -> r < List.length (RR.s_rrs (snd p)) ->
  RR.r_stop (RR.getr (snd p) r) = false -> RR.r_comp (RR.getr (snd p) r) = Some top -> alive_in (fst p) r = true.
Proof.
  intros G Lr St Hc. rewrite (pool_length _ _ G) in Lr. destruct G as [(_ & _ & Hcoh) _ _].
  specialize (Hcoh r Lr). unfold alive_in. destruct (st_runners (fst p) r) as [ru|]; cbn [coh] in Hcoh.
  - destruct Hcoh as (H1 & _). destruct (is_stopped ru) eqn:E; [|reflexivity].
    apply is_stopped_stat in E. apply H1 in E. congruence.
  - destruct Hcoh as (_ & _ & _ & H4). congruence.
Qed.

Theorem released_after_end_full_l : forall w p rid,
  RC.progs_ok (w_slots w) (w_progs w) ->
  preachable w p -> stopped_in (fst p) rid = true -> RR.quiescent (snd p) ->
  RR.r_comp (RR.getr (snd p) rid) = None
  /\ RB.all_frames (snd p) = []
  /\ (forall x, x < List.length (RR.s_nodes (snd p)) -> RG.n_rel (RR.getN (snd p) x) = false ->
        RG.n_had (RR.getN (snd p) x) = true \/ (RG.n_hrel (RR.getN (snd p) x) = None /\ RG.n_timer (RR.getN (snd p) x) = 0) ->
        exists r top, r <> rid /\ alive_in (fst p) r = true /\ RR.r_comp (RR.getr (snd p) r) = Some top /\
                      RH.reach (RR.s_nodes (snd p)) x top)
  /\ (forall n, RG.n_had (RR.getN (snd p) n) = true -> RG.n_hrel (RR.getN (snd p) n) <> None ->
        (RG.n_rel (RR.getN (snd p) n) = true /\ RG.n_cln (RR.getN (snd p) n) = 1) \/
        exists r top, r <> rid /\ alive_in (fst p) r = true /\ RR.r_comp (RR.getr (snd p) r) = Some top /\
                      RH.reach (RR.s_nodes (snd p)) n top)
  /\ (forall n, RG.n_cln (RR.getN (snd p) n) <= 1).
Proof.
  intros w p rid Pk R S Q.
  destruct (never_computes_after_end_l w p [] p rid R S eq_refl) as (St & C & _ & _).
  pose proof (preachable_Good _ _ R) as G. pose proof G as [_ _ Gr].
  destruct (RO.stopped_holds_nothing_lemma _ _ _ rid Pk Gr Q St) as (_ & Hx & Hn).
  assert (Live : forall y, (exists r top, r <> rid /\ RR.r_stop (RR.getr (snd p) r) = false /\ RR.r_comp (RR.getr (snd p) r) = Some top /\ RH.reach (RR.s_nodes (snd p)) y top) ->
                 exists r top, r <> rid /\ alive_in (fst p) r = true /\ RR.r_comp (RR.getr (snd p) r) = Some top /\ RH.reach (RR.s_nodes (snd p)) y top).
  { intros y (r & top & A1 & A2 & A3 & A4). exists r, top. repeat split; auto.
    eapply holder_is_alive; [exact G | | exact A2 | exact A3].
    destruct (Nat.lt_ge_cases r (List.length (RR.s_rrs (snd p)))) as [L|L]; [exact L|].
    unfold RR.getr in A3. rewrite nth_overflow in A3 by exact L. discriminate. }
  split; [exact C|]. split; [unfold RB.all_frames; rewrite Q; reflexivity|]. split; [|split].
  - intros x Lx Rl Kd. apply Live. apply Hx; assumption.
  - intros n Hd Hh. destruct (Hn n Hd Hh) as [A|A]; [left; exact A | right; apply Live; exact A].
  - intros n. apply (Thunder.Props.C08.cleanup_at_most_once _ _ _ n Gr).
Qed.

(** After the connection closed every rerunner it ever created is stopped in the reactive package. *)
Theorem all_rerunners_stopped_after_close_l : forall w p rid ru,
  c_fix_mutdup (w_cfg w) = true -> preachable w p -> st_closed (fst p) = true ->
  st_runners (fst p) rid = Some ru ->
  RR.r_stop (RR.getr (snd p) rid) = true /\ RR.r_comp (RR.getr (snd p) rid) = None.
Proof.
  intros w p rid ru Fx R C Hr.
  pose proof (preachable_Good _ _ R) as G.
  pose proof (ProofsC17.all_stopped_after_close_l _ _ Fx (g_sv _ _ G) C rid ru Hr) as St.
  assert (S : stopped_in (fst p) rid = true) by (unfold stopped_in; rewrite Hr; apply is_stopped_stat; exact St).
  destruct (never_computes_after_end_l w p [] p rid R S eq_refl) as (A & B & _ & _). auto.
Qed.

(** * Every product history is a history of each component; the connection's [previous] is the published result *)

Theorem product_projects_l : forall w p, preachable w p ->
  reachable (w_cfg w) (fst p) /\ RB.reachable (RR.init (w_slots w) (w_progs w)) (snd p)
  /\ List.length (RR.s_rrs (snd p)) = pool w /\ st_next (fst p) <= pool w.
Proof.
  intros w p R. pose proof (preachable_Good _ _ R) as G. pose proof (pool_length _ _ G) as L.
  destruct G as [(_ & Hn & _) Gs Gr]. auto.
Qed.

Lemma initial_prev_null cfg h : forall s, run cfg init h = Some s ->
  forall rid ru, st_runners s rid = Some ru -> r_initial ru = true -> r_prev ru = JNull.
Proof.
  induction h as [|l t IH] using rev_ind; intros s Hh.
  - inversion Hh; subst. intros rid ru Hr. discriminate.
  - rewrite run_app in Hh. destruct (run cfg init t) as [s0|] eqn:E0; [|discriminate].
    cbn [run] in Hh. destruct (step cfg s0 l) as [s1|] eqn:E1; [|discriminate]. inversion Hh; subst.
    specialize (IH s0 eq_refl). intros rid ru Hr Hi.
    assert (HL : Lite s0) by (apply (reachable_Lite cfg); exists t; exact E0).
    destruct (is_run l) eqn:Il.
    + destruct l; try discriminate Il. cbn [step] in E1.
      destruct (st_runners s0 rid0) as [r0|] eqn:Er0; [|discriminate].
      destruct (is_live r0); [|discriminate]. inversion E1; subst.
      destruct (Nat.eq_dec rid rid0) as [->|Hne].
      * rewrite (do_run_runner _ _ _ _ Er0) in Hr. inversion Hr; subst.
        unfold run_runner in *. destruct (r_kind r0); destruct o; cbn in *;
          try (destruct (r_initial r0) eqn:Ei; cbn in * ); try discriminate; eapply IH; eauto.
      * rewrite (do_run_other _ _ _ _ _ Hne) in Hr. eapply IH; eauto.
    + destruct (step_change0 _ _ _ _ rid (proj1 HL) Il E1) as [Es|r0 E0' E1'|id k E0' E1' E2'].
      * rewrite Es in Hr. eapply IH; eauto.
      * rewrite E1' in Hr. inversion Hr; subst. cbn in *. eapply IH; eauto.
      * rewrite E2' in Hr. inversion Hr; subst. reflexivity.
Qed.

Theorem previous_is_published_l : forall w p rid ru, preachable w p ->
  st_runners (fst p) rid = Some ru -> r_kind ru = KSub ->
  match RR.r_out (RR.getr (snd p) rid) with
  | Some out => r_initial ru = false /\ r_prev ru = w_render w rid out
  | None => r_initial ru = true /\ r_prev ru = JNull
  end.
Proof.
  intros w p rid ru R Hr K. pose proof (preachable_Good _ _ R) as G.
  pose proof (created_in_pool _ _ _ _ G Hr) as Hp. destruct G as [(HL & Hn & Hc) Gs Gr].
  specialize (Hc rid Hp). rewrite Hr in Hc. destruct Hc as (_ & _ & _ & _ & _ & H5). rewrite K in H5.
  destruct (RR.r_out (RR.getr (snd p) rid)); [exact H5|]. split; [exact H5|].
  destruct Gs as [h Hh]. eapply initial_prev_null; eassumption.
Qed.

(** * Both sides of the product agree on the interface trace (Server/Iface.v) *)

Lemma had_comp_coh w r ru x : coh w r (Some ru) x -> r_stat ru <> Stopped -> is_some (RR.r_comp x) = had_comp ru.
Proof.
  intros (H1 & H2 & H3 & H4 & H4' & H5) Ns. specialize (H4' Ns). unfold had_comp.
  destruct (r_kind ru).
  - destruct (RR.r_out x) as [out|] eqn:Eo.
    + destruct H5 as [Hi _]. rewrite Hi. destruct (RR.r_comp x); [reflexivity|].
      destruct H4' as [A _]. specialize (A eq_refl). discriminate.
    + rewrite H5. rewrite (proj2 H4' eq_refl). reflexivity.
  - rewrite (proj2 H4' H5). reflexivity.
Qed.

Lemma rx_ev_none x y : iev_of x y = INone -> rx_ev x y = None.
Proof.
  intros E. destruct (iev_none _ _ E) as (A1 & _). unfold rx_ev. rewrite E, A1.
  destruct (RR.r_stop x); reflexivity.
Qed.

(** In every step of the product, what the reactive side does to rerunner [r] - read off its records in the
    vocabulary of the hooks of reactive/rerunner.go - is what Server/Iface.v derives from the connection's
    step: the same event with the same flag, or none on both sides. *)
Theorem interface_agrees_l : forall w p pl p' r,
  preachable w p -> pstep w p pl = Some p' -> r < pool w ->
  rx_ev (RR.getr (snd p) r) (RR.getr (snd p') r) =
  match plabel_server w p pl with
  | Some l => sv_ev (fst p) l (fst p') r
  | None => None
  end.
Proof.
  intros w [sv rx] pl [sv' rx'] r R H Hr.
  pose proof (preachable_Good _ _ R) as [(HL & Hn & Hc) _ _]. cbn [fst snd] in *.
  specialize (Hc r Hr). unfold pstep in H. destruct pl as [l|l o]; cbn [plabel_server snd].
  - destruct (is_run_label l) eqn:Il; [discriminate|].
    destruct (step (w_cfg w) sv l) as [sv1|] eqn:E; [|discriminate].
    destruct (stop_all rx (newly_stopped sv sv1)) as [rx1|]; [|discriminate].
    destruct (Nat.leb (st_next sv1) (pool w)); [|discriminate]. cbn [andb] in H.
    destruct (forallb _ _) eqn:Ef; [|discriminate]. inversion H; subst; clear H.
    rewrite forallb_forall in Ef. specialize (Ef r (proj2 (in_seq0 r _) Hr)). unfold server_sync in Ef.
    assert (Sv : sv_ev sv l sv' r =
                 if alive_in sv r && stopped_in sv' r
                 then match st_runners sv r with Some ru => Some (XStop (had_comp ru)) | None => None end else None).
    { destruct l; try reflexivity. discriminate Il. }
    rewrite Sv. destruct (alive_in sv r && stopped_in sv' r) eqn:A.
    + apply andb_true_iff in A. destruct A as [A _]. unfold alive_in in A.
      destruct (st_runners sv r) as [ru|] eqn:Er; [|discriminate].
      apply andb_true_iff in Ef. destruct Ef as [Ef _]. apply andb_true_iff in Ef. destruct Ef as [Ef _].
      apply andb_true_iff in Ef. destruct Ef as [C1 _].
      assert (Ns : r_stat ru <> Stopped).
      { intros X. apply is_stopped_stat in X. rewrite X in A. discriminate. }
      assert (Sx : RR.r_stop (RR.getr rx r) = false).
      { destruct (RR.r_stop (RR.getr rx r)) eqn:S; [|reflexivity]. destruct Hc as (H1 & _). apply H1 in S. contradiction. }
      unfold rx_ev. rewrite Sx, C1. cbn. rewrite (had_comp_coh _ _ _ _ Hc Ns). reflexivity.
    + destruct (iev_of (RR.getr rx r) (RR.getr rx' r)) eqn:Ev; try discriminate. apply rx_ev_none. exact Ev.
  - destruct (is_stop_label l); [discriminate|].
    destruct (RR.step rx l) as [rx1|]; [|discriminate].
    destruct (forallb _ _); [|discriminate].
    rewrite events_evs in *.
    destruct (evs _ (seq 0 (pool w))) as [|[r0 e] [|? ?]] eqn:Ee; [destruct o; [discriminate|] | | destruct e; discriminate].
    + inversion H; subst; clear H. apply rx_ev_none. exact (evs_nil _ _ Ee r (proj2 (in_seq0 r _) Hr)).
    + destruct (evs_single _ _ _ _ Ee) as (I0 & Ev0 & _ & Iother).
      destruct e; try discriminate.
      * destruct o; [discriminate|].
        destruct (step (w_cfg w) sv (LRun r0 (OOk (w_render w r0 out)))) as [sv1|] eqn:E; [|discriminate].
        destruct (sub_live_in sv1 r0) eqn:Sl; [|discriminate]. inversion H; subst; clear H.
        cbn [sv_ev]. destruct (Nat.eqb r0 r) eqn:En.
        -- apply Nat.eqb_eq in En. subst r0.
           cbn [step] in E. destruct (st_runners sv r) as [ru|] eqn:Er; [|discriminate].
           destruct (is_live ru) eqn:Li; [|discriminate]. inversion E; subst; clear E.
           unfold sub_live_in in Sl. rewrite (do_run_runner _ _ _ _ Er) in Sl.
           assert (K : r_kind ru = KSub).
           { unfold run_runner in Sl. destruct (r_kind ru); [reflexivity|]. unfold is_live in Sl. cbn in Sl. discriminate. }
           assert (Ns : r_stat ru <> Stopped) by (unfold is_live in Li; destruct (r_stat ru); congruence).
           destruct (iev_pub _ _ _ Ev0) as (A1 & _). unfold rx_ev. rewrite Ev0, A1.
           replace (negb (RR.r_stop (RR.getr rx r)) && RR.r_stop (RR.getr rx r)) with false by (destruct (RR.r_stop (RR.getr rx r)); reflexivity).
           rewrite (had_comp_coh _ _ _ _ Hc Ns). unfold run_iface, had_comp. rewrite K. reflexivity.
        -- apply Nat.eqb_neq in En. apply rx_ev_none. apply Iother; [apply in_seq0; exact Hr | congruence].
      * destruct o as [oc|]; [|discriminate].
        destruct (step (w_cfg w) sv (LRun r0 oc)) as [sv1|] eqn:E; [|discriminate].
        destruct (failed_in sv1 r0) eqn:Fl; [|discriminate]. inversion H; subst; clear H.
        cbn [sv_ev]. destruct (Nat.eqb r0 r) eqn:En.
        -- apply Nat.eqb_eq in En. subst r0.
           cbn [step] in E. destruct (st_runners sv r) as [ru|] eqn:Er; [|discriminate].
           destruct (is_live ru) eqn:Li; [|discriminate]. inversion E; subst; clear E.
           unfold failed_in in Fl. rewrite (do_run_runner _ _ _ _ Er) in Fl.
           assert (St : r_stat ru = Live) by (unfold is_live in Li; destruct (r_stat ru); congruence).
           destruct (iev_fail _ _ Ev0) as (A1 & _). unfold rx_ev. rewrite Ev0, A1.
           replace (negb (RR.r_stop (RR.getr rx r)) && RR.r_stop (RR.getr rx r)) with false by (destruct (RR.r_stop (RR.getr rx r)); reflexivity).
           f_equal. unfold run_iface. unfold run_runner in Fl. destruct (r_kind ru); [|reflexivity].
           destruct oc; [cbn in Fl; discriminate | | reflexivity].
           destruct (r_initial ru); [reflexivity|]. rewrite St in Fl. discriminate.
        -- apply Nat.eqb_neq in En. apply rx_ev_none. apply Iother; [apply in_seq0; exact Hr | congruence].
Qed.

(** * No computation of an ended subscription ever begins (the count of computations begun stays put) *)

Lemma rrun_app a : forall b s, RR.run s (a ++ b) = match RR.run s a with Some s1 => RR.run s1 b | None => None end.
Proof. induction a as [|l t IH]; intros b s; cbn [app RR.run]; [reflexivity|]. destruct (RR.step s l); [apply IH | reflexivity]. Qed.

Lemma stop_seq_rrun rx r rx' : stop_seq rx r = Some rx' -> exists ls, RR.run rx ls = Some rx'.
Proof.
  unfold stop_seq. intros H.
  destruct (RR.step rx (RR.LStop r)) as [s1|] eqn:E1; [|discriminate].
  destruct (RR.step s1 (RR.LTask (RR.s_tid rx) 0)) as [s2|] eqn:E2; [|discriminate].
  exists [RR.LStop r; RR.LTask (RR.s_tid rx) 0; RR.LTask (RR.s_tid rx) 0]. cbn [RR.run]. rewrite E1, E2, H. reflexivity.
Qed.

Lemma stop_all_rrun rs : forall rx rx', stop_all rx rs = Some rx' -> exists ls, RR.run rx ls = Some rx'.
Proof.
  induction rs as [|r t IH]; cbn; intros rx rx' H; [inversion H; subst; exists []; reflexivity|].
  destruct (stop_seq rx r) as [rx1|] eqn:E; [|discriminate].
  destruct (stop_seq_rrun _ _ _ E) as [l1 R1]. destruct (IH _ _ H) as [l2 R2].
  exists (l1 ++ l2). rewrite rrun_app, R1. exact R2.
Qed.

Lemma pstep_rrun w sv rx pl sv' rx' : pstep w (sv, rx) pl = Some (sv', rx') -> exists ls, RR.run rx ls = Some rx'.
Proof.
  unfold pstep. destruct pl as [l|l o]; intros H.
  - destruct (is_run_label l); [discriminate|].
    destruct (step (w_cfg w) sv l) as [sv1|]; [|discriminate].
    destruct (stop_all rx (newly_stopped sv sv1)) as [rx1|] eqn:E; [|discriminate].
    destruct (_ && _); [|discriminate]. inversion H; subst. eapply stop_all_rrun; eassumption.
  - destruct (is_stop_label l); [discriminate|].
    destruct (RR.step rx l) as [rx1|] eqn:E; [|discriminate].
    assert (R1 : exists ls, RR.run rx ls = Some rx1) by (exists [l]; cbn [RR.run]; rewrite E; reflexivity).
    destruct (forallb _ _); [|discriminate].
    destruct (events (pool w) rx rx1) as [|[r e] [|? ?]]; [destruct o; [discriminate|] | | destruct e; discriminate].
    + inversion H; subst. exact R1.
    + destruct e; try discriminate.
      * destruct o; [discriminate|].
        destruct (step (w_cfg w) sv (LRun r (OOk (w_render w r out)))); [|discriminate].
        destruct (sub_live_in _ r); [|discriminate]. inversion H; subst. exact R1.
      * destruct o as [oc|]; [|discriminate].
        destruct (step (w_cfg w) sv (LRun r oc)); [|discriminate].
        destruct (failed_in _ r); [|discriminate]. inversion H; subst. exact R1.
Qed.

Lemma prun_rrun w h : forall p p', prun w p h = Some p' -> exists ls, RR.run (snd p) ls = Some (snd p').
Proof.
  induction h as [|l t IH]; cbn; intros p p' H; [inversion H; subst; exists []; reflexivity|].
  destruct (pstep w p l) as [p1|] eqn:E; [|discriminate]. destruct p as [sv rx], p1 as [sv1 rx1].
  destruct (pstep_rrun _ _ _ _ _ _ E) as [l1 R1]. destruct (IH _ _ H) as [l2 R2].
  exists (l1 ++ l2). cbn [snd] in *. rewrite rrun_app, R1. exact R2.
Qed.

(** [r_runs] counts the computations a rerunner has begun (BeginCompute of Rerunner.run: the call of the function
    handleSubscribe / handleMutate gave to NewRerunner, i.e. of Execute and the resolvers).  After the end of a
    subscription the count never moves again, whatever happens - data changes, timers, cancellations, any
    schedule of the goroutines still around. *)
Theorem no_computation_begins_after_end_l : forall w p h p' rid,
  preachable w p -> stopped_in (fst p) rid = true -> prun w p h = Some p' ->
  RR.r_runs (RR.getr (snd p') rid) = RR.r_runs (RR.getr (snd p) rid).
Proof.
  intros w p h p' rid R S H.
  destruct (never_computes_after_end_l w p [] p rid R S eq_refl) as (St & _ & _ & _).
  pose proof (preachable_Good _ _ R) as G.
  unfold stopped_in in S. destruct (st_runners (fst p) rid) as [ru|] eqn:Er; [|discriminate].
  pose proof (created_in_pool _ _ _ _ G Er) as Hp. pose proof (pool_length _ _ G) as L.
  destruct (prun_rrun _ _ _ _ H) as [ls Rl].
  eapply run_runs_stopped; [exact (g_rx _ _ G) | rewrite L; exact Hp | exact St | exact Rl].
Qed.

(** * Stop runs exactly once on every rerunner that has ended, never on one that has not *)

Lemma plabel_server_step w sv rx pl sv' rx' : pstep w (sv, rx) pl = Some (sv', rx') ->
  match plabel_server w (sv, rx) pl with
  | Some l => step (w_cfg w) sv l = Some sv'
  | None => sv' = sv
  end.
Proof.
  unfold pstep, plabel_server. cbn [snd]. destruct pl as [l|l o].
  - destruct (is_run_label l); [discriminate|].
    destruct (step (w_cfg w) sv l) as [sv1|] eqn:E; [|discriminate].
    destruct (stop_all rx (newly_stopped sv sv1)); [|discriminate].
    destruct (_ && _); [|discriminate]. intros H; inversion H; subst. reflexivity.
  - destruct (is_stop_label l); [discriminate|].
    destruct (RR.step rx l) as [rx1|]; [|discriminate].
    destruct (forallb _ _); [|discriminate].
    destruct (events (pool w) rx rx1) as [|[r e] [|? ?]]; [destruct o; [discriminate|] | | destruct e; discriminate].
    + intros H; inversion H; subst. reflexivity.
    + destruct e; try discriminate.
      * destruct o; [discriminate|].
        destruct (step (w_cfg w) sv (LRun r (OOk (w_render w r out)))) as [sv1|] eqn:E; [|discriminate].
        destruct (sub_live_in sv1 r); [|discriminate]. intros H; inversion H; subst. reflexivity.
      * destruct o as [oc|]; [|discriminate].
        destruct (step (w_cfg w) sv (LRun r oc)) as [sv1|] eqn:E; [|discriminate].
        destruct (failed_in sv1 r); [|discriminate]. intros H; inversion H; subst. reflexivity.
Qed.

Lemma run_iface_not_stop ru o : is_xstop (Some (run_iface ru o)) = false.
Proof. unfold run_iface. destruct (r_kind ru), o; try reflexivity. destruct (r_initial ru); reflexivity. Qed.

Lemma run_does_not_stop cfg s r o s' rid : step cfg s (LRun r o) = Some s' -> alive_in s rid && stopped_in s' rid = false.
Proof.
  cbn [step]. destruct (st_runners s r) as [ru|] eqn:Er; [|discriminate].
  destruct (is_live ru) eqn:Li; [|discriminate]. intros H; inversion H; subst; clear H.
  unfold alive_in, stopped_in. destruct (Nat.eq_dec rid r) as [->|Hne].
  - rewrite (do_run_runner _ _ _ _ Er), Er.
    assert (St : r_stat ru = Live) by (unfold is_live in Li; destruct (r_stat ru); congruence).
    unfold run_runner, is_stopped. destruct (r_kind ru); [destruct o; cbn; try (destruct (r_initial ru); cbn); rewrite ?St; try reflexivity; apply andb_false_r
                                                          | cbn; apply andb_false_r].
  - rewrite (do_run_other _ _ _ _ _ Hne). destruct (st_runners s rid) as [r0|]; [destruct (is_stopped r0)|]; reflexivity.
Qed.

Lemma pstep_xstop w p pl p' rid : preachable w p -> pstep w p pl = Some p' -> rid < pool w ->
  is_xstop (rx_ev (RR.getr (snd p) rid) (RR.getr (snd p') rid)) = alive_in (fst p) rid && stopped_in (fst p') rid.
Proof.
  intros R H Hr. rewrite (interface_agrees_l _ _ _ _ _ R H Hr).
  destruct p as [sv rx], p' as [sv' rx']. pose proof (plabel_server_step _ _ _ _ _ _ H) as Hs. cbn [fst snd] in *.
  destruct (plabel_server w (sv, rx) pl) as [l|].
  - destruct l; cbn [sv_ev];
      try (destruct (alive_in sv rid && stopped_in sv' rid) eqn:A; [|reflexivity];
           apply andb_true_iff in A; destruct A as [A _]; unfold alive_in in A;
           destruct (st_runners sv rid); [reflexivity | discriminate]).
    rewrite (run_does_not_stop _ _ _ _ _ rid Hs).
    destruct (Nat.eqb rid0 rid); [|reflexivity]. destruct (st_runners sv rid); [apply run_iface_not_stop | reflexivity].
  - subst sv'. unfold alive_in, stopped_in. destruct (st_runners sv rid) as [r0|]; [destruct (is_stopped r0)|]; reflexivity.
Qed.

Lemma stop_count_exact w h rid : rid < pool w -> forall p p', preachable w p -> prun w p h = Some p' ->
  (stopped_in (fst p) rid = true -> stopped_in (fst p') rid = true /\ stop_count w p h rid = 0) /\
  (stopped_in (fst p) rid = false -> stop_count w p h rid = if stopped_in (fst p') rid then 1 else 0).
Proof.
  intros Hr. induction h as [|l t IH]; intros p p' R Hrun; cbn [prun stop_count] in *.
  - inversion Hrun; subst. split; [auto|]. intros ->. reflexivity.
  - destruct (pstep w p l) as [p1|] eqn:E; [|discriminate].
    assert (R1 : preachable w p1) by (eapply (preachable_run w p [l]); [exact R | cbn; rewrite E; reflexivity]).
    destruct (IH p1 p' R1 Hrun) as [IH1 IH2].
    rewrite (pstep_xstop _ _ _ _ _ R E Hr).
    pose proof (preachable_Good _ _ R) as G.
    assert (Mono : stopped_in (fst p) rid = true -> stopped_in (fst p1) rid = true).
    { intros S. eapply (prun_stopped_mono w [l]); [exact (proj1 (g_pi _ _ G)) | exact S | cbn; rewrite E; reflexivity]. }
    split.
    + intros Hst. rewrite (stopped_alive_excl _ _ Hst). cbn [andb].
      destruct (IH1 (Mono Hst)) as [A B]. rewrite B. auto.
    + intros Hst. destruct (stopped_in (fst p1) rid) eqn:S1.
      * destruct (IH1 eq_refl) as [A B]. rewrite A, B.
        assert (Al : alive_in (fst p) rid = true).
        { destruct p as [sv rx], p1 as [sv1 rx1]. cbn [fst] in *.
          destruct (pstep_server _ _ _ _ _ _ E) as [->|[sl Es]]; [congruence|].
          eapply change_newly_stopped; [eapply step_change; [exact (proj1 (proj1 (g_pi _ _ G))) | exact Es] | exact Hst | exact S1]. }
        rewrite Al. reflexivity.
      * rewrite andb_false_r. cbn [plus]. apply IH2. reflexivity.
Qed.

(** Along every history of the product, the number of steps at which Stop's critical section runs on rerunner
    [rid] - as the reactive side shows it - is 1 if the connection has ended the subscription and 0 otherwise:
    never twice, never on a subscription that is still live. *)
Theorem stop_runs_exactly_once_l : forall w h p rid,
  prun w (pinit w) h = Some p -> rid < pool w ->
  stop_count w (pinit w) h rid = if stopped_in (fst p) rid then 1 else 0.
Proof.
  intros w h p rid H Hr.
  destruct (stop_count_exact w h rid Hr (pinit w) p (ex_intro _ [] eq_refl) H) as [_ B]. apply B. reflexivity.
Qed.
