(** C17: a stopped rerunner stays stopped and silent; every rerunner ends exactly once; what ends it. *)
From Coq Require Import List ZArith String Bool Arith Lia.
From Thunder Require Import Lib.Json DiffMerge.Model Server.Model Server.Spec Server.Proofs.
Import ListNotations.
Open Scope list_scope.

(** What a step may do to a rerunner that is not the one computing: nothing, or stop it. *)
Definition runner_kept (rid : nat) (s s' : state) : Prop :=
  st_runners s' rid = st_runners s rid \/
  exists r, st_runners s rid = Some r /\ st_runners s' rid = Some (set_stat r Stopped).

Definition out_kept (rid : nat) (s s' : state) : Prop :=
  filter (src_is rid) (st_out s') = filter (src_is rid) (st_out s).

Lemma kept_refl rid s : runner_kept rid s s /\ out_kept rid s s.
Proof. split; [left|]; reflexivity. Qed.

Lemma kept_ext rid s s' :
  st_runners s' = st_runners s -> st_out s' = st_out s -> runner_kept rid s s' /\ out_kept rid s s'.
Proof. intros E1 E2. unfold runner_kept, out_kept. rewrite E1, E2. split; [left|]; reflexivity. Qed.

Lemma kept_reply rid s s' e :
  st_runners s' = st_runners s -> st_out s' = e :: st_out s -> e_src e = None -> runner_kept rid s s' /\ out_kept rid s s'.
Proof.
  intros E1 E2 E3. unfold runner_kept, out_kept. rewrite E1, E2. split; [left; reflexivity|].
  cbn [filter]. unfold src_is at 1. rewrite E3. reflexivity.
Qed.

Lemma kept_push rid s s' e :
  st_runners s' = st_runners s -> st_out s' = (if st_wfail s then st_out s else e :: st_out s) -> e_src e = None ->
  runner_kept rid s s' /\ out_kept rid s s'.
Proof.
  intros E1 E2 E3. destruct (st_wfail s); [apply kept_ext; assumption | eapply kept_reply; eauto].
Qed.

Lemma kept_accept rid s id k b : inv_fresh s -> st_runners s rid <> None ->
  runner_kept rid s (accept s id k b) /\ out_kept rid s (accept s id k b).
Proof.
  intros Hf Hr. split; [|reflexivity]. left. unfold accept; cbn [st_runners].
  apply upd_other. destruct (st_runners s rid) eqn:E; [|congruence]. apply Hf in E. lia.
Qed.

Lemma kept_close_entry rid s id rid' : runner_kept rid s (close_entry s id rid') /\ out_kept rid s (close_entry s id rid').
Proof.
  split; [|reflexivity]. unfold runner_kept, close_entry; cbn [st_runners].
  destruct (Nat.eq_dec rid rid') as [->|Hne].
  - unfold stop_in. destruct (st_runners s rid') eqn:E; [|left; exact E]. right. eexists; split; [reflexivity|]. apply upd_same.
  - left. apply stop_in_other. exact Hne.
Qed.

Lemma kept_close_id rid s id : runner_kept rid s (close_id s id) /\ out_kept rid s (close_id s id).
Proof. unfold close_id. destruct (find_id id (st_subs s)); [apply kept_close_entry | apply kept_refl]. Qed.

Lemma kept_close_all rid cfg s : runner_kept rid s (close_all cfg s) /\ out_kept rid s (close_all cfg s).
Proof.
  split; [|reflexivity]. unfold runner_kept, close_all; cbn [st_runners].
  destruct (st_runners s rid) eqn:E; [|left; reflexivity].
  destruct (has_rid rid (st_subs s)); [right; eauto | left; reflexivity].
Qed.

Lemma kept_trans rid s1 s2 s3 :
  runner_kept rid s1 s2 /\ out_kept rid s1 s2 -> st_runners s3 = st_runners s2 -> st_out s3 = st_out s2 ->
  runner_kept rid s1 s3 /\ out_kept rid s1 s3.
Proof. unfold runner_kept, out_kept. intros [A B] E1 E2. rewrite E1, E2. auto. Qed.

Lemma src_is_other rid rid' e : e_src e = Some rid' -> rid' <> rid -> src_is rid e = false.
Proof. unfold src_is. intros -> H. apply Nat.eqb_neq. exact H. Qed.

Lemma kept_do_run rid s rid' r o : rid' <> rid ->
  runner_kept rid s (do_run s rid' r o) /\ out_kept rid s (do_run s rid' r o).
Proof.
  intros Hne. assert (Hb : Nat.eqb rid' rid = false) by (apply Nat.eqb_neq; exact Hne).
  unfold do_run, runner_kept, out_kept.
  destruct (r_kind r); destruct o; cbn;
    repeat match goal with
           | |- context [if r_initial r then _ else _] => destruct (r_initial r); cbn
           | |- context [match Diff ?a ?b with Some _ => _ | None => _ end] => destruct (Diff a b); cbn
           end;
    destruct (st_wfail s); unfold src_is; cbn; rewrite ?Hb;
    (split; [left; try reflexivity; apply upd_other; auto | reflexivity]).
Qed.

Lemma kept_from rid s s1 s' :
  st_runners s1 = st_runners s -> st_out s1 = st_out s ->
  runner_kept rid s1 s' /\ out_kept rid s1 s' -> runner_kept rid s s' /\ out_kept rid s s'.
Proof. unfold runner_kept, out_kept. intros E1 E2. rewrite E1, E2. auto. Qed.

(** The reply the reader is about to write never claims a rerunner as its source. *)
Definition inv_pend (s : state) : Prop := forall e, st_pend s = Some e -> e_src e = None.

(** One step, seen from a rerunner that is stopped (hence not the one computing). *)
Lemma step_kept cfg s l s' rid r :
  inv_fresh s -> inv_pend s -> st_runners s rid = Some r -> r_stat r = Stopped -> step cfg s l = Some s' ->
  runner_kept rid s s' /\ out_kept rid s s'.
Proof.
  intros Hf Hp Hr Hst Hs.
  assert (Hex : st_runners s rid <> None) by congruence.
  destruct l; cbn [step] in Hs.
  - destruct (ready s); [|discriminate]. inversion Hs; subst; clear Hs. unfold do_subscribe.
    destruct q; try (apply kept_ext; reflexivity);
      (destruct (has_id id (st_subs s)); [apply kept_ext; reflexivity|]);
      (destruct (Nat.ltb (c_max cfg) (List.length (st_subs s) + 1)); [apply kept_ext; reflexivity|]).
    + apply kept_accept; assumption.
    + apply kept_ext; reflexivity.
  - destruct (ready s); [|discriminate]. inversion Hs; subst; clear Hs. unfold do_mutate.
    destruct q; try (apply kept_ext; reflexivity);
      (destruct (c_fix_mutdup cfg && has_id id (st_subs s)); [apply kept_ext; reflexivity|]).
    + apply kept_accept; assumption.
    + apply kept_ext; reflexivity.
  - destruct (ready s); [|discriminate]. inversion Hs; subst. apply kept_close_id.
  - destruct (ready s); [|discriminate]. inversion Hs; subst. eapply kept_push; reflexivity.
  - destruct (ready s); [|discriminate]. inversion Hs; subst. destruct ok; [apply kept_refl | apply kept_ext; reflexivity].
  - destruct (ready s); [|discriminate]. inversion Hs; subst. apply kept_ext; reflexivity.
  - destruct (ready0 s); [|discriminate]. inversion Hs; subst. apply kept_close_all.
  - destruct (st_pend s) as [e|] eqn:P; [|discriminate]. destruct (st_closed s); [discriminate|]. inversion Hs; subst.
    eapply kept_push; [reflexivity | reflexivity | exact (Hp _ P)].
  - destruct (st_runners s rid0) as [r0|] eqn:E; [|discriminate]. destruct (is_live r0) eqn:L; [|discriminate].
    inversion Hs; subst. apply kept_do_run. intros ->. rewrite Hr in E. inversion E; subst.
    unfold is_live in L. rewrite Hst in L. discriminate.
  - inversion Hs; subst. apply kept_refl.
  - inversion Hs; subst. apply kept_refl.
  - destruct (mem_task (id, rid0) (st_tasks s)); [|discriminate]. inversion Hs; subst; clear Hs.
    unfold do_close_task.
    set (s1 := set_tasks s (remove_task (id, rid0) (st_tasks s))).
    destruct (c_fix_aba cfg).
    + destruct (find_id id (st_subs s1)) eqn:E; [|apply kept_ext; reflexivity].
      destruct (Nat.eqb n rid0); [|apply kept_ext; reflexivity].
      apply (kept_from rid s s1); [reflexivity | reflexivity | apply kept_close_entry].
    + apply (kept_from rid s s1); [reflexivity | reflexivity | apply kept_close_id].
  - destruct (ready0 s); [|discriminate]. inversion Hs; subst. apply kept_close_all.
  - inversion Hs; subst. apply kept_refl.
  - inversion Hs; subst. apply kept_ext; reflexivity.
Qed.

(** * What one step can do to any rerunner *)

Inductive change (s s' : state) (rid : nat) : Prop :=
| ch_same : st_runners s' rid = st_runners s rid -> change s s' rid
| ch_stop : forall r, st_runners s rid = Some r -> st_runners s' rid = Some (set_stat r Stopped) -> change s s' rid
| ch_new : forall id k, st_runners s rid = None -> rid = st_next s -> st_next s < st_next s' ->
                        st_runners s' rid = Some (mk_runner id k Live true JNull) -> change s s' rid
| ch_run : forall r r', st_runners s rid = Some r -> is_live r = true -> st_runners s' rid = Some r' ->
                        r_sub r' = r_sub r -> r_kind r' = r_kind r -> r_stat r' <> Stopped -> change s s' rid.

Lemma change_ext s s1 s' rid : st_runners s1 = st_runners s -> st_next s1 = st_next s -> change s1 s' rid -> change s s' rid.
Proof.
  intros E1 E2 H. destruct H as [E|r E0 E3|id k E0 E3 E4 E5|r r' E0 L E3 E4 E5 E6].
  - apply ch_same. rewrite E, E1. reflexivity.
  - eapply ch_stop; [rewrite <- E1; exact E0 | exact E3].
  - eapply ch_new; [rewrite <- E1; exact E0 | rewrite <- E2; exact E3 | rewrite <- E2; exact E4 | exact E5].
  - eapply ch_run; [rewrite <- E1; exact E0 | exact L | exact E3 | exact E4 | exact E5 | exact E6].
Qed.

Lemma change_accept s id k b rid : inv_fresh s -> change s (accept s id k b) rid.
Proof.
  intros Hf. unfold accept. destruct (Nat.eq_dec rid (st_next s)) as [->|Hne].
  - eapply ch_new; cbn [st_runners st_next]; [|reflexivity|lia|apply upd_same].
    destruct (st_runners s (st_next s)) eqn:E; [|reflexivity]. apply Hf in E. lia.
  - apply ch_same. cbn [st_runners]. apply upd_other. exact Hne.
Qed.

Lemma change_close_entry s id rid' rid : change s (close_entry s id rid') rid.
Proof.
  unfold close_entry. destruct (Nat.eq_dec rid rid') as [->|Hne].
  - destruct (st_runners s rid') eqn:E.
    + eapply ch_stop; [exact E|]. cbn [st_runners]. apply stop_in_same. exact E.
    + apply ch_same. cbn [st_runners]. unfold stop_in. rewrite E. exact E.
  - apply ch_same. cbn [st_runners]. apply stop_in_other. exact Hne.
Qed.

Lemma change_close_id s id rid : change s (close_id s id) rid.
Proof. unfold close_id. destruct (find_id id (st_subs s)); [apply change_close_entry | apply ch_same; reflexivity]. Qed.

Lemma change_close_all cfg s rid : change s (close_all cfg s) rid.
Proof.
  unfold close_all. destruct (st_runners s rid) eqn:E.
  - destruct (has_rid rid (st_subs s)) eqn:Eh.
    + eapply ch_stop; [exact E|]. cbn [st_runners]. rewrite E, Eh. reflexivity.
    + apply ch_same. cbn [st_runners]. rewrite E, Eh. reflexivity.
  - apply ch_same. cbn [st_runners]. rewrite E. reflexivity.
Qed.

Lemma change_do_run s rid' r o rid : st_runners s rid' = Some r -> is_live r = true -> change s (do_run s rid' r o) rid.
Proof.
  intros Hr Hl. destruct (Nat.eq_dec rid rid') as [->|Hne].
  - unfold do_run. destruct (r_kind r) eqn:K; destruct o; cbn;
      repeat match goal with
             | |- context [if r_initial r then _ else _] => destruct (r_initial r); cbn
             | |- context [match Diff ?a ?b with Some _ => _ | None => _ end] => destruct (Diff a b); cbn
             end;
      try (apply ch_same; reflexivity);
      (eapply ch_run; [exact Hr | exact Hl | cbn [st_runners]; apply upd_same | reflexivity | cbn; congruence | cbn; congruence]).
  - apply ch_same. unfold do_run. destruct (r_kind r); destruct o; cbn;
      repeat match goal with
             | |- context [if r_initial r then _ else _] => destruct (r_initial r); cbn
             | |- context [match Diff ?a ?b with Some _ => _ | None => _ end] => destruct (Diff a b); cbn
             end; try reflexivity; apply upd_other; exact Hne.
Qed.

Lemma step_change cfg s l s' rid : inv_fresh s -> step cfg s l = Some s' -> change s s' rid.
Proof.
  intros Hf Hs. destruct l; cbn [step] in Hs.
  - destruct (ready s); [|discriminate]. inversion Hs; subst; clear Hs. unfold do_subscribe.
    destruct q; try (apply ch_same; reflexivity);
      (destruct (has_id id (st_subs s)); [apply ch_same; reflexivity|]);
      (destruct (Nat.ltb (c_max cfg) (List.length (st_subs s) + 1)); [apply ch_same; reflexivity|]).
    + apply change_accept; assumption.
    + apply ch_same; reflexivity.
  - destruct (ready s); [|discriminate]. inversion Hs; subst; clear Hs. unfold do_mutate.
    destruct q; try (apply ch_same; reflexivity);
      (destruct (c_fix_mutdup cfg && has_id id (st_subs s)); [apply ch_same; reflexivity|]).
    + apply change_accept; assumption.
    + apply ch_same; reflexivity.
  - destruct (ready s); [|discriminate]. inversion Hs; subst. apply change_close_id.
  - destruct (ready s); [|discriminate]. inversion Hs; subst. apply ch_same; reflexivity.
  - destruct (ready s); [|discriminate]. inversion Hs; subst. destruct ok; apply ch_same; reflexivity.
  - destruct (ready s); [|discriminate]. inversion Hs; subst. apply ch_same; reflexivity.
  - destruct (ready0 s); [|discriminate]. inversion Hs; subst. apply change_close_all.
  - destruct (st_pend s); [|discriminate]. destruct (st_closed s); [discriminate|]. inversion Hs; subst. apply ch_same; reflexivity.
  - destruct (st_runners s rid0) as [r0|] eqn:E; [|discriminate]. destruct (is_live r0) eqn:L; [|discriminate].
    inversion Hs; subst. apply change_do_run; assumption.
  - inversion Hs; subst. apply ch_same; reflexivity.
  - inversion Hs; subst. apply ch_same; reflexivity.
  - destruct (mem_task (id, rid0) (st_tasks s)); [|discriminate]. inversion Hs; subst; clear Hs.
    unfold do_close_task.
    set (s1 := set_tasks s (remove_task (id, rid0) (st_tasks s))).
    apply (change_ext s s1); [reflexivity | reflexivity |].
    destruct (c_fix_aba cfg); [|apply change_close_id].
    destruct (find_id id (st_subs s1)); [|apply ch_same; reflexivity].
    destruct (Nat.eqb n rid0); [apply change_close_entry | apply ch_same; reflexivity].
  - destruct (ready0 s); [|discriminate]. inversion Hs; subst. apply change_close_all.
  - inversion Hs; subst. apply ch_same; reflexivity.
  - inversion Hs; subst. apply ch_same; reflexivity.
Qed.

(** * The light invariant (holds for the original code too) *)

Definition Lite (s : state) : Prop := inv_fresh s /\ inv_pend s.

Lemma Lite_init : Lite init.
Proof. split; [intros ? ? H | intros ? H]; discriminate. Qed.

Ltac crush_step Hs :=
  unfold step, do_subscribe, do_mutate, do_close_task, close_id, do_run, ready, ready0 in Hs;
  repeat match type of Hs with
         | context [match ?x with _ => _ end] => destruct x eqn:?; try discriminate
         end;
  inversion Hs; subst; clear Hs; cbn.

Lemma step_next cfg s l s' : step cfg s l = Some s' -> st_next s <= st_next s'.
Proof. intros Hs. destruct l; crush_step Hs; lia. Qed.

Lemma step_pend cfg s l s' : inv_pend s -> step cfg s l = Some s' -> inv_pend s'.
Proof.
  unfold inv_pend. intros Hp Hs. destruct l; crush_step Hs;
    try exact Hp; try (intros e [= <-]; reflexivity); try discriminate.
Qed.

Lemma step_Lite cfg s l s' : Lite s -> step cfg s l = Some s' -> Lite s'.
Proof.
  intros [Hf Hp] Hs. split; [|eapply step_pend; eauto].
  intros rid r Hr. pose proof (step_next _ _ _ _ Hs) as Hn.
  destruct (step_change cfg s l s' rid Hf Hs) as [E|r0 E0 E1|id k E0 E1 E2 E3|r0 r1 E0 L E1 _ _ _].
  - rewrite E in Hr. apply Hf in Hr. lia.
  - apply Hf in E0. lia.
  - lia.
  - apply Hf in E0. lia.
Qed.

Lemma run_Lite cfg h : forall s s', Lite s -> run cfg s h = Some s' -> Lite s'.
Proof.
  induction h as [|l t IH]; intros s s' H Hr; cbn [run] in Hr.
  - inversion Hr; subst; exact H.
  - destruct (step cfg s l) eqn:E; [|discriminate]. eapply IH; [|exact Hr]. eapply step_Lite; eauto.
Qed.

Lemma reachable_Lite cfg s : reachable cfg s -> Lite s.
Proof. intros [h Hr]. eapply run_Lite; eauto. apply Lite_init. Qed.

(** * A stopped rerunner stays stopped, completes no run and writes nothing - in every continuation *)

Theorem stopped_forever cfg h : forall s s' rid r,
  Lite s -> st_runners s rid = Some r -> r_stat r = Stopped -> run cfg s h = Some s' ->
  (exists r', st_runners s' rid = Some r' /\ r_stat r' = Stopped /\ r_sub r' = r_sub r)
  /\ filter (src_is rid) (st_out s') = filter (src_is rid) (st_out s).
Proof.
  induction h as [|l t IH]; intros s s' rid r HL Hr Hst Hrun; cbn [run] in Hrun.
  - inversion Hrun; subst. split; [eauto | reflexivity].
  - destruct (step cfg s l) as [s1|] eqn:E; [|discriminate].
    destruct HL as [Hf Hp].
    destruct (step_kept cfg s l s1 rid r Hf Hp Hr Hst E) as [K O].
    assert (exists r1, st_runners s1 rid = Some r1 /\ r_stat r1 = Stopped /\ r_sub r1 = r_sub r) as (r1 & Hr1 & Hst1 & Hs1).
    { destruct K as [K|(r0 & K0 & K1)].
      - rewrite K. eauto.
      - rewrite Hr in K0. inversion K0; subst. rewrite K1. eexists; repeat split. }
    destruct (IH s1 s' rid r1 (step_Lite _ _ _ _ (conj Hf Hp) E) Hr1 Hst1 Hrun) as [(r' & A & B & C) D].
    split; [exists r'; repeat split; congruence|]. unfold out_kept in O. congruence.
Qed.

Lemma filter_rev {A} (f : A -> bool) l : filter f (rev l) = rev (filter f l).
Proof.
  induction l as [|x t IH]; [reflexivity|]. cbn [rev filter]. rewrite filter_app, IH. cbn [filter].
  destruct (f x); cbn [rev]; [reflexivity | rewrite app_nil_r; reflexivity].
Qed.

Corollary silent_after_end cfg h s s' rid r :
  reachable cfg s -> st_runners s rid = Some r -> r_stat r = Stopped -> run cfg s h = Some s' ->
  (forall o, step cfg s' (LRun rid o) = None) /\ writes_of rid s' = writes_of rid s.
Proof.
  intros R Hr Hst Hrun.
  destruct (stopped_forever cfg h s s' rid r (reachable_Lite _ _ R) Hr Hst Hrun) as [(r' & A & B & _) D].
  split.
  - intros o. eapply stopped_never_runs; eauto.
  - unfold writes_of, out_of. rewrite !filter_rev. rewrite D. reflexivity.
Qed.

(** * Every rerunner ends exactly once *)

Lemma stopped_alive_excl s rid : stopped_in s rid = true -> alive_in s rid = false.
Proof. unfold stopped_in, alive_in. destruct (st_runners s rid); [|reflexivity]. intros ->. reflexivity. Qed.

Lemma change_stopped_mono s s1 rid : change s s1 rid -> stopped_in s rid = true -> stopped_in s1 rid = true.
Proof.
  unfold stopped_in. intros C Hst. destruct (st_runners s rid) as [r|] eqn:Er; [|discriminate].
  destruct C as [C|r0 C0 C1|id k C0|r0 r1 C0 L].
  - rewrite C, Er. exact Hst.
  - rewrite C1. reflexivity.
  - congruence.
  - rewrite Er in C0. inversion C0; subst. unfold is_live in L. unfold is_stopped in Hst.
    destruct (r_stat r0); discriminate.
Qed.

Lemma change_newly_stopped s s1 rid :
  change s s1 rid -> stopped_in s rid = false -> stopped_in s1 rid = true -> alive_in s rid = true.
Proof.
  unfold stopped_in, alive_in. intros C Hst S1.
  destruct C as [C|r0 C0 C1|id k C0 C1 C2 C3|r0 r1 C0 L C1 _ _ C4].
  - rewrite C in S1. congruence.
  - rewrite C0 in *. rewrite Hst. reflexivity.
  - rewrite C3 in S1. cbn in S1. discriminate.
  - rewrite C1 in S1. unfold is_stopped in S1. destruct (r_stat r1); try discriminate. congruence.
Qed.

(** The number of steps at which [rid] goes from alive to stopped is 1 if it is stopped now and was not
    at the start, 0 otherwise; and once stopped, always stopped. *)
Theorem end_count_exact cfg h : forall s s' rid, Lite s -> run cfg s h = Some s' ->
  (stopped_in s rid = true -> stopped_in s' rid = true /\ end_count cfg s h rid = 0) /\
  (stopped_in s rid = false -> end_count cfg s h rid = if stopped_in s' rid then 1 else 0).
Proof.
  induction h as [|l t IH]; intros s s' rid HL Hrun; cbn [run end_count] in *.
  - inversion Hrun; subst. split; [auto|]. intros ->. reflexivity.
  - destruct (step cfg s l) as [s1|] eqn:E; [|discriminate].
    destruct (IH s1 s' rid (step_Lite _ _ _ _ HL E) Hrun) as [IH1 IH2].
    destruct HL as [Hf Hp].
    pose proof (step_change cfg s l s1 rid Hf E) as C.
    split.
    + intros Hst. rewrite (stopped_alive_excl _ _ Hst). cbn [andb].
      destruct (IH1 (change_stopped_mono _ _ _ C Hst)) as [A B]. rewrite B. auto.
    + intros Hst. destruct (stopped_in s1 rid) eqn:S1.
      * destruct (IH1 eq_refl) as [A B]. rewrite A, B.
        rewrite (change_newly_stopped _ _ _ C Hst S1). reflexivity.
      * rewrite andb_false_r. cbn [plus]. apply IH2. reflexivity.
Qed.

(** * What may end a rerunner *)

Lemma do_run_not_stopping s rid0 r0 o rid r :
  st_runners s rid0 = Some r0 -> is_live r0 = true -> st_runners s rid = Some r -> r_stat r <> Stopped ->
  stopped_in (do_run s rid0 r0 o) rid = false.
Proof.
  intros E L Hr Hst. unfold stopped_in.
  destruct (change_do_run s rid0 r0 o rid E L) as [C|r1 C0 C1|id k C0 C1 C2 C3|r1 r2 C0 L1 C1 _ _ C4].
  - rewrite C, Hr. unfold is_stopped. destruct (r_stat r); congruence.
  - exfalso. rewrite Hr in C0. inversion C0; subst r1. clear C0.
    destruct (Nat.eq_dec rid rid0) as [->|Hne].
    + rewrite E in Hr. inversion Hr; subst r0.
      unfold do_run in C1. destruct (r_kind r); destruct o; cbn in C1;
        repeat match type of C1 with
               | context [if r_initial r then _ else _] => destruct (r_initial r); cbn in C1
               | context [match Diff ?a ?b with Some _ => _ | None => _ end] => destruct (Diff a b); cbn in C1
               end; unfold upd in C1; rewrite ?Nat.eqb_refl in C1; rewrite ?E in C1;
        inversion C1 as [Q]; unfold set_stat in Q; destruct r; cbn in *; inversion Q; congruence.
    + assert (X : st_runners (do_run s rid0 r0 o) rid = st_runners s rid).
      { unfold do_run. destruct (r_kind r0); destruct o; cbn;
          repeat match goal with
                 | |- context [if r_initial r0 then _ else _] => destruct (r_initial r0); cbn
                 | |- context [match Diff ?a ?b with Some _ => _ | None => _ end] => destruct (Diff a b); cbn
                 end; try reflexivity; apply upd_other; exact Hne. }
      rewrite X, Hr in C1. inversion C1 as [Q]. unfold set_stat in Q. destruct r; cbn in *; inversion Q; congruence.
  - congruence.
  - rewrite C1. unfold is_stopped. destruct (r_stat r2); congruence.
Qed.

Theorem end_cause cfg s l s' rid r :
  c_fix_aba cfg = true -> Inv s -> step cfg s l = Some s' ->
  st_runners s rid = Some r -> r_stat r <> Stopped -> stopped_in s' rid = true ->
  l = LUnsubscribe (r_sub r) \/ l = LCloseTask (r_sub r) rid \/ l = LSocketClose \/ l = LMalformed.
Proof.
  intros Haba (Hn & Hm & Hl & Hf & Hc) Hs Hr Hst Hend.
  assert (Hns : forall s1, st_runners s1 = st_runners s -> stopped_in s1 rid = true -> False).
  { intros s1 E. unfold stopped_in. rewrite E, Hr. unfold is_stopped. destruct (r_stat r); congruence. }
  assert (Hce : forall s0 id rid0, st_runners s0 = st_runners s -> st_subs s0 = st_subs s ->
                                   find_id id (st_subs s0) = Some rid0 ->
                                   stopped_in (close_entry s0 id rid0) rid = true -> rid0 = rid /\ id = r_sub r).
  { intros s0 id rid0 E1 E2 Ef He. destruct (Nat.eq_dec rid0 rid) as [->|Hne].
    - split; [reflexivity|]. rewrite E2 in Ef. apply find_id_In in Ef. destruct (Hm _ _ Ef) as (r1 & A & B & _).
      rewrite Hr in A. inversion A; subst. reflexivity.
    - exfalso. unfold stopped_in, close_entry in He. cbn [st_runners] in He.
      rewrite stop_in_other in He by auto. rewrite E1, Hr in He. unfold is_stopped in He. destruct (r_stat r); congruence. }
  destruct l; cbn [step] in Hs.
  - exfalso. crush_step Hs; try (eapply Hns; [|exact Hend]; reflexivity).
    unfold stopped_in, accept in Hend. cbn [st_runners] in Hend.
    rewrite upd_other in Hend by (apply Hf in Hr; lia). rewrite Hr in Hend.
    unfold is_stopped in Hend. destruct (r_stat r); congruence.
  - exfalso. crush_step Hs; try (eapply Hns; [|exact Hend]; reflexivity).
    unfold stopped_in, accept in Hend. cbn [st_runners] in Hend.
    rewrite upd_other in Hend by (apply Hf in Hr; lia). rewrite Hr in Hend.
    unfold is_stopped in Hend. destruct (r_stat r); congruence.
  - left. destruct (ready s); [|discriminate]. inversion Hs; subst; clear Hs. unfold close_id in Hend.
    destruct (find_id id (st_subs s)) eqn:Ef; [|exfalso; eapply Hns; [|exact Hend]; reflexivity].
    destruct (Hce s id n eq_refl eq_refl Ef Hend) as [_ ->]. reflexivity.
  - exfalso. crush_step Hs; (eapply Hns; [|exact Hend]; reflexivity).
  - exfalso. crush_step Hs; (eapply Hns; [|exact Hend]; reflexivity).
  - exfalso. crush_step Hs; (eapply Hns; [|exact Hend]; reflexivity).
  - right; right; right; reflexivity.
  - exfalso. crush_step Hs; (eapply Hns; [|exact Hend]; reflexivity).
  - exfalso. destruct (st_runners s rid0) as [r0|] eqn:E; [|discriminate]. destruct (is_live r0) eqn:L; [|discriminate].
    inversion Hs; subst; clear Hs.
    rewrite (do_run_not_stopping s rid0 r0 o rid r E L Hr Hst) in Hend. discriminate.
  - exfalso. inversion Hs; subst. eapply Hns; [|exact Hend]; reflexivity.
  - exfalso. inversion Hs; subst. eapply Hns; [|exact Hend]; reflexivity.
  - right; left. destruct (mem_task (id, rid0) (st_tasks s)); [|discriminate]. inversion Hs; subst; clear Hs.
    unfold do_close_task in Hend. rewrite Haba in Hend.
    set (s1 := set_tasks s (remove_task (id, rid0) (st_tasks s))) in *.
    destruct (find_id id (st_subs s1)) eqn:Ef; [|exfalso; eapply Hns; [|exact Hend]; reflexivity].
    destruct (Nat.eqb n rid0) eqn:En; [|exfalso; eapply Hns; [|exact Hend]; reflexivity].
    apply Nat.eqb_eq in En. subst n.
    destruct (Hce s1 id rid0 eq_refl eq_refl Ef Hend) as [-> ->]. reflexivity.
  - right; right; left; reflexivity.
  - exfalso. inversion Hs; subst. eapply Hns; [|exact Hend]; reflexivity.
  - exfalso. inversion Hs; subst. eapply Hns; [|exact Hend]; reflexivity.
Qed.
