(** The websocket connection (Server/Model.v) composed with the reactive package (Reactive/Rerunner.v, the
    model of reactive/graph.go + reactive/rerunner.go that C04 / C08 are proved about).

    Server/Model.v treats a rerunner through its interface - a computation completes ([LRun]), Stop is
    called, a run fails - and over-approximates when that happens.  Here the interface is bound to the real
    thing: the product runs both transition systems side by side,

    - the rerunner the connection creates as number [rid] is rerunner [rid] of the reactive state (the pool
      [w_progs] lists the compute scripts - which slots a query's resolvers read, through which caches and
      goroutines; a rerunner the connection has not created yet cannot take its lock);
    - data changes are the reactive labels Strobe / Invalidate of a slot, timers, PurgeCache, cancellation;
    - a reactive step in which rerunner [rid] publishes a computation whose recorded reads are [out]
      (rerunner.go:421-427) is, at the same instant, the connection's [LRun rid (OOk (w_render w rid out))]:
      the function handleSubscribe gave to NewRerunner has diffed and written (server.go:237-258) - its JSON
      result is a function [w_render] of what the resolvers read;
    - a reactive step in which a run of [rid] returns a non-retry error (rerunner.go:415-419) is the
      connection's [LRun rid o] for a failing outcome [o] (server.go:199-235; every outcome of a mutation,
      server.go:337-370);
    - a connection step that stops rerunners (closeSubscription, closeOwnSubscription, closeSubscriptions)
      performs Rerunner.Stop on each of them, in the connection's critical section: cancelCtx, then the r.mu
      section (rerunner.go:441-452) - enabled when no run of that rerunner holds r.mu, which is where the Go
      code's Stop returns.

    What synchronises is decided by looking at the rerunner records before and after a reactive step (the
    ghost fields [r_failed], [r_out], [r_comp], [r_stop] of Reactive/Rerunner.v are the observation points of
    the interface): a reactive step that changes them in a way the connection does not take part in is not a
    step of the product.  Executable definitions only. *)
From Coq Require Import List ZArith String Bool Arith.
From Thunder Require Import Lib.Json DiffMerge.Model Server.Model Server.Spec Server.Iface.
From Thunder Require Reactive.Graph Reactive.Rerunner.
Import ListNotations.
Open Scope list_scope.

Module RR := Thunder.Reactive.Rerunner.

Record world := mk_world {
  w_cfg : config;                                  (* the connection: limit, repairs *)
  w_slots : nat;                                   (* number of data slots *)
  w_progs : list (list RR.op * bool);              (* rerunner number -> (compute script, alwaysSpawnGoroutine) *)
  w_render : nat -> list (nat * nat) -> json       (* rerunner number -> recorded reads (slot, version) -> result of Execute *)
}.

Definition pstate := (state * RR.state)%type.

Definition pinit (w : world) : pstate := (init, RR.init (w_slots w) (w_progs w)).

Definition pool (w : world) : nat := List.length (w_progs w).

(** * What a reactive step did to one rerunner, seen through the interface *)

Definition onat_eqb (a b : option nat) : bool :=
  match a, b with
  | None, None => true
  | Some x, Some y => Nat.eqb x y
  | _, _ => false
  end.

Fixpoint pairs_eqb (a b : list (nat * nat)) : bool :=
  match a, b with
  | [], [] => true
  | (x1, y1) :: t1, (x2, y2) :: t2 => Nat.eqb x1 x2 && Nat.eqb y1 y2 && pairs_eqb t1 t2
  | _, _ => false
  end.

Definition oout_eqb (a b : option (list (nat * nat))) : bool :=
  match a, b with
  | None, None => true
  | Some x, Some y => pairs_eqb x y
  | _, _ => false
  end.

Inductive iev :=
| INone                               (* nothing the connection sees *)
| IPub (out : list (nat * nat))       (* a computation was published; [out]: the reads it recorded *)
| IFail                               (* a run returned a non-retry error *)
| IBad.                               (* anything else: not a step of the product *)

Definition iev_of (x y : RR.rr) : iev :=
  if negb (Bool.eqb (RR.r_stop x) (RR.r_stop y)) then IBad
  else if negb (Bool.eqb (RR.r_failed x) (RR.r_failed y))
       then (if RR.r_failed y && oout_eqb (RR.r_out x) (RR.r_out y) && onat_eqb (RR.r_comp x) (RR.r_comp y) then IFail else IBad)
  else if onat_eqb (RR.r_comp x) (RR.r_comp y)
       then (if oout_eqb (RR.r_out x) (RR.r_out y) then INone else IBad)
  else match RR.r_comp y, RR.r_out y with
       | Some _, Some out => IPub out
       | _, _ => IBad
       end.

Definition is_none (e : iev) : bool := match e with INone => true | _ => false end.

Definition events (n : nat) (rx rx' : RR.state) : list (nat * iev) :=
  filter (fun p => negb (is_none (snd p)))
         (map (fun r => (r, iev_of (RR.getr rx r) (RR.getr rx' r))) (seq 0 n)).

(** The same step in the vocabulary of Server/Iface.v - what the hooks of reactive/rerunner.go report: Stop's
    critical section (with whether a computation was held), publish (with whether there was a previous
    computation), a non-retry failure. *)
Definition is_some {A} (o : option A) : bool := match o with Some _ => true | None => false end.

Definition rx_ev (x y : RR.rr) : option rxev :=
  if negb (RR.r_stop x) && RR.r_stop y then Some (XStop (is_some (RR.r_comp x)))
  else match iev_of x y with
       | IPub _ => Some (XPub (is_some (RR.r_comp x)))
       | IFail => Some XFail
       | _ => None
       end.

(** * Rerunner.Stop, called by the connection: LStop spawns the call, its two critical sections follow at once *)

Definition stop_seq (rx : RR.state) (r : nat) : option RR.state :=
  let t := RR.s_tid rx in
  match RR.step rx (RR.LStop r) with
  | None => None
  | Some s1 =>
      match RR.step s1 (RR.LTask t 0) with
      | None => None
      | Some s2 => RR.step s2 (RR.LTask t 0)
      end
  end.

Fixpoint stop_all (rx : RR.state) (rs : list nat) : option RR.state :=
  match rs with
  | [] => Some rx
  | r :: t => match stop_seq rx r with Some rx' => stop_all rx' t | None => None end
  end.

(** The rerunners a connection step stopped. *)
Definition newly_stopped (sv sv' : state) : list nat :=
  filter (fun r => alive_in sv r && stopped_in sv' r) (seq 0 (st_next sv)).

(** After a connection step: a rerunner the connection stopped has [stop] set and holds no computation any
    more (nothing else of its interface changed); for every other rerunner nothing of the interface changed. *)
Definition server_sync (sv sv' : state) (x y : RR.rr) (r : nat) : bool :=
  if alive_in sv r && stopped_in sv' r
  then RR.r_stop y && Bool.eqb (RR.r_failed x) (RR.r_failed y) && oout_eqb (RR.r_out x) (RR.r_out y)
       && onat_eqb (RR.r_comp y) None
  else is_none (iev_of x y).

(** A rerunner the connection has not created does not exist yet: it cannot take its lock or begin a run. *)
Definition uncreated_quiet (sv : state) (x y : RR.rr) (r : nat) : bool :=
  match st_runners sv r with
  | Some _ => true
  | None => Bool.eqb (RR.r_mu x) (RR.r_mu y) && Nat.eqb (RR.r_runs x) (RR.r_runs y)
  end.

Definition sub_live_in (s : state) (rid : nat) : bool :=
  match st_runners s rid with
  | Some r => is_live r && match r_kind r with KSub => true | KMut => false end
  | None => false
  end.

Definition failed_in (s : state) (rid : nat) : bool :=
  match st_runners s rid with
  | Some r => match r_stat r with Failed => true | _ => false end
  | None => false
  end.

Definition is_run_label (l : label) : bool := match l with LRun _ _ => true | _ => false end.
Definition is_stop_label (l : RR.label) : bool := match l with RR.LStop _ => true | _ => false end.

(** * Labels and steps of the product *)

Inductive plabel :=
| PServer (l : label)                           (* a step of the connection that is not a run completion *)
| PReact (l : RR.label) (o : option outcome).   (* a step of the reactive package; [o]: when it makes a run fail, what the
                                                   computation had returned to the connection (error, cancelled, a mutation's result) *)

Definition pstep (w : world) (p : pstate) (pl : plabel) : option pstate :=
  let '(sv, rx) := p in
  let n := pool w in
  match pl with
  | PServer l =>
      if is_run_label l then None
      else match step (w_cfg w) sv l with
           | None => None
           | Some sv' =>
               match stop_all rx (newly_stopped sv sv') with
               | None => None
               | Some rx' =>
                   if Nat.leb (st_next sv') n
                      && forallb (fun r => server_sync sv sv' (RR.getr rx r) (RR.getr rx' r) r) (seq 0 n)
                   then Some (sv', rx') else None
               end
           end
  | PReact l o =>
      if is_stop_label l then None
      else match RR.step rx l with
           | None => None
           | Some rx' =>
               if forallb (fun r => uncreated_quiet sv (RR.getr rx r) (RR.getr rx' r) r) (seq 0 n)
               then match events n rx rx', o with
                    | [], None => Some (sv, rx')
                    | [(r, IPub out)], None =>
                        match step (w_cfg w) sv (LRun r (OOk (w_render w r out))) with
                        | Some sv' => if sub_live_in sv' r then Some (sv', rx') else None
                        | None => None
                        end
                    | [(r, IFail)], Some oc =>
                        match step (w_cfg w) sv (LRun r oc) with
                        | Some sv' => if failed_in sv' r then Some (sv', rx') else None
                        | None => None
                        end
                    | _, _ => None
                    end
               else None
           end
  end.

(** The step of the connection model a product step contains, if any. *)
Definition plabel_server (w : world) (p : pstate) (pl : plabel) : option label :=
  match pl with
  | PServer l => Some l
  | PReact l o =>
      match RR.step (snd p) l with
      | Some rx' =>
          match events (pool w) (snd p) rx', o with
          | [(r, IPub out)], None => Some (LRun r (OOk (w_render w r out)))
          | [(r, IFail)], Some oc => Some (LRun r oc)
          | _, _ => None
          end
      | None => None
      end
  end.

Fixpoint prun (w : world) (p : pstate) (h : list plabel) : option pstate :=
  match h with
  | [] => Some p
  | l :: t => match pstep w p l with Some p' => prun w p' t | None => None end
  end.

(** The number of steps of a history at which Stop's critical section ran on rerunner [rid] (read off the
    reactive side, as the hook stop.mark would report it). *)
Definition is_xstop (o : option rxev) : bool := match o with Some (XStop _) => true | _ => false end.

Fixpoint stop_count (w : world) (p : pstate) (h : list plabel) (rid : nat) : nat :=
  match h with
  | [] => 0
  | l :: t =>
      match pstep w p l with
      | None => 0
      | Some p' =>
          (if is_xstop (rx_ev (RR.getr (snd p) rid) (RR.getr (snd p') rid)) then 1 else 0) + stop_count w p' t rid
      end
  end.

Definition preachable (w : world) (p : pstate) : Prop := exists h, prun w (pinit w) h = Some p.

(** Results of mutations that histories carry in their labels are well-formed JSON objects (what Execute
    returns for a selection set); the results of subscriptions are [w_render]'s, see [good_world]. *)
Definition pgood (pl : plabel) : bool :=
  match pl with
  | PReact _ (Some (OOk v)) => wf v && match v with JObj _ => true | _ => false end
  | _ => true
  end.

Definition good_world (w : world) : Prop :=
  forall r out, wf (w_render w r out) = true /\ exists kv, w_render w r out = JObj kv.

(** The query of rerunner [r] evaluated on the data as it is now, along the reads [out] took. *)
Definition on_current (rx : RR.state) (out : list (nat * nat)) : list (nat * nat) :=
  map (fun p => (fst p, RR.slot_ver rx (fst p))) out.

(** The whole system is at rest: no goroutine of the reactive package is left, no asynchronous close is
    pending, the reader has written its reply. *)
Definition pquiescent (p : pstate) : Prop :=
  RR.quiescent (snd p) /\ st_tasks (fst p) = [] /\ st_pend (fst p) = None.
