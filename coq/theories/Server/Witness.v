(** Concrete histories: non-vacuity of the hypotheses, and the refutation witnesses for the original
    (unrepaired) handleMutate / closeSubscriptions / asynchronous close.  Closed computations only. *)
From Coq Require Import List ZArith String Bool Arith.
From Thunder Require Import Lib.Json DiffMerge.Model Server.Model Server.Spec.
Import ListNotations.
Open Scope string_scope.

Definition v1 : json := JObj [("a", JNum 1)].
Definition v2 : json := JObj [("a", JNum 2)].

(** F13: subscribe 0, first run; mutate with the same id; the mutation runs and its close task removes the
    mutation's entry; the socket closes.  Rerunner 0 (the subscription) is still live, not in the map. *)
Definition h_f13 : list label :=
  [LSubscribe 0 QOk; LRun 0 (OOk v1); LMutate 0 QOk; LRun 1 (OOk v1); LCloseTask 0 1; LSocketClose].

Definition only_mutdup_missing (max : nat) : config := mk_cfg max true false true true.
Definition only_closelog_missing (max : nat) : config := mk_cfg max false true true true.
Definition only_mutsub_missing (max : nat) : config := mk_cfg max true true false true.
Definition only_aba_missing (max : nat) : config := mk_cfg max true true true false.

Lemma f13_witness :
  exists s s', run (only_mutdup_missing 3) init h_f13 = Some s /\ st_closed s = true /\ alive_in s 0 = true
               /\ has_rid 0 (st_subs s) = false
               /\ step (only_mutdup_missing 3) s (LRun 0 (OOk v2)) = Some s'
               /\ List.length (st_out s') = S (List.length (st_out s)).
Proof.
  destruct (run (only_mutdup_missing 3) init h_f13) as [s|] eqn:E; [|vm_compute in E; discriminate].
  destruct (step (only_mutdup_missing 3) s (LRun 0 (OOk v2))) as [s'|] eqn:E2.
  - exists s, s'. vm_compute in E. inversion E; subst. vm_compute in E2. inversion E2; subst.
    repeat split; reflexivity.
  - vm_compute in E. inversion E; subst. vm_compute in E2. discriminate.
Qed.

(** F12: subscribe, close: Subscribe 0 is never followed by Unsubscribe 0. *)
Lemma f12_witness :
  exists s, run (only_closelog_missing 3) init [LSubscribe 0 QOk; LSocketClose] = Some s
            /\ st_closed s = true /\ is_open 0 (st_log s) = true.
Proof. eexists. split; [vm_compute; reflexivity|]. split; reflexivity. Qed.

(** Mutations: Unsubscribe 0 is logged although Subscribe 0 never was. *)
Lemma mutsub_witness :
  exists s, run (only_mutsub_missing 3) init [LMutate 0 QOk; LRun 0 (OOk v1); LCloseTask 0 0] = Some s
            /\ alternates 0 (st_log s) = false.
Proof. eexists. split; [vm_compute; reflexivity|]. reflexivity. Qed.

(** F14 (ABA): the first run of subscription 0 fails and spawns its close; the client unsubscribes 0 and
    subscribes 0 again (rerunner 1); the stale close task then stops rerunner 1. *)
Definition h_f14 : list label :=
  [LSubscribe 0 QOk; LRun 0 (OErr "boom"); LFlush] .
Definition h_aba : list label :=
  [LSubscribe 0 QOk; LRun 0 (OErr "boom"); LUnsubscribe 0; LSubscribe 0 QOk; LRun 1 (OOk v1)].

Lemma aba_witness :
  exists s s', run (only_aba_missing 3) init h_aba = Some s /\ alive_in s 1 = true
               /\ step (only_aba_missing 3) s (LCloseTask 0 0) = Some s' /\ stopped_in s' 1 = true.
Proof.
  destruct (run (only_aba_missing 3) init h_aba) as [s|] eqn:E; [|vm_compute in E; discriminate].
  destruct (step (only_aba_missing 3) s (LCloseTask 0 0)) as [s'|] eqn:E2.
  - exists s, s'. vm_compute in E. inversion E; subst. vm_compute in E2. inversion E2; subst.
    repeat split; reflexivity.
  - vm_compute in E. inversion E; subst. vm_compute in E2. discriminate.
Qed.

(** Non-vacuity: a reachable state of the repaired model with two live subscriptions, a mutation in flight,
    a failed subscription waiting for its close task, a pending reply. *)
Definition h_rich : list label :=
  [LSubscribe 0 QOk; LRun 0 (OOk v1); LSubscribe 1 QOk; LRun 1 (OErr "boom"); LMutate 3 QOk; LSubscribe 2 QOk;
   LRun 0 (OOk v2); LSubscribe 0 QOk].

Lemma rich_reachable :
  exists s, run (repaired 5) init h_rich = Some s /\ List.length (st_subs s) = 4 /\ List.length (st_tasks s) = 1
            /\ st_pend s <> None /\ List.length (st_out s) = 3 /\ sub_count s = 3.
Proof.
  eexists. split; [vm_compute; reflexivity|]. repeat split; try reflexivity. cbn. discriminate.
Qed.

(** * Release of reactive resources (Server/Release.v) *)
From Thunder Require Import Server.Release.

(** F13 again: the overwritten subscription's computation still holds resource 7 after the connection closed. *)
Definition h_f13_res : list label :=
  [LSubscribe 0 QOk; LRegister 0 7; LRun 0 (OOk v1); LMutate 0 QOk; LRun 1 (OOk v1); LCloseTask 0 1; LSocketClose].

Lemma f13_release_witness :
  exists s rs, runR (only_mutdup_missing 3) (init, rinit) h_f13_res = Some (s, rs) /\ st_closed s = true
               /\ rs_entries rs = [mk_rentry 7 0 RCur] /\ rs_released rs = [].
Proof. eexists. eexists. split; [vm_compute; reflexivity|]. repeat split. Qed.

(** Non-vacuity: resources of a superseded computation, of a failed computation, of an unsubscribed
    subscription and of one ended by the socket closing - each released once. *)
Definition h_release : list label :=
  [LSubscribe 0 QOk; LRegister 0 1; LRegister 0 2; LRun 0 (OOk v1);      (* 1, 2 held *)
   LRegister 0 3; LRun 0 (OOk v2);                                        (* 1, 2 released; 3 held *)
   LRegister 0 4; LRun 0 (OErr "boom");                                   (* retry: 4 released *)
   LSubscribe 1 QOk; LRegister 1 5; LRun 1 (OOk v1);
   LUnsubscribe 0;                                                        (* 3 released *)
   LBreak; LRegister 1 6; LRun 1 (OOk v2);                                (* the write fails: socket closed; 5 released *)
   LSocketClose].                                                         (* 6 released *)

Lemma release_example :
  exists s rs, runR (repaired 3) (init, rinit) h_release = Some (s, rs) /\ st_closed s = true
               /\ rs_released rs = [6; 5; 3; 4; 2; 1] /\ List.length (st_out s) = 3 /\ st_sockclosed s = true.
Proof. eexists. eexists. split; [vm_compute; reflexivity|]. repeat split. Qed.
