(** The number of computations a rerunner has begun ([r_runs], a ghost counter of Reactive/Rerunner.v) grows
    only at the BeginCompute step of Rerunner.run, i.e. by a task whose top frame is [FBegin r] - hence never
    again once the rerunner is stopped (C04's [after_stop]: no such frame exists). *)
From Coq Require Import List Arith Bool Lia Permutation.
From Thunder Require Import Reactive.Graph Reactive.Rerunner Reactive.ProofsBase Reactive.ProofsMutex.
Import ListNotations.

Lemma setl_runs : forall rrs r0 y r,
  r_runs y = r_runs (nth r0 rrs drr) ->
  r_runs (nth r (setl rrs r0 y) drr) = r_runs (nth r rrs drr).
Proof.
  intros rrs r0 y r Hy. rewrite nth_setl.
  destruct (Nat.eqb r0 r && Nat.ltb r0 (length rrs)) eqn:E; [|reflexivity].
  apply andb_true_iff in E. destruct E as [E _]. apply Nat.eqb_eq in E. subst. exact Hy.
Qed.

Lemma do_fail_runs : forall s r stk b s1 st sp, do_fail s r stk b = Some (s1, st, sp) ->
  exists y, s_rrs s1 = setl (s_rrs s) r y /\ r_runs y = r_runs (getr s r).
Proof.
  intros s r stk b s1 st sp H. unfold do_fail in H.
  destruct (unwind r stk) as [[[[cs ks] below] term]|]; [|discriminate].
  destruct term as [jid|]; [|destruct b]; inversion H; subst; clear H; eexists; (split; [reflexivity|]); reflexivity.
Qed.

Lemma step_top_runs : forall s f rest arg s1 st sp r,
  step_top s f rest arg = Some (s1, st, sp) -> f <> FBegin r ->
  r_runs (getr s1 r) = r_runs (getr s r).
Proof.
  intros s f rest arg s1 st sp r H Nb.
  unfold step_top, alloc in H. unfold getr in *.
  destruct f; cbv beta iota zeta in H; dmatch H;
    repeat match goal with
    | A : do_add_out _ _ _ = Some _ |- _ => apply do_add_out_rrs in A; destruct A as [A _]
    | A : inv_step _ _ _ = Some _ |- _ => apply inv_step_counts in A; destruct A as [A _]
    | A : do_fail _ _ _ _ = Some _ |- _ => apply do_fail_runs in A; destruct A as [? [A ?]]
    end;
    unfold getr, with_rr, with_nodes, upd_node, with_slot, with_joins in *; simpl in *;
    try match goal with A : s_rrs _ = _ |- _ => rewrite A end;
    try reflexivity;
    try (apply setl_runs; simpl; solve [reflexivity | assumption]).
  (* FBegin *)
  destruct (Nat.eq_dec r0 r) as [->|Hne]; [contradiction Nb; reflexivity|].
  rewrite nth_setl. destruct (Nat.eqb r0 r && _) eqn:E; [|reflexivity].
  apply andb_true_iff in E. destruct E as [E _]. apply Nat.eqb_eq in E. contradiction.
Qed.

Lemma step_runs : forall s l s' r,
  step s l = Some s' -> (forall f, In f (all_frames s) -> runner r f = false) ->
  r_runs (getr s' r) = r_runs (getr s r).
Proof.
  intros s l s' r H Nf. destruct l.
  - destruct (step_task_frames _ _ _ _ H) as [f [rest [s1 [st [sp [others [dropped [P [T [_ [_ [_ [_ [R _]]]]]]]]]]]]]].
    unfold getr. rewrite R. eapply step_top_runs; [exact T|].
    intros ->. assert (I : In (FBegin r) (all_frames s)).
    { eapply Permutation_in; [apply Permutation_sym; exact P | left; reflexivity]. }
    apply Nf in I. simpl in I. rewrite Nat.eqb_refl in I. discriminate.
  - simpl in H. destruct (Nat.ltb slot (length (s_slots s))); [|discriminate]. inversion H; subst; reflexivity.
  - simpl in H. destruct (Nat.ltb slot (length (s_slots s))); [|discriminate]. inversion H; subst; reflexivity.
  - simpl in H. destruct (Nat.ltb r0 (length (s_rrs s))); [|discriminate]. inversion H; subst; reflexivity.
  - simpl in H. destruct (Nat.ltb r0 (length (s_rrs s))); [|discriminate].
    destruct (r_clock (getr s r0)); [discriminate|]. inversion H; subst; clear H.
    unfold getr, with_rr. simpl. apply setl_runs. reflexivity.
  - simpl in H. destruct (Nat.eqb (n_timer (getN s n)) 1); [|discriminate]. inversion H; subst; reflexivity.
  - simpl in H. destruct (Nat.ltb slot (length (s_slots s))); [|discriminate]. inversion H; subst; reflexivity.
  - simpl in H. destruct (Nat.ltb r0 (length (s_rrs s))); [|discriminate]. inversion H; subst; clear H.
    unfold getr, with_rr. simpl. apply setl_runs. reflexivity.
Qed.

(** A stopped rerunner never begins a computation again, under any schedule. *)
Lemma run_runs_stopped : forall k progs ls s s' r,
  reachable (init k progs) s -> r < length (s_rrs s) -> r_stop (getr s r) = true -> run s ls = Some s' ->
  r_runs (getr s' r) = r_runs (getr s r).
Proof.
  intros k progs ls. induction ls as [|l t IH]; simpl; intros s s' r R Hr St H; [inversion H; subst; reflexivity|].
  destruct (step s l) as [s1|] eqn:E; [|discriminate].
  rewrite (IH s1 s' r); [ | eapply reach_step; eassumption | rewrite (step_rrs_length _ _ _ E); exact Hr
                          | eapply step_stop_stable; eassumption | exact H].
  eapply step_runs; [exact E|]. intros f Hf. eapply count_zero_not_in; [|exact Hf].
  eapply after_stop_lemma; eassumption.
Qed.
