(** Invariants of the connection model (Server/Model.v) and the theorems of C17 / C02. *)
From Coq Require Import List ZArith String Bool Arith Lia.
From Thunder Require Import Lib.Json DiffMerge.Model Server.Model.
Import ListNotations.

Lemma stopped_never_runs : forall cfg s rid r o,
  st_runners s rid = Some r -> r_stat r = Stopped -> step cfg s (LRun rid o) = None.
Proof.
  intros cfg s rid r o Hr Hs. simpl. rewrite Hr. unfold is_live. rewrite Hs. reflexivity.
Qed.

(** Every envelope a computation writes carries the id its rerunner was created for. *)
Lemma run_writes_own_id : forall s rid r o e,
  In e (st_out (do_run s rid r o)) -> In e (st_out s) \/ (e_id e = r_sub r /\ e_src e = Some rid).
Proof.
  intros s rid r o e. unfold do_run.
  destruct (r_kind r); destruct o; simpl;
    repeat match goal with
           | |- context [if ?b then _ else _] => destruct b; simpl
           | |- context [match ?x with Some _ => _ | None => _ end] => destruct x; simpl
           end; intuition; subst; simpl; auto.
Qed.
