(** Invariants of the connection model (Server/Model.v): structure of the subscription map,
    no rerunner leaks, stopped rerunners stay stopped and silent. *)
From Coq Require Import List ZArith String Bool Arith Lia.
From Thunder Require Import Lib.Json DiffMerge.Model Server.Model Server.Spec.
Import ListNotations.
Open Scope list_scope.

(** * Association-list facts *)

Lemma find_id_In id l rid : find_id id l = Some rid -> In (id, rid) l.
Proof.
  induction l as [|[i r] t IH]; cbn [find_id]; [discriminate|].
  destruct (Nat.eqb i id) eqn:E.
  - intros [= <-]. apply Nat.eqb_eq in E. subst. left; reflexivity.
  - intros H. right; auto.
Qed.

Lemma In_find_id id l rid : NoDup (map fst l) -> In (id, rid) l -> find_id id l = Some rid.
Proof.
  induction l as [|[i r] t IH]; cbn [find_id map fst]; intros Hn Hin; [contradiction|].
  inversion Hn as [|x xs Hnot Hn']; subst.
  destruct Hin as [E|Hin].
  - inversion E; subst. rewrite Nat.eqb_refl. reflexivity.
  - destruct (Nat.eqb i id) eqn:E.
    + apply Nat.eqb_eq in E. subst. exfalso. apply Hnot. apply (in_map fst) in Hin. exact Hin.
    + auto.
Qed.

Lemma has_id_false_notin id l : has_id id l = false -> ~ In id (map fst l).
Proof.
  unfold has_id. induction l as [|[i r] t IH]; cbn [find_id map fst]; [auto|].
  destruct (Nat.eqb i id) eqn:E; [discriminate|].
  intros H [Hi|Hi]; [subst; rewrite Nat.eqb_refl in E; discriminate | exact (IH H Hi)].
Qed.

Lemma has_id_true_in id l : has_id id l = true -> exists rid, In (id, rid) l.
Proof.
  unfold has_id. destruct (find_id id l) eqn:E; [|discriminate]. intros _. eexists. apply find_id_In. exact E.
Qed.

Lemma remove_id_noop id l : has_id id l = false -> remove_id id l = l.
Proof.
  unfold has_id. induction l as [|[i r] t IH]; cbn [find_id remove_id]; [reflexivity|].
  destruct (Nat.eqb i id); [discriminate|]. intros H. rewrite IH; auto.
Qed.

Lemma In_remove_id id l i r : In (i, r) (remove_id id l) <-> i <> id /\ In (i, r) l.
Proof.
  induction l as [|[i' r'] t IH]; cbn [remove_id].
  - simpl. tauto.
  - destruct (Nat.eqb i' id) eqn:E.
    + apply Nat.eqb_eq in E. subst. rewrite IH. simpl. split.
      * intros [H1 H2]. auto.
      * intros [H1 [H2|H2]]; [inversion H2; subst; contradiction | auto].
    + apply Nat.eqb_neq in E. simpl. rewrite IH. split.
      * intros [H|[H1 H2]]; [inversion H; subst; auto | auto].
      * intros [H1 [H2|H2]]; auto.
Qed.

Lemma NoDup_remove_id id l : NoDup (map fst l) -> NoDup (map fst (remove_id id l)).
Proof.
  induction l as [|[i r] t IH]; cbn [remove_id map fst]; intros Hn; [constructor|].
  inversion Hn as [|x xs Hnot Hn']; subst.
  destruct (Nat.eqb i id); [auto|].
  cbn [map fst]. constructor; [|auto].
  intros Hin. apply Hnot. apply in_map_iff in Hin as [[i' r'] [E Hin]]. cbn [fst] in E. subst.
  apply In_remove_id in Hin as [_ Hin]. apply (in_map fst) in Hin. exact Hin.
Qed.

Lemma has_id_remove_id id id' l : has_id id' (remove_id id l) = if Nat.eqb id id' then false else has_id id' l.
Proof.
  unfold has_id. induction l as [|[i r] t IH]; cbn [remove_id find_id].
  - destruct (Nat.eqb id id'); reflexivity.
  - destruct (Nat.eqb i id) eqn:E.
    + apply Nat.eqb_eq in E. subst i. rewrite IH. destruct (Nat.eqb id id'); reflexivity.
    + cbn [find_id]. destruct (Nat.eqb i id') eqn:E2.
      * apply Nat.eqb_eq in E2. subst i. rewrite Nat.eqb_sym in E. rewrite E. reflexivity.
      * exact IH.
Qed.

Lemma has_rid_In rid l : has_rid rid l = true <-> exists id, In (id, rid) l.
Proof.
  induction l as [|[i r] t IH]; cbn [has_rid].
  - split; [discriminate | intros [? []]].
  - rewrite orb_true_iff, IH, Nat.eqb_eq. split.
    + intros [E|[id H]]; [subst; exists i; left; reflexivity | exists id; right; exact H].
    + intros [id [E|H]]; [inversion E; subst; left; reflexivity | right; exists id; exact H].
Qed.

Lemma upd_same {A} (m : nat -> option A) k v : upd m k v k = Some v.
Proof. unfold upd. rewrite Nat.eqb_refl. reflexivity. Qed.

Lemma upd_other {A} (m : nat -> option A) k v k' : k' <> k -> upd m k v k' = m k'.
Proof. unfold upd. intros H. apply Nat.eqb_neq in H. rewrite H. reflexivity. Qed.

(** * The structural invariant *)

Definition inv_nodup (s : state) : Prop := NoDup (map fst (st_subs s)).
(** every entry of the map is a rerunner created for that id, not yet stopped *)
Definition inv_map (s : state) : Prop :=
  forall id rid, In (id, rid) (st_subs s) ->
    exists r, st_runners s rid = Some r /\ r_sub r = id /\ r_stat r <> Stopped.
(** no leak: every rerunner ever created is in the map until it is stopped *)
Definition inv_noleak (s : state) : Prop :=
  forall rid r, st_runners s rid = Some r -> r_stat r <> Stopped -> In (r_sub r, rid) (st_subs s).
Definition inv_fresh (s : state) : Prop := forall rid r, st_runners s rid = Some r -> rid < st_next s.
Definition inv_closed (s : state) : Prop := st_closed s = true -> st_subs s = [].

Definition Inv (s : state) : Prop := inv_nodup s /\ inv_map s /\ inv_noleak s /\ inv_fresh s /\ inv_closed s.

Lemma Inv_ext s s' :
  st_runners s' = st_runners s -> st_next s' = st_next s -> st_subs s' = st_subs s -> st_closed s' = st_closed s ->
  Inv s -> Inv s'.
Proof.
  unfold Inv, inv_nodup, inv_map, inv_noleak, inv_fresh, inv_closed. intros E1 E2 E3 E4. rewrite E1, E2, E3, E4. auto.
Qed.

Lemma Inv_init : Inv init.
Proof.
  unfold Inv, inv_nodup, inv_map, inv_noleak, inv_fresh, inv_closed, init; cbn.
  repeat split; try constructor; intros; try contradiction; try discriminate.
Qed.

Lemma Inv_accept s id k b : Inv s -> has_id id (st_subs s) = false -> st_closed s = false -> Inv (accept s id k b).
Proof.
  intros (Hn & Hm & Hl & Hf & Hc) Hid Hcl.
  unfold Inv, inv_nodup, inv_map, inv_noleak, inv_fresh, inv_closed, accept; cbn [st_subs st_runners st_next st_closed].
  rewrite (remove_id_noop _ _ Hid).
  repeat split.
  - cbn [map fst]. constructor; [apply has_id_false_notin; exact Hid | exact Hn].
  - intros id' rid [E|Hin].
    + inversion E; subst. rewrite upd_same. eexists; repeat split; cbn; discriminate.
    + destruct (Hm _ _ Hin) as (r & Hr & Hs & Hst).
      rewrite upd_other; [eauto|]. apply Hf in Hr. lia.
  - intros rid r Hr Hst. destruct (Nat.eq_dec rid (st_next s)) as [->|Hne].
    + rewrite upd_same in Hr. inversion Hr; subst. cbn. left; reflexivity.
    + rewrite upd_other in Hr by exact Hne. right. eauto.
  - intros rid r Hr. destruct (Nat.eq_dec rid (st_next s)) as [->|Hne]; [lia|].
    rewrite upd_other in Hr by exact Hne. apply Hf in Hr. lia.
  - intros H. rewrite Hcl in H. discriminate.
Qed.

Lemma stop_in_other m rid rid' : rid' <> rid -> stop_in m rid rid' = m rid'.
Proof. intros H. unfold stop_in. destruct (m rid); [apply upd_other; exact H | reflexivity]. Qed.

Lemma stop_in_same m rid r : m rid = Some r -> stop_in m rid rid = Some (set_stat r Stopped).
Proof. intros H. unfold stop_in. rewrite H. apply upd_same. Qed.

Lemma Inv_close_entry s id rid : Inv s -> In (id, rid) (st_subs s) -> Inv (close_entry s id rid).
Proof.
  intros (Hn & Hm & Hl & Hf & Hc) Hin.
  unfold Inv, inv_nodup, inv_map, inv_noleak, inv_fresh, inv_closed, close_entry; cbn [st_subs st_runners st_next st_closed].
  destruct (Hm _ _ Hin) as (r0 & Hr0 & Hs0 & Hst0).
  repeat split.
  - apply NoDup_remove_id; exact Hn.
  - intros id' rid' H. apply In_remove_id in H as [Hne H].
    destruct (Hm _ _ H) as (r & Hr & Hs & Hst).
    assert (rid' <> rid).
    { intros ->. rewrite Hr0 in Hr. inversion Hr; subst. congruence. }
    rewrite stop_in_other by assumption. eauto.
  - intros rid' r Hr Hst. destruct (Nat.eq_dec rid' rid) as [->|Hne].
    + rewrite (stop_in_same _ _ _ Hr0) in Hr. inversion Hr; subst. cbn in Hst. congruence.
    + rewrite stop_in_other in Hr by exact Hne. apply In_remove_id. split; [|eauto].
      intros E. specialize (Hl _ _ Hr Hst). rewrite E in Hl.
      apply (In_find_id _ _ _ Hn) in Hl. apply (In_find_id _ _ _ Hn) in Hin. congruence.
  - intros rid' r Hr. destruct (Nat.eq_dec rid' rid) as [->|Hne].
    + eapply Hf; eauto.
    + rewrite stop_in_other in Hr by exact Hne. eauto.
  - intros H. rewrite (Hc H). reflexivity.
Qed.

Lemma Inv_close_id s id : Inv s -> Inv (close_id s id).
Proof.
  intros H. unfold close_id. destruct (find_id id (st_subs s)) eqn:E; [|exact H].
  apply Inv_close_entry; [exact H | apply find_id_In; exact E].
Qed.

Lemma Inv_close_all cfg s : Inv s -> Inv (close_all cfg s).
Proof.
  intros (Hn & Hm & Hl & Hf & Hc).
  unfold Inv, inv_nodup, inv_map, inv_noleak, inv_fresh, inv_closed, close_all; cbn [st_subs st_runners st_next st_closed].
  repeat split; try constructor.
  - intros id rid [].
  - intros rid r Hr Hst. exfalso.
    destruct (st_runners s rid) as [r0|] eqn:E; [|discriminate].
    destruct (has_rid rid (st_subs s)) eqn:Eh.
    + inversion Hr; subst. cbn in Hst. congruence.
    + inversion Hr; subst. specialize (Hl _ _ E Hst).
      assert (has_rid rid (st_subs s) = true) by (apply has_rid_In; eauto). congruence.
  - intros rid r Hr. destruct (st_runners s rid) as [r0|] eqn:E; [|discriminate]. eauto.
Qed.

Lemma Inv_set_runner s rid r r' :
  Inv s -> st_runners s rid = Some r -> r_stat r <> Stopped -> r_sub r' = r_sub r -> r_stat r' <> Stopped ->
  Inv (set_runner s rid r').
Proof.
  intros (Hn & Hm & Hl & Hf & Hc) Hr Hst Hs' Hst'.
  unfold Inv, inv_nodup, inv_map, inv_noleak, inv_fresh, inv_closed, set_runner; cbn [st_subs st_runners st_next st_closed].
  repeat split; auto.
  - intros id rid' Hin. destruct (Nat.eq_dec rid' rid) as [->|Hne].
    + rewrite upd_same. destruct (Hm _ _ Hin) as (r1 & Hr1 & Hs1 & _). rewrite Hr in Hr1. inversion Hr1; subst.
      eexists; repeat split; eauto.
    + rewrite upd_other by exact Hne. eauto.
  - intros rid' r1 Hr1 Hst1. destruct (Nat.eq_dec rid' rid) as [->|Hne].
    + rewrite upd_same in Hr1. inversion Hr1; subst. rewrite Hs'. eauto.
    + rewrite upd_other in Hr1 by exact Hne. eauto.
  - intros rid' r1 Hr1. destruct (Nat.eq_dec rid' rid) as [->|Hne]; [eauto|].
    rewrite upd_other in Hr1 by exact Hne. eauto.
Qed.

Lemma live_not_stopped r : is_live r = true -> r_stat r <> Stopped.
Proof. unfold is_live. destruct (r_stat r); congruence. Qed.

Lemma Inv_do_run s rid r o : Inv s -> st_runners s rid = Some r -> is_live r = true -> Inv (do_run s rid r o).
Proof.
  intros H Hr Hl. pose proof (live_not_stopped _ Hl) as Hns.
  assert (F : Inv (set_runner s rid (set_stat r Failed))).
  { eapply Inv_set_runner; eauto; cbn; congruence. }
  unfold do_run. destruct (r_kind r); destruct o.
  - assert (G : Inv (set_runner s rid (mk_runner (r_sub r) KSub Live false v))).
    { eapply Inv_set_runner; eauto; cbn; congruence. }
    destruct (Diff (r_prev r) v); [eapply Inv_ext; [..|exact G]; reflexivity|].
    destruct (r_initial r); [eapply Inv_ext; [..|exact G]; reflexivity | exact G].
  - destruct (r_initial r); [eapply Inv_ext; [..|exact F]; reflexivity | exact H].
  - eapply Inv_ext; [..|exact F]; reflexivity.
  - eapply Inv_ext; [..|exact F]; reflexivity.
  - eapply Inv_ext; [..|exact F]; reflexivity.
  - eapply Inv_ext; [..|exact F]; reflexivity.
Qed.

Lemma ready_open s : ready s = true -> st_closed s = false /\ st_pend s = None.
Proof.
  unfold ready, ready0. destruct (st_closed s); cbn; [discriminate|]. destruct (st_pend s); [discriminate | auto].
Qed.

(** Every step of the repaired handleMutate (duplicate check) preserves the invariant; the other three
    repairs are not needed for it. *)
Theorem step_Inv cfg s l s' : c_fix_mutdup cfg = true -> Inv s -> step cfg s l = Some s' -> Inv s'.
Proof.
  intros Hfix H Hs. destruct l; cbn [step] in Hs.
  - (* subscribe *)
    destruct (ready s) eqn:R; [|discriminate]. inversion Hs; subst; clear Hs.
    apply ready_open in R as [Rc _]. unfold do_subscribe.
    destruct q; try (eapply Inv_ext; [..|exact H]; reflexivity);
      (destruct (has_id id (st_subs s)) eqn:E; [eapply Inv_ext; [..|exact H]; reflexivity|]);
      (destruct (Nat.ltb (c_max cfg) (List.length (st_subs s) + 1)); [eapply Inv_ext; [..|exact H]; reflexivity|]).
    + apply Inv_accept; assumption.
    + eapply Inv_ext; [..|exact H]; reflexivity.
  - (* mutate *)
    destruct (ready s) eqn:R; [|discriminate]. inversion Hs; subst; clear Hs.
    apply ready_open in R as [Rc _]. unfold do_mutate. rewrite Hfix. cbn [andb].
    destruct q; try (eapply Inv_ext; [..|exact H]; reflexivity);
      (destruct (has_id id (st_subs s)) eqn:E; [eapply Inv_ext; [..|exact H]; reflexivity|]).
    + apply Inv_accept; assumption.
    + eapply Inv_ext; [..|exact H]; reflexivity.
  - destruct (ready s); [|discriminate]. inversion Hs; subst. apply Inv_close_id; exact H.
  - destruct (ready s); [|discriminate]. inversion Hs; subst. eapply Inv_ext; [..|exact H]; reflexivity.
  - destruct (ready s); [|discriminate]. inversion Hs; subst. destruct ok; [exact H | eapply Inv_ext; [..|exact H]; reflexivity].
  - destruct (ready s); [|discriminate]. inversion Hs; subst. eapply Inv_ext; [..|exact H]; reflexivity.
  - destruct (ready0 s); [|discriminate]. inversion Hs; subst. apply Inv_close_all; exact H.
  - destruct (st_pend s); [|discriminate]. destruct (st_closed s) eqn:C; [discriminate|]. inversion Hs; subst.
    eapply Inv_ext; [..|exact H]; cbn; auto.
  - destruct (st_runners s rid) as [r|] eqn:E; [|discriminate]. destruct (is_live r) eqn:L; [|discriminate].
    inversion Hs; subst. apply Inv_do_run; assumption.
  - inversion Hs; subst; exact H.
  - inversion Hs; subst; exact H.
  - destruct (mem_task (id, rid) (st_tasks s)); [|discriminate]. inversion Hs; subst; clear Hs.
    unfold do_close_task.
    set (s1 := set_tasks s (remove_task (id, rid) (st_tasks s))).
    assert (H1 : Inv s1) by (eapply Inv_ext; [..|exact H]; reflexivity).
    destruct (c_fix_aba cfg); [|apply Inv_close_id; exact H1].
    destruct (find_id id (st_subs s1)) eqn:E; [|exact H1].
    destruct (Nat.eqb n rid) eqn:E2; [|exact H1].
    apply Nat.eqb_eq in E2. subst n. apply Inv_close_entry; [exact H1 | apply find_id_In; exact E].
  - destruct (ready0 s); [|discriminate]. inversion Hs; subst. apply Inv_close_all; exact H.
  - inversion Hs; subst; exact H.
  - inversion Hs; subst. eapply Inv_ext; [..|exact H]; reflexivity.
Qed.

Theorem run_Inv cfg h : c_fix_mutdup cfg = true -> forall s s', Inv s -> run cfg s h = Some s' -> Inv s'.
Proof.
  intros Hfix. induction h as [|l t IH]; intros s s' H Hr; cbn [run] in Hr.
  - inversion Hr; subst; exact H.
  - destruct (step cfg s l) eqn:E; [|discriminate]. eapply IH; [|exact Hr]. eapply step_Inv; eauto.
Qed.

Theorem reachable_Inv cfg s : c_fix_mutdup cfg = true -> reachable cfg s -> Inv s.
Proof. intros Hfix [h Hr]. eapply run_Inv; eauto. apply Inv_init. Qed.

Lemma run_app cfg h1 : forall h2 s, run cfg s (h1 ++ h2) = match run cfg s h1 with Some s1 => run cfg s1 h2 | None => None end.
Proof.
  induction h1 as [|l t IH]; intros h2 s; cbn [run app]; [reflexivity|].
  destruct (step cfg s l); [apply IH | reflexivity].
Qed.

Lemma reachable_step cfg s l s' : reachable cfg s -> step cfg s l = Some s' -> reachable cfg s'.
Proof.
  intros [h Hr] Hs. exists (h ++ [l]). rewrite run_app, Hr. cbn [run]. rewrite Hs. reflexivity.
Qed.

Lemma reachable_run cfg h : forall s s', reachable cfg s -> run cfg s h = Some s' -> reachable cfg s'.
Proof.
  induction h as [|l t IH]; intros s s' R Hr; cbn [run] in Hr.
  - inversion Hr; subst; exact R.
  - destruct (step cfg s l) eqn:E; [|discriminate]. eapply IH; [|exact Hr]. eapply reachable_step; eauto.
Qed.

(** * Consequences *)

Lemma stopped_never_runs : forall cfg s rid r o,
  st_runners s rid = Some r -> r_stat r = Stopped -> step cfg s (LRun rid o) = None.
Proof.
  intros cfg s rid r o Hr Hs. simpl. rewrite Hr. unfold is_live. rewrite Hs. reflexivity.
Qed.

(** After the connection closed every rerunner ever created is stopped. *)
Lemma closed_all_stopped s : Inv s -> st_closed s = true ->
  forall rid r, st_runners s rid = Some r -> r_stat r = Stopped.
Proof.
  intros (Hn & Hm & Hl & Hf & Hc) C rid r Hr.
  destruct (r_stat r) eqn:E; auto; exfalso.
  - assert (X : r_stat r <> Stopped) by congruence. specialize (Hl _ _ Hr X). rewrite (Hc C) in Hl. exact Hl.
  - assert (X : r_stat r <> Stopped) by congruence. specialize (Hl _ _ Hr X). rewrite (Hc C) in Hl. exact Hl.
Qed.

(** Every envelope a computation writes carries the id its rerunner was created for. *)
Lemma run_writes_own_id : forall s rid r o e,
  In e (st_out (do_run s rid r o)) -> In e (st_out s) \/ (e_id e = r_sub r /\ e_src e = Some rid).
Proof.
  intros s rid r o e. unfold do_run.
  destruct (r_kind r); destruct o; simpl;
    repeat match goal with
           | |- context [if ?b then _ else _] => destruct b; simpl
           | |- context [match ?x with Some _ => _ | None => _ end] => destruct x; simpl
           end; intuition; subst; simpl; auto.
Qed.
