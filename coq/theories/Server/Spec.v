(** Vocabulary of the C17 / C02 theorems: predicates over states and histories of Server/Model.v.
    Executable definitions only. *)
From Coq Require Import List ZArith String Bool Arith.
From Thunder Require Import Lib.Json DiffMerge.Model Server.Model.
Import ListNotations.
Open Scope list_scope.

(** States reachable from the initial one by some history. *)
Definition reachable (cfg : config) (s : state) : Prop := exists h, run cfg init h = Some s.

(** Stop() has been called on the rerunner / the rerunner exists and Stop() has not been called. *)
Definition stopped_in (s : state) (rid : nat) : bool :=
  match st_runners s rid with Some r => is_stopped r | None => false end.
Definition alive_in (s : state) (rid : nat) : bool :=
  match st_runners s rid with Some r => negb (is_stopped r) | None => false end.

(** Number of steps of history [h] (started in [s]) at which rerunner [rid] goes from alive to stopped:
    its end events. *)
Fixpoint end_count (cfg : config) (s : state) (h : list label) (rid : nat) : nat :=
  match h with
  | [] => 0
  | l :: t =>
      match step cfg s l with
      | None => 0
      | Some s' => (if alive_in s rid && stopped_in s' rid then 1 else 0) + end_count cfg s' t rid
      end
  end.

(** The SubscriptionLogger's view of one id; the log is newest first.
    [is_open]: the last call for [id] was Subscribe.
    [alternates]: every Subscribe id came when id was not open, every Unsubscribe id when it was:
    Subscribe and Unsubscribe strictly alternate, starting with Subscribe - exactly one Unsubscribe id after
    each Subscribe id and before the next Subscribe id (or none yet, iff [is_open]). *)
Fixpoint is_open (id : nat) (l : list logev) : bool :=
  match l with
  | [] => false
  | LgSub i :: t => if Nat.eqb i id then true else is_open id t
  | LgUnsub i :: t => if Nat.eqb i id then false else is_open id t
  end.

Fixpoint alternates (id : nat) (l : list logev) : bool :=
  match l with
  | [] => true
  | LgSub i :: t => (if Nat.eqb i id then negb (is_open id t) else true) && alternates id t
  | LgUnsub i :: t => (if Nat.eqb i id then is_open id t else true) && alternates id t
  end.

(** Number of entries of conn.subscriptions that are subscriptions (not in-flight mutations). *)
Definition is_sub_entry (m : nat -> option runner) (p : nat * nat) : bool :=
  match m (snd p) with
  | Some r => match r_kind r with KSub => true | KMut => false end
  | None => false
  end.
Definition sub_count (s : state) : nat := List.length (filter (is_sub_entry (st_runners s)) (st_subs s)).

(** A full update: the message replaces whatever the client holds ([x] in the delta encoding). *)
Definition is_full (e : envelope) : Prop := e_type e = EUpdate /\ exists v, e_msg e = JArr [strip v].

(** Histories whose successful computations return well-formed JSON objects (what Execute returns for a
    selection set: a map; unique keys; a scalar __key). *)
Definition good_label (l : label) : bool :=
  match l with
  | LRun _ (OOk v) => wf v && match v with JObj _ => true | _ => false end
  | _ => true
  end.
