(** C17, "its reactive resources are released": every resource registered by a computation of a rerunner
    has its Cleanup called exactly once by the time the rerunner is stopped; after the connection closed
    that holds for every resource ever registered. *)
From Coq Require Import List ZArith String Bool Arith Lia.
From Thunder Require Import Lib.Json DiffMerge.Model Server.Model Server.Spec Server.Proofs Server.ProofsLife Server.Release.
Import ListNotations.
Open Scope list_scope.

(** * The first component of the product is the connection model *)

Lemma runR_run cfg h : forall p p', runR cfg p h = Some p' -> run cfg (fst p) h = Some (fst p').
Proof.
  induction h as [|l t IH]; intros p p' H; cbn [runR run] in *.
  - inversion H; subst; reflexivity.
  - unfold stepR in H. destruct (step cfg (fst p) l) as [s'|] eqn:E; [|discriminate].
    destruct (label_effect (fst p) l (snd p)); [|discriminate]. apply IH in H. exact H.
Qed.

Lemma reachableR_reachable cfg p : reachableR cfg p -> reachable cfg (fst p).
Proof. intros [h H]. exists h. apply runR_run in H. exact H. Qed.

(** * Bookkeeping invariant *)

Definition mono (f : rentry -> rphase) : Prop := forall e, is_rel (re_phase e) = true -> is_rel (f e) = true.

Record J (rs : rstate) : Prop := mk_J {
  j_keys : NoDup (map re_res (rs_entries rs));
  j_log : NoDup (rs_released rs);
  j_iff : forall e, In e (rs_entries rs) -> (In (re_res e) (rs_released rs) <-> is_rel (re_phase e) = true);
  j_src : forall x, In x (rs_released rs) -> exists e, In e (rs_entries rs) /\ re_res e = x
}.

Lemma J_init : J rinit.
Proof. constructor; cbn; try constructor; intros; contradiction. Qed.

Lemma map_retag_res f l : map re_res (map (retag f) l) = map re_res l.
Proof. rewrite map_map. reflexivity. Qed.

Lemma NoDup_map_filter {A B} (g : A -> B) (q : A -> bool) l : NoDup (map g l) -> NoDup (map g (filter q l)).
Proof.
  induction l as [|x t IH]; cbn; intros H; [constructor|]. inversion H; subst.
  destruct (q x); cbn; [constructor|]; auto.
  intros Hin. apply in_map_iff in Hin as (y & E & Hy). apply filter_In in Hy as [Hy _].
  match goal with [ Hn : ~ In (g x) (map g t) |- _ ] => apply Hn end. rewrite <- E. apply in_map. exact Hy.
Qed.

Lemma same_res_same_entry l e1 e2 : NoDup (map re_res l) -> In e1 l -> In e2 l -> re_res e1 = re_res e2 -> e1 = e2.
Proof.
  induction l as [|x t IH]; cbn; intros Hn H1 H2 E; [contradiction|]. inversion Hn; subst.
  destruct H1 as [->|H1]; destruct H2 as [->|H2]; auto.
  - exfalso. match goal with [ Hx : ~ In _ _ |- _ ] => apply Hx end. rewrite E. apply in_map. exact H2.
  - exfalso. match goal with [ Hx : ~ In _ _ |- _ ] => apply Hx end. rewrite <- E. apply in_map. exact H1.
Qed.

Lemma NoDup_app' {A} (l1 l2 : list A) :
  NoDup l1 -> NoDup l2 -> (forall x, In x l1 -> ~ In x l2) -> NoDup (l1 ++ l2).
Proof.
  induction l1 as [|x t IH]; cbn; intros H1 H2 Hd; [exact H2|]. inversion H1; subst. constructor.
  - intros Hin. apply in_app_or in Hin as [Hin|Hin]; [contradiction | apply (Hd x); auto].
  - apply IH; auto.
Qed.

Lemma J_rapply f rs : mono f -> J rs -> J (rapply f rs).
Proof.
  intros Hm [Hk Hl Hi Hs]. unfold rapply.
  set (q := fun e => negb (is_rel (re_phase e)) && is_rel (f e)).
  assert (Hq : forall e, q e = true <-> (is_rel (re_phase e) = false /\ is_rel (f e) = true)).
  { intros e. unfold q. rewrite andb_true_iff, negb_true_iff. tauto. }
  assert (Hnew : forall x, In x (map re_res (filter q (rs_entries rs))) ->
                           exists e, In e (rs_entries rs) /\ re_res e = x /\ is_rel (re_phase e) = false /\ is_rel (f e) = true).
  { intros x Hx. apply in_map_iff in Hx as (e & E & He). apply filter_In in He as [He Hqe]. apply Hq in Hqe.
    exists e. tauto. }
  constructor; cbn [rs_entries rs_released].
  - rewrite map_retag_res. exact Hk.
  - apply NoDup_app'; [apply NoDup_map_filter; exact Hk | exact Hl |].
    intros x Hx Hin. destruct (Hnew x Hx) as (e & He & E & Hp & _). subst x.
    apply (Hi e He) in Hin. congruence.
  - intros e' He'. apply in_map_iff in He' as (e & <- & He). cbn [retag re_res re_phase].
    rewrite in_app_iff. split.
    + intros [Hx|Hx].
      * destruct (Hnew _ Hx) as (e2 & He2 & E & _ & Hf).
        rewrite (same_res_same_entry _ _ _ Hk He2 He E) in Hf. exact Hf.
      * apply Hm. apply (Hi e He). exact Hx.
    + intros Hf. destruct (is_rel (re_phase e)) eqn:P.
      * right. apply (Hi e He). exact P.
      * left. apply in_map. apply filter_In. split; [exact He | apply Hq; auto].
  - intros x Hx. apply in_app_or in Hx as [Hx|Hx].
    + destruct (Hnew x Hx) as (e & He & E & _). exists (retag f e). split; [apply in_map; exact He | exact E].
    + destruct (Hs x Hx) as (e & He & E). exists (retag f e). split; [apply in_map; exact He | exact E].
Qed.

Lemma mono_publish rid : mono (f_publish rid).
Proof. intros e H. unfold f_publish. destruct (Nat.eqb (re_rid e) rid); [|exact H]. destruct (re_phase e); try discriminate; reflexivity. Qed.
Lemma mono_fail rid : mono (f_fail rid).
Proof. intros e H. unfold f_fail. destruct (Nat.eqb (re_rid e) rid); [|exact H]. destruct (re_phase e); try discriminate; reflexivity. Qed.
Lemma mono_sweep s : mono (f_sweep s).
Proof. intros e H. unfold f_sweep. destruct (stopped_in s (re_rid e)); [reflexivity | exact H]. Qed.

Lemma has_res_false res rs : has_res res rs = false -> ~ In res (map re_res (rs_entries rs)).
Proof.
  unfold has_res. intros H Hin. apply in_map_iff in Hin as (e & E & He).
  assert (X : existsb (fun e0 => Nat.eqb (re_res e0) res) (rs_entries rs) = true).
  { apply existsb_exists. exists e. split; [exact He | apply Nat.eqb_eq; exact E]. }
  congruence.
Qed.

Lemma J_label_effect s l rs rs' : J rs -> label_effect s l rs = Some rs' -> J rs'.
Proof.
  intros HJ H. destruct l; cbn [label_effect] in H; try (inversion H; subst; exact HJ).
  - destruct (st_runners s rid) as [r|]; [|inversion H; subst; exact HJ]. inversion H; subst.
    apply J_rapply; [|exact HJ]. destruct (r_kind r); destruct o; auto using mono_publish, mono_fail.
  - destruct (st_runners s rid) as [r|]; [|discriminate].
    destruct (is_live r && negb (has_res res rs)) eqn:E; [|discriminate]. inversion H; subst; clear H.
    apply andb_prop in E as [_ E]. apply negb_true_iff in E. apply has_res_false in E.
    destruct HJ as [Hk Hl Hi Hs]. constructor; cbn [rs_entries rs_released].
    + cbn [map re_res]. constructor; assumption.
    + exact Hl.
    + intros e [<-|He]; [|apply Hi; exact He]. cbn. split; [|discriminate].
      intros Hin. exfalso. destruct (Hs _ Hin) as (e2 & He2 & E2). apply E. rewrite <- E2. apply in_map. exact He2.
    + intros x Hx. destruct (Hs x Hx) as (e & He & E2). exists e. split; [right; exact He | exact E2].
Qed.

(** * What the sweep gives *)

(** every entry belongs to a rerunner that exists; entries of stopped rerunners are released *)
Definition K (p : state * rstate) : Prop :=
  forall e, In e (rs_entries (snd p)) ->
    (exists r, st_runners (fst p) (re_rid e) = Some r) /\ (stopped_in (fst p) (re_rid e) = true -> re_phase e = RRel).

Lemma rapply_rid f rs e' : In e' (rs_entries (rapply f rs)) -> exists e, In e (rs_entries rs) /\ re_rid e' = re_rid e /\ re_phase e' = f e.
Proof. unfold rapply; cbn. intros H. apply in_map_iff in H as (e & <- & He). exists e. auto. Qed.

Lemma label_effect_rid s l rs rs' e' : label_effect s l rs = Some rs' -> In e' (rs_entries rs') ->
  (exists e, In e (rs_entries rs) /\ re_rid e' = re_rid e) \/ (exists r, st_runners s (re_rid e') = Some r).
Proof.
  intros H Hin.
  assert (Same : rs' = rs -> (exists e, In e (rs_entries rs) /\ re_rid e' = re_rid e) \/ (exists r, st_runners s (re_rid e') = Some r)).
  { intros ->. left. exists e'. split; [exact Hin | reflexivity]. }
  destruct l; cbn [label_effect] in H; try (apply Same; congruence).
  - destruct (st_runners s rid) as [r|]; [|apply Same; congruence]. inversion H; subst.
    apply rapply_rid in Hin as (e & He & E & _). left. exists e. auto.
  - destruct (st_runners s rid) as [r|] eqn:Er; [|discriminate].
    destruct (is_live r && negb (has_res res rs)); [|discriminate]. inversion H; subst; clear H.
    destruct Hin as [<-|Hin]; [right; cbn; eauto | left; exists e'; auto].
Qed.

Lemma runner_persists cfg s l s' rid r : inv_fresh s -> step cfg s l = Some s' -> st_runners s rid = Some r ->
  exists r', st_runners s' rid = Some r'.
Proof.
  intros Hf Hs Hr. destruct (step_change cfg s l s' rid Hf Hs) as [C|r0 C0 C1|id k C0|r0 r1 C0 L C1].
  - rewrite C. eauto.
  - eauto.
  - congruence.
  - eauto.
Qed.

Lemma stepR_K cfg p l p' : Lite (fst p) -> K p -> stepR cfg p l = Some p' -> K p'.
Proof.
  intros [Hf Hp] HK H. unfold stepR in H. destruct (step cfg (fst p) l) as [s'|] eqn:E; [|discriminate].
  destruct (label_effect (fst p) l (snd p)) as [rs1|] eqn:El; [|discriminate]. inversion H; subst; clear H.
  intros e' He'. cbn [fst snd] in *. apply rapply_rid in He' as (e1 & He1 & Er & Ep). split.
  - rewrite Er. destruct (label_effect_rid _ _ _ _ _ El He1) as [(e0 & He0 & E0)|(r & Hr)].
    + rewrite E0. destruct (HK _ He0) as [(r & Hr) _]. eapply runner_persists; eauto.
    + eapply runner_persists; eauto.
  - intros Hst. rewrite Ep. unfold f_sweep. rewrite <- Er, Hst. reflexivity.
Qed.

Definition RInv (p : state * rstate) : Prop := Lite (fst p) /\ J (snd p) /\ K p.

Lemma stepR_RInv cfg p l p' : RInv p -> stepR cfg p l = Some p' -> RInv p'.
Proof.
  intros (HL & HJ & HK) H. split; [|split].
  - unfold stepR in H. destruct (step cfg (fst p) l) as [s'|] eqn:E; [|discriminate].
    destruct (label_effect (fst p) l (snd p)); [|discriminate]. inversion H; subst. cbn. eapply step_Lite; eauto.
  - unfold stepR in H. destruct (step cfg (fst p) l) as [s'|] eqn:E; [|discriminate].
    destruct (label_effect (fst p) l (snd p)) as [rs1|] eqn:El; [|discriminate]. inversion H; subst. cbn.
    apply J_rapply; [apply mono_sweep | eapply J_label_effect; eauto].
  - eapply stepR_K; eauto.
Qed.

Lemma runR_RInv cfg h : forall p p', RInv p -> runR cfg p h = Some p' -> RInv p'.
Proof.
  induction h as [|l t IH]; intros p p' H Hr; cbn [runR] in Hr.
  - inversion Hr; subst; exact H.
  - destruct (stepR cfg p l) as [p1|] eqn:E; [|discriminate]. eapply IH; [|exact Hr]. eapply stepR_RInv; eauto.
Qed.

Lemma reachableR_RInv cfg p : reachableR cfg p -> RInv p.
Proof.
  intros [h H]. eapply runR_RInv; [|exact H]. split; [apply Lite_init|]. split; [apply J_init|].
  intros e [].
Qed.

(** * Theorems *)

(** The Cleanup log never holds a resource twice, and holds exactly the released ones. *)
Theorem cleanup_at_most_once cfg s rs : reachableR cfg (s, rs) ->
  NoDup (rs_released rs) /\ forall e, In e (rs_entries rs) -> (In (re_res e) (rs_released rs) <-> re_phase e = RRel).
Proof.
  intros R. destruct (reachableR_RInv _ _ R) as (_ & [Hk Hl Hi Hs] & _). split; [exact Hl|].
  intros e He. rewrite (Hi e He). cbn. destruct (re_phase e); split; intros; try discriminate; reflexivity.
Qed.

(** Once a rerunner is stopped, every resource its computations registered has had its Cleanup call
    (exactly one, by [cleanup_at_most_once]). *)
Theorem released_when_stopped cfg s rs e : reachableR cfg (s, rs) ->
  In e (rs_entries rs) -> stopped_in s (re_rid e) = true ->
  re_phase e = RRel /\ In (re_res e) (rs_released rs).
Proof.
  intros R He Hst. destruct (reachableR_RInv _ _ R) as (_ & [Hk Hl Hi Hs] & HK).
  destruct (HK e He) as [_ P]. cbn in P. specialize (P Hst). split; [exact P|].
  apply (Hi e He). rewrite P. reflexivity.
Qed.

(** After the connection closed every resource ever registered has been released. *)
Theorem all_released_after_close cfg s rs e : c_fix_mutdup cfg = true -> reachableR cfg (s, rs) ->
  st_closed s = true -> In e (rs_entries rs) ->
  re_phase e = RRel /\ In (re_res e) (rs_released rs) /\ NoDup (rs_released rs).
Proof.
  intros F R C He. destruct (reachableR_RInv _ _ R) as (_ & HJ & HK).
  destruct (HK e He) as [(r & Hr) _]. cbn in Hr.
  pose proof (closed_all_stopped s (reachable_Inv cfg s F (reachableR_reachable cfg (s, rs) R)) C _ _ Hr) as St.
  assert (Hst : stopped_in s (re_rid e) = true).
  { unfold stopped_in. rewrite Hr. unfold is_stopped. rewrite St. reflexivity. }
  destruct (released_when_stopped cfg s rs e R He Hst) as [A B]. split; [exact A|]. split; [exact B | apply HJ].
Qed.
