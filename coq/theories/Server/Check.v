(** Correspondence check: replays a history recorded on the implementation through the connection model
    together with the release bookkeeping (Server/Release.v) and compares what the model predicts with what
    was observed.  Executable definitions only. *)
From Coq Require Import List ZArith String Bool Arith.
From Thunder Require Import Lib.Json DiffMerge.Model Server.Model Server.Spec Server.Release Server.Queries Server.Iface.
Import ListNotations.
Open Scope string_scope.
Open Scope list_scope.

(** * Correspondence cases *)

Definition etype_code (t : etype) : nat :=
  match t with EUpdate => 0 | EResult => 1 | EError => 2 | EEcho => 3 end.

Record obs_env := mk_obs { o_id : nat; o_type : nat; o_msg : json; o_src : option nat }.

Definition opt_nat_eqb (a b : option nat) : bool :=
  match a, b with
  | None, None => true
  | Some x, Some y => Nat.eqb x y
  | _, _ => false
  end.

(** Error envelopes are compared by kind only: the generic "Internal server error" or a message meant for the
    client.  The properties fix neither thunder's wording nor which of two simultaneous refusals (duplicate
    id, limit) is named. *)
Definition is_internal (j : json) : bool :=
  match j with JStr m => String.eqb m internal_error | _ => false end.

(** In a delta a replaced scalar may be sent bare or wrapped ([[x]]); both merges read them alike.  diff.go
    wraps byte slices (not a scalar for its type switch), which this JSON-level model sees as strings: deltas
    are compared after unwrapping one-element arrays of scalars, on both sides. *)
Fixpoint unwrap1 (j : json) : json :=
  match j with
  | JArr l =>
      match map unwrap1 l with
      | [x] => if is_scalar x then x else JArr [x]
      | l' => JArr l'
      end
  | JObj l => JObj ((fix go (l : list (string * json)) :=
                       match l with [] => [] | (k, v) :: t => (k, unwrap1 v) :: go t end) l)
  | _ => j
  end.

(** Update messages are not compared as texts either: which old item of a keyed list a new one is matched with,
    when several share a key, and hence the index list and the sub-deltas of a "$" delta, is a freedom of diff.go
    that the property does not fix.  What it fixes is what the client holds after applying them: [same_states]
    below folds the update messages of one rerunner as the model predicts them and as they were observed with
    the model of merge.ts, and compares the client's state after every message. *)
Definition msg_matches (t : etype) (m : json) (o : json) : bool :=
  match t with
  | EError => Bool.eqb (is_internal m) (is_internal o)
  | EUpdate => true
  | _ => json_eqb (unwrap1 (norm m)) (unwrap1 o)
  end.

Fixpoint same_states (st1 st2 : json) (d1 d2 : list json) : bool :=
  match d1, d2 with
  | [], [] => true
  | a :: t1, b :: t2 =>
      let s1 := merge_js a st1 in
      let s2 := merge_js b st2 in
      json_eqb (norm s1) (norm s2) && same_states s1 s2 t1 t2
  | _, _ => false
  end.

Definition obs_updates_of (rid : nat) (l : list obs_env) : list json :=
  map o_msg (filter (fun o => Nat.eqb (o_type o) 0 && opt_nat_eqb (o_src o) (Some rid)) l).

Definition env_matches (e : envelope) (o : obs_env) : bool :=
  Nat.eqb (e_id e) (o_id o) && Nat.eqb (etype_code (e_type e)) (o_type o)
  && msg_matches (e_type e) (e_msg e) (o_msg o) && opt_nat_eqb (e_src e) (o_src o).

Fixpoint all2 {A B} (f : A -> B -> bool) (l1 : list A) (l2 : list B) : bool :=
  match l1, l2 with
  | [], [] => true
  | a :: t1, b :: t2 => f a b && all2 f t1 t2
  | _, _ => false
  end.

Definition logev_eqb (a b : logev) : bool :=
  match a, b with
  | LgSub i, LgSub j | LgUnsub i, LgUnsub j => Nat.eqb i j
  | _, _ => false
  end.

(** Replays the labels; each [LRun] label may carry the `Previous` value the implementation's
    computation was given, which must be the model's [r_prev].  Returns the final state, or the
    position of the first label that is not enabled / whose `Previous` differs. *)
Inductive replay_res := RDone (s : state) (rs : rstate) | RStuck (pos : nat) | RPrev (pos : nat) | RQuery (pos : nat).

(** `initial` as the implementation's computation saw it: what StartExecution was told (server.go:173: the
    variable; :311: always true for a mutation) and ComputationInput.IsInitialComputation (the variable in both). *)
Definition init_ok (r : runner) (i : option (bool * bool)) : bool :=
  match i with
  | None => true
  | Some (logger, mw) =>
      Bool.eqb mw (r_initial r)
      && Bool.eqb logger (match r_kind r with KSub => r_initial r | KMut => true end)
  end.

(** [toks]: one query token per label (see Server/Queries.v; 0 where it does not matter). *)
Fixpoint replay (cfg : config) (s : state) (rs : rstate) (qs : qstate) (pos : nat)
         (h : list (label * option json)) (toks : list nat) (inits : list (option (bool * bool))) : replay_res :=
  match h with
  | [] => RDone s rs
  | (l, p) :: t =>
      let tok := hd 0 toks in
      let prev_ok :=
          match l with
          | LRun rid _ =>
              match st_runners s rid with
              | Some r => match p with Some pv => json_eqb (norm (r_prev r)) pv | None => true end
                          && init_ok r (hd None inits)
              | None => true
              end
          | _ => true
          end in
      if prev_ok
      then match stepR cfg (s, rs) l with
           | Some (s', rs') =>
               match qeffect s s' l tok qs with
               | Some qs' => replay cfg s' rs' qs' (S pos) t (tl toks) (tl inits)
               | None => RQuery pos
               end
           | None => RStuck pos
           end
      else RPrev pos
  end.

Record case := mk_case {
  k_cfg : config;
  k_labels : list (label * option json);
  k_inits : list (option (bool * bool)); (* per label: for a run completion, `initial` as (StartExecution, the middlewares) saw it *)
  k_toks : list nat;                  (* query token per label: of the message for subscribe / mutate, of the query
                                         the computation executed for a run completion *)
  k_out : list obs_env;               (* every WriteJSON, in order *)
  k_log : list logev;                 (* every SubscriptionLogger call, in order *)
  k_ids : list nat;                   (* ids used in this case *)
  k_clients : list (nat * json);      (* (rerunner, state of the merge.ts client after folding its updates) *)
  k_live : list nat;                  (* ids the implementation still had subscribed at the end (none after close) *)
  k_released : list nat;              (* resources whose Cleanup callback ran (each listed as often as it ran) *)
  k_rx : list (nat * list rxev)       (* per rerunner: what the hooks in reactive/rerunner.go reported (publish / failed /
                                         retry / stop.mark with their flags), in order; one entry per rerunner created *)
}.

Definition same_set (l1 l2 : list nat) : bool :=
  Nat.eqb (List.length l1) (List.length l2)
  && forallb (fun x => existsb (Nat.eqb x) l2) l1 && forallb (fun x => existsb (Nat.eqb x) l1) l2.

(** Component codes: 1 a label is not enabled in the model; 2 `Previous` or `initial` (as told to StartExecution / the middlewares) differs; 3 envelopes differ (id, type, source, message; for update messages: the client's state after each of them);
    4 logger calls differ (per id); 5 merge.ts client state differs from the model's fold;
    6 pending close tasks or pending reply left at the end / live ids differ;
    7 the resources released (Cleanup calls) differ from the model's;
    8 a computation executed a query (text, variables) other than the one its rerunner was created with;
    9 what the reactive package reported at the observation points of a rerunner (Server/Iface.v) differs from what
      the history implies: exactly for a rerunner the history has stopped, up to one missing last event otherwise;
      every rerunner the model created must be reported. *)
Definition rx_ok (c : case) (s : state) : bool :=
  let t := iface_trace (k_cfg c) init (map fst (k_labels c)) in
  forallb (fun p => let pred := events_of (fst p) t in
                    if stopped_in s (fst p) then rx_list_eqb pred (snd p) else rx_prefix1 (snd p) pred) (k_rx c)
  && forallb (fun rid => existsb (fun p => Nat.eqb (fst p) rid) (k_rx c)) (seq 0 (st_next s)).

Definition check_case (c : case) : list nat :=
  match replay (k_cfg c) init rinit [] 0 (k_labels c) (k_toks c) (k_inits c) with
  | RStuck _ => [1]
  | RPrev _ => [2]
  | RQuery _ => [8]
  | RDone s rs =>
      (if all2 env_matches (out_of s) (k_out c)
          && forallb (fun rid => same_states JNull JNull (map e_msg (updates_of rid s)) (obs_updates_of rid (k_out c)))
                     (seq 0 (st_next s))
       then [] else [3]) ++
      (if forallb (fun id => all2 logev_eqb (log_for id (log_of s)) (log_for id (k_log c))) (k_ids c)
          && Nat.eqb (List.length (st_log s)) (List.length (k_log c)) then [] else [4]) ++
      (if forallb (fun p => json_eqb (norm (client_state (fst p) s)) (snd p)) (k_clients c) then [] else [5]) ++
      (if forallb (fun id => has_id id (st_subs s)) (k_live c)
          && Nat.eqb (List.length (st_subs s)) (List.length (k_live c)) then [] else [6]) ++
      (if same_set (rs_released rs) (k_released c) then [] else [7]) ++
      (if rx_ok c s then [] else [9])
  end.

Fixpoint mismatches_from_sparse (_ : nat) (cs : list (nat * case)) : list (nat * list nat) :=
  match cs with
  | [] => []
  | (i, c) :: t => match check_case c with
                   | [] => mismatches_from_sparse 0 t
                   | l => (i, l) :: mismatches_from_sparse 0 t
                   end
  end.

(** Position of the first problem of a case, for debugging a mismatch by hand. *)
Definition where_stuck (c : case) : option nat :=
  match replay (k_cfg c) init rinit [] 0 (k_labels c) (k_toks c) (k_inits c) with
  | RStuck p | RPrev p | RQuery p => Some p
  | RDone _ _ => None
  end.
