(** What a history of the connection makes the reactive package do, seen at the four observation points of a
    rerunner (hooks in reactive/rerunner.go): a run publishes its computation (run.publish, with whether a
    previous computation existed), a run returns a non-retry error (run.failed), a run returns
    RetrySentinelError (run.retry), Stop's critical section (stop.mark, with whether the rerunner held a
    computation).  [iface_of s l s'] is what the step [s -l-> s'] of Server/Model.v implies; the correspondence
    check compares it, per rerunner, with what the hooks reported (component 9), and
    [ProofsProduct.interface_agrees] shows that it is what the reactive side of the product
    (Server/Product.v) does in the same step.  Executable definitions only. *)
From Coq Require Import List ZArith String Bool Arith.
From Thunder Require Import Lib.Json DiffMerge.Model Server.Model Server.Spec.
Import ListNotations.
Open Scope list_scope.

Inductive rxev :=
| XPub (hadprev : bool)    (* rerunner.go:421-427; hadprev: r.computation != nil before *)
| XFail                    (* rerunner.go:415-419 *)
| XRetry                   (* rerunner.go:420 ff. *)
| XStop (hadcomp : bool).  (* rerunner.go:447-452; hadcomp: r.computation != nil *)

(** what the function given to NewRerunner returns (server.go:199-258, 337-370) *)
Definition run_iface (r : runner) (o : outcome) : rxev :=
  match r_kind r, o with
  | KSub, OOk _ => XPub (negb (r_initial r))
  | KSub, OErr _ => if r_initial r then XFail else XRetry
  | KSub, OCancelled => XFail
  | KMut, _ => XFail
  end.

(** a rerunner holds a computation once a run of a subscription has succeeded *)
Definition had_comp (r : runner) : bool :=
  match r_kind r with KSub => negb (r_initial r) | KMut => false end.

(** the event of rerunner [rid] in the step [s -l-> s'] *)
Definition sv_ev (s : state) (l : label) (s' : state) (rid : nat) : option rxev :=
  match l with
  | LRun r o =>
      if Nat.eqb r rid
      then match st_runners s rid with Some ru => Some (run_iface ru o) | None => None end
      else None
  | _ =>
      if alive_in s rid && stopped_in s' rid
      then match st_runners s rid with Some ru => Some (XStop (had_comp ru)) | None => None end
      else None
  end.

Definition opt_list {A} (r : nat) (o : option A) : list (nat * A) :=
  match o with Some x => [(r, x)] | None => [] end.

Definition iface_of (s : state) (l : label) (s' : state) : list (nat * rxev) :=
  flat_map (fun rid => opt_list rid (sv_ev s l s' rid)) (seq 0 (st_next s)).

Fixpoint iface_trace (cfg : config) (s : state) (h : list label) : list (nat * rxev) :=
  match h with
  | [] => []
  | l :: t =>
      match step cfg s l with
      | Some s' => iface_of s l s' ++ iface_trace cfg s' t
      | None => []
      end
  end.

Definition rxev_eqb (a b : rxev) : bool :=
  match a, b with
  | XPub x, XPub y | XStop x, XStop y => Bool.eqb x y
  | XFail, XFail | XRetry, XRetry => true
  | _, _ => false
  end.

Definition events_of (rid : nat) (t : list (nat * rxev)) : list rxev :=
  map snd (filter (fun p => Nat.eqb (fst p) rid) t).

Fixpoint rx_list_eqb (a b : list rxev) : bool :=
  match a, b with
  | [], [] => true
  | x :: t, y :: u => rxev_eqb x y && rx_list_eqb t u
  | _, _ => false
  end.

(** [obs] is [pred] without, at most, its last event (the hook of a run that had handed its result to the
    connection when the recording ended had not fired yet). *)
Fixpoint rx_prefix1 (obs pred : list rxev) : bool :=
  match obs, pred with
  | [], [] | [], [_] => true
  | x :: t, y :: u => rxev_eqb x y && rx_prefix1 t u
  | _, _ => false
  end.
