(** A deterministic scheduler for the product (definitions only): runs the silent steps of the reactive side
    and the steps that synchronise on a published computation, tasks in list order, until none is enabled.
    Used for the non-vacuity examples of the composed theorems. *)
From Coq Require Import List ZArith String Bool Arith.
From Thunder Require Import Lib.Json DiffMerge.Model Server.Model Server.Spec Server.Product.
From Thunder Require Reactive.Graph Reactive.Rerunner Reactive.Drive.
Import ListNotations.
Open Scope list_scope.

Fixpoint pfirst (w : world) (p : pstate) (ts : list (nat * list RR.frame)) : option plabel :=
  match ts with
  | [] => None
  | (tid, st) :: t =>
      let l := PReact (RR.LTask tid (Thunder.Reactive.Drive.default_arg st)) None in
      match pstep w p l with
      | Some _ => Some l
      | None => pfirst w p t
      end
  end.

Fixpoint pdrive (fuel : nat) (w : world) (p : pstate) : list plabel :=
  match fuel with
  | 0 => []
  | S k =>
      match pfirst w p (RR.s_tasks (snd p)) with
      | None => []
      | Some l => match pstep w p l with Some p' => l :: pdrive k w p' | None => [] end
      end
  end.

(** run the labels, then drive to rest *)
Definition psettle (fuel : nat) (w : world) (p : pstate) (h : list plabel) : option (pstate * list plabel) :=
  match prun w p h with
  | Some p1 => let d := pdrive fuel w p1 in
               match prun w p1 d with Some p2 => Some (p2, h ++ d) | None => None end
  | None => None
  end.
