(** C17: the SubscriptionLogger sees Subscribe / Unsubscribe strictly alternating per id, open exactly
    for the ids in the map; the subscription limit holds in every reachable state. *)
From Coq Require Import List ZArith String Bool Arith Lia.
From Thunder Require Import Lib.Json DiffMerge.Model Server.Model Server.Spec Server.Proofs Server.ProofsLife.
Import ListNotations.
Open Scope list_scope.

Definition inv_log (s : state) : Prop :=
  forall id, alternates id (st_log s) = true /\ is_open id (st_log s) = has_id id (st_subs s).

Lemma has_id_cons id rid l id' : has_id id' ((id, rid) :: l) = if Nat.eqb id id' then true else has_id id' l.
Proof. unfold has_id. cbn [find_id]. destruct (Nat.eqb id id'); reflexivity. Qed.

Lemma notin_has_id_false id l : ~ In id (map fst l) -> has_id id l = false.
Proof.
  unfold has_id. induction l as [|[i r] t IH]; cbn [find_id map fst]; [reflexivity|].
  intros H. destruct (Nat.eqb i id) eqn:E.
  - apply Nat.eqb_eq in E. subst. exfalso. apply H. left; reflexivity.
  - apply IH. intros X. apply H. right; exact X.
Qed.

Lemma In_has_id id rid l : In (id, rid) l -> has_id id l = true.
Proof.
  intros H. destruct (has_id id l) eqn:E; [reflexivity|]. exfalso.
  apply has_id_false_notin in E. apply E. apply (in_map fst) in H. exact H.
Qed.

Lemma inv_log_ext s s' : st_log s' = st_log s -> st_subs s' = st_subs s -> inv_log s -> inv_log s'.
Proof. unfold inv_log. intros -> ->. auto. Qed.

Lemma inv_log_accept s id k : inv_log s -> has_id id (st_subs s) = false -> inv_log (accept s id k true).
Proof.
  intros H Hid id'. destruct (H id') as [A B]. unfold accept; cbn [st_log st_subs].
  rewrite (remove_id_noop _ _ Hid). cbn [alternates is_open]. rewrite has_id_cons.
  destruct (Nat.eqb id id') eqn:E; [|rewrite A; auto].
  apply Nat.eqb_eq in E. subst id'. rewrite B, Hid, A. auto.
Qed.

Lemma inv_log_close_entry s id rid : inv_log s -> In (id, rid) (st_subs s) -> inv_log (close_entry s id rid).
Proof.
  intros H Hin id'. destruct (H id') as [A B]. unfold close_entry; cbn [st_log st_subs].
  cbn [alternates is_open]. rewrite has_id_remove_id.
  destruct (Nat.eqb id id') eqn:E; [|rewrite A; auto].
  apply Nat.eqb_eq in E. subst id'. rewrite B, (In_has_id _ _ _ Hin), A. auto.
Qed.

Lemma inv_log_close_id s id : inv_log s -> inv_log (close_id s id).
Proof.
  intros H. unfold close_id. destruct (find_id id (st_subs s)) eqn:E; [|exact H].
  apply inv_log_close_entry; [exact H | apply find_id_In; exact E].
Qed.

Definition batch (l : list (nat * nat)) : list logev := map (fun p => LgUnsub (fst p)) l.

Lemma batch_open_notin id l log : ~ In id (map fst l) -> is_open id (batch l ++ log) = is_open id log.
Proof.
  induction l as [|[i r] t IH]; cbn [batch map fst app is_open]; [reflexivity|].
  intros H. destruct (Nat.eqb i id) eqn:E.
  - apply Nat.eqb_eq in E. subst. exfalso. apply H. left; reflexivity.
  - apply IH. intros X. apply H. right; exact X.
Qed.

Lemma batch_open_in id l log : In id (map fst l) -> is_open id (batch l ++ log) = false.
Proof.
  induction l as [|[i r] t IH]; cbn [batch map fst app is_open]; [intros []|].
  intros [H|H]; [subst; rewrite Nat.eqb_refl; reflexivity|].
  destruct (Nat.eqb i id); [reflexivity | apply IH; exact H].
Qed.

Lemma batch_alternates id l log :
  NoDup (map fst l) -> (forall i, In i (map fst l) -> is_open i log = true) ->
  alternates id (batch l ++ log) = alternates id log.
Proof.
  induction l as [|[i r] t IH]; cbn [batch map fst app alternates]; [reflexivity|].
  intros Hn Ho. inversion Hn as [|x xs Hnot Hn']; subst.
  fold (batch t). rewrite IH; [|exact Hn' | intros j Hj; apply Ho; right; exact Hj].
  destruct (Nat.eqb i id) eqn:E; [|reflexivity].
  apply Nat.eqb_eq in E. subst id. rewrite (batch_open_notin _ _ _ Hnot). rewrite Ho by (left; reflexivity). reflexivity.
Qed.

Lemma inv_log_close_all cfg s : c_fix_closelog cfg = true -> inv_nodup s -> inv_log s -> inv_log (close_all cfg s).
Proof.
  intros Hfix Hn H id. unfold close_all; cbn [st_log st_subs]. rewrite Hfix. fold (batch (st_subs s)).
  split.
  - rewrite batch_alternates; [apply H | exact Hn |].
    intros i Hi. destruct (H i) as [_ B]. rewrite B.
    apply in_map_iff in Hi as [[i' r] [E Hi]]. cbn in E. subst. eapply In_has_id; eauto.
  - unfold has_id; cbn [find_id].
    destruct (in_dec Nat.eq_dec id (map fst (st_subs s))) as [Hi|Hi].
    + apply batch_open_in; exact Hi.
    + rewrite batch_open_notin by exact Hi. destruct (H id) as [_ B]. rewrite B. apply notin_has_id_false; exact Hi.
Qed.

Definition log_fixes (cfg : config) : Prop :=
  c_fix_closelog cfg = true /\ c_fix_mutdup cfg = true /\ c_fix_mutsub cfg = true.

Lemma do_run_log_subs s rid r o : st_log (do_run s rid r o) = st_log s /\ st_subs (do_run s rid r o) = st_subs s.
Proof.
  unfold do_run. destruct (r_kind r); destruct o; cbn;
    repeat match goal with
           | |- context [if r_initial r then _ else _] => destruct (r_initial r); cbn
           | |- context [match Diff ?a ?b with Some _ => _ | None => _ end] => destruct (Diff a b); cbn
           end; auto.
Qed.

Theorem step_inv_log cfg s l s' : log_fixes cfg -> Inv s -> inv_log s -> step cfg s l = Some s' -> inv_log s'.
Proof.
  intros (F1 & F2 & F3) HI H Hs. destruct l; cbn [step] in Hs.
  - destruct (ready s); [|discriminate]. inversion Hs; subst; clear Hs. unfold do_subscribe.
    destruct q; try (eapply inv_log_ext; [..|exact H]; reflexivity);
      (destruct (has_id id (st_subs s)) eqn:E; [eapply inv_log_ext; [..|exact H]; reflexivity|]);
      (destruct (Nat.ltb (c_max cfg) (List.length (st_subs s) + 1)); [eapply inv_log_ext; [..|exact H]; reflexivity|]).
    + apply inv_log_accept; assumption.
    + eapply inv_log_ext; [..|exact H]; reflexivity.
  - destruct (ready s); [|discriminate]. inversion Hs; subst; clear Hs. unfold do_mutate. rewrite F2, F3. cbn [andb].
    destruct q; try (eapply inv_log_ext; [..|exact H]; reflexivity);
      (destruct (has_id id (st_subs s)) eqn:E; [eapply inv_log_ext; [..|exact H]; reflexivity|]).
    + apply inv_log_accept; assumption.
    + eapply inv_log_ext; [..|exact H]; reflexivity.
  - destruct (ready s); [|discriminate]. inversion Hs; subst. apply inv_log_close_id; exact H.
  - destruct (ready s); [|discriminate]. inversion Hs; subst. eapply inv_log_ext; [..|exact H]; reflexivity.
  - destruct (ready s); [|discriminate]. inversion Hs; subst. destruct ok; [exact H | eapply inv_log_ext; [..|exact H]; reflexivity].
  - destruct (ready s); [|discriminate]. inversion Hs; subst. eapply inv_log_ext; [..|exact H]; reflexivity.
  - destruct (ready0 s); [|discriminate]. inversion Hs; subst. apply inv_log_close_all; [exact F1 | apply HI | exact H].
  - destruct (st_pend s); [|discriminate]. destruct (st_closed s); [discriminate|]. inversion Hs; subst.
    eapply inv_log_ext; [..|exact H]; reflexivity.
  - destruct (st_runners s rid) as [r|]; [|discriminate]. destruct (is_live r); [|discriminate]. inversion Hs; subst.
    destruct (do_run_log_subs s rid r o) as [A B]. eapply inv_log_ext; eauto.
  - inversion Hs; subst; exact H.
  - inversion Hs; subst; exact H.
  - destruct (mem_task (id, rid) (st_tasks s)); [|discriminate]. inversion Hs; subst; clear Hs.
    unfold do_close_task.
    set (s1 := set_tasks s (remove_task (id, rid) (st_tasks s))).
    assert (H1 : inv_log s1) by (eapply inv_log_ext; [..|exact H]; reflexivity).
    destruct (c_fix_aba cfg); [|apply inv_log_close_id; exact H1].
    destruct (find_id id (st_subs s1)) eqn:E; [|exact H1].
    destruct (Nat.eqb n rid) eqn:E2; [|exact H1].
    apply Nat.eqb_eq in E2. subst n. apply inv_log_close_entry; [exact H1 | apply find_id_In; exact E].
  - destruct (ready0 s); [|discriminate]. inversion Hs; subst. apply inv_log_close_all; [exact F1 | apply HI | exact H].
  - inversion Hs; subst; exact H.
  - inversion Hs; subst. eapply inv_log_ext; [..|exact H]; reflexivity.
Qed.

Theorem run_inv_log cfg h : log_fixes cfg -> forall s s', Inv s -> inv_log s -> run cfg s h = Some s' -> inv_log s'.
Proof.
  intros F. induction h as [|l t IH]; intros s s' HI H Hr; cbn [run] in Hr.
  - inversion Hr; subst; exact H.
  - destruct (step cfg s l) eqn:E; [|discriminate]. eapply IH; [| |exact Hr].
    + eapply step_Inv; eauto. apply F.
    + eapply step_inv_log; eauto.
Qed.

Theorem reachable_inv_log cfg s : log_fixes cfg -> reachable cfg s -> inv_log s.
Proof.
  intros F [h Hr]. eapply run_inv_log; eauto; [apply Inv_init|]. intros id. split; reflexivity.
Qed.

(** * The subscription limit *)

Lemma filter_length_le' {A} (f : A -> bool) l : List.length (filter f l) <= List.length l.
Proof. induction l as [|x t IH]; cbn; [lia|]. destruct (f x); cbn; lia. Qed.

Lemma filter_remove_id_le f id l : List.length (filter f (remove_id id l)) <= List.length (filter f l).
Proof.
  induction l as [|[i r] t IH]; cbn [remove_id filter]; [lia|].
  destruct (Nat.eqb i id); cbn [filter]; destruct (f (i, r)); cbn; lia.
Qed.

(** A step leaves the kind of every rerunner in the map as it was. *)
Lemma step_entries_kind cfg s l s' : Inv s -> step cfg s l = Some s' ->
  forall p, In p (st_subs s) -> is_sub_entry (st_runners s') p = is_sub_entry (st_runners s) p.
Proof.
  intros (Hn & Hm & Hl & Hf & Hc) Hs [id rid] Hin. destruct (Hm _ _ Hin) as (r & Hr & _ & _).
  unfold is_sub_entry; cbn [snd].
  destruct (step_change cfg s l s' rid Hf Hs) as [C|r0 C0 C1|id' k C0|r0 r1 C0 L C1 _ C2 _].
  - rewrite C. reflexivity.
  - rewrite C0, C1. reflexivity.
  - congruence.
  - rewrite C0, C1, C2. reflexivity.
Qed.

Definition inv_limit (cfg : config) (s : state) : Prop := sub_count s <= c_max cfg.

Lemma count_same_subs cfg s l s' : Inv s -> step cfg s l = Some s' -> st_subs s' = st_subs s -> sub_count s' = sub_count s.
Proof.
  intros HI Hs E. unfold sub_count. rewrite E. f_equal. apply filter_ext_in. apply (step_entries_kind cfg s l s' HI Hs).
Qed.

Lemma count_remove cfg s l s' id : Inv s -> step cfg s l = Some s' -> st_subs s' = remove_id id (st_subs s) -> sub_count s' <= sub_count s.
Proof.
  intros HI Hs E. unfold sub_count. rewrite E.
  rewrite (filter_ext_in (is_sub_entry (st_runners s')) (is_sub_entry (st_runners s))).
  - apply filter_remove_id_le.
  - intros [i r] Hin. apply In_remove_id in Hin as [_ Hin]. apply (step_entries_kind cfg s l s' HI Hs). exact Hin.
Qed.

Theorem step_inv_limit cfg s l s' : c_fix_mutdup cfg = true -> Inv s -> inv_limit cfg s -> step cfg s l = Some s' -> inv_limit cfg s'.
Proof.
  intros F HI H Hs. unfold inv_limit in *.
  assert (Same : st_subs s' = st_subs s -> sub_count s' <= c_max cfg).
  { intros E. rewrite (count_same_subs cfg s l s' HI Hs E). exact H. }
  assert (Rem : forall id, st_subs s' = remove_id id (st_subs s) -> sub_count s' <= c_max cfg).
  { intros id E. pose proof (count_remove cfg s l s' id HI Hs E). lia. }
  assert (Acc : forall id k, has_id id (st_subs s) = false -> s' = accept s id k true \/ s' = accept s id k false ->
                             (k = KSub -> List.length (st_subs s) + 1 <= c_max cfg) -> sub_count s' <= c_max cfg).
  { intros id k Hid Hs' Hk.
    assert (E : st_subs s' = (id, st_next s) :: st_subs s).
    { destruct Hs' as [-> | ->]; unfold accept; cbn [st_subs]; rewrite (remove_id_noop _ _ Hid); reflexivity. }
    assert (R : st_runners s' (st_next s) = Some (mk_runner id k Live true JNull)).
    { destruct Hs' as [-> | ->]; unfold accept; cbn [st_runners]; apply upd_same. }
    unfold sub_count. rewrite E. cbn [filter]. unfold is_sub_entry at 1. cbn [snd]. rewrite R. cbn [r_kind].
    rewrite (filter_ext_in (is_sub_entry (st_runners s')) (is_sub_entry (st_runners s)))
      by (apply (step_entries_kind cfg s l s' HI Hs)).
    destruct k.
    - cbn [List.length]. pose proof (filter_length_le' (is_sub_entry (st_runners s)) (st_subs s)). specialize (Hk eq_refl). lia.
    - exact H. }
  destruct l; cbn [step] in Hs.
  - destruct (ready s); [|discriminate]. injection Hs as Hs'. unfold do_subscribe in Hs'.
    destruct q;
      try (apply Same; rewrite <- Hs'; reflexivity);
      (destruct (has_id id (st_subs s)) eqn:E; [apply Same; rewrite <- Hs'; reflexivity|]);
      (destruct (Nat.ltb (c_max cfg) (List.length (st_subs s) + 1)) eqn:E2; [apply Same; rewrite <- Hs'; reflexivity|]).
    + apply (Acc id KSub E); [left; auto|]. intros _. apply Nat.ltb_ge in E2. exact E2.
    + apply Same; rewrite <- Hs'; reflexivity.
  - destruct (ready s); [|discriminate]. injection Hs as Hs'. unfold do_mutate in Hs'. rewrite F in Hs'. cbn [andb] in Hs'.
    destruct q;
      try (apply Same; rewrite <- Hs'; reflexivity);
      (destruct (has_id id (st_subs s)) eqn:E; [apply Same; rewrite <- Hs'; reflexivity|]).
    + apply (Acc id KMut E); [destruct (c_fix_mutsub cfg); auto | discriminate].
    + apply Same; rewrite <- Hs'; reflexivity.
  - destruct (ready s); [|discriminate]. injection Hs as Hs'. unfold close_id in Hs'.
    destruct (find_id id (st_subs s)); [apply (Rem id) | apply Same]; rewrite <- Hs'; reflexivity.
  - destruct (ready s); [|discriminate]. injection Hs as Hs'. apply Same; rewrite <- Hs'; reflexivity.
  - destruct (ready s); [|discriminate]. injection Hs as Hs'. apply Same; rewrite <- Hs'; destruct ok; reflexivity.
  - destruct (ready s); [|discriminate]. injection Hs as Hs'. apply Same; rewrite <- Hs'; reflexivity.
  - destruct (ready0 s); [|discriminate]. injection Hs as Hs'. rewrite <- Hs'. unfold sub_count, close_all; cbn. lia.
  - destruct (st_pend s); [|discriminate]. destruct (st_closed s); [discriminate|]. injection Hs as Hs'.
    apply Same; rewrite <- Hs'; reflexivity.
  - destruct (st_runners s rid) as [r|]; [|discriminate]. destruct (is_live r); [|discriminate]. injection Hs as Hs'.
    apply Same. rewrite <- Hs'. apply do_run_log_subs.
  - injection Hs as Hs'. apply Same; rewrite <- Hs'; reflexivity.
  - injection Hs as Hs'. apply Same; rewrite <- Hs'; reflexivity.
  - destruct (mem_task (id, rid) (st_tasks s)); [|discriminate]. injection Hs as Hs'. unfold do_close_task in Hs'.
    destruct (c_fix_aba cfg).
    + cbn [st_subs set_tasks] in Hs'. destruct (find_id id (st_subs s)); [|apply Same; rewrite <- Hs'; reflexivity].
      destruct (Nat.eqb n rid); [apply (Rem id) | apply Same]; rewrite <- Hs'; reflexivity.
    + unfold close_id in Hs'. cbn [st_subs set_tasks] in Hs'.
      destruct (find_id id (st_subs s)); [apply (Rem id) | apply Same]; rewrite <- Hs'; reflexivity.
  - destruct (ready0 s); [|discriminate]. injection Hs as Hs'. rewrite <- Hs'. unfold sub_count, close_all; cbn. lia.
  - injection Hs as Hs'. apply Same; rewrite <- Hs'; reflexivity.
  - injection Hs as Hs'. apply Same; rewrite <- Hs'; reflexivity.
Qed.

Theorem reachable_inv_limit cfg s : c_fix_mutdup cfg = true -> reachable cfg s -> inv_limit cfg s.
Proof.
  intros F [h Hr]. revert Hr.
  assert (G : forall h s0 s1, Inv s0 -> inv_limit cfg s0 -> run cfg s0 h = Some s1 -> inv_limit cfg s1).
  { clear h. induction h as [|l t IH]; intros s0 s1 HI H Hr; cbn [run] in Hr.
    - inversion Hr; subst; exact H.
    - destruct (step cfg s0 l) eqn:E; [|discriminate]. eapply IH; [| |exact Hr].
      + eapply step_Inv; eauto.
      + eapply step_inv_limit; eauto. }
  intros Hr. eapply G; eauto; [apply Inv_init|]. unfold inv_limit, sub_count; cbn. lia.
Qed.
