SPEC = {
    "id": "C06",
    "n": {"quick": 400, "thorough": 12000},
    "components": {"1": "normalised (flattened) query", "2": "plan (service, type, path, selections per sub-plan)",
                   "3": "gateway answer", "4": "reference semantics (eval_ref) vs the harness reference evaluator",
                   "5": "fed_ok and closedness of the gateway's plan where every object is federated",
                   "6": "premises of Props/C06.federation_transparent where the harness counts the case as covered, and the theorem's instance recomputed"},
    "corr_name": "Federation.Normalize/Planner/Executor (flatten, plan_root, fed_exec, eval_ref) vs federation flattener / Planner / Executor and the harness reference evaluator",
    "coq_modules": ["Federation.Check06"],
    "search": {"n": 3000, "timeout": 600},
    "harness_timeout": {"quick": 600, "thorough": 3000},
    "trusted_base": [
        "Coq 8.16.1 kernel and vm_compute (no native_compute); Print Assumptions: closed under the global context",
        "hand-written model coq/theories/Federation/{Normalize,Planner,Executor}.v of federation/normalize.go, planner.go, planner_helpers.go, executor.go, tied to the code by the correspondence check only",
        "Go harness harness/cmd/c06 + harness/pkg/fedgen: dynamic schemas over reflect (schemabuilder, graphql executor and introspection are the implementation's), deterministic world of data, query generator, the harness' own reference evaluator used to arbitrate when thunder's graphql executor itself deviates (fragments on unions, DESIGN F4/F5)",
        "add-only //go:build verif file federation/verif_hooks.go (patches/C06-hooks.patch) exposing planRoot / flatten / setPlanner",
    ],
    "assumptions": [
        "services resolve through one shared deterministic world, so a field served by two services has one value; resolvers do not fail (error propagation is C16)",
        "every service that has an object registers it with FetchObjectFromKeys and exposes its key fields (id, org); validateFederationKeys / validateFederatedObjects enforce the same on real schemas",
        "the gateway's answer carries a __typename on every union value (its own tests expect it); it is removed before comparing where the query did not ask for it",
        "the unsynchronised Executors map write in setPlanner vs read in runOnService is a Go data race outside an interleaving model of atomic steps: the refresh part runs in a child process and a runtime 'concurrent map' abort there is counted, not claimed",
    ],
    "manifest": {
        "text": "Random partitions of dynamically built schemas over 2-4 in-process services, random ServiceSelector choices and queries with repeated aliases, nested / named fragments, unions, @skip/@include on fields (incl. __typename and repeated aliases), fragments and spreads, arguments, nulls and empty lists at hop points and multi-hop plans are run through the gateway and through one non-federated server over the same data: the JSON must agree (also with the gateway's answer to the query with its directives applied textually), every sub-request must pass the receiving service's own PrepareQuery and use only fields and arguments that service declares, also while planners are being swapped. Coq theorems (Props/C06.v) over an executable model of normalisation, planning and stitching; the model is evaluated against the gateway's normalised query, plan and answer on every run.",
        "note": "Trusted: Coq kernel + vm_compute; the hand-written model (tied to the code only by the correspondence check); the Go harness incl. its reference evaluator. Defects repaired (fix: commits): mergeSameAlias lost sub-selections of repeated aliases; extractKeys failed on a null object at a service hop; __typename on the root object was not answered; a selection excluded by @skip/@include was merged with a kept one of the same alias (and mergeSameAlias' sort was not stable).",
        "technique": "Coq proof over executable model + differential correspondence check (vm_compute) + property oracle on implementation outputs",
    },
}
