SPEC = {
    "id": "C18",
    "n": {"quick": 800, "thorough": 40000},
    "components": {
        "k*10+1": "send k: accepted / rejected (or the rejecting phase: graphql.Parse vs PrepareQuery) differs",
        "k*10+2": "send k: value that reached the resolver differs from the model's parse result",
        "k*10+3": "send k: number of resolver calls differs from the two-phase machine (1 after Ok, 0 after a rejection)",
        "101-103": "the same three for a request that selects the field several times (aliases / fragments): outcome, per-selection values in document order, number of resolver calls",
        "k*10+4": "send k: the value PrepareQuery stored in Selection.Args (read before Execute; behind ConnectionArgs.Args on the paginated twin) differs from the model's parse result, or is present / absent where the model refuses / accepts",
        "200": "schema.Build accepts an argument struct the model's builder (build_top over the raw reflect view) refuses, or the converse",
        "201": "the model's builder returns another argument type than the one the harness derived from the reflect.Type (names, optional / pointer wrappers, skipped fields, enum / scalar / TextUnmarshaler precedence)",
        "300-301": "request to the field without argument struct (nilParseArguments): outcome class; resolver ran although refused / did not run",
    },
    "corr_name": "Args.ModelBuilder (build_top: makeStructParser / getStructObjectFields / makeArgParser / parseGraphQLFieldInfo on the raw reflect view; parse_noargs) + Args.Model (parse_doc: defaults, then fragment bodies, then the operation; vtj; parse; prepare) vs schema.Build / graphql.Parse / PrepareQuery (Selection.Args) / Execute with reflect-built and catalogue argument structs, field in the operation body, a named fragment or an inline fragment; histories of operations sharing one variables map",
    "coq_modules": ["Args.Model", "Args.Spec", "Args.Codec", "Args.Proofs", "Args.ProofsReject", "Args.ProofsInst", "Args.ProofsSubst", "Args.ProofsTotal", "Args.ProofsDoc", "Args.ProofsPaginated", "Gen.ArgParsers", "Args.Table", "Args.ModelBuilder", "Args.ProofsBuilder", "Args.ProofsRange", "Args.ProofsEnum", "Args.Check"],
    "harness_timeout": {"quick": 600, "thorough": 3000},
    "search": {"n": 6000, "timeout": 900},
    "trusted_base": [
        "Coq 8.16.1 kernel and vm_compute (no native_compute); Print Assumptions: closed under the global context",
        "hand-written models coq/theories/Args/ModelBuilder.v (schemabuilder/input.go makeStructParser, getStructObjectFields, makeArgParser(Inner), "
        "nilParseArguments; reflect.go parseGraphQLFieldInfo) and coq/theories/Args/Model.v of graphql/parser.go (valueToJson, argsToJson, variable defaults), "
        "graphql/schemabuilder/input.go (every argParser) and the Parse -> PrepareQuery -> Execute order of graphql/http.go, "
        "tied to the code by the correspondence check only",
        "tools/gentables (go/ast extractor of the scalarArgParsers table into coq/theories/Gen/ArgParsers.v, re-run on every check)",
        "the harness's raw reflect dump of argument structs (rawCoq: kinds, names, tags, PkgPath / Anonymous, and per type: registered enum, "
        "scalarArgParsers entry by internal.TypesIdenticalOrScalarAliases' rule, TextUnmarshaler) - the input of the builder model",
        "Go harness harness/cmd/c18 (type and value generators, reflect.StructOf / MakeFunc schema, type-directed dump, oracle, "
        "Coq term printer); its catalogue of named types (named scalars, five enums - two registered with aliases -, a TextUnmarshaler, five nested structs)",
        "third-party code modelled, not verified: graphql-go lexer/parser (query text -> AST, strconv for number tokens), "
        "encoding/json (variables), encoding/base64, time.Parse(RFC3339) on the sub-language YYYY-MM-DDTHH:MM:SS[.d{1,9}](Z|+-HH:MM); "
        "in the theorems they are Section variables with round-trip hypotheses",
        "out-of-range float64 -> integer conversions follow gc on amd64 (the Go spec leaves them implementation-defined); "
        "int and uint are 64 bits wide",
    ],
    "assumptions": [
        "integers are within the range of their kind and |z| <= 2^53; float32 arguments have a 24-bit significand and float64 "
        "arguments are normalised dyadics (exponent range, NaN, infinities and -0 are outside the model and the generator)",
        "argument types are what the builder returns (theorem built_types_are_well_formed: unique field names, no pointer to pointer, "
        "`optional` only on struct fields - proved of the builder model, which is compared with schema.Build on every case); the name maps "
        "of registered enums have unique names (Go maps)",
        "the builder model reads Go identifiers that start with an ASCII letter (makeGraphql lower-cases the first rune; generator names are ASCII)",
        "JSON objects have unique keys (Go maps)",
        "documents pass detectCyclesAndUnusedFragments / detectConflicts (not modelled); a self-referencing input struct is unfolded "
        "into the finite type language to depth 3 and the generator keeps values above that depth",
    ],
    "manifest": {
        "text": "Coq theorems (Props/C18.v) over an executable model of valueToJson, variable defaults and every argument "
                "parser of schemabuilder/input.go, by induction over the argument type language; the model is run against "
                "graphql.Parse/PrepareQuery/Execute on reflect-built argument structs sent by literal, variable, nested "
                "variable and default on every run (correspondence), and the property itself (echo = sent, literal = variable, "
                "default iff no non-null value - also for later operations that share one variables map, which Parse must not modify -, "
                "arguments parsed once in PrepareQuery: Selection.Args = what the resolver receives, unsupported argument types refused by schema.Build, "
                "malformed input rejected as a client error with zero resolver calls) is "
                "evaluated on the implementation's own outputs (oracle), through the direct Parse/PrepareQuery/Execute sequence, "
                "graphql.HTTPHandler and the websocket subscribe / mutate handlers. When model and implementation disagree without an "
                "oracle failure, 6000 variants of the disagreeing cases (boundary values of every width, other transports and places, "
                "null/omitted variants) are searched for a failing input.",
        "note": "Trusted: Coq kernel + vm_compute; the hand-written model (tied to the code only by the correspondence check); "
                "the Go harness and its type catalogue; graphql-go's lexer/parser, encoding/json, base64 and time.Parse are "
                "modelled as functions with round-trip hypotheses. Integers |z| <= 2^53 and within width; out-of-range "
                "conversions are modelled as gc/amd64 performs them but are outside the theorems.",
        "technique": "Coq proof over executable model + differential correspondence check (vm_compute) + property oracle on implementation outputs",
    },
}


def regen_tables():
    """Re-extract the scalarArgParsers table of the tree under test into coq/theories/Gen/ArgParsers.v
    (written only when it changed; under the shared Coq lock so that no build reads a half-written file).
    A failure leaves a table the theorem scalar_table_covered cannot match: the check fails closed."""
    import os
    from vlib import common as C
    tool = os.path.join(C.VERIF, "tools", "gentables")
    out = os.path.join(C.COQ, "theories", "Gen", "ArgParsers.v")
    os.makedirs(os.path.join(C.BUILD, "bin"), exist_ok=True)
    binp = os.path.join(C.BUILD, "bin", "gentables")
    with C.Lock("go"):
        rc, log = C.sh(["go", "build", "-o", binp, "."], cwd=tool, env=C.GOENV, timeout=600)
    if rc != 0:
        print("gentables does not build:\n" + log[-2000:])
        return False
    with C.Lock("coq", shared=True):
        rc, log = C.sh([binp, "-repo", C.REPO, "-out", out], cwd=C.VERIF, timeout=120)
    if rc != 0:
        print("gentables failed:\n" + log[-2000:])
    return rc == 0


def run(tier, seed, replay=None):
    from vlib import runner
    regen_tables()
    return runner.run(SPEC, tier, seed, replay)
