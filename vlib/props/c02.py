from .c17 import _TRUSTED

SPEC = {
    "id": "C02",
    "harness": "c02",
    "n": {"quick": 660, "thorough": 20000},
    "coq_modules": ["Server.Model", "Server.Spec", "Server.Witness", "Server.Release", "Server.Queries", "Server.Iface", "Server.Check", "Server.Product", "Server.ProofsProduct"],
    "search": {"n": 2000, "timeout": 600},
    "components": {"1": "an observed event is not an enabled step of the model", "2": "`Previous` or `initial` (as told to StartExecution / the middlewares) of a computation differs from the model's",
                   "3": "socket envelopes differ", "4": "SubscriptionLogger calls differ", "5": "merge.ts client state differs from the model's fold",
                   "6": "subscriptions left in the map at the end differ", "7": "resources released (Cleanup calls) differ", "8": "a computation executed a query (text, variables) other than its subscription's",
                   "9": "what reactive/rerunner.go reported for a rerunner (publish / failed / retry / stop.mark with their flags) differs from what the history implies (Server/Iface.v)"},
    "corr_name": "Server.Model + DiffMerge.Model vs graphql/server.go + diff.Diff + client/src/merge.ts: the model must predict every update envelope and the folded client state of every recorded history",
    "trusted_base": _TRUSTED + [
        "convergence is proved inside a Section whose hypothesis is the C03 round trip and instantiated with C03's proof (roundtrip_js_all); numbers are integers below 2^53",
        "live_convergence: the result of Execute is a function (w_render) of the (slot, version) reads the computation recorded; a query's reads are a fixed script of the reactive model (slots, caches, goroutines) - data-dependent read sets are not represented in the model, they are exercised on the implementation (keyed lists, memoised Expensive fields)",
    ],
    "assumptions": [
        "results of computations are well-formed JSON (unique object keys, scalar __key)",
        "convergence and first-message-full are stated for histories in which no socket write has failed (st_wfail = false: the client is still there)",
        "a wait of the harness that times out (20 s) is reported only if it times out again when the case is replayed once on a fresh connection (counted in the histogram)",
        "that the last run read the final data is C04's quiescence theorem, composed into live_convergence through the product Server/Product.v; on the implementation it is also checked directly (version stamps on every resolver read, fresh Execute at every quiescent point)",
        "a quiescent point of a history with memoised sub-results is recognised through the hooks of reactive/graph.go (no invalidate() call announced by a strobe / invalidate snapshot is outstanding, the published computation is valid) and the version stamps; if a stale cache entry keeps the stamps from ever matching, the point is taken after two seconds of silence and what it shows is reported only if the case shows it again when played a second time",
    ],
    "harness_timeout": {"quick": 600, "thorough": 3000},
    "manifest": {
        "text": "Coq theorems (Props/C02.v) over the connection model: the first message of every accepted subscription is a full update, every update carries the id of the subscription that computed it, nothing is written for a subscription after its unsubscribe was processed, and - by induction over the successful runs of one subscription, using the C03 round trip - folding the sent deltas with merge.ts yields the stripped result of the last run. End to end (live_convergence, over the product of the connection model with Reactive/Rerunner.v, C04's published_output_is_current instantiated through a proved coherence invariant - previous is always the result of the published computation): for every pool of queries, every history of client messages, data changes and schedules of the reactive package's goroutines, when the reactive package has come to rest a live, uncancelled subscription has published a computation all of whose reads are current and the client holds its stripped result - the result of the query on the final data. The model is tied to the code by trace conformance on every run; the oracle folds the real envelopes with the repository's merge.ts and merge.Merge and compares with a fresh Execute at every quiescent point.",
        "note": "Trusted: Coq kernel + vm_compute; the hand-written models; the Go harness, hook call sites and node. The convergence theorem is instantiated with C03's round trip and composed with C04's quiescence theorem in live_convergence; Execute's result is modelled as a function of the recorded reads.",
        "technique": "Coq proof over executable model + trace-conformance check (vm_compute) + client-model oracle (merge.ts under node, merge.Merge) against fresh Execute at quiescence",
    },
}
