from .c17 import _TRUSTED

SPEC = {
    "id": "C02",
    "harness": "c02",
    "n": {"quick": 800, "thorough": 20000},
    "coq_modules": ["Server.Model", "Server.Spec", "Server.Witness", "Server.Release", "Server.Queries", "Server.Iface", "Server.Check"],
    "search": {"n": 2000, "timeout": 600},
    "components": {"1": "an observed event is not an enabled step of the model", "2": "`Previous` or `initial` (as told to StartExecution / the middlewares) of a computation differs from the model's",
                   "3": "socket envelopes differ", "4": "SubscriptionLogger calls differ", "5": "merge.ts client state differs from the model's fold",
                   "6": "subscriptions left in the map at the end differ", "7": "resources released (Cleanup calls) differ", "8": "a computation executed a query (text, variables) other than its subscription's",
                   "9": "what reactive/rerunner.go reported for a rerunner (publish / failed / retry / stop.mark with their flags) differs from what the history implies (Server/Iface.v)"},
    "corr_name": "Server.Model + DiffMerge.Model vs graphql/server.go + diff.Diff + client/src/merge.ts: the model must predict every update envelope and the folded client state of every recorded history",
    "trusted_base": _TRUSTED + [
        "convergence is proved relative to the C03 round-trip facts (section hypotheses of Server/Proofs.v, to be instantiated with DiffMerge/Proofs.v); numbers are integers below 2^53",
    ],
    "assumptions": [
        "results of computations are well-formed JSON (unique object keys, scalar __key)",
        "convergence and first-message-full are stated for histories in which no socket write has failed (st_wfail = false: the client is still there)",
        "a wait of the harness that times out (20 s) is reported only if it times out again when the case is replayed once on a fresh connection (counted in the histogram)",
        "that the last run read the final data is C04's quiescence theorem; here it is checked on the implementation (version stamps on every resolver read)",
    ],
    "harness_timeout": {"quick": 600, "thorough": 3000},
    "manifest": {
        "text": "Coq theorems (Props/C02.v) over the connection model: the first message of every accepted subscription is a full update, every update carries the id of the subscription that computed it, nothing is written for a subscription after its unsubscribe was processed, and - by induction over the successful runs of one subscription, using the C03 round trip - folding the sent deltas with merge.ts yields the stripped result of the last run. The model is tied to the code by trace conformance on every run; the oracle folds the real envelopes with the repository's merge.ts and merge.Merge and compares with a fresh Execute at every quiescent point.",
        "note": "Trusted: Coq kernel + vm_compute; the hand-written models; the Go harness, hook call sites and node. The convergence theorem takes the diff/merge round trip as a section hypothesis (C03). That the last run saw the final data is measured (version stamps), not proved here (C04).",
        "technique": "Coq proof over executable model + trace-conformance check (vm_compute) + client-model oracle (merge.ts under node, merge.Merge) against fresh Execute at quiescence",
    },
}
