SPEC = {
    "id": "C20",
    "n": {"quick": 900, "thorough": 30000},
    "components": {"1": "an observed atomic operation is not an enabled step of the model (or the hook sequence does not have the shape of the modelled code)",
                   "2": "program counter after an operation (outcome of Swap / CompareAndSwap, branch taken by Acquire's select)",
                   "3": "len(limiter.ch) after an operation", "4": "len(limiter.ch) at the end of the run", "5": "every call returned (quiescence)",
                   "6": "tokens obtainable without blocking after every release function was called",
                   "7": "the harness counted more than limit goroutines in their critical sections although the model's acquired holders stayed within the limit"},
    "corr_name": "Limiter.Model (step / replay, both orders of block's re-acquire) vs concurrencylimiter.go (Acquire, holder.release, holder.block) driven one atomic operation at a time through the verifhook points",
    "harness_timeout": {"quick": 900, "thorough": 7200},
    "trusted_base": [
        "Coq 8.16.1 kernel and vm_compute (no native_compute); Print Assumptions of all 8 theorems: closed under the global context",
        "hand-written transition system coq/theories/Limiter/Model.v (one label per channel send/receive, Swap, CompareAndSwap, ctx.Done branch; maximally general client), tied to concurrencylimiter.go by the trace-conformance check only",
        "Go harness harness/cmd/c20 + harness/pkg/sched (controlled scheduler that runs one goroutine at a time between hook points, free-running recorder with holds, program generator, oracle, Coq term printer); the verifhook call sites (patches/C20-hooks.patch) stand immediately before each atomic operation",
        "Go runtime: sync/atomic operations and channel operations are atomic and channels of capacity n hold at most n elements; the Go memory model; fairness of channel wake-ups is not modelled",
    ],
    "assumptions": [
        "atomicity granularity: each channel operation, Swap and CompareAndSwap is one step; everything else in the three functions is goroutine-local",
        "the client is arbitrary: any goroutine may call Acquire, any existing holder's release function, or TemporarilyRelease on any existing holder, at any time and any number of times; contexts may be cancelled at any time",
        "liveness is proved as enabledness (receives never wait; Swap/CAS always enabled; Acquire on a cancelled or limiter-less context has an enabled returning step), not as a temporal property of the Go scheduler",
        "the theorems are about the repaired order of block's re-acquire (patches/C20-fix-1.patch); the original order is kept in the model (fx = false) and refuted by running_le_limit_original_refuted",
    ],
    "manifest": {
        "text": "Coq theorems (Props/C20.v) over a labelled transition system of the limiter (one label per atomic operation, arbitrary client) hold for every capacity, every schedule and every reachable state: the channel holds exactly one token per acquired holder plus one per call in transit, at most n holders are acquired / running / believed running, release is idempotent and final, at quiescence the channel holds exactly the unreleased holders' tokens, receives never wait, Acquire on a cancelled or limiter-less context returns. On every run a Go harness generates client programs and schedules (seeded, one atomic operation at a time through verifhook points, plus scripted witness schedules and free-running executions with holds), replays every observed operation, outcome and channel length through the Coq model, and evaluates the property directly on the implementation (critical-section counter <= n, full capacity obtainable at quiescence, every call returns).",
        "note": "Trusted: Coq kernel + vm_compute; the hand-written model (tied to the code by the trace-conformance check at the granularity of the hook points); the Go harness and its scheduler; atomicity of sync/atomic and channel operations. Fairness of Go's channel wake-ups and data races below the granularity of one atomic operation are outside the model. Free-running executions are checked by the oracle only (no linearisation search).",
        "technique": "Coq proof (invariants by induction over label lists) over an executable LTS + trace-conformance check under a controlled scheduler (vm_compute replay) + property oracle on the implementation",
    },
}
