SPEC = {
    "id": "C20",
    "n": {"quick": 400, "thorough": 30000},
    "components": {"1": "an observed atomic operation is not an enabled step of the model", "2": "program counter after an operation (CAS / Swap outcome, select branch)",
                   "3": "len(limiter.ch) after an operation", "4": "len(limiter.ch) at the end of the run", "5": "every call returned",
                   "6": "tokens obtainable after every release function was called", "7": "harness saw over-admission, model did not"},
    "corr_name": "Limiter.Model (step, replay) vs concurrencylimiter.go (Acquire, release, block)",
    "trusted_base": [],
    "assumptions": [],
    "manifest": {"text": "", "note": "", "technique": ""},
}
