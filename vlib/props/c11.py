SPEC = {
    "id": "C11",
    "n": {"quick": 600, "thorough": 20000},
    "search": {"n": 40000, "timeout": 900},
    "components": {"1": "connection JSON of a page", "2": "error / error class of a page query",
                   "3": "pages of a forward walk", "4": "pages of a backward walk"},
    "corr_name": "Pagination.Model (get_connection, walk_forward, walk_backward) vs graphql.Execute on a thunder-managed paginated field",
    "harness_timeout": {"quick": 600, "thorough": 3000},
    "trusted_base": [
        "Coq 8.16.1 kernel and vm_compute (no native_compute); Print Assumptions: closed under the global context",
        "hand-written model coq/theories/Pagination/Model.v of graphql/schemabuilder/pagination.go (getConnection, applyTextFilter, applySort, nodesToEdges, pagesFromEdges, applyCursorsToAllEdges, paginateManually, setCursors) and internal/filter/filter.go, tied to the code by the correspondence check only",
        "Go harness harness/cmd/c11 (generator, reference filter/sort and per-page oracle, Coq term printer), encoding/json, graphql.Parse/PrepareQuery/Execute as the path to the code under test",
        "filter fields: the three runners of applyTextFilter (plain, expensive, batched; fallback fields go to batched or plain by ShouldUseBatchFunc) are modelled and proved to agree; sort fields: the four implementations differ only in how the value is fetched and are one function in the model (agreement checked by the correspondence only); goroutine scheduling inside the runners is not modelled (each writes its own slots / takes a mutex)",
        "strings are ASCII byte strings (strings.ToLower is modelled on A-Z only); sort values are int64 or string (uint and float sort fields are outside the model)",
    ],
    "assumptions": [
        "keys are unique (the theorems' NoDup hypothesis; evaluated on every generated case)",
        "the cursor encoding is injective (a hypothesis of the general theorems; proved for the model's base64 in Pagination/Base64.v, theorem base64_is_injective)",
        "walks use a page size k >= 1; first/last are non-negative and not both given (args_ok: exactly what the code accepts), the sort field is registered (sort_ok)",
        "custom FilterFunc/tokenisers are user code and outside the model; externally managed connections (PaginationInfo returned by the resolver) are outside the property",
    ],
    "manifest": {
        "text": "Coq theorems (Props/C11.v) over an executable model of thunder-managed pagination (text filter, stable sort, cursors, first/last slicing, page info) prove for every list with unique keys that forward and backward walks partition the filtered sorted list and that totalCount, hasNextPage/hasPrevPage and start/end cursors are what the statement says; the model is run against graphql.Execute on generated lists, arguments and chained walks on every run (correspondence) and the statement's clauses are evaluated on the implementation's own pages (oracle).",
        "note": "Trusted: Coq kernel + vm_compute; the hand-written model (tied to the code only by the correspondence check); the Go harness and its reference filter/sort; ASCII strings; int64/string sort values; custom filter functions and externally managed connections excluded.",
        "technique": "Coq proof over executable model + differential correspondence check (vm_compute) + property oracle on implementation outputs",
    },
}
