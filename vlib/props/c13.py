SPEC = {
    "id": "C13",
    "n": {"quick": 600, "thorough": 20000},
    "components": {"1": "UnbuildStruct driver values", "2": "BuildStruct result", "3": "parseBinlogRow result",
                   "4": "MakeTester / Test verdicts", "5": "FilterToProto (after Marshal/Unmarshal)",
                   "6": "FilterFromProto result", "7": "harness re-encoding = model's repr (what MySQL hands back)",
                   "8": "extractRow / tester on the row's own values",
                   "9": "time text: the model's own time.Format / mysql.parseDateTime (Sql/TimeText.v) vs Go on every time and every string of the shard",
                   "12": "the codec's kind / tag / protobuf dispatch tables extracted from internal/fields/sql.go and livesql/marshal.go (go/ast) vs what the model does (Sql/FieldTables.v field_tables_check)"},
    "corr_name": "Sql.Codec (valuer, scanner, unbuild, build, parse_binlog_row, tester, filter_to_proto, filter_from_proto) vs internal/fields/sql.go, sqlgen/reflect.go, livesql/marshal.go, livesql/binlog.go",
    "coq_modules": ["Sql.TimeText", "Sql.TimeTextProofs", "Sql.Codec", "Sql.CodecProofs", "Sql.CodecTime", "Gen.FieldKinds", "Sql.FieldTables"],
    "trusted_base": [
        "Coq 8.16.1 kernel and vm_compute (no native_compute); Print Assumptions: closed under the global context",
        "hand-written model coq/theories/Sql/Codec.v of internal/fields/sql.go (Valuer.Value, Scanner.Scan), sqlgen/reflect.go (unbuildStruct, BuildStruct, tester, extractRow, driverValuesEqual), livesql/binlog.go (parseBinlogRow), livesql/marshal.go, and of the parts of database/sql (convertAssign, asString, driver.Bool) and go-sql-driver/mysql (NullTime.Scan) they call; tied to the code by the correspondence check only",
        "floats and times are opaque names; strconv.FormatFloat/ParseFloat, float32 rounding, time formatting and mysql.parseDateTime enter the model as an environment whose laws (parse after format is the identity) are hypotheses of the theorems and whose values in the correspondence run are computed by Go",
        "the harness's stand-in for MySQL (harness/cmd/c13 repr: which Go value the text protocol, the prepared-statement protocol and the go-mysql binlog decoder hand back for a stored driver value and column type); gogo/protobuf marshalling of thunderpb.SQLFilter is exercised, not modelled",
        "Go harness harness/cmd/c13 (generator, oracle, Coq term printer) and the add-only verif-tagged wrappers sqlgen/verif_codec.go, livesql/verif_codec.go",
    ],
    "assumptions": [
        "excluded value classes, each a decidable predicate of the theorems (fval_ok / col_matches / repr = None) and counted in the histogram: NaN, -0 and infinities; uint64 above 2^63-1 (Valuer wraps it to a negative int64, which an unsigned column cannot hold); time.Time values that are not UTC, carry a monotonic reading, or have a precision the column / the binlog decoder drops; a float32 that MySQL's 6-digit text rendering of a FLOAT column does not determine (exact6); MEDIUMINT UNSIGNED through the binlog decoder (refuted: 8388608 comes back as 4286578688); a non-nil *[]byte pointing at a nil slice and a non-nil invalid *sql.NullString (refuted); binary-tagged Marshal types in VARBINARY columns on the binlog path (the decoder returns a string, which the binary branch of Scanner.Scan rejects: reading only)",
        "filters in the protobuf theorem are typed: each value has the column's Go base type (pointer or not), and is not a pointer to a zero value on an implicitnull column (open known finding; the json analogue, a pointer to a nil slice / map on a json column, is the second open finding)",
        "custom column types are those of the harness catalogue: Valuer/Scanner struct, [16]byte uuid (testfixtures.CustomType), sql.NullString, Marshal/Unmarshal (binary tag), TextMarshaler (string tag); json-tagged columns in the model are integers and booleans, other json payloads (string, float, slice, map, struct, pointer) are run through the oracle only (table jsonwide)",
    ],
    "manifest": {
        "text": "Coq theorems (Props/C13.v) over an executable model of Valuer/Scanner, UnbuildStruct/BuildStruct/parseBinlogRow, the row tester and the filter protobuf codec: decode(repr(encode x)) = x for every column kind, pointer/NULL/tag combination and every representation MySQL or the binlog decoder hands back; tester reflexivity; protobuf round trip = error or same verdict on every row. The model is run against the Go code on generated struct values, re-encodings and filters on every run (correspondence), and the three statements are evaluated directly on the implementation's outputs (oracle).",
        "note": "Trusted: Coq kernel + vm_compute; the hand-written model (tied to the code only by the correspondence check); the harness's stand-in for what MySQL / go-mysql hand back; strconv/time/protobuf behaviour enters as an environment with round-trip laws as hypotheses. Excluded classes: NaN/-0/inf, uint64 > 2^63-1, non-UTC or sub-precision times, FLOAT via text protocol. One open known finding (pointer to zero on an implicitnull column through the protobuf).",
        "technique": "Coq proof over executable model + differential correspondence check (vm_compute) + property oracle on implementation outputs",
    },
    "harness_timeout": {"quick": 300, "thorough": 3000},
    "search": {"n": 6000, "timeout": 300},
}


