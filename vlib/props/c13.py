SPEC = {
    "id": "C13",
    "n": {"quick": 600, "thorough": 20000},
    "components": {"1": "UnbuildStruct driver values", "2": "BuildStruct result", "3": "parseBinlogRow result",
                   "4": "MakeTester / Test verdicts", "5": "FilterToProto (after Marshal/Unmarshal)",
                   "6": "FilterFromProto result", "7": "harness re-encoding = model's repr (what MySQL hands back)",
                   "8": "extractRow / tester on the row's own values"},
    "corr_name": "Sql.Codec (valuer, scanner, unbuild, build, parse_binlog_row, tester, filter_to_proto, filter_from_proto) vs internal/fields, sqlgen/reflect.go, livesql/marshal.go, livesql/binlog.go",
    "coq_modules": ["Sql.Codec"],
    "trusted_base": [],
    "assumptions": [],
    "manifest": {"text": "", "note": "", "technique": ""},
    "harness_timeout": {"quick": 300, "thorough": 3000},
}
