_TRUSTED = [
    "Coq 8.16.1 kernel and vm_compute (no native_compute); Print Assumptions: closed under the global context",
    "hand-written model coq/theories/Server/Model.v of graphql/server.go (conn, handleSubscribe, handleMutate, closeSubscription(s), handle, ServeJSONSocket) over the interface of reactive.Rerunner, tied to the code by the trace-conformance check only",
    "Go harness harness/pkg/fakesock (fake JSONSocket, schema over harness-controlled reactive resources, driver, event recorder, label builder, oracles), verifhook call sites in graphql/server.go (add-only, inside conn.mu sections), encoding/json, node running client/src/merge.ts with type annotations stripped textually",
    "one run of a rerunner's computation is one atomic model step (Stop() waits for an in-flight run); when a rerunner re-runs is over-approximated (a live rerunner may run at any time) - the reactive package itself is C04's subject",
]

SPEC = {
    "id": "C17",
    "harness": "c17",
    "n": {"quick": 800, "thorough": 20000},
    "coq_modules": ["Server.Model", "Server.Spec", "Server.Witness", "Server.Release", "Server.Queries", "Server.Iface", "Server.Check"],
    "search": {"n": 2000, "timeout": 600},
    "components": {"1": "an observed event is not an enabled step of the model", "2": "`Previous` or `initial` (as told to StartExecution / the middlewares) of a computation differs from the model's",
                   "3": "socket envelopes differ", "4": "SubscriptionLogger calls differ", "5": "merge.ts client state differs from the model's fold",
                   "6": "subscriptions left in the map at the end differ", "7": "resources released (Cleanup calls) differ", "8": "a computation executed a query (text, variables) other than its subscription's",
                   "9": "what reactive/rerunner.go reported for a rerunner (publish / failed / retry / stop.mark with their flags) differs from what the history implies (Server/Iface.v)"},
    "corr_name": "Server.Model (step / replay) vs graphql/server.go under a fake JSONSocket: every recorded history must be accepted by the model, which must predict envelopes, logger calls and client states",
    "trusted_base": _TRUSTED,
    "assumptions": [
        "from the first failing socket write on all writes fail; ReadJSON failing (close, undecodable frame, socket closed after a failed write) ends the connection; after a failed write the model still lets queued messages through (the code handles at most the one ReadJSON had already returned)",
        "every registration creates a fresh reactive resource (resources shared between computations are the reactive package's reference counting, C04/C08)",
        "a wait of the harness that times out (20 s) is reported only if it times out again when the case is replayed once on a fresh connection; both events are counted in the histogram (harness:wait-timeout-*), the first one with the goroutines that were inside thunder",
        "the repairs C17-fix-1..4 are applied (the model is the code as repaired; the original handleMutate / closeSubscriptions / asynchronous close are kept as configuration flags with refutation witnesses)",
    ],
    "harness_timeout": {"quick": 600, "thorough": 3000},
    "manifest": {
        "text": "Coq theorems (Props/C17.v) over a labelled transition system of the websocket connection quantify over all histories of messages, run completions, asynchronous close tasks and socket close: no rerunner leaves the subscription map before it is stopped, a stopped rerunner never runs or writes again, Subscribe/Unsubscribe alternate per id and are balanced after close, duplicate-id and limit rules hold in every reachable state; a socket write may fail at any point of a history (the envelope is lost, the socket closed) without affecting any of these; with the release bookkeeping of the rerunner interface layered on top (Server/Release.v), every resource registered by a computation has exactly one Cleanup call by the time its rerunner has ended, all of them once the connection closed. The model is tied to graphql/server.go on every run by trace conformance (recorded histories under a fake socket must be accepted and their envelopes / logger calls predicted) and the property is evaluated directly on the implementation (logger pairing, no computation or write after end / after close with invalidations provoked after the end, exactly one Cleanup call for every resource registered by an ended subscription, fake socket refusing the k-th write).",
        "note": "Trusted: Coq kernel + vm_compute; the hand-written model (tied to the code only by the conformance check); the Go harness, hook call sites and node. One computation of a rerunner is one atomic step; re-run triggering is over-approximated (C04's subject). Goroutine leaks inside reactive.Rerunner and data races are measured, not proved.",
        "technique": "Coq proof (invariants by induction over histories) over an executable LTS + trace-conformance check (vm_compute) + property oracle on implementation runs with scripted schedules",
    },
}
