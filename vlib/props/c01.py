SPEC = {
    "id": "C01",
    "n": {"quick": 250, "thorough": 5000},
    "search": {"n": 1200, "timeout": 900},
    "components": {"1": "work-unit machine (Gql/Exec.v) under the scripted schedule vs Execute",
                   "2": "eval_ref (Gql/Ref.v) vs Execute",
                   "3": "model cannot parse the query / out of fuel / query or data does not fit the schema",
                   "4": "model: eval_ref (parse q) differs from eval_ref (parse (prune q))",
                   "6": "the selection-set identifiers the harness assigned do not satisfy ids_wf"},
    "corr_name": "Gql (flatten, eval_ref, work-unit machine with batching and splitting) vs graphql.Parse / PrepareQuery / Execute under every scheduler and execution mode",
    "coq_modules": ["Gql.Check"],
    "trusted_base": [
        "Coq 8.16.1 kernel and vm_compute (no native_compute); Print Assumptions: closed under the global context",
        "hand-written model coq/theories/Gql/{Types,Value,Query,Ref,Exec}.v of graphql/batch_executor.go, writer.go, parser.go (Flatten), schemabuilder batch/function resolvers (results mapped back by index), tied to the code by the correspondence check only",
        "Go harness harness/cmd/c01 + harness/pkg/gqlgen (schemas built through schemabuilder with reflect.StructOf / MakeFunc, data graph, query generator and printer, reference evaluator, scripted / FIFO / LIFO schedulers, Coq term printers), encoding/json",
        "work units are atomic in the model: Go-memory-model races between two concurrently running units are outside it (they write disjoint output nodes); the immediate-goroutine scheduler is exercised, not modelled",
    ],
    "assumptions": [
        "theorem hypothesis: the reference evaluation eval_ref raises nothing (the query fits the schema, the data has a result for every selected (field, argument), no resolver fails, the fuel suffices), no object of the reference result carries a key twice (excludes an alias __key on a keyed object), render fuel >= nesting depth of the result",
        "resolvers are pure functions of (object, arguments); numbers are integers",
        "schedules are sequences of choices among pending units (one unit at a time)",
    ],
    "manifest": {
        "text": "Coq theorems (Props/C01.v, proved: execution_equals_reference, execution_terminates, schedule_independence, split_to_n_pairs) over an executable model of the work-unit executor state that, for every schema, valid query, data graph, execution-mode assignment and schedule, a completed run returns exactly the JSON of the sequential reference evaluator eval_ref; on every run generated schemas/queries are executed by the real executor under three mode assignments x four schedulers and compared with an independent Go reference evaluator (oracle) and with the model (correspondence).",
        "note": "Trusted: Coq kernel + vm_compute; the hand-written Gql model (tied to the code only by the correspondence check); the Go harness. Units are atomic in the model; data races inside concurrently running units are outside it.",
        "technique": "Coq proof over executable model (refinement to a sequential evaluator) + differential correspondence check (vm_compute) + property oracle on implementation outputs",
    },
    "harness_timeout": {"quick": 600, "thorough": 3000},
}
