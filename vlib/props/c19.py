SPEC = {
    "id": "C19",
    "n": {"quick": 400, "thorough": 12000},
    "components": {"1": "work-unit machine (Gql/Exec.v) under the scripted schedule vs Execute",
                   "2": "eval_ref (Gql/Ref.v) vs Execute",
                   "3": "model cannot parse the query / out of fuel / query or data does not fit the schema",
                   "4": "model: eval_ref (parse q) differs from eval_ref (parse (prune q))",
                   "6": "the selection-set identifiers the harness assigned do not satisfy ids_wf (hypothesis of the theorem)"},
    "corr_name": "Gql (parse, should_include, flatten, eval_ref, work-unit machine) vs graphql.Parse / PrepareQuery / Execute",
    "coq_modules": ["Gql.Check"],
    "trusted_base": [
        "Coq 8.16.1 kernel and vm_compute (no native_compute); Print Assumptions: closed under the global context",
        "hand-written model coq/theories/Gql/{Types,Value,Query,Ref,Exec}.v of graphql/parser.go (parseSelectionSet, Flatten), directive.go, batch_executor.go, writer.go, tied to the code by the correspondence check only",
        "graphql-go's lexer/parser (text -> AST) is exercised, not modelled: the model starts from the structured query the harness printed",
        "Go harness harness/cmd/c19 + harness/pkg/gqlgen (generators, schema built through schemabuilder by reflection, query printer, textual pruning, scripted scheduler, Coq term printers), encoding/json",
    ],
    "assumptions": [
        "directives_wellformed: every @skip/@include condition is a boolean (literal or bound variable) and no directive is repeated on a node",
        "resolvers are pure functions of (object, arguments); numbers are integers",
        "federation gateway clause of the property is not covered here (see C06)",
    ],
    "manifest": {
        "text": "Coq theorems (Props/C19.v) over an executable model of thunder's parser output, ShouldIncludeNode, Flatten and the executor state that a query and its textually pruned form have the same result for every data graph and schedule; on every run generated annotated queries are executed by the real Parse/PrepareQuery/Execute next to their pruned forms (oracle) and compared with the model (correspondence).",
        "note": "Trusted: Coq kernel + vm_compute; the hand-written Gql model (tied to the code only by the correspondence check); the Go harness. graphql-go's text parser is exercised, not modelled. The gateway clause is left to C06.",
        "technique": "Coq proof over executable model + differential correspondence check (vm_compute) + property oracle on implementation outputs",
    },
    "harness_timeout": {"quick": 600, "thorough": 3000},
}
