SPEC = {
    "id": "C12",
    "n": {"quick": 1500, "thorough": 30000},
    "components": {"1": "outcome of the call (proceeds / rejected by a limit check / bad input)",
                   "2": "statements, arguments and transaction brackets received by the server",
                   "3": "set of batched callers that reached the batch function", "4": "generated case violates the well-formedness hypotheses of the theorems (harness defect)"},
    "corr_name": "Sql.Model (run, run_batched, run_batched_multi, run_seq) vs sqlgen.DB methods on a fake database/sql driver",
    "coq_modules": ["Sql.Model", "Sql.ModelCheck"],
    "harness_timeout": {"quick": 600, "thorough": 3000},
    "search": {"n": 6000, "timeout": 600},
    "trusted_base": [
        "Coq 8.16.1 kernel and vm_compute (no native_compute); Print Assumptions: closed under the global context",
        "hand-written model coq/theories/Sql/Model.v of sqlgen/db.go, reflect.go, mysql.go, batch.go, tied to the code by the correspondence check only",
        "Go harness harness/cmd/c12, harness/pkg/sqlh, the fake MySQL server harness/pkg/fakesql (statement parser, three-valued WHERE evaluation), database/sql argument conversion",
        "columns without binary/string/json tags and values that do not implement driver.Valuer (C13 covers those); no time.Time values; floats are multiples of 1/4",
    ],
    "assumptions": [
        "free-text SelectOptions.Where is developer-written and cannot unbalance the parentheses IncludeFilter puts around it; the confinement claim is about the filter part: whatever truth value the free text takes, a selected row satisfies the filter (c12_free_text_cannot_widen_the_filter)",
        "the model follows C12-fix-1: limit values of uncomparable types ([]byte) are compared with reflect.DeepEqual; on a tree without the fix such calls panic, which the oracle reports as c12-limit-check-panics-on-uncomparable-value",
        "an UPDATE / UPSERT 'carries' the limit values (in SET or in the inserted tuple), which is what the property text asks; when the limit column is not part of the primary key the WHERE clause of UPDATE does not restrict it (separate theorem for primary-key limit columns; committed changes to rows that lay outside the limit are counted in the histogram, not failed)",
        "a dynamic limit without ShouldContinueOnError is not enforced by sqlgen (db.go requires both callbacks); the property speaks of a callback that rejects, so such handles are modelled as unrestricted and counted in the histogram",
        "batches that mix handles: the claim is per value tuple (each is the filter of a caller that passed the checks of its own handle), not per statement",
    ],
    "manifest": {
        "text": "Coq theorems (Props/C12.v) over an executable model of every sqlgen.DB method, the limit checks and the batched fetch: for all limits, tables, contexts and operations every statement issued is confined to the limit and a non-complying call is rejected having issued nothing; the model is run against sqlgen on a fake database/sql driver on generated cases on every run (correspondence) and the confinement of every recorded statement is checked directly by parsing it (oracle).",
        "note": "Trusted: Coq kernel + vm_compute; the hand-written model (tied to the code only by the correspondence check); the Go harness and the fake SQL server. Columns with binary/string/json tags, custom driver.Valuer types and time values are outside the model; free-text SelectOptions.Where is opaque (the claim is about the filter part). Covers single methods incl. SelectOptions and Count, bulk methods, concurrent batched callers on one or several handles sharing the batch function, and method sequences in one transaction.",
        "technique": "Coq proof over executable model + differential correspondence check (vm_compute) + property oracle on the statements received by a fake SQL driver",
    },
}
