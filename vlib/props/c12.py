SPEC = {
    "id": "C12",
    "n": {"quick": 1500, "thorough": 30000},
    "components": {"1": "outcome of the call (proceeds / rejected by a limit check / bad input)",
                   "2": "statements, arguments and transaction brackets received by the server",
                   "3": "set of batched callers that reached the batch function", "4": "generated case violates the well-formedness hypotheses of the theorems (harness defect)",
                   "6": "method outside the model: an exported method of sqlgen.DB reaches a database/sql call without a case in Sql/Methods.v, or with another kind of access",
                   "5": "handle produced by a chain of WithShardLimit / WithDynamicLimit / WithPanicOnNoIndex calls (limits kept, calls refused)"},
    "corr_name": "Sql.Methods (run_call: every exported method of sqlgen.DB by name, derive: chains of With* calls) and Sql.Model (run, run_batched, run_batched_multi, run_seq) vs sqlgen.DB methods on a fake database/sql driver",
    "coq_modules": ["Sql.Model", "Sql.ModelExact", "Sql.Methods", "Sql.ModelCheck"],
    "harness_timeout": {"quick": 600, "thorough": 3000},
    "search": {"n": 6000, "timeout": 600},
    "trusted_base": [
        "Coq 8.16.1 kernel and vm_compute (no native_compute); Print Assumptions: closed under the global context",
        "hand-written model coq/theories/Sql/Model.v, Methods.v of sqlgen/db.go, reflect.go, mysql.go, batch.go, tied to the code by the correspondence check and by the generated table of DB's exported methods",
        "harness/pkg/sqlh/methods.go (go/ast extractor of the exported methods of sqlgen.DB and the kind of database/sql call each reaches, by name; run on the tree under test on every check, the table goes to the evaluator inside the run's own directory; tools/gensqlmethods writes the committed snapshot coq/theories/Gen/DbMethods.v)",
        "Go harness harness/cmd/c12, harness/pkg/sqlh, the fake MySQL server harness/pkg/fakesql (statement parser, three-valued WHERE evaluation), database/sql argument conversion",
        "columns without binary/string/json tags and values that do not implement driver.Valuer (C13 covers those); no time.Time values; floats are multiples of 1/4",
    ],
    "assumptions": [
        "free-text SelectOptions.Where is developer-written and cannot unbalance the parentheses IncludeFilter puts around it; the confinement claim is about the filter part: whatever truth value the free text takes, a selected row satisfies the filter (c12_free_text_cannot_widen_the_filter)",
        "the model follows C12-fix-1: limit values of uncomparable types ([]byte) are compared with reflect.DeepEqual; on a tree without the fix such calls panic, which the oracle reports as c12-limit-check-panics-on-uncomparable-value",
        "an UPDATE / UPSERT 'carries' the limit values (in SET or in the inserted tuple), which is what the property text asks; when the limit column is not part of the primary key the WHERE clause of UPDATE does not restrict it (separate theorem for primary-key limit columns; committed changes to rows that lay outside the limit are counted in the histogram, not failed)",
        "a dynamic limit without ShouldContinueOnError is not enforced by sqlgen (db.go requires both callbacks); the property speaks of a callback that rejects, so such handles are modelled as unrestricted and counted in the histogram",
        "the extra oracle 'rows handed to a batched caller of a limited handle lie in its shard' is applied only to callers whose filter values have exactly the Go type of the column's field: for the others the matcher's Go equality is not SQL equality (open finding c10-batch-matcher-go-type, e.g. a pointer to \"\" on an implicitnull column also matches NULL rows fetched for an unrestricted caller of the same batch); skipped callers are counted in the histogram",
        "filter values of named types implementing driver.Valuer (harness types Shifted, Loud: Value() differs from the underlying value) are modelled as GCustom: the statement carries what Value() returns and the limit check compares Go values, so they never equal an int64 / string limit value",
        "batches that mix handles: the claim is per value tuple (each is the filter of a caller that passed the checks of its own handle), not per statement",
    ],
    "manifest": {
        "text": "Coq theorems (Props/C12.v) over an executable model of every exported method of sqlgen.DB -- by name: the list of methods and the kind of database call each can reach is extracted from sqlgen/*.go on every run (go/ast) and a theorem checks that the model has a case with the same kind of access for each --, the limit checks, the chains of WithShardLimit / WithDynamicLimit / WithPanicOnNoIndex calls that derive handles, and the batched fetch: for all limits, tables, contexts and calls every statement issued (EXPLAIN included) is confined to every limit of the handle and of the handles it derives from, a non-complying call is rejected having issued nothing, and (composed with C10) the rows handed to a batched caller lie in its shard; the model is run against sqlgen on a fake database/sql driver on generated cases on every run (correspondence) and the confinement of every recorded statement is checked directly by parsing it (oracle).",
        "note": "Trusted: Coq kernel + vm_compute; the hand-written model (tied to the code only by the correspondence check); the Go harness and the fake SQL server. Columns with binary/string/json tags, custom driver.Valuer types and time values are outside the model; free-text SelectOptions.Where is opaque (the claim is about the filter part). Covers all 18 exported methods of DB (row-level methods incl. SelectOptions, Count and BaseQuery called directly; WithTx / WithExistingTx / HasTx / QueryExecer; the With* methods as chains, refused when the limit is already set), bulk methods, concurrent batched callers on one or several handles sharing the batch function, and method sequences in one transaction.",
        "technique": "Coq proof over executable model + differential correspondence check (vm_compute) + property oracle on the statements received by a fake SQL driver",
    },
}


def outside_model():
    """Names of exported methods of sqlgen.DB the model does not cover (they reach the database without a case in
    Sql/Methods.v, or with another kind of access), read from the run's own table (build dir), for the message
    of a failed run."""
    import os, re
    from vlib import common as C
    runv = os.path.join(C.BUILD, "C12", "run-quick", "cases_methods.v")
    for d in ("run-thorough", "run-quick"):
        p = os.path.join(C.BUILD, "C12", d, "cases_methods.v")
        if os.path.exists(p) and (not os.path.exists(runv) or os.path.getmtime(p) >= os.path.getmtime(runv)):
            runv = p
    if not os.path.exists(runv):
        return None
    m = re.search(r"Definition cases[^\n]*:= \[(.*?)\n\]\.", open(runv).read(), flags=re.S)
    if not m:
        return None
    src = os.path.join(C.BUILD, "C12", "outside.v")
    open(src, "w").write("From Coq Require Import List String.\nFrom Thunder Require Import Sql.Methods.\nImport ListNotations.\nOpen Scope string_scope.\n"
                         "Definition Outside := Eval vm_compute in (methods_outside [" + m.group(1) + "\n]).\nPrint Outside.\n")
    try:
        rc, out = C.sh(["coqc"] + C.COQ_FLAGS + ["-o", src + "o", src], timeout=300)
    except Exception:
        return None
    if rc != 0:
        return None
    m = re.search(r"Outside\s*=\s*(.*?)\s*:", out, flags=re.S)
    return " ".join(m.group(1).split()) if m else None


def run(tier, seed, replay=None):
    from vlib import runner
    rc = runner.run(SPEC, tier, seed, replay)
    if rc != 0:
        o = outside_model()
        if o and o not in ("[]", "nil"):
            print("METHOD-OUTSIDE-MODEL: exported methods of sqlgen.DB that reach the database without a case in Sql/Methods.v "
                  "(or with another kind of database access than the model's): " + o)
    return rc
