SPEC = {
    "id": "C12",
    "n": {"quick": 1500, "thorough": 30000},
    "components": {"1": "outcome of the call (proceeds / rejected by a limit check / bad input)",
                   "2": "statements, arguments and transaction brackets received by the server",
                   "3": "set of batched callers that reached the batch function", "4": "generated case violates the well-formedness hypotheses of the theorems (harness defect)"},
    "corr_name": "Sql.Model (run, run_batched) vs sqlgen.DB methods on a fake database/sql driver",
    "coq_modules": ["Sql.Model", "Sql.ModelCheck"],
    "harness_timeout": {"quick": 600, "thorough": 3000},
    "search": {"n": 6000, "timeout": 600},
    "trusted_base": [
        "Coq 8.16.1 kernel and vm_compute (no native_compute); Print Assumptions: closed under the global context",
        "hand-written model coq/theories/Sql/Model.v of sqlgen/db.go, reflect.go, mysql.go, batch.go, tied to the code by the correspondence check only",
        "Go harness harness/cmd/c12, harness/pkg/sqlh, the fake MySQL server harness/pkg/fakesql (statement parser, three-valued WHERE evaluation), database/sql argument conversion",
        "columns without binary/string/json tags and values that do not implement driver.Valuer (C13 covers those); no time.Time values; floats are multiples of 1/4",
    ],
    "assumptions": [
        "free-text SelectOptions.Where is developer-written and cannot unbalance the parentheses IncludeFilter puts around it; the confinement predicate looks at the filter part only",
        "Go's != on two []byte values panics before any statement is issued: counted as a rejection",
        "an UPDATE / UPSERT 'carries' the limit values (in SET or in the inserted tuple); when the limit column is not part of the primary key the WHERE clause of UPDATE does not restrict it (stated as a separate theorem under the hypothesis that the limit columns are primary-key columns)",
    ],
    "manifest": {
        "text": "Coq theorems (Props/C12.v) over an executable model of every sqlgen.DB method, the limit checks and the batched fetch: for all limits, tables, contexts and operations every statement issued is confined to the limit and a non-complying call is rejected having issued nothing; the model is run against sqlgen on a fake database/sql driver on generated cases on every run (correspondence) and the confinement of every recorded statement is checked directly by parsing it (oracle).",
        "note": "Trusted: Coq kernel + vm_compute; the hand-written model (tied to the code only by the correspondence check); the Go harness and the fake SQL server. Columns with binary/string/json tags, custom driver.Valuer types and time values are outside the model; free-text SelectOptions.Where is opaque.",
        "technique": "Coq proof over executable model + differential correspondence check (vm_compute) + property oracle on the statements received by a fake SQL driver",
    },
}
