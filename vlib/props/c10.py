SPEC = {
    "id": "C10",
    "n": {"quick": 600, "thorough": 20000},
    "components": {"1": "text / arguments of the combined (batched) statements",
                   "2": "rows handed to each batched caller (matcher)",
                   "3": "text / arguments of the stand-alone statements",
                   "4": "rows of the stand-alone queries (fake server's WHERE evaluation vs the model's SQL semantics)",
                   "5": "generated case outside the theorems' domain (harness defect)"},
    "corr_name": "Sql.Model (batch_stmt, make_batch_query, matcher_matches, eval_simple) vs sqlgen's batched and stand-alone Query on a fake database/sql driver",
    "coq_modules": ["Sql.Model", "Sql.ModelCheck"],
    "harness_timeout": {"quick": 600, "thorough": 3000},
    "trusted_base": [
        "Coq 8.16.1 kernel and vm_compute (no native_compute); Print Assumptions: closed under the global context",
        "hand-written model coq/theories/Sql/Model.v of sqlgen/batch.go, matcher.go, db.go (batch function), reflect.go (makeWhere, coerce), internal/reflect.go (MakeHashable), tied to the code by the correspondence check only",
        "SQL semantics of WHERE (three-valued logic; numbers numerically, text bytewise = binary collation) as the specification of MySQL; the fake server harness/pkg/fakesql implements the same rules independently and is compared with the model on every stand-alone query",
        "Go harness harness/cmd/c10, harness/pkg/sqlh; database/sql argument conversion and row scanning",
        "columns without binary/string/json tags, no custom driver.Valuer / Scanner types, no time.Time, floats multiples of 1/4, unsigned values below 2^63, []byte columns NOT NULL",
    ],
    "assumptions": [
        "table contents are representable by the struct: NULL only in pointer or implicitnull columns, no zero value stored in an implicitnull column, integers within the field's range",
        "filter values are of the column's SQL class (an int-like Go value for an integer column, ...); a string filter on an integer column is outside the domain (MySQL would convert it)",
        "string comparison in MySQL is taken to be bytewise (binary collation); with a case-insensitive collation the matcher (Go ==) and MySQL disagree on 'Bob' = 'bob'",
    ],
    "manifest": {
        "text": "Coq theorems (Props/C10.v) over an executable model of makeBatchQuery, the batch function's matcher and SQL's three-valued WHERE semantics: for all tables, all sets of concurrent filters (any column sets, equal and empty filters, NULLs, pointers, named types) and all representable contents, every batched caller receives exactly the rows of its own query, for every grouping of callers into batches; the full statement over all Go representations is refuted by a machine-checked witness (recorded known finding). The model is run against sqlgen on a fake database/sql driver on every run (correspondence) and batched rows are compared with unbatched rows per caller (oracle).",
        "note": "Trusted: Coq kernel + vm_compute; the hand-written model and its SQL semantics (binary collation); the Go harness and the fake SQL server. Known finding c10-batch-matcher-go-type (open): filter values whose Go type is not the struct field's type get no rows when batched; pinned by the repository's MySQL-backed TestBatchFilter, therefore not repaired. C10-fix-1 repairs NULL filters in batches.",
        "technique": "Coq proof over executable model + differential correspondence check (vm_compute) + property oracle (batched vs unbatched rows per caller on a fake SQL driver)",
    },
}
