SPEC = {
    "id": "C04",
    "n": {"quick": 300, "thorough": 15000},
    "coq_modules": ["Reactive.Replay"],
    "components": {"1": "no model task stands at the recorded critical section", "2": "recorded critical section not enabled in the model",
                   "3": "recorded observable (snapshot of out / shouldInvalidate / shouldRelease / flags / output) differs from the model's",
                   "4": "environment event not enabled or its observable differs", "5": "model still has work at the end of a log taken at quiescence",
                   "6": "final published outputs or slot versions differ"},
    "corr_name": "Reactive.Rerunner LTS replaying the event log of reactive/graph.go + rerunner.go (one event per critical section)",
    "harness_timeout": {"quick": 600, "thorough": 3000},
    "trusted_base": [
        "Coq 8.16.1 kernel and vm_compute (no native_compute); Print Assumptions: closed under the global context",
        "hand-written LTS coq/theories/Reactive/{Graph,Rerunner}.v of reactive/graph.go and reactive/rerunner.go, tied to the code by trace replay (Reactive/Replay.v) on every run",
        "Go harness harness/pkg/reactsim (generator, recorder behind verifhook, oracle, Coq printer); goroutine ids parsed from runtime.Stack; quiescence = runtime.NumGoroutine back at its baseline and no unfired InvalidateAfter timer",
        "Go runtime scheduler, sync.Mutex, context, time (modelled as: every enabled label may fire; fairness assumed, not proved)",
    ],
    "assumptions": [
        "compute functions are sequential scripts of AddDependency+read / reactive.Cache / InvalidateAfter / error returns; every read of a slot is preceded by AddDependency on the slot's resource in the same computation",
        "a key is not nested inside a Cache call of the same key (the per-key lock would deadlock: usage error)",
        "the per-key ctxMutex is not modelled (never contended by sequential scripts); timer durations are abstracted to 'may fire'",
        "labels that have no counterpart in the Go program are rejected by the model's step function: a node id that does not exist, addOut(n, n) (self-deadlock), a second handler on a node that already has one (panics in Go), an error unwinding across frames of different rerunners",
        "a slot's Resource is re-created by the harness when its Cleanup callback runs (a released Resource stays invalid for ever, by design of reactive.Resource)",
    ],
    "manifest": {
        "text": "Coq theorems (Props/C04.v) over an executable labelled transition system of the reactive graph and rerunner (one label per critical section, tasks = goroutines with continuation frames) quantify over all label lists; on every run the event log recorded inside the implementation's locks under seeded perturbation and scripted pauses is replayed through the model (every event must be an enabled step with equal observables) and the property is evaluated directly on the implementation (versions in the last output = current versions at quiescence, runs never overlap, nothing runs after Stop).",
        "note": "Trusted: Coq kernel + vm_compute; the hand-written LTS (tied to the code only by trace replay); the Go harness and hooks; Go's scheduler fairness is assumed. Eventuality is proved as safety at quiescence plus enabledness, not as temporal liveness.",
        "technique": "Coq proof by invariants over an executable LTS + trace-conformance replay (vm_compute) + property oracle on the implementation under scripted schedules",
    },
}
