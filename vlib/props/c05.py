SPEC = {
    "id": "C05",
    "n": {"quick": 700, "thorough": 20000},
    "search": {"n": 1500, "timeout": 900},
    "components": {"1": "an observed atomic section of Invoke is not an enabled step of the model",
                   "2": "an observable differs (group joined, index, created/joined, MaxSize roll-over, still published at the second mutex section, arguments seen by Many, value / error returned)",
                   "3": "which callers returned"},
    "corr_name": "Batch.Model (step / replay) vs batch.Func.Invoke (batch/batch.go) observed through the verifhook points inside and between its mutex sections",
    "harness_timeout": {"quick": 900, "thorough": 7200},
    "trusted_base": [
        "Coq 8.16.1 kernel and vm_compute (no native_compute); Print Assumptions of all 9 theorems: closed under the global context",
        "hand-written transition system coq/theories/Batch/Model.v (one label per atomic section of Invoke; one batchContext, any number of Funcs keyed by (Func, shard); timers and Many are unconstrained), tied to batch.go by the trace-conformance check only",
        "Go harness harness/cmd/c05 + harness/pkg/sched (free-running recorder: one log under a mutex, holds, seeded perturbation; cancellation fired inside the log's critical section; generator; oracle; Coq term printer); verifhook call sites of patches/C05-hooks.patch (join / maxsize points inside bctx.mu before close(maxSizeCh), so the log order of joins is the real order)",
        "Go runtime: sync.Mutex, channels, timers, context; the Go memory model (data races inside one atomic section are not modelled)",
    ],
    "assumptions": [
        "one batchContext per model instance; Funcs are numbers, pendingBatchGroups is keyed by (Func, shard) and each Func has its own MaxSize; the harness runs one or two Funcs with equal shard values",
        "a shard number of the model stands for one Go value up to Go equality (the map-key equality of funcShard), not for its printed form; the harness uses shard values of different types and structs that print alike and maps Go-distinct values to distinct numbers",
        "a wake-up by the interval or max-duration timer may happen at any time (nothing is assumed about time); Many may return any results of any length, an error, or panic",
        "only the creator's context matters to Invoke (select and ctx.Err() test); a waiter's context is only passed to TemporarilyRelease: theorem waiter_context_ignored, and the harness cancels waiters' contexts too",
        "liveness is proved as enabledness (every group's creator has at most four enabled steps left to done; then every Return is enabled), not as a temporal property of the Go scheduler; Many is assumed to return or panic",
        "the placement of the lazily linearised LCtxCancel label in the replayed trace is chosen by the harness within the window in which cancel() ran; the model checks that the resulting trace is a behaviour",
    ],
    "manifest": {
        "text": "Coq theorems (Props/C05.v) over a labelled transition system of batch.Func.Invoke hold for every MaxSize, every schedule and every reachable state: a caller that returned got element index of what Many returned for exactly its group's arguments, or the group's error; every argument sits in exactly one group at its recorded index; Many is called at most once per group, exactly once unless the creator's context was cancelled, with the final argument list; groups never exceed their Func's MaxSize and never mix shards or Funcs (two Funcs with equal shard values never share a group); a waiter's own context is ignored; every group reaches done within four creator steps and then every Return is enabled. On every run a Go harness drives 2-40 concurrent callers through the real Invoke with tiny timers, holds at hook points (join after wake-up, join after unpublish, MaxSize roll-over), cancellations and failing / panicking / wrong-length batch functions, replays every logged section and observable through the Coq model, and evaluates the property directly on what callers got and what Many saw.",
        "note": "Trusted: Coq kernel + vm_compute; the hand-written model (tied to the code by trace conformance at the granularity of the hook points); the Go harness and recorder; sync.Mutex / channel / timer semantics. Fairness and wall-clock behaviour of timers are outside the model.",
        "technique": "Coq proof (one inductive invariant over label lists + a trace counter) over an executable LTS + trace-conformance check (vm_compute replay of the recorded log) + property oracle on the implementation",
    },
}
