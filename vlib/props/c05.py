SPEC = {
    "id": "C05",
    "n": {"quick": 300, "thorough": 20000},
    "components": {"1": "an observed atomic section is not an enabled step of the model",
                   "2": "an observable differs (group, index, created/joined, MaxSize roll-over, still-published, arguments seen by Many, return value)",
                   "3": "callers that returned"},
    "corr_name": "Batch.Model (step / replay) vs batch.Func.Invoke",
    "trusted_base": [],
    "assumptions": [],
    "manifest": {"text": "", "note": "", "technique": ""},
}
