SPEC = {
    "id": "C14",
    "n": {"quick": 240, "thorough": 12000},
    "components": {"1": "introspection JSON vs advertised(walked schema)", "2": "scalar outside the scalar table", "3": "walked schema not closed",
                   "4": "PrepareQuery verdict (accepted / client error) vs prepare", "5": "model of memoised vs original PrepareQuery", "6": "model cannot convert an accepted query"},
    "corr_name": "GqlTyping.Typing.advertised / GqlTyping.Parse.prepare vs introspection.ComputeSchemaJSON / graphql.PrepareQuery on generated schemas",
    "coq_modules": ["GqlTyping.Check14"],
    "harness_timeout": {"quick": 600, "thorough": 3000},
    "search": {"n": 600, "timeout": 600},
    "trusted_base": [
        "Coq 8.16.1 kernel and vm_compute (no native_compute); Print Assumptions: closed under the global context",
        "hand-written models: GqlTyping/Parse.v prepare (graphql/executor.go PrepareQuery 109-204, tied to the code by the verdict correspondence on every generated query), GqlTyping/Typing.v advertised + scalar table (tied by the comparison with introspection.ComputeSchemaJSON), reference evaluator eval/expand (NOT compared with the executor: C01's subject; tied to the code only through the conformance oracle)",
        "Go harness harness/cmd/c14 + harness/pkg/gqlty: schema generator (reflect.StructOf / reflect.MakeFunc), walker of the built graphql.Schema, parser of the introspection JSON, conformance function derived from that JSON, child-process isolation",
        "graphql-go's parser, encoding/json, reflect as third-party",
    ],
    "assumptions": [
        "resolver results are well-typed (has_type): what Go's type system and the builder's non-null check on resolver results guarantee; resolvers do not fail",
        "argument parsing is outside the model (C18): generated queries pass valid arguments",
        "one alias names one field within a query (generator); the opposite case is the known finding alias-shared-by-different-fields",
        "list entries may be null whatever is advertised (exempted by the property); __key entries are exempt",
    ],
    "manifest": {
        "text": "Coq theorems (Props/C14.v): every result of the reference evaluator on well-typed data conforms to the advertised type (fields exactly as selected, lists, scalar JSON kind from the scalar table, enum values, null only under nullable types or as list entries); an ill-formed spot in any applicable part makes PrepareQuery fail, for every variant of the traversal including the memoised one; a query Parse returned and PrepareQuery accepted never meets a shape error in the reference evaluator on well-typed data (progress); validation never crashes. On every run 240 generated schemas (reflect.StructOf objects, every scalar shape, enums, text marshalers, unions, FieldFuncs in all signature forms) are built, introspection.ComputeSchemaJSON is compared with the model's rendering of the walked built schema, PrepareQuery's verdict with the model's on 6 well-/ill-formed queries per schema, and every response is checked by a conformance function derived from the introspection JSON alone.",
        "note": "Progress and conformance are proved about the reference evaluator, which is not compared with the executor (C01); for the implementation they are checked by the oracle (validated generated queries must execute without error and conform to the introspection JSON). Trusted: Coq kernel, the models, the harness, graphql-go, encoding/json.",
        "technique": "Coq proof over executable model + differential correspondence (introspection JSON, PrepareQuery verdicts) + conformance oracle derived from the introspection JSON on generated schemas",
    },
}
