SPEC = {
    "id": "C14",
    "n": {"quick": 240, "thorough": 12000},
    "components": {"1": "introspection JSON vs advertised(walked schema)", "2": "scalar outside the scalar table", "3": "walked schema not closed",
                   "4": "PrepareQuery verdict vs prepare", "5": "model of memoised vs original PrepareQuery", "6": "model cannot convert an accepted query"},
    "corr_name": "GqlTyping.Typing.advertised / GqlTyping.Parse.prepare vs introspection.ComputeSchemaJSON / graphql.PrepareQuery on generated schemas",
    "coq_modules": ["GqlTyping.Check14"],
    "harness_timeout": {"quick": 600, "thorough": 3000},
    "trusted_base": [],
    "assumptions": [],
    "manifest": {"text": "", "note": "", "technique": ""},
}
