SPEC = {
    "id": "C03",
    "n": {"quick": 900, "thorough": 30000},
    "search": {"n": 40000},
    "coq_modules": ["DiffMerge.Model", "DiffMerge.GModel", "DiffMerge.GInst"],
    "components": {"1": "diff.Diff delta", "2": "merge.Merge result", "3": "client/src/merge.ts result",
                   "4": "diff.Diff delta on Go-typed values, after JSON (generic model)", "5": "merge.Merge on it (generic model)",
                   "6": "client/src/merge.ts on it (generic model)", "7": "merge.Merge on an edited delta: value / error",
                   "8": "client/src/merge.ts on an edited delta",
                   "9": "the implementation's index lists are matchings as documented",
                   "10": "pass-through lists of markReplaced / mergeReplaced (read from the sources) satisfy lists_ok"},
    "corr_name": "DiffMerge.Model (diff, merge, merge_js) vs diff.Diff / merge.Merge / merge.ts",
    "trusted_base": [
        "Coq 8.16.1 kernel and vm_compute (no native_compute); Print Assumptions: closed under the global context",
        "hand-written model coq/theories/DiffMerge/Model.v of diff/diff.go, merge/merge.go, client/src/merge.ts, tied to the code by the correspondence check only",
        "Go harness harness/cmd/c03 (generator, oracle, Coq term printer), encoding/json, node running merge.ts with type annotations stripped textually",
        "numbers are integers |z| < 2^53; NaN, -0, fractional floats and []byte scalars are outside the model",
    ],
    "assumptions": [
        "inputs are well-formed: unique object keys; a __key, when present, is a non-null scalar",
        "Go's pointer-equality short cut in diffMap/diffArray is modelled as the ordinary recursive comparison (exercised with shared sub-values)",
    ],
    "manifest": {
        "text": "Coq theorems (Props/C03.v) over an executable model of Diff / Merge / merge.ts quantify over all well-formed JSON pairs; the model is run against the Go and TypeScript code on generated pairs on every run (correspondence) and the round-trip equation is evaluated on the implementation's own outputs (oracle).",
        "note": "Trusted: Coq kernel + vm_compute; the hand-written model (tied to the code only by the correspondence check); the Go harness, encoding/json and node. Numbers are integers below 2^53; __key values are non-null scalars; object keys unique.",
        "technique": "Coq proof over executable model + differential correspondence check (vm_compute) + property oracle on implementation outputs",
    },
}
