SPEC = {
    "id": "C09",
    "n": {"quick": 400, "thorough": 12000},
    "components": {"1": "MergeIntrospectionSchemas result (canonical JSON) or error",
                   "2": "ConvertVersionedSchemas FieldInfo.Services per (type, field)",
                   "3": "graphql.PrepareQuery verdict of each version's built schema on each generated query",
                   "4": "ConvertVersionedSchemas verdict (accepted / 'Invalid federation key' / 'not federated') vs fedobjs_ok and fedkeys_ok",
                   "5": "per service: the intersection of its versions (MergeIntrospectionSchemas of the service alone) or error vs service_schema_r"},
    "corr_name": "Federation.Merge (merge_all_r, service_schema_r, field_services, valid_query) vs federation.MergeIntrospectionSchemas / ConvertVersionedSchemas / graphql.PrepareQuery",
    "coq_modules": ["Federation.Merge", "Federation.MergeProofsKeys"],
    "search": {"n": 6000, "timeout": 600},
    "trusted_base": [
        "Coq 8.16.1 kernel and vm_compute (no native_compute); Print Assumptions: closed under the global context",
        "hand-written model coq/theories/Federation/Merge.v of federation/merge_schemas.go and schema.go:173-227, tied to the code by the correspondence check only",
        "Go harness harness/cmd/c09 + harness/pkg/fedgen (generators, dynamic schema builder over reflect, oracles, Coq term printer), encoding/json",
        "descriptions, deprecation flags, directives and the queryType/mutationType stubs of the merged result are not compared",
    ],
    "assumptions": [
        "theorems assume each input schema is well-formed (names of types, of a type's fields, of a field's arguments, of input fields, enum values and union members are pairwise distinct), which the introspection of a built schema always satisfies; closure additionally assumes each input closed",
        "validity of a query is the GraphQL rule (strict) in the theorems; thunder's PrepareQuery accepts a superset (undeclared argument names are ignored), which is the second, lax reading of the same definition, compared with PrepareQuery on every run and proved implied by the strict one",
        "a scalar is identified by its name: the same values are acceptable for it in every version",
    ],
    "manifest": {
        "text": "Coq theorems (Props/C09.v) over an executable model of mergeTypeRefs / mergeInputFields / mergeFields / mergeTypes / mergeSchemas / mergeSchemaSlice / processSchemaVersions: soundness of the version intersection for every query and any number of versions, the n-ary nullability lattice (for mergeTypeRefs and, at schema level, for fields, arguments and input-object fields of any number of schemas), commutativity and closure of mergeSchemas, n-ary permutation invariance of the success outcome of mergeSchemaSlice and of MergeIntrospectionSchemas under renaming / reordering of services and versions, pairwise compatibility as the exact condition under which success cannot depend on the order, full naming independence of the repaired fold (patches/C09-fix-1, modelled beside the code as it is), completeness of the service union, and refutations (with witnesses replayed on the code) of the two known findings. On every run the model is evaluated against MergeIntrospectionSchemas and ConvertVersionedSchemas on generated services x versions (raw introspection terms and schemas really built with schemabuilder), and the property is evaluated directly on the implementation: queries walked out of the merged schema must pass graphql.PrepareQuery on every version of the serving service; renaming/reordering services and versions must not change the outcome; the nullability rule and closure are read off the output.",
        "note": "Trusted: Coq kernel + vm_compute; the hand-written model (tied to the code only by the correspondence check); the Go harness. Known findings (open): a union of services keeps optional arguments, enum values and input-object fields that only one of the services serving a field knows; whether an incompatible set of three or more versions is rejected depends on how the versions are named.",
        "technique": "Coq proof over executable model + differential correspondence check (vm_compute) + property oracle on implementation outputs",
    },
}
