SPEC = {
    "id": "C15",
    "n": {"quick": 1500, "thorough": 40000},
    "components": {"1": "graphql.Parse verdict / error class", "2": "query name and kind", "3": "Flatten of the top-level selection set (aliases / error / panic)",
                   "5": "visits of detectConflicts.visitSibling", "6": "calls of PrepareQuery", "7": "model rejects a fragment bomb the code accepts"},
    "corr_name": "GqlTyping.Parse (convert, detect_cycles, detect_conflicts, flatten, prepare + visit counts) vs graphql.Parse / Flatten / PrepareQuery on graphql-go's real AST",
    "coq_modules": ["GqlTyping.Check15"],
    "harness_timeout": {"quick": 600, "thorough": 3000},
    "search": {"n": 4000, "timeout": 600},
    "trusted_base": [
        "Coq 8.16.1 kernel and vm_compute (no native_compute); Print Assumptions: closed under the global context",
        "hand-written model coq/theories/GqlTyping/Parse.v of graphql/parser.go (valueToJson, argsToJson, parseDirectives, parseSelectionSet, detectCyclesAndUnusedFragments, detectConflicts, Parse, Flatten) and of the traversal of executor.go PrepareQuery; GqlTyping/Conn.v (one run of one request on a websocket connection); GqlTyping/OneShot.v (one-shot handler + rerunner start-up) - tied to the code by the correspondence check (Parse/Flatten/visit counts) and, for Conn and OneShot, by the oracle scripts only",
        "graphql-go's lexer/parser (text -> AST) is third-party: the harness prints its real AST as a term of the mirror type; strconv.ParseFloat range errors and float formatting are attributes of the input",
        "Go harness harness/cmd/c15 + harness/pkg/gqlty (generators, child-process isolation, fake JSONSocket, httptest, in-process federation, oracle), verifhook counters parse.visit / prepare.visit (patches/C15-hooks.patch)",
        "wall-clock promptness (2 s cap) and runtime.NumGoroutine returning to baseline are measured, not proved",
    ],
    "assumptions": [
        "the mirror type gdoc is the set of ASTs graphql-go's parser returns: option only for alias, operation name, inline-fragment type condition, field sub-selection, default value (harness reports any other nil as ast-outside-mirror-type)",
        "argument parsing (field.ParseArguments) is outside the model of PrepareQuery (C18); integer arguments between 2^53 and 2^63 are outside the generator",
        "Flatten is compared on directive-free queries only (directive semantics at Flatten time belongs to C19)",
        "user computations terminate (OneShot: ComputeFinish is always enabled while computing); Go scheduler fairness",
        "panicking user code is placed in every kind of resolver (plain, Expensive, batch, batch with fallback, the paginated resolver, its sort and filter fields in plain/Expensive/batch form); middlewares and MakeCtx are outside the statement (known findings, generated only on request)",
    ],
    "manifest": {
        "text": "Coq theorems (Props/C15.v): the repaired conversion of graphql-go's AST never crashes for any AST and variable map and any Go map order (the original does: witness); detectConflicts and PrepareQuery of the original code need >= 2^n visits on a family of 3n+3 nodes (refutation of polynomial cost, by induction); the repaired detectConflicts makes at most 1 + (nodes of the query) visits for every document and the memoised PrepareQuery at most K*(1 + |selection| + |types|*|fragments|) calls; Flatten and PrepareQuery cannot crash on any query Parse returned (the original Flatten can: witness accepted by PrepareQuery); a panicking resolver changes nothing but its own request in the connection model; in the LTS of the one-shot handlers the original has a reachable dead state (cancelled before the first run), the repaired one has no reachable deadlock and a decreasing measure. On every run the model is evaluated on graphql-go's real ASTs of generated documents and compared with graphql.Parse / Flatten / hook visit counts, and the oracle (no panic or process death, visits <= 64*nodes, failing request gets exactly one sanitised error while other subscriptions keep updating, cancelled requests return within 2 s, goroutines back to baseline) runs on six input streams with every case in a child process.",
        "note": "Trusted: Coq kernel + vm_compute; the hand-written models (Conn/OneShot tied to the code by oracle scripts only); graphql-go's parser and strconv as third-party; the harness. Measured not proved: wall-clock promptness, goroutine counts. Not modelled: argument parsers (C18), directive semantics in Flatten (C19), executor internals (C01/C16). The polynomial upper bounds after the repair are proved for detectConflicts (visits <= 1 + nodes) and for the memoised PrepareQuery (calls <= K*(1 + |selection| + |types|*|fragments|)); the oracle additionally checks visits <= 64*nodes on the bomb families.",
        "technique": "Coq proof over executable model (functions + small LTS) + differential correspondence on real ASTs (vm_compute) + property oracle with process isolation, hook visit counters, scripted cancellation",
    },
}
