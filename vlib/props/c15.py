SPEC = {
    "id": "C15",
    "n": {"quick": 1500, "thorough": 60000},
    "components": {"1": "graphql.Parse verdict / error class", "2": "query name and kind", "3": "aliases after Flatten",
                   "5": "visits of detectConflicts.visitSibling", "6": "calls of PrepareQuery", "7": "model rejects a fragment bomb the code accepts"},
    "corr_name": "GqlTyping.Parse (convert, detect_cycles, detect_conflicts, flatten, prepare + visit counts) vs graphql.Parse / Flatten / PrepareQuery on graphql-go's real AST",
    "coq_modules": ["GqlTyping.Check15"],
    "harness_timeout": {"quick": 600, "thorough": 3000},
    "trusted_base": [],
    "assumptions": [],
    "manifest": {"text": "", "note": "", "technique": ""},
}
