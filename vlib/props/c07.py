SPEC = {
    "id": "C07",
    "n": {"quick": 500, "thorough": 8000},
    "components": {"1": "shouldInvalidate verdict per registered live query at each processed event",
                   "2": "whether the event was decodable (update.err)",
                   "3": "a live query read before its dependency was registered", "9": "trace cannot be replayed (unknown table / event the model says is dropped)"},
    "corr_name": "Sql.Live (parse_rows_event, poll_loop_update, should_invalidate, tracker add/remove over Sql.Codec parse_binlog_row / tester) vs livesql/binlog.go (parseBinlogRowsEvent, RunPollLoop), livesql/live.go (dbTracker, shouldInvalidate)",
    "coq_modules": ["Sql.Codec", "Sql.CodecProofs", "Sql.Live", "Sql.LiveProofs"],
    "trusted_base": [
        "Coq 8.16.1 kernel and vm_compute (no native_compute); Print Assumptions: closed under the global context",
        "hand-written models coq/theories/Sql/Live.v (livesql/live.go dbResource.shouldInvalidate, dbTracker, LiveDB.query's register-then-read order; livesql/binlog.go parseBinlogRowsEvent, RunPollLoop's handling of an undecodable event) and Sql/Codec.v (row codec), tied to the code by the correspondence checks only",
        "the transition system abstracts reactive.Rerunner/Cache to: a live query registers, reads, and may re-run once its run is complete; an invalidated resource leads to a re-run (measured by the harness at quiescence, proved for the reactive package under C04/C08, not here)",
        "MySQL and the replication protocol are replaced by harness/pkg/fakesql (SQL execution, three-valued WHERE, commit hook) and harness/pkg/livesim (how a committed row image comes back from the go-mysql row decoder); SQL semantics in the model: IS NULL for NULL filter values, = with three-valued logic, bytewise string comparison",
        "Go harness harness/cmd/c07, the add-only observation points in livesql/live.go (tracker add / remove / process, under the tracker's mutex) and the verif-tagged constructor livesql/verif_binlog.go",
    ],
    "assumptions": [
        "schema changes (ALTER TABLE: columns reordered / swapped among columns of one type / added / dropped, or the table merely reopened) give the table a new TableID announced by a TableMapEvent; the column map in force for an event is the one information_schema gives for the version it was written under (the model keys table metadata by name#TableID). The harness alters a table only while the binlog is drained: livesql documents that reading a schema newer than events still in flight is a race it does not handle",
        "binlog events are delivered in commit order; a decodable event decodes to the write's row images (theorem faithful_event_decodes_to_the_write, from the C13 round trip)",
        "filter values have the column's Go base type (pointer or not); a mistyped value (string for an integer column) is compared by MySQL after coercion but never matches in the tester: outside the theorem",
        "quiescence is judged on the model's state (all events delivered, every query's latest registration not invalidated); fairness of the Go scheduler is not modelled",
    ],
    "manifest": {
        "text": "Coq theorems (Props/C07.v): the row tester agrees with SQL WHERE for all column kinds / NULLs / pointer / tagged columns; a write that changes a query's result is matched on its before or after image; for every interleaving of Register / Read / Rerun / Commit / Deliver / DeliverUndecodable, at quiescence each live query holds the SELECT on the final database; an undecodable event invalidates every live query on its table (refuted for the code before the repair). On every run random write histories go through sqlgen and an in-memory MySQL stand-in, the real RunPollLoop is fed from an in-process event stream, live queries run in reactive rerunners; the oracle compares held rows with a direct SELECT at quiescence, and the model must predict every invalidation verdict recorded at the tracker.",
        "note": "Trusted: Coq kernel + vm_compute; hand-written models tied to the code only by the correspondence check; fakesql / livesim stand-ins for MySQL and the go-mysql decoder; the rerunner is abstracted (its own properties are C04/C08). Scheduler fairness and real replication are not modelled.",
        "technique": "Coq proof over a labelled transition system + trace conformance at the tracker's observation points (vm_compute) + property oracle at quiescence on the implementation",
    },
    "harness_timeout": {"quick": 400, "thorough": 3000},
    "search": {"n": 3000, "timeout": 400},
}
