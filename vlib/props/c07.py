SPEC = {
    "id": "C07",
    "n": {"quick": 200, "thorough": 5000},
    "components": {"1": "shouldInvalidate verdict per registered live query at each processed event",
                   "2": "whether the event was decodable (update.err)", "9": "trace cannot be replayed (unknown table / event dropped)"},
    "corr_name": "Sql.Live (parse_rows_event, poll_loop_update, should_invalidate over Sql.Codec parse_binlog_row / tester) vs livesql/binlog.go, livesql/live.go",
    "coq_modules": ["Sql.Codec", "Sql.Live"],
    "trusted_base": [],
    "assumptions": [],
    "manifest": {"text": "", "note": "", "technique": ""},
    "harness_timeout": {"quick": 400, "thorough": 3000},
}
