SPEC = {
    "id": "C16",
    "n": {"quick": 220, "thorough": 6000},
    "components": {"1": "work-unit machine (Gql/Exec.v) under the scripted schedule vs Execute (data, or an error of a needed failing field)",
                   "2": "eval_ref / needed_failures (Gql/Ref.v) vs Execute",
                   "3": "model cannot parse the query / out of fuel / query or data does not fit the schema",
                   "4": "model: eval_ref (parse q) differs from eval_ref (parse (prune q))",
                   "6": "the selection-set identifiers the harness assigned do not satisfy ids_wf",
                   "5": "envelopes on the socket vs Gql/Envelope.v subscribe_initial"},
    "corr_name": "Gql (eval_ref, needed_failures, work-unit machine with errorRecorder and nest_path, Envelope) vs Execute and the websocket connection",
    "coq_modules": ["Gql.Check", "Gql.Envelope"],
    "trusted_base": [
        "Coq 8.16.1 kernel and vm_compute (no native_compute); Print Assumptions: closed under the global context",
        "hand-written model coq/theories/Gql/{Types,Value,Query,Ref,Exec,Envelope}.v of graphql/batch_executor.go, writer.go (errorRecorder, outputNode.Fail), executor.go (nestPathError, SafeExecute*), errors.go (SanitizeError), server.go (handleSubscribe's first computation), tied to the code by the correspondence check only",
        "Go harness harness/cmd/c16 + harness/pkg/gqlgen (as C01, plus failing resolvers, fake JSONSocket, SubscriptionLogger recorder)",
        "stack text inside panic errors is cut off by canonicalisation; which of several concurrent failures is recorded first is the scheduler's (and Go map order's) choice: error identity is compared as membership in the set of needed failures",
    ],
    "assumptions": [
        "valid query and complete data as in C01; resolvers fail deterministically as a function of (object, arguments)",
        "a batch resolver that fails fails its whole work unit and is reported at the unit's first destination: for fields run as a batch the response path is compared up to list indices",
        "websocket clause: the first computation of a subscription; re-computation errors (retry path) are covered by C02/C17",
    ],
    "manifest": {
        "text": "Coq theorems (Props/C16.v) over the executor model: for every schedule a run returns an error iff some needed resolver fails, the error is the path-nested error of one of them, data and error are exclusive, and the websocket envelope carries the text only of safe errors; on every run generated queries with failing resolvers (error, SafeError, wrapped, panic; plain, expensive, batch, fallback fields) are executed under 2 mode assignments x 4 schedulers and through a fake JSONSocket, the four clauses are evaluated on the outputs (oracle) and compared with the model (correspondence).",
        "note": "Trusted: Coq kernel + vm_compute; the hand-written Gql model (tied to the code only by the correspondence check); the Go harness. Error identity is compared as membership among the needed failures; batch failures are located up to list indices.",
        "technique": "Coq proof over executable model + differential correspondence check (vm_compute) + property oracle on implementation outputs",
    },
    "harness_timeout": {"quick": 900, "thorough": 3000},
}
