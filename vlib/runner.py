"""Generic check flow: proofs (coqc of Props/Cnn.v) + correspondence (Go harness vs Coq model) +
oracle search + verdict + evidence.  Per-property settings come from vlib/props/cNN.py (SPEC)."""
import json, os, sys, time, shutil, glob
from . import common as C


def run(spec, tier, seed, replay=None):
    pid = spec["id"]
    t0 = time.time()
    outdir = os.path.join(C.BUILD, pid, "run-%s" % tier if not replay else "replay")
    shutil.rmtree(outdir, ignore_errors=True)
    os.makedirs(outdir, exist_ok=True)
    replays = os.path.join(C.VERIF, "replays")
    os.makedirs(replays, exist_ok=True)
    notes = []

    # 1. proofs
    targets = ["theories/Props/%s.vo" % pid] + ["theories/%s.vo" % m.replace(".", "/") for m in spec.get("coq_modules", [])]
    build_ok, build_log = C.coq_build(targets=targets)
    tokens = C.forbidden_tokens()
    pc = C.props_check(pid) if build_ok else {"ok": False, "obligations": 0, "discharged": 0, "theorems": [],
                                               "log": build_log[-4000:]}
    proof_ok = build_ok and not tokens and pc["ok"]
    proof_problem = None
    if not build_ok:
        proof_problem = "Coq tree does not build:\n" + build_log[-3000:]
    elif tokens:
        proof_problem = "forbidden tokens in Coq sources: " + "; ".join(tokens)
    elif not pc["ok"]:
        bad = [t["name"] for t in pc["theorems"] if not t["closed"]]
        proof_problem = "Props/%s.v: theorems not closed under the global context: %s\n%s" % (pid, bad, pc["log"][-3000:])

    chk = None
    if tier == "thorough" and proof_ok and not replay:
        ok, summ = C.coqchk(pid)
        chk = {"ok": ok, "summary": summ}
        if not ok:
            proof_ok = False
            proof_problem = "coqchk does not accept Props/%s.vo with an empty axiom list: %s" % (pid, summ[-1500:])

    # 2. harness
    n = spec["n"][tier] if not replay else 1
    run_info, harness_problem = None, None
    binp, blog = C.go_build(spec.get("harness", pid.lower()))
    if binp is None:
        harness_problem = "harness does not build against the current tree:\n" + blog[-4000:]
    else:
        cmd = [binp, "-seed", str(seed), "-n", str(n), "-out", outdir, "-repo", C.REPO, "-tier", tier,
               "-verif", C.VERIF, "-corpus", os.path.join(C.VERIF, "corpus", pid)]
        if replay:
            cmd += ["-replay", os.path.abspath(replay)]
        cmd += spec.get("extra_args", [])
        try:
            rc, out = C.sh(cmd, cwd=C.VERIF, env=C.GOENV, timeout=spec.get("harness_timeout", {}).get(tier, 3000))
        except Exception as e:  # timeout
            rc, out = 124, "harness timed out: %s" % e
        rp = os.path.join(outdir, "run.json")
        if rc != 0 or not os.path.exists(rp):
            harness_problem = "harness exited %s:\n%s" % (rc, out[-4000:])
        else:
            run_info = json.load(open(rp))

    # 3. model evaluation
    mismatches, eval_problem, evaluated = [], None, 0
    if run_info is not None and build_ok:
        files = [os.path.join(outdir, f) for f in run_info.get("cases_v", [])]
        for f, mm, log in C.coq_eval(files):
            if mm is None:
                eval_problem = "model evaluation failed on %s:\n%s" % (os.path.basename(f), log[-3000:])
            else:
                mismatches += mm
        evaluated = run_info.get("model_cases", 0)

    # 4. classify
    failures = run_info.get("failures", []) if run_info else []
    known = [k for k in C.known_findings() if k["property"] == pid and k.get("status") == "open"]
    known_sigs = {k["signature"]: k for k in known}
    unknown = [f for f in failures if f.get("signature") not in known_sigs]
    reproduced = {f.get("signature") for f in failures if f.get("signature") in known_sigs}
    # a mismatch on a case whose oracle failure is a known finding is still a mismatch: the model must agree
    # with the code as it is.

    violations = 0
    lines = []
    cases = {}
    if run_info and os.path.exists(os.path.join(outdir, "cases.jsonl")):
        for l in open(os.path.join(outdir, "cases.jsonl")):
            o = json.loads(l)
            cases[o["index"]] = o

    # 4b. failing-input search: model and implementation disagree (or a proof broke) but the oracle saw no
    # failure yet -> vary the disagreeing cases and evaluate the oracle on the variants (implementation only).
    searched = 0
    if not unknown and (mismatches or not proof_ok) and binp and spec.get("search") and not replay:
        sdir = os.path.join(outdir, "search")
        os.makedirs(sdir, exist_ok=True)
        seeds_file = os.path.join(sdir, "seeds.jsonl")
        with open(seeds_file, "w") as f:
            for i, _ in mismatches[:50]:
                if i in cases:
                    f.write(json.dumps(cases[i]) + "\n")
        cmd = [binp, "-seed", str(seed + 1), "-n", str(spec["search"]["n"]), "-out", sdir, "-repo", C.REPO,
               "-tier", tier, "-verif", C.VERIF, "-corpus", "", "-search", seeds_file] + spec.get("extra_args", [])
        try:
            rc, out = C.sh(cmd, cwd=C.VERIF, env=C.GOENV, timeout=spec["search"].get("timeout", 600))
            sr = json.load(open(os.path.join(sdir, "run.json")))
            searched = sr.get("evaluations", 0)
            found = [f for f in sr.get("failures", []) if f.get("signature") not in known_sigs]
            if found:
                unknown = found
                failures = failures + found
                notes.append("failing input found by the search around %d disagreeing cases (%d variants)" % (len(mismatches), searched))
        except Exception as e:
            notes.append("failing-input search did not complete: %s" % e)
    stamp = "%s-%s-%d" % (pid, tier, seed)
    for old in glob.glob(os.path.join(replays, stamp + "-*.json")):
        os.remove(old)
    if unknown:
        violations = len(unknown)
        f = unknown[0]
        path = os.path.join(replays, "%s-oracle-%s.json" % (stamp, f.get("index", 0)))
        C.write_json(path, {"property": pid, "kind": "oracle", "seed": seed, "tier": tier,
                            "signature": f.get("signature"), "detail": f.get("detail"), "notes": notes,
                            "case": f.get("case"), "others": [{"index": g.get("index"), "signature": g.get("signature"),
                                                                "detail": g.get("detail")} for g in unknown[1:20]]})
        lines.append("VIOLATION property=%s replay=%s" % (pid, path))
    elif mismatches or eval_problem or harness_problem or not proof_ok:
        violations = max(1, len(mismatches))
        what = []
        if not proof_ok:
            what.append({"broken": "proof", "detail": proof_problem})
        if harness_problem:
            what.append({"broken": "correspondence (harness)", "detail": harness_problem})
        if eval_problem:
            what.append({"broken": "correspondence (model evaluation)", "detail": eval_problem})
        if mismatches:
            what.append({"broken": "correspondence %s: model and implementation disagree" % spec.get("corr_name", pid),
                         "mismatches": [{"index": i, "components": c, "case": cases.get(i)} for i, c in mismatches[:10]],
                         "component_names": spec.get("components", {})})
        path = os.path.join(replays, "%s-unproved.json" % stamp)
        C.write_json(path, {"property": pid, "kind": "no-failing-input-found", "seed": seed, "tier": tier,
                            "no_longer_checks": what,
                            "searched": "oracle evaluated on %d implementation runs (corpus + generated) and %d variants of the disagreeing cases, none failed"
                                        % (run_info.get("evaluations", 0) if run_info else 0, searched),
                            "case": (cases.get(mismatches[0][0]) or {}).get("case") if mismatches else None})
        lines.append("VIOLATION property=%s replay=%s no-failing-input-found" % (pid, path))

    for k in known:
        lines.append("KNOWN-FINDING: property=%s %s [%s in this run]" %
                     (pid, k["what"], "reproduced" if k["signature"] in reproduced else "not reproduced"))

    # 5. evidence
    cov = {
        "obligations": pc["obligations"], "discharged": pc["discharged"],
        "checker_cmd": "make -C coq (coq_makefile, full .vo build) ; coqc -Q coq/theories Thunder coq/theories/Props/%s.v" % pid,
        "trusted_base": spec.get("trusted_base", []),
        "theorems": pc["theorems"],
        "evaluations": run_info.get("evaluations", 0) if run_info else 0,
        "distinct_nontrivial": run_info.get("distinct_nontrivial", 0) if run_info else 0,
        "rule": run_info.get("rule", spec.get("rule", "")) if run_info else spec.get("rule", ""),
        "samples": (run_info.get("samples", []) if run_info else [])[:5] or [{"theorems": [t["name"] for t in pc["theorems"]]}],
        "traces_validated_against_impl": evaluated,
        "model_mismatches": len(mismatches),
        "oracle_failures": len(failures), "oracle_failures_known": len(failures) - len(unknown),
        "histogram": run_info.get("histogram", {}) if run_info else {},
        "forbidden_token_hits": tokens,
    }
    if chk is not None:
        cov["coqchk"] = chk
    ev = {"property_id": pid, "tier": tier, "seed": seed, "level": "proof", "coverage": cov,
          "assumptions": spec.get("assumptions", []), "wall_s": round(time.time() - t0, 2),
          "violations": violations}
    # a replay run re-executes one stored case; it must not replace the evidence of the last full run
    C.write_json(os.path.join(outdir, "evidence.json") if replay else os.path.join(C.VERIF, "evidence", pid + ".json"), ev)
    for l in lines:
        print(l)
    print("%s tier=%s seed=%d theorems=%d/%d cases=%d nontrivial=%d model-evaluated=%d mismatches=%d "
          "oracle-failures=%d (known %d) wall=%.1fs" %
          (pid, tier, seed, pc["discharged"], pc["obligations"], cov["evaluations"], cov["distinct_nontrivial"],
           evaluated, len(mismatches), len(failures), len(failures) - len(unknown), time.time() - t0))
    return 1 if violations else 0
