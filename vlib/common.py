"""Shared machinery for /verif/check: Coq build, property theorems, Go harness build/run,
model evaluation (coqc + vm_compute), known findings, evidence, verdict."""
import fcntl, json, os, re, shutil, subprocess, sys, time, glob, hashlib
from concurrent.futures import ThreadPoolExecutor

VERIF = os.path.dirname(os.path.dirname(os.path.abspath(__file__)))
REPO = os.environ.get("VERIF_REPO", "/repo")
COQ = os.path.join(VERIF, "coq")
BUILD = os.environ.get("VERIF_BUILD", os.path.join(VERIF, "build"))
HARNESS = os.path.join(VERIF, "harness")
GOENV = dict(os.environ, GOFLAGS="-mod=mod", GOPROXY="off", GOSUMDB="off", GOTOOLCHAIN="local",
             CGO_ENABLED="0")
COQ_FLAGS = ["-Q", os.path.join(COQ, "theories"), "Thunder"]

FORBIDDEN = re.compile(r"\b(Admitted|admit|Axiom|Axioms|Parameter|Parameters|Conjecture|Conjectures|"
                       r"Admit Obligations|bypass_check|native_compute)\b|Unset Guard Checking|"
                       r"Unset Positivity Checking|Unset Universe Checking|-type-in-type|-impredicative-set")
# standard-library axioms that may appear in Print Assumptions (none expected)
AXIOM_WHITELIST = set()


def sh(cmd, cwd=None, env=None, timeout=None, input=None):
    p = subprocess.run(cmd, cwd=cwd, env=env, timeout=timeout, input=input,
                       stdout=subprocess.PIPE, stderr=subprocess.STDOUT, text=True, shell=isinstance(cmd, str))
    return p.returncode, p.stdout


class Lock:
    def __init__(self, name, shared=False):
        d = os.path.join(VERIF, "build") if shared else BUILD
        os.makedirs(d, exist_ok=True)
        self.path = os.path.join(d, name + ".lock")
    def __enter__(self):
        self.f = open(self.path, "w")
        fcntl.flock(self.f, fcntl.LOCK_EX)
    def __exit__(self, *a):
        fcntl.flock(self.f, fcntl.LOCK_UN)
        self.f.close()


def coq_sources():
    out = []
    for root, _, files in os.walk(os.path.join(COQ, "theories")):
        for f in files:
            if f.endswith(".v"):
                out.append(os.path.relpath(os.path.join(root, f), COQ))
    return sorted(out)


def coq_build(timeout=3000, targets=None):
    """Full .vo build (incremental through make) of the whole Coq tree, or of the given .vo targets and
    everything they depend on. Returns (ok, log)."""
    with Lock("coq", shared=True):
        srcs = coq_sources()
        proj = "-Q theories Thunder\n" + "\n".join(srcs) + "\n"
        pp = os.path.join(COQ, "_CoqProject")
        if not os.path.exists(pp) or open(pp).read() != proj or not os.path.exists(os.path.join(COQ, "Makefile")):
            open(pp, "w").write(proj)
            rc, out = sh(["coq_makefile", "-f", "_CoqProject", "-o", "Makefile"], cwd=COQ)
            if rc != 0:
                return False, out
        try:
            rc, out = sh(["make", "-j16", "-k"] + (targets or []), cwd=COQ, timeout=timeout)
        except subprocess.TimeoutExpired:
            return False, "coq build timed out"
        return rc == 0, out


def forbidden_tokens():
    hits = []
    for s in coq_sources():
        txt = open(os.path.join(COQ, s)).read()
        # drop comments (non-nested approximation is enough: we forbid the tokens in comments of .v files too
        # except inside (* ... *) blocks)
        txt2 = re.sub(r"\(\*.*?\*\)", "", txt, flags=re.S)
        for m in FORBIDDEN.finditer(txt2):
            hits.append("%s: %s" % (s, m.group(0)))
    return hits


def props_check(prop):
    """Re-run coqc on Props/<prop>.v and collect theorem names with their Print Assumptions verdicts.
    Returns dict(ok, obligations, discharged, theorems=[{name, closed, axioms}], log)."""
    src = os.path.join(COQ, "theories", "Props", prop + ".v")
    res = {"ok": False, "obligations": 0, "discharged": 0, "theorems": [], "log": ""}
    if not os.path.exists(src):
        res["log"] = "missing " + src
        return res
    txt = open(src).read()
    names = re.findall(r"^\s*Theorem\s+([A-Za-z0-9_']+)", txt, flags=re.M)
    res["obligations"] = len(names)
    outdir = os.path.join(BUILD, prop)
    os.makedirs(outdir, exist_ok=True)
    rc, out = sh(["coqc"] + COQ_FLAGS + ["-o", os.path.join(outdir, prop + ".vo"), src], timeout=1800)
    res["log"] = out
    if rc != 0:
        return res
    # every theorem must be followed by Print Assumptions <name>; parse blocks
    printed = re.findall(r"Print Assumptions\s+([A-Za-z0-9_']+)\s*\.", txt)
    blocks = re.split(r"(?=Closed under the global context|Axioms:)", out)
    verdicts = [b for b in blocks if b.startswith("Closed under") or b.startswith("Axioms:")]
    ok = True
    for i, n in enumerate(names):
        t = {"name": n, "closed": False, "axioms": []}
        if n in printed and printed.index(n) < len(verdicts):
            v = verdicts[printed.index(n)]
            if v.startswith("Closed under"):
                t["closed"] = True
            else:
                ax = re.findall(r"^([A-Za-z0-9_.']+)\s*:", v, flags=re.M)
                t["axioms"] = ax
                t["closed"] = all(a in AXIOM_WHITELIST for a in ax) and len(ax) > 0
        if t["closed"]:
            res["discharged"] += 1
        else:
            ok = False
        res["theorems"].append(t)
    res["ok"] = ok and len(names) > 0
    return res


def coqchk(prop, timeout=3000):
    """Independent re-check (coqchk) of Props/<prop>.vo and everything it depends on; returns (ok, summary)."""
    with Lock("coq", shared=True):
        try:
            rc, out = sh(["coqchk", "-silent", "-o", "-Q", "theories", "Thunder", "Thunder.Props." + prop],
                         cwd=COQ, timeout=timeout)
        except subprocess.TimeoutExpired:
            return False, "coqchk timed out"
    i = out.find("CONTEXT SUMMARY")
    summ = out[i:] if i >= 0 else out[-2000:]
    ok = rc == 0 and "* Axioms: <none>" in " ".join(summ.split()).replace("* Axioms: <none>", "* Axioms: <none>")
    return ok, " ".join(summ.split())


def go_build(prop, timeout=1200):
    """Build harness/cmd/<prop lower> against REPO's working tree with -tags verif."""
    name = prop.lower()
    os.makedirs(os.path.join(BUILD, "bin"), exist_ok=True)
    with Lock("go"):
        tag = hashlib.sha1(REPO.encode()).hexdigest()[:8]
        modfile = os.path.join(BUILD, "harness-%s.mod" % tag)
        base = open(os.path.join(HARNESS, "go.mod.in")).read().replace("@REPO@", REPO)
        # requirements follow the repository's own go.mod so that the same dependency versions are used
        if not os.path.exists(modfile) or open(modfile).read() != base:
            open(modfile, "w").write(base)
        shutil.copy(os.path.join(REPO, "go.sum"), os.path.join(BUILD, "harness-%s.sum" % tag))
        binp = os.path.join(BUILD, "bin", name)
        try:
            rc, out = sh(["go", "build", "-tags", "verif", "-modfile", modfile, "-o", binp, "./cmd/" + name],
                         cwd=HARNESS, env=GOENV, timeout=timeout)
        except subprocess.TimeoutExpired:
            return None, "go build timed out"
    return (binp if rc == 0 else None), out


def parse_M(out):
    """Parse 'M = [...]' printed by coqc; returns list of (index, [codes]) or None if unparsable."""
    flat = " ".join(out.split())
    m = re.search(r"M\s*=\s*(\[.*?\])\s*:\s*list", flat)
    if not m:
        return None
    body = m.group(1)
    res = []
    for mm in re.finditer(r"\((\d+),\s*\[([^\]]*)\]\)", body):
        codes = [int(x) for x in re.findall(r"\d+", mm.group(2))]
        res.append((int(mm.group(1)), codes))
    if not res and body.replace(" ", "") != "[]":
        return None
    return res


def coq_eval(files, timeout=1500):
    """coqc each cases file (parallel). Returns list of (file, mismatches|None, log)."""
    def one(f):
        try:
            rc, out = sh(["coqc"] + COQ_FLAGS + [f], cwd=os.path.dirname(f), timeout=timeout)
        except subprocess.TimeoutExpired:
            return (f, None, "timeout")
        if rc != 0:
            return (f, None, out)
        return (f, parse_M(out), out)
    with ThreadPoolExecutor(max_workers=8) as ex:
        return list(ex.map(one, files))


def known_findings():
    p = os.path.join(VERIF, "KNOWN_FINDINGS.jsonl")
    res = []
    if os.path.exists(p):
        for l in open(p):
            l = l.strip()
            if l and not l.startswith("#"):
                res.append(json.loads(l))
    return res


def write_json(path, obj):
    os.makedirs(os.path.dirname(path), exist_ok=True)
    tmp = path + ".tmp"
    with open(tmp, "w") as f:
        json.dump(obj, f, indent=1, sort_keys=True, default=str)
    os.replace(tmp, path)
