package main

// The envelope stream: one connection, a script of envelopes of every shape (member names in any case,
// duplicates, nulls, wrong kinds, every message type, text that is not JSON), each followed by an echo
// as a barrier; what the read loop wrote for each is compared with GqlTyping/Envelope.v [env_step].  A few
// HTTP bodies go through HTTPHandler the same way ([http_step]).

import (
	"bytes"
	"context"
	"encoding/json"
	"fmt"
	"runtime"
	"strings"
	"time"

	"github.com/samsarahq/thunder/graphql"
	"verifharness/pkg/gqlty"
	"verifharness/pkg/vh"
)

// orderedJSON prints JSON text as a Lib.Json term with object members in document order, duplicates kept
// (encoding/json's token stream); ok=false when the text is not one JSON value or holds a string that
// cannot be a Coq literal.
func orderedJSON(text string) (string, bool) {
	if !json.Valid([]byte(text)) {
		return "", false
	}
	dec := json.NewDecoder(strings.NewReader(text))
	dec.UseNumber()
	safe := true
	var value func() string
	value = func() string {
		tok, err := dec.Token()
		if err != nil {
			safe = false
			return "JNull"
		}
		switch t := tok.(type) {
		case json.Delim:
			switch t {
			case '{':
				var xs []string
				for dec.More() {
					k, _ := dec.Token()
					ks, _ := k.(string)
					if !gqlty.CoqStringSafe(ks) {
						safe = false
					}
					xs = append(xs, "("+vh.CoqString(ks)+", "+value()+")")
				}
				dec.Token()
				return "(JObj " + vh.CoqList(xs) + ")"
			case '[':
				var xs []string
				for dec.More() {
					xs = append(xs, value())
				}
				dec.Token()
				return "(JArr " + vh.CoqList(xs) + ")"
			}
		case nil:
			return "JNull"
		case bool:
			return "(JBool " + vh.CoqBool(t) + ")"
		case json.Number:
			f, _ := t.Float64()
			if f > 1e15 || f < -1e15 || f != f {
				f = 0
			}
			return "(JNum " + vh.CoqZ(int64(f)) + ")"
		case string:
			if !gqlty.CoqStringSafe(t) {
				safe = false
			}
			return "(JStr " + vh.CoqString(t) + ")"
		}
		safe = false
		return "JNull"
	}
	term := value()
	return term, safe
}

var envHealthyQueries = []string{`{ a }`, `{ counter a }`, `{ s b }`, `{ obj { x } }`}

// envMessage makes the message member of a subscribe / mutate envelope.
func envMessage(r *vh.Rng, mutate bool) (string, bool) {
	q := r.Pick(envHealthyQueries)
	if mutate {
		q = `mutation { set(v: 4) }`
	}
	qj, _ := json.Marshal(q)
	switch r.Intn(16) {
	case 0:
		return "", false // member absent
	case 1:
		return `null`, true
	case 2:
		return `5`, true
	case 3:
		return `"text"`, true
	case 4:
		return `[]`, true
	case 5:
		return `{"query": 5}`, true
	case 6:
		return `{"query": null}`, true
	case 7:
		return `{"QUERY": ` + string(qj) + `}`, true
	case 8:
		return `{"query": ` + string(qj) + `, "variables": [1]}`, true
	case 9:
		return `{"query": ` + string(qj) + `, "Variables": null, "other": {"deep": [1, {"x": null}]}}`, true
	case 10:
		return `{"query": ` + string(qj) + `, "variables": {"x": 1}}`, true
	case 11:
		return `{"query": "{ bogus }"}`, true
	case 12:
		return `{"query": 7, "query": ` + string(qj) + `}`, true
	case 13:
		return `{"query": "{ nope ", "variables": {}}`, true
	case 14:
		// the other root's query
		if mutate {
			return `{"query": "{ a }"}`, true
		}
		return `{"query": "mutation { set(v: 4) }"}`, true
	}
	return `{"query": ` + string(qj) + `}`, true
}

// genEnvelope makes the script of one connection.
func genEnvelope(r *vh.Rng) Case {
	c := Case{Stream: "envelope", Origin: "script"}
	add := func(env string) { c.Script = append(c.Script, Step{Op: "send", Env: env}) }
	add(`{"id": "h1", "type": "subscribe", "message": {"query": "{ counter a }"}}`)
	n := 4 + r.Intn(7)
	fresh := 0
	idKey := func() string { return r.Pick([]string{"id", "id", "id", "ID", "Id", "iD"}) }
	typeKey := func() string { return r.Pick([]string{"type", "type", "type", "Type", "TYPE", "tYPE"}) }
	msgKey := func() string { return r.Pick([]string{"message", "message", "Message", "MESSAGE"}) }
	for i := 0; i < n; i++ {
		fresh++
		id := fmt.Sprintf("x%d", fresh)
		var members []string
		idv, _ := json.Marshal(id)
		typ := r.Pick([]string{"subscribe", "subscribe", "subscribe", "mutate", "mutate", "unsubscribe", "echo", "url", "frobnicate", "", "Subscribe", "ECHO"})
		idShape := r.Intn(12)
		if typ == "mutate" {
			// a mutation sits in the connection's table only while it runs and leaves it on its own: its id is
			// never one another envelope may use (no absent / null / shared id)
			idShape = 11
		}
		switch idShape {
		case 0:
			members = append(members, `"`+idKey()+`": null`)
		case 1:
			members = append(members, `"`+idKey()+`": "zz"`, `"`+idKey()+`": `+string(idv)) // the later one wins
		case 2:
			members = append(members, `"`+idKey()+`": `+string(idv), `"id": null`) // null leaves it
		case 3:
			members = append(members, `"`+idKey()+`": "h1"`) // the id of the running subscription
		case 4:
			// no id at all
		default:
			members = append(members, `"`+idKey()+`": `+string(idv))
		}
		switch r.Intn(10) {
		case 0:
			members = append(members, `"`+typeKey()+`": null`)
		case 1:
			// no type member
		case 2:
			members = append(members, `"`+typeKey()+`": "echo"`, `"`+typeKey()+`": "`+typ+`"`)
		default:
			members = append(members, `"`+typeKey()+`": "`+typ+`"`)
		}
		switch typ {
		case "url":
			if m := r.Pick([]string{``, `null`, `"http://x"`, `7`, `{"a": 1}`, `["u"]`}); m != "" {
				members = append(members, `"`+msgKey()+`": `+m)
			}
		default:
			if m, ok := envMessage(r, typ == "mutate"); ok {
				members = append(members, `"`+msgKey()+`": `+m)
			}
		}
		switch r.Intn(12) {
		case 0:
			members = append(members, `"extensions": null`)
		case 1:
			members = append(members, `"Extensions": {"k": [1, 2]}`)
		case 2:
			members = append(members, `"unknown": {"id": 5, "type": 7}`)
		}
		// members in a seeded order
		for k := len(members) - 1; k > 0; k-- {
			j := r.Intn(k + 1)
			members[k], members[j] = members[j], members[k]
		}
		add("{" + strings.Join(members, ", ") + "}")
		if r.Chance(8) {
			add(`null`)
		}
		if r.Chance(10) {
			add(`{"id": "h1", "type": "unsubscribe"}`)
			add(`{"id": "h1", "type": "subscribe", "message": {"query": "{ counter }"}}`)
		}
	}
	if r.Chance(45) {
		// what ends a connection: ill-typed id / type / extensions, a value that is no object, text that is no JSON
		add(r.Pick([]string{`{"id": 5, "type": "echo"}`, `{"id": "q", "type": 7}`, `{"id": "q", "type": "echo", "extensions": 5}`,
			`{"id": "q", "type": "echo", "EXTENSIONS": "x"}`, `[1,2]`, `"str"`, `5`, `true`, `{"id":"x","type":"subscribe","message":`, `{"id": "a" "type": "echo"}`,
			`{"ID": ["a"], "type": "echo"}`, `{"type": "echo", "type": {}, "id": "late"}`}))
		add(`{"id": "after", "type": "echo"}`)
	}
	// HTTP bodies
	nb := 2 + r.Intn(4)
	for i := 0; i < nb; i++ {
		m, ok := envMessage(r, r.Chance(30))
		if !ok {
			m = r.Pick([]string{``, `{}`, `{"variables": {}}`})
		}
		c.Script = append(c.Script, Step{Op: "http", Env: m})
	}
	return c
}

// verdicts computes, with the library's own decoding of the message, what Parse and PrepareQuery say about
// the (query, variables) of an envelope's message against the Query root and against the Mutation root.
func (e *env) verdicts(rawMessage []byte) (bool, bool) {
	var m struct {
		Query     string                 `json:"query"`
		Variables map[string]interface{} `json:"variables"`
	}
	if err := json.Unmarshal(rawMessage, &m); err != nil {
		return false, false
	}
	check := func(root graphql.Type) (ok bool) {
		defer func() {
			if recover() != nil {
				ok = false
			}
		}()
		q, err := graphql.Parse(m.Query, m.Variables)
		if err != nil {
			return false
		}
		return graphql.PrepareQuery(context.Background(), root, q.SelectionSet) == nil
	}
	return check(e.schema.Query), check(e.schema.Mutation)
}

func (e *env) runEnvelope(c *Case) ([]F, map[string]interface{}) {
	var fs []F
	obs := map[string]interface{}{}
	base := runtime.NumGoroutine()
	sock := &fakeSocket{in: make(chan string), closedCh: make(chan struct{})}
	ctx, cancel := context.WithCancel(context.Background())
	defer cancel()
	conn := graphql.CreateConnection(ctx, sock, e.schema, graphql.WithMinRerunInterval(2*time.Millisecond))
	served := make(chan string, 1)
	go func() {
		defer func() {
			if x := recover(); x != nil {
				served <- fmt.Sprint(x)
				return
			}
			served <- ""
		}()
		conn.ServeJSONSocket()
	}()
	ended := false
	panicked := ""
	send := func(s string) bool {
		select {
		case sock.in <- s:
			return true
		case p := <-served:
			panicked = p
			ended = true
			return false
		case <-time.After(promptCap):
			return false
		}
	}
	// the messages the read loop wrote: everything but the updates / results of running computations
	syncCount := func() int {
		sock.mu.Lock()
		defer sock.mu.Unlock()
		n := 0
		for _, m := range sock.out {
			if m["type"] == "error" || m["type"] == "echo" {
				n++
			}
		}
		return n
	}
	syncFrom := func(k int) []map[string]interface{} {
		sock.mu.Lock()
		defer sock.mu.Unlock()
		var r []map[string]interface{}
		n := 0
		for _, m := range sock.out {
			if m["type"] == "error" || m["type"] == "echo" {
				if n >= k {
					r = append(r, m)
				}
				n++
			}
		}
		return r
	}
	var script, observed, bodies, errs []string
	printable := true
	barrier := 0
	stuck := false
	for _, st := range c.Script {
		if st.Op != "send" || ended || stuck {
			continue
		}
		// the model's input for this envelope
		term, ok := orderedJSON(st.Env)
		vq, vm := false, false
		if ok {
			var raw struct {
				Message json.RawMessage `json:"message"`
			}
			if json.Unmarshal([]byte(st.Env), &raw) == nil || raw.Message != nil {
				vq, vm = e.verdicts(raw.Message)
			}
			script = append(script, fmt.Sprintf("(Some %s, (%s, %s))", term, vh.CoqBool(vq), vh.CoqBool(vm)))
		} else if json.Valid([]byte(st.Env)) {
			printable = false
		} else {
			script = append(script, "(None, (false, false))")
		}
		before := syncCount()
		if !send(st.Env) {
			if !ended {
				stuck = true
				fs = append(fs, F{"connection-stopped-reading", "an envelope could not be delivered: " + st.Env})
			}
			observed = append(observed, `(0, "")`)
			break
		}
		// barrier: an echo no other envelope uses
		barrier++
		bid := fmt.Sprintf("~b%d", barrier)
		benv := `{"id": "` + bid + `", "type": "echo"}`
		if !send(benv) {
			if !ended {
				stuck = true
				fs = append(fs, F{"connection-stopped-reading", "the barrier after an envelope could not be delivered: " + st.Env})
				break
			}
			// the connection ended on the envelope before the barrier
			observed = append(observed, `(0, "")`)
			break
		}
		if !waitFor(promptCap, func() bool {
			for _, m := range syncFrom(before) {
				if m["type"] == "echo" && m["id"] == bid {
					return true
				}
			}
			return false
		}) {
			stuck = true
			fs = append(fs, F{"connection-stopped-answering", "barrier echo unanswered after: " + st.Env})
			break
		}
		var mine []map[string]interface{}
		for _, m := range syncFrom(before) {
			if m["type"] == "echo" && m["id"] == bid {
				break
			}
			mine = append(mine, m)
		}
		idOf := func(m map[string]interface{}) string {
			s, _ := m["id"].(string)
			return s
		}
		switch {
		case len(mine) == 0:
			observed = append(observed, `(3, "")`)
		case len(mine) == 1 && mine[0]["type"] == "error" && gqlty.CoqStringSafe(idOf(mine[0])):
			observed = append(observed, fmt.Sprintf("(1, %s)", vh.CoqString(idOf(mine[0]))))
		case len(mine) == 1 && mine[0]["type"] == "echo" && gqlty.CoqStringSafe(idOf(mine[0])):
			observed = append(observed, fmt.Sprintf("(2, %s)", vh.CoqString(idOf(mine[0]))))
		default:
			observed = append(observed, `(7, "more than one reply")`)
			fs = append(fs, F{"envelope-answered-more-than-once", fmt.Sprintf("%v for %s", mine, st.Env)})
		}
		// the barrier itself is an envelope of the script
		script = append(script, fmt.Sprintf("(Some (JObj [(\"id\", JStr %s); (\"type\", JStr \"echo\")]), (false, false))", vh.CoqString(bid)))
		observed = append(observed, fmt.Sprintf("(2, %s)", vh.CoqString(bid)))
	}
	if panicked != "" {
		fs = append(fs, F{"serve-json-socket-panic", "ServeJSONSocket: " + firstLine(panicked)})
	}
	if !ended {
		close(sock.in)
		select {
		case p := <-served:
			if p != "" {
				fs = append(fs, F{"serve-json-socket-panic", "ServeJSONSocket: " + firstLine(p)})
			}
		case <-time.After(promptCap):
			fs = append(fs, F{"serve-json-socket-does-not-return", "still running after the socket closed"})
		}
	}
	cancel()
	if n, ok := settle(base); !ok {
		fs = append(fs, F{"goroutine-leak:socket", fmt.Sprintf("%d goroutines before, %d after the connection ended", base, n)})
	}
	// HTTP bodies
	for _, st := range c.Script {
		if st.Op != "http" {
			continue
		}
		rec, done := e.serveHTTP(context.Background(), "POST", bytes.NewReader([]byte(st.Env)))
		select {
		case p := <-done:
			if p != "" {
				fs = append(fs, F{"serve-http-panic", firstLine(p)})
				continue
			}
		case <-time.After(slowCap):
			fs = append(fs, F{"serve-http-does-not-return", "no response within " + slowCap.String()})
			continue
		}
		var resp struct {
			Data   interface{} `json:"data"`
			Errors []string    `json:"errors"`
		}
		if err := json.Unmarshal(rec.Body.Bytes(), &resp); err != nil {
			fs = append(fs, F{"http-response-not-json", firstLine(rec.Body.String())})
			continue
		}
		valid := false
		if st.Env != "" {
			var m struct {
				Query     string                 `json:"query"`
				Variables map[string]interface{} `json:"variables"`
			}
			if json.Unmarshal([]byte(st.Env), &m) == nil {
				if q, err := graphql.Parse(m.Query, m.Variables); err == nil {
					root := e.schema.Query
					if q.Kind == "mutation" {
						root = e.schema.Mutation
					}
					valid = graphql.PrepareQuery(context.Background(), root, q.SelectionSet) == nil
				}
			}
		}
		if st.Env == "" {
			bodies = append(bodies, fmt.Sprintf("(None, %s)", vh.CoqBool(valid)))
		} else if term, ok := orderedJSON(st.Env); ok {
			bodies = append(bodies, fmt.Sprintf("(Some %s, %s)", term, vh.CoqBool(valid)))
		} else {
			continue
		}
		errs = append(errs, vh.CoqBool(len(resp.Errors) > 0))
	}
	if printable && !stuck {
		obs["coq_env"] = fmt.Sprintf("ECase %s %s", vh.CoqList(script), vh.CoqList(observed))
	}
	obs["coq_http"] = fmt.Sprintf("HCase %s %s", vh.CoqList(bodies), vh.CoqList(errs))
	obs["envelopes"] = len(observed)
	return fs, obs
}
