package main

import (
	"encoding/base64"
	"encoding/json"
	"fmt"
	"strings"

	"verifharness/pkg/gqlty"
	"verifharness/pkg/vh"
)

// ---- structured input of one case ----

type Step struct {
	Op   string `json:"op"`             // send | bump | close
	Env  string `json:"env,omitempty"`  // raw JSON text of the envelope
	Kind string `json:"kind,omitempty"` // healthy | panic | soft-junk | echo | unsub | mutate-ok | mutate-panic | hard-junk
	ID   string `json:"id,omitempty"`
	Safe string `json:"safe,omitempty"` // expected sanitised message for a failing request ("" = Internal server error)
}

type Case struct {
	Stream   string `json:"stream"` // bytes | grammar | bomb | socket | http | cancel
	Origin   string `json:"origin,omitempty"`
	QueryB64 string `json:"query_b64,omitempty"`
	Query    string `json:"query,omitempty"`
	Vars     string `json:"vars,omitempty"`
	Exec     bool   `json:"exec,omitempty"`
	Family   string `json:"family,omitempty"`
	Depth    int    `json:"depth,omitempty"`
	Script   []Step `json:"script,omitempty"`
	// socket stream: the FailWrite-th WriteJSON and all later ones fail (FailClose: with a websocket close error)
	FailWrite int  `json:"fail_write,omitempty"`
	FailClose bool `json:"fail_close,omitempty"`
	// PanicIn: "middleware" (a connection middleware panics on queries that mention boom) or "makectx" (the
	// MakeCtx hook panics from its second call on): server-side user code outside resolvers. Not generated
	// by default (nothing recovers there: known finding).
	PanicIn string `json:"panic_in,omitempty"`
	Method  string `json:"method,omitempty"`
	Body    string `json:"body,omitempty"`
	NilBody bool   `json:"nil_body,omitempty"`
	Expect  string `json:"expect,omitempty"` // http: data | errors | any
	Target  string `json:"target,omitempty"` // cancel: http | fedserver | gateway | gateway-sibling
	When    string `json:"when,omitempty"`   // cancel: before | during
}

func (c *Case) QueryText() string {
	if c.QueryB64 != "" {
		b, _ := base64.StdEncoding.DecodeString(c.QueryB64)
		return string(b)
	}
	return c.Query
}

// ---- catalogue of queries that are valid for the test schema ----

var catalogue = []string{
	`{ a s f b e }`,
	`{ obj { x y child { x child { y } } } objs { x kids { x } } }`,
	`{ u { __typename ... on Obj { x } ... on Other { z } } us { ... on Obj { y } ... on Other { z } } }`,
	`query Q($x: int64 = 3, $s: string) { arg(x: $x, s: $s, in: {a: 1, b: "b", l: [1, 2]}, l: [1], e: RED, f: 1.5, bo: true) }`,
	`{ ...F } fragment F on Query { a obj { ...G } } fragment G on Obj { x }`,
	`{ a @skip(if: false) obj @include(if: true) { x } ... on Query @include(if: true) { s } }`,
	`mutation M { set(v: 3) }`,
	`{ __schema { types { name kind } } }`,
	`{ boom(mode: "ok") obj { boom(mode: "ok") bboom(mode: "ok") } eboom(mode: "ok") }`,
	`{ nn { x } nilobj { x } counter }`,
	`query N { x1: a x2: a obj { y } obj { x } }`,
	`{ objs { __typename x kids { bboom(mode: "ok") child { x } } } }`,
	`query V($b: bool = true, $m: string = "ok") { a @include(if: $b) boom(mode: $m) }`,
}

var tokens = []string{"{", "}", "(", ")", ":", "!", "$", "@", "...", "[", "]", "=", "|", "\"s\"", "\"", "12", "-3", "1.5", "1e999",
	"99999999999999999999", "a", "obj", "x", "on", "fragment", "query", "mutation", "subscription", "true", "false", "null",
	"Query", "Obj", "F", "G", "skip", "include", "if", "type", "schema", "enum", "#c\n", ",", " ", "\n", "\\u12", "\\", "\x00", "\xff", "é"}

func genBytes(r *vh.Rng) Case {
	c := Case{Stream: "bytes", Exec: true}
	var q string
	switch k := r.Intn(100); {
	case k < 15:
		n := r.Intn(120)
		b := make([]byte, n)
		for i := range b {
			b[i] = byte(r.Intn(256))
		}
		q = string(b)
		c.Origin = "random-bytes"
	case k < 40:
		n := r.Intn(40)
		var sb strings.Builder
		for i := 0; i < n; i++ {
			sb.WriteString(r.Pick(tokens))
			if r.Chance(60) {
				sb.WriteString(" ")
			}
		}
		q = sb.String()
		c.Origin = "token-soup"
	default:
		q = r.Pick(catalogue)
		for m := 1 + r.Intn(3); m > 0; m-- {
			q = mutateText(r, q)
		}
		c.Origin = "mutated-valid"
	}
	c.QueryB64 = base64.StdEncoding.EncodeToString([]byte(q))
	c.Vars = genVarsText(r)
	return c
}

func mutateText(r *vh.Rng, q string) string {
	if len(q) == 0 {
		return r.Pick(tokens)
	}
	i := r.Intn(len(q))
	switch r.Intn(9) {
	case 0: // delete a byte
		return q[:i] + q[i+1:]
	case 1: // insert a token
		return q[:i] + r.Pick(tokens) + q[i:]
	case 2: // duplicate a chunk
		j := i + r.Intn(len(q)-i)
		return q[:j] + q[i:j] + q[j:]
	case 3: // drop a chunk
		j := i + r.Intn(len(q)-i)
		return q[:i] + q[j:]
	case 4: // inline fragment without a type condition somewhere a selection may stand
		if k := strings.Index(q[i:], "{"); k >= 0 {
			p := i + k + 1
			return q[:p] + " ... { " + r.Pick([]string{"a", "x", "y", "__typename"}) + " } " + q[p:]
		}
		return q + " ... { a }"
	case 5: // replace a name
		names := []string{"a", "obj", "x", "child", "bogus", "__typename", "u", "boom"}
		return strings.Replace(q, r.Pick(names), r.Pick(names), 1)
	case 6: // directive
		if k := strings.Index(q[i:], " "); k >= 0 {
			p := i + k
			return q[:p] + r.Pick([]string{" @skip", " @skip(if: 3)", " @include(if: $nope)", " @skip(if: true) @include(if: false)", " @x(y: [1, {z: $q}])"}) + q[p:]
		}
		return q
	case 7: // swap operation keyword
		return strings.Replace(q, "query", r.Pick([]string{"subscription", "mutation", "fragment", "type"}), 1)
	default: // flip a byte
		b := []byte(q)
		b[i] = byte(r.Intn(256))
		return string(b)
	}
}

func genJSONValue(r *vh.Rng, depth int) interface{} {
	switch k := r.Intn(12); {
	case k < 2:
		return nil
	case k < 4:
		return r.Bool()
	case k < 6:
		return r.Intn(2000) - 1000
	case k == 6:
		return 1.5
	case k == 7:
		return 1e300
	case k < 10:
		return r.Pick([]string{"", "ok", "panic", "RED", "x", "3"})
	case k == 10 && depth > 0:
		n := r.Intn(3)
		a := make([]interface{}, n)
		for i := range a {
			a[i] = genJSONValue(r, depth-1)
		}
		return a
	default:
		if depth <= 0 {
			return "leaf"
		}
		m := map[string]interface{}{}
		for i := r.Intn(3); i > 0; i-- {
			m[r.Pick([]string{"a", "b", "l", "x", "if"})] = genJSONValue(r, depth-1)
		}
		return m
	}
}

func genVarsText(r *vh.Rng) string {
	if r.Chance(40) {
		return ""
	}
	m := map[string]interface{}{}
	for i := r.Intn(4); i > 0; i-- {
		m[r.Pick([]string{"x", "s", "b", "m", "v", "nope", "q"})] = genJSONValue(r, 2)
	}
	b, _ := json.Marshal(m)
	return string(b)
}

// ---- grammar stream: syntactically valid documents, including what thunder does not support ----

type gctx struct {
	nodirs bool
	r      *vh.Rng
	frags  []string
	depth  int
}

var gFieldNames = []string{"a", "s", "obj", "objs", "x", "y", "child", "u", "arg", "__typename", "bogus"}
var gAliases = []string{"a", "k", "m", "obj"}

func (g *gctx) value(depth int, constOnly bool) string {
	r := g.r
	switch k := r.Intn(14); {
	case k < 3:
		return fmt.Sprint(r.Intn(20) - 5)
	case k == 3:
		return r.Pick([]string{"9007199254740992", "-9223372036854775808", "9223372036854775807", "7", "7", "7", "9223372036854775808", "99999999999999999999999"})
	case k == 4:
		return r.Pick([]string{"1.5", "2.0", "1e3", "-0.25", "1e999", "1.0", "7.0", "0.5"})
	case k < 7:
		return r.Pick([]string{`"s"`, `""`, `"a b"`, `"q\"uote"`, `"t\\n"`})
	case k == 7:
		return r.Pick([]string{"true", "false"})
	case k == 8:
		return r.Pick([]string{"RED", "GREEN", "foo"})
	case k < 11 && !constOnly:
		return "$" + r.Pick([]string{"x", "s", "b", "nope"})
	case k < 12 && depth > 0:
		n := r.Intn(3)
		xs := make([]string, n)
		for i := range xs {
			xs[i] = g.value(depth-1, constOnly)
		}
		return "[" + strings.Join(xs, ", ") + "]"
	default:
		if depth <= 0 {
			return "1"
		}
		n := r.Intn(3)
		xs := make([]string, n)
		for i := range xs {
			xs[i] = r.Pick([]string{"a", "b", "a"}) + ": " + g.value(depth-1, constOnly)
		}
		return "{" + strings.Join(xs, ", ") + "}"
	}
}

func (g *gctx) args() string {
	r := g.r
	if r.Chance(70) {
		return ""
	}
	names := []string{"x", "s", "in", "l"}
	n := 1 + r.Intn(2)
	xs := make([]string, n)
	for i := range xs {
		k := r.Intn(len(names))
		xs[i] = names[k] + ": " + g.value(2, false)
		if !r.Chance(8) { // mostly distinct argument names
			names = append(names[:k:k], names[k+1:]...)
		}
	}
	return "(" + strings.Join(xs, ", ") + ")"
}

func (g *gctx) directives() string {
	r := g.r
	if g.nodirs || r.Chance(88) {
		return ""
	}
	return " " + r.Pick([]string{"@skip(if: true)", "@skip(if: false)", "@include(if: $b)", "@include(if: true)", "@skip", "@other(x: 1, x: 2)", "@skip(if: 3)"})
}

func (g *gctx) selset(depth int) string {
	r := g.r
	n := 1 + r.Intn(4)
	xs := make([]string, 0, n)
	for i := 0; i < n; i++ {
		switch k := r.Intn(100); {
		case k < 55 || depth <= 0:
			f := ""
			if r.Chance(25) {
				f = r.Pick(gAliases) + ": "
			}
			f += r.Pick(gFieldNames) + g.args() + g.directives()
			if depth > 0 && r.Chance(40) {
				f += " " + g.selset(depth-1)
			}
			xs = append(xs, f)
		case k < 75:
			name := "Unknown"
			if len(g.frags) > 0 && r.Chance(97) {
				name = r.Pick(g.frags)
			} else if !r.Chance(15) {
				name = ""
			}
			if name == "" {
				xs = append(xs, r.Pick(gFieldNames))
				continue
			}
			xs = append(xs, "..."+name+g.directives())
		case k < 98:
			xs = append(xs, "... on "+r.Pick([]string{"Query", "Obj", "Other", "Nope"})+g.directives()+" "+g.selset(depth-1))
		default:
			xs = append(xs, "..."+g.directives()+" "+g.selset(depth-1))
		}
	}
	return "{ " + strings.Join(xs, " ") + " }"
}

var otherDefs = []string{
	"type Foo { a: Int }", "scalar Date", "enum E { A B }", "schema { query: Q }", "extend type Foo { b: Int }",
	"directive @d on FIELD", "union U = A | B", "interface I { a: Int }", "input In { a: Int = 3 }",
}

func genGrammar(r *vh.Rng) Case {
	g := &gctx{r: r, nodirs: r.Chance(50)}
	nf := 0
	if r.Chance(60) {
		nf = 1 + r.Intn(3)
	}
	for i := 0; i < nf; i++ {
		g.frags = append(g.frags, fmt.Sprintf("F%d", i))
	}
	if nf > 0 && r.Chance(8) {
		g.frags[nf-1] = g.frags[0] // duplicate fragment name
	}
	var defs []string
	op := func() string {
		kind := r.Pick([]string{"", "query", "query", "mutation", "subscription"})
		if r.Chance(85) && kind == "subscription" {
			kind = "query"
		}
		s := kind
		if kind != "" {
			if r.Chance(60) {
				s += " " + r.Pick([]string{"Q", "Op", "query"})
			}
			if r.Chance(35) {
				nv := 1 + r.Intn(2)
				vs := make([]string, nv)
				for i := range vs {
					t := r.Pick([]string{"Int", "Int!", "[Int]", "[Int!]!", "String", "Boolean"})
					vs[i] = "$" + r.Pick([]string{"x", "s", "b"}) + ": " + t
					if r.Chance(50) && (!strings.HasSuffix(t, "!") || r.Chance(15)) {
						vs[i] += " = " + g.value(2, true)
					}
				}
				s += "(" + strings.Join(vs, ", ") + ")"
			}
			s += g.directives()
		}
		body := g.selset(2 + r.Intn(2))
		// most fragments are used at least once
		for _, f := range g.frags {
			if r.Chance(80) && !strings.Contains(body, "..."+f) {
				body = body[:len(body)-1] + "..." + f + " }"
			}
		}
		return s + " " + body
	}
	defs = append(defs, op())
	if r.Chance(3) {
		defs = append(defs, op())
	}
	if r.Chance(2) {
		defs = defs[:0]
	}
	for i := 0; i < nf; i++ {
		// fragments may spread each other (cycles possible) – the name list is already complete
		defs = append(defs, fmt.Sprintf("fragment %s on %s%s %s", g.frags[i], r.Pick([]string{"Query", "Obj"}), g.directives(), g.selset(1+r.Intn(2))))
	}
	if r.Chance(4) {
		defs = append(defs, r.Pick(otherDefs))
	}
	// shuffle definitions
	for i := len(defs) - 1; i > 0; i-- {
		j := r.Intn(i + 1)
		defs[i], defs[j] = defs[j], defs[i]
	}
	c := Case{Stream: "grammar", Query: strings.Join(defs, "\n"), Exec: true, Origin: "grammar"}
	if r.Chance(60) {
		m := map[string]interface{}{}
		for i := r.Intn(3); i > 0; i-- {
			var v interface{}
			switch r.Intn(5) {
			case 0:
				v = nil
			case 1:
				v = r.Bool()
			case 2:
				v = r.Intn(10)
			case 3:
				v = r.Pick([]string{"str", ""})
			default:
				v = []interface{}{1, "z"}
			}
			m[r.Pick([]string{"x", "s", "b"})] = v
		}
		b, _ := json.Marshal(m)
		c.Vars = string(b)
	}
	return c
}

// ---- typed stream: queries that follow the test schema and therefore reach execution ----

var argSamples15 = map[string][]string{
	"Query.arg":   {`(x: 1)`, `(x: 2, s: "t", l: [1, 2], e: RED)`, `(x: 3, in: {a: 1, l: []})`},
	"Query.boom":  {`(mode: "ok")`, `(mode: "ok")`, `(mode: "panic")`, `(mode: "err")`, `(mode: "safe")`},
	"Query.eboom": {`(mode: "ok")`, `(mode: "nilmap")`},
	"Obj.boom":    {`(mode: "ok")`, `(mode: "ok")`, `(mode: "index")`},
	"Obj.bboom":   {`(mode: "ok")`, `(mode: "ok")`, `(mode: "nilptr")`},
	"Obj.fboom":   {`(mode: "ok")`, `(mode: "panic")`, `(mode: "index")`},
	"Query.rows": {`(first: 2)`, `(sortBy: "rank", mode: "ok")`, `(sortBy: "erank", sortOrder: desc, mode: "panic")`,
		`(sortBy: "brank", mode: "nilmap")`, `(sortBy: "rank", mode: "index")`, `(filterText: "a", mode: "panic")`,
		`(filterText: "b", filterTextFields: ["efname"], mode: "nilptr")`, `(filterText: "b", filterTextFields: ["bfname"], mode: "errorvalue")`,
		`(mode: "self-panic")`, `(last: 1, sortBy: "erank", mode: "err")`},
}

func genTyped(r *vh.Rng, desc *gqlty.SchemaDesc) Case {
	g := &gqlty.QGen{R: r, D: desc, ArgSamples: argSamples15, AliasPool: []string{"k", "m", "x"}, ClashAliases: true,
		PAlias: 30, PFrag: 12, PInline: 12, PTypename: 8, PDirective: 6}
	if r.Chance(15) {
		g.WantIll = r.Pick(gqlty.IllKinds)
	}
	q := g.Document("query", "Query", 2+r.Intn(3))
	return Case{Stream: "typed", Query: q, Exec: true, Origin: "typed"}
}

// ---- fragment-bomb families ----

func bombQuery(family string, d int) string {
	var sb strings.Builder
	switch family {
	case "sibling2", "sibling3":
		w := 2
		if family == "sibling3" {
			w = 3
		}
		sb.WriteString("{ ...F0 }\n")
		for i := 0; i < d; i++ {
			fmt.Fprintf(&sb, "fragment F%d on Query {%s }\n", i, strings.Repeat(fmt.Sprintf(" ...F%d", i+1), w))
		}
		fmt.Fprintf(&sb, "fragment F%d on Query { a }\n", d)
	case "mixed": // a spread and the same spread inside an inline fragment
		sb.WriteString("{ ...F0 }\n")
		for i := 0; i < d; i++ {
			fmt.Fprintf(&sb, "fragment F%d on Query { ...F%d ... on Query { ...F%d } }\n", i, i+1, i+1)
		}
		fmt.Fprintf(&sb, "fragment F%d on Query { a }\n", d)
	case "nestfield": // the doubling sits below fields: detectConflicts never gets there, PrepareQuery does
		sb.WriteString("{ obj { ...G0 } }\n")
		for i := 0; i < d; i++ {
			fmt.Fprintf(&sb, "fragment G%d on Obj { child { ...G%d } c2: child { ...G%d } }\n", i, i+1, i+1)
		}
		fmt.Fprintf(&sb, "fragment G%d on Obj { x }\n", d)
	case "unionbomb": // the doubling sits in two member fragments of a union-typed field
		sb.WriteString("{ obj { ...H0 } }\n")
		for i := 0; i < d; i++ {
			fmt.Fprintf(&sb, "fragment H%d on Obj { uu { ... on Obj { ...H%d } ... on Obj { ...H%d } } }\n", i, i+1, i+1)
		}
		fmt.Fprintf(&sb, "fragment H%d on Obj { x }\n", d)
	case "nestlist": // as nestfield, but the two paths go through a list-typed field (List/NonNull wrappers)
		sb.WriteString("{ obj { ...K0 } }\n")
		for i := 0; i < d; i++ {
			fmt.Fprintf(&sb, "fragment K%d on Obj { kids { ...K%d } k2: kids { ...K%d } }\n", i, i+1, i+1)
		}
		fmt.Fprintf(&sb, "fragment K%d on Obj { x }\n", d)
	case "nestspread": // the doubling sits in one selection set under an object field: executed, the result is one x
		sb.WriteString("{ obj { ...G0 } }\n")
		for i := 0; i < d; i++ {
			fmt.Fprintf(&sb, "fragment G%d on Obj { ...G%d ...G%d }\n", i, i+1, i+1)
		}
		fmt.Fprintf(&sb, "fragment G%d on Obj { x }\n", d)
	case "nestspread3": // three spreads of the next fragment, below a list field
		sb.WriteString("{ objs { ...G0 y } }\n")
		for i := 0; i < d; i++ {
			fmt.Fprintf(&sb, "fragment G%d on Obj { ...G%d x ...G%d ...G%d }\n", i, i+1, i+1, i+1)
		}
		fmt.Fprintf(&sb, "fragment G%d on Obj { x }\n", d)
	case "nestinline": // the same through inline fragments around the spreads
		sb.WriteString("{ obj { ...G0 } nn { ...G0 } }\n")
		for i := 0; i < d; i++ {
			fmt.Fprintf(&sb, "fragment G%d on Obj { ... on Obj { ...G%d } ... on Obj { ...G%d y } }\n", i, i+1, i+1)
		}
		fmt.Fprintf(&sb, "fragment G%d on Obj { x }\n", d)
	case "nestnext2", "nestnext3": // each fragment selects next and spreads the following fragment k times in it: the
		// same alias at every level, so the response is one chain of depth d
		k := 2
		if family == "nestnext3" {
			k = 3
		}
		sb.WriteString("{ obj { ...G0 } }\n")
		for i := 0; i < d; i++ {
			fmt.Fprintf(&sb, "fragment G%d on Obj { next {%s } }\n", i, strings.Repeat(fmt.Sprintf(" ...G%d", i+1), k))
		}
		fmt.Fprintf(&sb, "fragment G%d on Obj { x }\n", d)
	case "nestnextinline": // the same with the two spreads inside inline fragments, below a list
		sb.WriteString("{ objs { ...G0 } }\n")
		for i := 0; i < d; i++ {
			fmt.Fprintf(&sb, "fragment G%d on Obj { next { ... on Obj { ...G%d } x ... on Obj { ...G%d } } }\n", i, i+1, i+1)
		}
		fmt.Fprintf(&sb, "fragment G%d on Obj { x }\n", d)
	case "chain": // control: linear
		sb.WriteString("{ ...F0 }\n")
		for i := 0; i < d; i++ {
			fmt.Fprintf(&sb, "fragment F%d on Query { ...F%d }\n", i, i+1)
		}
		fmt.Fprintf(&sb, "fragment F%d on Query { a }\n", d)
	case "wide": // control: one fragment spread many times
		fmt.Fprintf(&sb, "{%s }\nfragment F0 on Query { a s }\n", strings.Repeat(" ...F0", 4*d+1))
	case "inline": // control: nested inline fragments
		sb.WriteString("{ ")
		for i := 0; i < d; i++ {
			sb.WriteString("... on Query { a ")
		}
		sb.WriteString(strings.Repeat("} ", d))
		sb.WriteString("s }")
	}
	return sb.String()
}

var bombFamilies = []string{"sibling2", "sibling3", "mixed", "nestfield", "nestlist", "unionbomb", "nestspread", "nestspread3", "nestinline", "nestnext2", "nestnext3", "nestnextinline", "chain", "wide", "inline"}

// execFamilies are also executed: their response is small whatever the depth.
var execFamilies = map[string]bool{"sibling2": true, "sibling3": true, "mixed": true, "nestspread": true, "nestspread3": true, "nestinline": true, "nestnext2": true, "nestnext3": true, "nestnextinline": true, "chain": true, "wide": true, "inline": true}

// ---- wide fan-out: many sibling work units that each produce child units ----

func genFanout(r *vh.Rng) Case {
	n := 64 + r.Intn(237)
	if r.Chance(20) {
		n = []int{63, 64, 65, 100, 128, 300}[r.Intn(6)]
	}
	leafs := []string{"x", "exn", `bboom(mode: "ok")`, `boom(mode: "ok")`, "y"}
	level := func(inner string) string {
		switch r.Intn(5) {
		case 0:
			return "ex { " + inner + " }"
		case 1:
			return "bself { " + inner + " }"
		case 2:
			return "child { " + inner + " }"
		case 3:
			return "ex { " + r.Pick(leafs) + " bself { " + inner + " } }"
		default:
			return "kids { " + inner + " }"
		}
	}
	sel := r.Pick(leafs)
	for k := 1 + r.Intn(3); k > 0; k-- {
		sel = level(sel + " " + r.Pick(leafs))
	}
	q := fmt.Sprintf("{ many(n: %d) { %s } }", n, sel)
	return Case{Stream: "fanout", Query: q, Depth: n, Origin: "fanout"}
}

// ---- socket scripts ----

func envelope(id, typ string, msg interface{}) string {
	m := map[string]interface{}{"id": id, "type": typ}
	if msg != nil {
		m["message"] = msg
	}
	b, _ := json.Marshal(m)
	return string(b)
}

var panicModes = []string{"panic", "nilmap", "index", "nilptr", "errorvalue"}

// panicQuery places one misbehaving resolver at a seeded place of a query.
func panicQuery(r *vh.Rng, mode string) string {
	m := fmt.Sprintf("%q", mode)
	switch r.Intn(16) {
	case 0:
		return `{ boom(mode: ` + m + `) }`
	case 1:
		return `{ a obj { x boom(mode: ` + m + `) } s }`
	case 2:
		return `{ objs { kids { boom(mode: ` + m + `) } } }`
	case 3:
		return `{ objs { x bboom(mode: ` + m + `) } }`
	case 4:
		return `{ us { ... on Obj { boom(mode: ` + m + `) } ... on Other { z } } }`
	case 5:
		return `{ a eboom(mode: ` + m + `) counter }`
	case 6:
		return `{ ...F } fragment F on Query { obj { child { child { boom(mode: ` + m + `) } } } }`
	case 7:
		return `{ counter nn { boom(mode: ` + m + `) bboom(mode: "ok") } }`
	case 8: // sort field, plain
		return `{ rows(sortBy: "rank", mode: ` + m + `) { totalCount edges { node { id } } } }`
	case 9: // sort field on errgroup goroutines
		return `{ a rows(sortBy: "erank", sortOrder: desc, mode: ` + m + `) { edges { node { id rank } cursor } } }`
	case 10: // batch sort field
		return `{ rows(sortBy: "brank", mode: ` + m + `) { totalCount } }`
	case 11: // filter fields (all three kinds are consulted when none is named)
		return `{ rows(filterText: "b", mode: ` + m + `) { totalCount } }`
	case 12:
		return `{ rows(filterText: "b", filterTextFields: ["` + r.Pick([]string{"fname", "efname", "bfname"}) + `"], mode: ` + m + `) { edges { node { name } } } }`
	case 13: // the paginated resolver itself
		return `{ rows(first: 1, mode: ` + fmt.Sprintf("%q", "self-"+mode) + `) { totalCount } }`
	case 14: // batch field with fallback (both paths over time)
		return `{ objs { fboom(mode: ` + m + `) } obj { fboom(mode: ` + m + `) } }`
	default:
		return `{ obj { kids { fboom(mode: ` + m + `) bboom(mode: "ok") } } }`
	}
}

func genSocket(r *vh.Rng) Case {
	c := Case{Stream: "socket", Origin: "script"}
	add := func(s Step) { c.Script = append(c.Script, s) }
	add(Step{Op: "send", Kind: "healthy", ID: "h1", Env: envelope("h1", "subscribe", map[string]interface{}{"query": "{ counter a }"})})
	n := 2 + r.Intn(5)
	for i := 0; i < n; i++ {
		id := fmt.Sprintf("r%d", i)
		switch k := r.Intn(100); {
		case k < 35:
			mode := r.Pick(panicModes)
			add(Step{Op: "send", Kind: "panic", ID: id, Env: envelope(id, "subscribe", map[string]interface{}{"query": panicQuery(r, mode)})})
		case k < 45:
			add(Step{Op: "send", Kind: "panic", ID: id, Safe: "safe failure", Env: envelope(id, "subscribe", map[string]interface{}{"query": `{ obj { boom(mode: "safe") } }`})})
		case k < 55:
			add(Step{Op: "send", Kind: "mutate-panic", ID: id, Env: envelope(id, "mutate", map[string]interface{}{"query": `mutation { mboom(mode: "` + r.Pick(panicModes) + `") }`})})
		case k < 62:
			add(Step{Op: "send", Kind: "mutate-ok", ID: id, Env: envelope(id, "mutate", map[string]interface{}{"query": `mutation { set(v: 4) }`})})
		case k < 85:
			var msg interface{}
			typ := "subscribe"
			switch r.Intn(9) {
			case 0:
				msg = 5
			case 1:
				msg = map[string]interface{}{"query": 5}
			case 2:
				msg = map[string]interface{}{"query": "{ a }", "variables": []interface{}{1}}
			case 3:
				msg = map[string]interface{}{"query": "{ ... { a } }"}
			case 4:
				msg = map[string]interface{}{"query": "{ bogus }"}
			case 5:
				typ, msg = "frobnicate", nil
			case 6:
				typ, msg = "url", 7
			case 7:
				typ, msg = "mutate", "text"
			default:
				msg = map[string]interface{}{"query": "{ arg(x: $x) }", "variables": map[string]interface{}{"x": genJSONValue(r, 2)}}
			}
			add(Step{Op: "send", Kind: "soft-junk", ID: id, Env: envelope(id, typ, msg)})
		case k < 92:
			add(Step{Op: "send", Kind: "unsub", ID: id, Env: envelope(r.Pick([]string{"nope", "r0", "r1"}), "unsubscribe", nil)})
		default:
			add(Step{Op: "send", Kind: "echo", ID: id, Env: envelope(id, "echo", nil)})
		}
	}
	add(Step{Op: "bump"})
	add(Step{Op: "send", Kind: "echo", ID: "e9", Env: envelope("e9", "echo", nil)})
	add(Step{Op: "send", Kind: "healthy", ID: "h2", Env: envelope("h2", "subscribe", map[string]interface{}{"query": "{ counter obj { x } }"})})
	if r.Chance(40) {
		add(Step{Op: "send", Kind: "hard-junk", Env: r.Pick([]string{`{"id": 5}`, `[1,2]`, `{"id":"x","type":"subscribe","message":`, `"str"`, `{"id":"x","type":7}`, "\xff\xfe"})})
	}
	add(Step{Op: "close"})
	if r.Chance(35) {
		// the client vanishes while replies are being written: at the k-th write, which may come from the read
		// loop (errors, echo) or from inside a subscription's or mutation's computation
		c.FailWrite = 1 + r.Intn(6)
		c.FailClose = r.Chance(25)
		c.Origin = "script-write-fails"
	}
	return c
}

// ---- http ----

func genHTTP(r *vh.Rng) Case {
	c := Case{Stream: "http", Method: "POST", Expect: "any", Origin: "http"}
	body := func(q string, vars interface{}) string {
		m := map[string]interface{}{"query": q}
		if vars != nil {
			m["variables"] = vars
		}
		b, _ := json.Marshal(m)
		return string(b)
	}
	switch k := r.Intn(100); {
	case k < 25:
		c.Body, c.Expect = body(r.Pick(catalogue), nil), "data"
		if strings.Contains(c.Body, "$") {
			c.Expect = "any"
		}
	case k < 55:
		c.Body, c.Expect = body(panicQuery(r, r.Pick(panicModes)), nil), "errors"
	case k < 60:
		c.Body, c.Expect = body(`mutation { mboom(mode: "panic") }`, nil), "errors"
	case k < 65:
		c.Method, c.Expect = r.Pick([]string{"GET", "PUT", ""}), "errors"
		if c.Method == "" {
			c.Method = "DELETE"
		}
	case k < 70:
		c.NilBody, c.Expect = true, "errors"
	case k < 85:
		c.Body = r.Pick([]string{`{"query": 5}`, `{"variables": []}`, `[]`, `{"query": "{a}", "variables": "x"}`, `{"query"`, ``, `null`,
			`{"query": "{ ... { a } }"}`, `{"query": "{ arg(x: $x) }", "variables": {"x": {"a": [1, {"b": null}]}}}`, "\x00\x01", `{"query": "\ud800"}`})
	default:
		q := r.Pick(catalogue)
		for m := 1 + r.Intn(2); m > 0; m-- {
			q = mutateText(r, q)
		}
		var vars interface{}
		if r.Chance(50) {
			vars = genJSONValue(r, 2)
		}
		c.Body = body(q, vars)
	}
	return c
}

// ---- cancellation ----

var cancelTargets = []string{"http", "fedserver", "gateway", "gateway-sibling", "http-samekey"}

func genCancel(r *vh.Rng, k int) Case {
	t := cancelTargets[k%len(cancelTargets)]
	when := []string{"before", "during"}[(k/len(cancelTargets))%2]
	if t == "gateway-sibling" || t == "http-samekey" {
		when = "during"
	}
	return Case{Stream: "cancel", Target: t, When: when, Origin: "script"}
}
