package main

import (
	"bytes"
	"context"
	"encoding/json"
	"errors"
	"fmt"
	"io"
	"net/http"
	"net/http/httptest"
	"runtime"
	"sort"
	"strings"
	"sync"
	"sync/atomic"
	"time"

	"github.com/gorilla/websocket"
	"github.com/graphql-go/graphql/language/ast"
	"github.com/graphql-go/graphql/language/parser"
	"github.com/samsarahq/thunder/federation"
	"github.com/samsarahq/thunder/graphql"
	"github.com/samsarahq/thunder/graphql/schemabuilder"
	"github.com/samsarahq/thunder/thunderpb"
	"github.com/samsarahq/thunder/verifhook"
	"verifharness/pkg/gqlty"
)

type F = gqlty.Finding

const (
	promptCap  = 4 * time.Second // a cancelled request must be back within this (generous: the box may be busy)
	slowCap    = 5 * time.Second // parse+prepare of a small input (backstop only)
	visitCoeff = 64              // visits <= visitCoeff * size(document)
)

type env struct {
	live   *gqlty.Live
	schema *graphql.Schema
	exec   graphql.ExecutorRunner
	desc   *gqlty.SchemaDesc

	parseVisits, prepareVisits int64
}

func newEnv() *env {
	e := &env{live: gqlty.NewLive()}
	e.schema = gqlty.BuildSchema15(e.live)
	e.exec = graphql.NewExecutor(graphql.NewImmediateGoroutineScheduler())
	e.desc = gqlty.Walk(e.schema.Query, e.schema.Mutation)
	verifhook.Set(func(point string, args ...interface{}) {
		switch point {
		case "parse.visit":
			atomic.AddInt64(&e.parseVisits, 1)
		case "prepare.visit":
			atomic.AddInt64(&e.prepareVisits, 1)
		}
	})
	return e
}

func firstLine(s string) string {
	if i := strings.IndexByte(s, '\n'); i >= 0 {
		s = s[:i]
	}
	if len(s) > 300 {
		s = s[:300]
	}
	return s
}

func safeParse(q string, vars map[string]interface{}) (query *graphql.Query, err error, pan string) {
	defer func() {
		if e := recover(); e != nil {
			pan = fmt.Sprint(e)
		}
	}()
	query, err = graphql.Parse(q, vars)
	return
}

func safePrepare(typ graphql.Type, ss *graphql.SelectionSet) (err error, pan string) {
	defer func() {
		if e := recover(); e != nil {
			pan = fmt.Sprint(e)
		}
	}()
	return graphql.PrepareQuery(context.Background(), typ, ss), ""
}

func (e *env) safeExecute(ctx context.Context, typ graphql.Type, q *graphql.Query) (v interface{}, err error, pan string) {
	defer func() {
		if x := recover(); x != nil {
			pan = fmt.Sprint(x)
		}
	}()
	v, err = e.exec.Execute(ctx, typ, nil, q)
	return
}

func decodeVars(text string) (map[string]interface{}, bool) {
	if text == "" {
		return nil, true
	}
	var m map[string]interface{}
	if json.Unmarshal([]byte(text), &m) != nil {
		return nil, false
	}
	return m, true
}

// hasBareInlineFragment reports whether graphql-go parses the text and the AST holds an inline fragment
// without a type condition (the input class of F22).
func hasBareInlineFragment(doc *ast.Document) bool {
	var ss func(s *ast.SelectionSet) bool
	ss = func(s *ast.SelectionSet) bool {
		if s == nil {
			return false
		}
		for _, sel := range s.Selections {
			switch sel := sel.(type) {
			case *ast.Field:
				if ss(sel.SelectionSet) {
					return true
				}
			case *ast.InlineFragment:
				if sel.TypeCondition == nil || ss(sel.SelectionSet) {
					return true
				}
			}
		}
		return false
	}
	for _, d := range doc.Definitions {
		switch d := d.(type) {
		case *ast.OperationDefinition:
			if ss(d.SelectionSet) {
				return true
			}
		case *ast.FragmentDefinition:
			if ss(d.SelectionSet) {
				return true
			}
		}
	}
	return false
}

func safeGoParse(q string) (doc *ast.Document, err error) {
	defer func() {
		if e := recover(); e != nil {
			doc, err = nil, fmt.Errorf("third-party parser panicked: %v", e)
		}
	}()
	return parser.Parse(parser.ParseParams{Source: q})
}

// runText is the no-crash oracle for one (query text, variables) input: Parse, PrepareQuery, Execute.
func (e *env) runText(c *Case, grammar bool) ([]F, map[string]interface{}) {
	var fs []F
	obs := map[string]interface{}{}
	q := c.QueryText()
	vars, _ := decodeVars(c.Vars)
	doc, gerr := safeGoParse(q)
	if gerr != nil && strings.Contains(gerr.Error(), "third-party parser panicked") {
		fs = append(fs, F{"third-party-parser-panic", gerr.Error()})
	}
	obs["syntax_ok"] = gerr == nil

	t0 := time.Now()
	query, perr, pan := safeParse(q, vars)
	if pan != "" {
		sig := "parse-panic"
		if gerr == nil && hasBareInlineFragment(doc) {
			sig = "parse-panic-inline-fragment-without-type-condition"
		}
		fs = append(fs, F{sig, firstLine(pan)})
		obs["verdict"] = "panic"
	} else if perr != nil {
		obs["verdict"] = "error"
		if _, ok := perr.(graphql.ClientError); !ok {
			fs = append(fs, F{"parse-error-not-client-error", firstLine(perr.Error())})
		}
	} else {
		obs["verdict"] = "ok"
	}
	if pan == "" && perr == nil {
		typ := e.schema.Query
		if query.Kind == "mutation" {
			typ = e.schema.Mutation
		}
		err, pp := safePrepare(typ, query.SelectionSet)
		if pp != "" {
			fs = append(fs, F{"prepare-panic", firstLine(pp)})
		} else if err == nil {
			obs["prepared"] = true
			if c.Exec && !strings.Contains(q, "wait") {
				ctx, cancel := context.WithTimeout(context.Background(), 3*time.Second)
				_, xerr, xp := e.safeExecute(ctx, typ, query)
				timedOut := ctx.Err() == context.DeadlineExceeded
				cancel()
				if xp != "" {
					fs = append(fs, F{"execute-panic", firstLine(xp)})
				}
				if timedOut {
					fs = append(fs, F{"execute-too-slow", firstLine(fmt.Sprint(xerr))})
				}
				obs["executed"] = xerr == nil
			}
		}
	}
	if d := time.Since(t0); d > slowCap {
		fs = append(fs, F{"too-slow", fmt.Sprintf("%s for %d bytes", d, len(q))})
	}

	if grammar && gerr == nil {
		// model case: the real AST, and what graphql.Parse does with the same text (several times: Go map order)
		term, terr := gqlty.DocToCoq(doc)
		if terr != nil {
			fs = append(fs, F{"ast-outside-mirror-type", terr.Error()})
			return fs, obs
		}
		codes := map[int]bool{}
		texts := map[int]bool{}
		name, kind := "", ""
		var flat []string
		flatOK := ""
		for i := 0; i < 6; i++ {
			qq, err, pan := safeParse(q, vars)
			switch {
			case pan != "":
				codes[gqlty.CodePanic] = true
			case err != nil:
				// the verdict is compared, not the wording: client error (graphql.ClientError) or any other error;
				// the class of the message text only goes into the histogram
				if _, ok := err.(graphql.ClientError); ok {
					codes[gqlty.VerdictClientError] = true
				} else {
					codes[gqlty.VerdictOtherError] = true
				}
				texts[gqlty.ParseErrCode(err.Error())] = true
			default:
				codes[gqlty.CodeOK] = true
				name, kind = qq.Name, qq.Kind
				if i == 0 {
					flat, flatOK = safeFlatten(qq.SelectionSet)
				}
			}
		}
		var cl []int
		for k := range codes {
			cl = append(cl, k)
		}
		sort.Ints(cl)
		obs["coq"] = term
		obs["codes"] = cl
		var tl []int
		for k := range texts {
			tl = append(tl, k)
		}
		sort.Ints(tl)
		obs["text_classes"] = tl
		obs["name"], obs["kind"] = name, kind
		obs["flat"], obs["flat_ok"] = flat, flatOK
		obs["size"] = gqlty.AstSize(doc)
	}
	return fs, obs
}

func safeFlatten(ss *graphql.SelectionSet) (aliases []string, status string) {
	defer func() {
		if e := recover(); e != nil {
			aliases, status = nil, "panic"
		}
	}()
	sels, err := graphql.Flatten(ss)
	if err != nil {
		return nil, "error"
	}
	for _, s := range sels {
		aliases = append(aliases, s.Alias)
	}
	sort.Strings(aliases)
	return aliases, "ok"
}

// runBomb measures the visit counters on one member of a fragment-bomb family.
func (e *env) runBomb(c *Case) ([]F, map[string]interface{}) {
	var fs []F
	obs := map[string]interface{}{}
	q := c.Query
	doc, gerr := safeGoParse(q)
	if gerr != nil {
		return []F{{"harness-bomb-does-not-parse", gerr.Error()}}, obs
	}
	size := gqlty.AstSize(doc)
	atomic.StoreInt64(&e.parseVisits, 0)
	atomic.StoreInt64(&e.prepareVisits, 0)
	t0 := time.Now()
	query, perr, pan := safeParse(q, nil)
	if pan != "" || perr != nil {
		return []F{{"bomb-rejected", firstLine(pan + fmt.Sprint(perr))}}, obs
	}
	pv := atomic.LoadInt64(&e.parseVisits)
	err, pp := safePrepare(e.schema.Query, query.SelectionSet)
	if pp != "" || err != nil {
		return []F{{"bomb-rejected", firstLine(pp + fmt.Sprint(err))}}, obs
	}
	qv := atomic.LoadInt64(&e.prepareVisits)
	d := time.Since(t0)
	obs["size"], obs["bytes"], obs["parse_visits"], obs["prepare_visits"], obs["ms"] = size, len(q), pv, qv, d.Milliseconds()
	if pv == 0 || qv == 0 {
		fs = append(fs, F{"hooks-silent", "no parse.visit / prepare.visit events: the harness is not built against a tree with the C15 hook lines"})
	}
	if pv > int64(visitCoeff*size) {
		fs = append(fs, F{"superlinear-visits:detectConflicts", fmt.Sprintf("family %s depth %d: %d nodes, %d bytes, %d visits of visitSibling (bound %d)", c.Family, c.Depth, size, len(q), pv, visitCoeff*size)})
	}
	if qv > int64(visitCoeff*size) {
		fs = append(fs, F{"superlinear-visits:PrepareQuery", fmt.Sprintf("family %s depth %d: %d nodes, %d bytes, %d calls of PrepareQuery (bound %d)", c.Family, c.Depth, size, len(q), qv, visitCoeff*size)})
	}
	if d > slowCap {
		fs = append(fs, F{"too-slow", fmt.Sprintf("%s for %d bytes", d, len(q))})
	}
	if c.Depth <= 9 {
		if term, terr := gqlty.DocToCoq(doc); terr == nil {
			obs["coq"] = term
		}
	}
	if execFamilies[c.Family] {
		// the response of these families is small whatever the depth: execution must be quick as well
		v, xerr, how := e.executeWithin(execCap, e.schema.Query, query)
		switch how {
		case "timeout":
			fs = append(fs, F{"execute-does-not-finish:" + c.Family, fmt.Sprintf("family %s depth %d (%d bytes): no response within %s", c.Family, c.Depth, len(q), execCap)})
			obs["leave_process"] = true
		case "panic":
			fs = append(fs, F{"execute-panic", firstLine(fmt.Sprint(xerr))})
		default:
			if xerr != nil {
				fs = append(fs, F{"bomb-execution-fails", firstLine(xerr.Error())})
			} else if n := jsonNodes(v); n > visitCoeff*size {
				fs = append(fs, F{"response-superlinear:" + c.Family, fmt.Sprintf("%d response nodes for %d query nodes", n, size)})
			}
		}
	}
	return fs, obs
}

const execCap = 8 * time.Second // a small request must be answered within this (on the unchanged tree: milliseconds)

// executeWithin runs Execute on its own goroutine and gives up waiting after limit (how = "timeout"; the
// goroutine cannot be stopped: the caller asks for a fresh process afterwards).
func (e *env) executeWithin(limit time.Duration, typ graphql.Type, q *graphql.Query) (v interface{}, err error, how string) {
	type res struct {
		v   interface{}
		err error
		pan string
	}
	ch := make(chan res, 1)
	ctx, cancel := context.WithCancel(context.Background())
	defer cancel()
	go func() {
		v, err, pan := e.safeExecute(ctx, typ, q)
		ch <- res{v, err, pan}
	}()
	select {
	case r := <-ch:
		if r.pan != "" {
			return nil, errors.New(r.pan), "panic"
		}
		return r.v, r.err, "done"
	case <-time.After(limit):
		return nil, nil, "timeout"
	}
}

func jsonNodes(v interface{}) int {
	switch x := v.(type) {
	case map[string]interface{}:
		n := 1
		for _, e := range x {
			n += jsonNodes(e)
		}
		return n
	case []interface{}:
		n := 1
		for _, e := range x {
			n += jsonNodes(e)
		}
		return n
	}
	return 1
}

// runFanout: a list of many objects with expensive / batch / plain fields and more levels below; the request
// must terminate with a response.
func (e *env) runFanout(c *Case) ([]F, map[string]interface{}) {
	var fs []F
	obs := map[string]interface{}{}
	query, perr, pan := safeParse(c.Query, nil)
	if pan != "" || perr != nil {
		return []F{{"harness-fanout-rejected", firstLine(pan + fmt.Sprint(perr))}}, obs
	}
	if err, pp := safePrepare(e.schema.Query, query.SelectionSet); pp != "" || err != nil {
		return []F{{"harness-fanout-rejected", firstLine(pp + fmt.Sprint(err))}}, obs
	}
	base := runtime.NumGoroutine()
	t0 := time.Now()
	v, xerr, how := e.executeWithin(execCap, e.schema.Query, query)
	switch how {
	case "timeout":
		fs = append(fs, F{"execute-does-not-finish:fanout", fmt.Sprintf("no response within %s :: %s", execCap, c.Query)})
		obs["leave_process"] = true
		return fs, obs
	case "panic":
		return append(fs, F{"execute-panic", firstLine(fmt.Sprint(xerr))}), obs
	}
	if xerr != nil {
		return append(fs, F{"fanout-execution-fails", firstLine(xerr.Error()) + " :: " + c.Query}), obs
	}
	b, _ := json.Marshal(v)
	var out struct {
		Many []interface{} `json:"many"`
	}
	json.Unmarshal(b, &out)
	if len(out.Many) != c.Depth {
		fs = append(fs, F{"fanout-entries-lost", fmt.Sprintf("%d entries for many(n: %d) :: %s", len(out.Many), c.Depth, c.Query)})
	}
	obs["ms"], obs["n"] = time.Since(t0).Milliseconds(), c.Depth
	if n, ok := settle(base); !ok {
		fs = append(fs, F{"goroutine-leak:fanout", fmt.Sprintf("%d goroutines before, %d after the response", base, n)})
	}
	return fs, obs
}

// ---- fake socket ----

type fakeSocket struct {
	in       chan string
	mu       sync.Mutex
	out      []map[string]interface{}
	closed   bool
	closedCh chan struct{}
	// failAt > 0: the failAt-th write and every later one fail (the client vanished); closeErr: with a
	// websocket close error instead of a plain I/O error
	failAt   int
	closeErr bool
	writes   int
}

var errClosed = errors.New("websocket: close 1000 (normal)")

func (s *fakeSocket) ReadJSON(v interface{}) error {
	select {
	case msg, ok := <-s.in:
		if !ok {
			return errClosed
		}
		return json.Unmarshal([]byte(msg), v)
	case <-s.closedCh:
		// a socket the server closed itself does not deliver anything any more
		return errors.New("read: use of closed connection")
	}
}

func (s *fakeSocket) WriteJSON(v interface{}) error {
	b, err := json.Marshal(v)
	if err != nil {
		return err
	}
	var m map[string]interface{}
	json.Unmarshal(b, &m)
	s.mu.Lock()
	defer s.mu.Unlock()
	s.writes++
	if s.failAt > 0 && s.writes >= s.failAt {
		if s.closeErr {
			return &websocket.CloseError{Code: websocket.CloseGoingAway, Text: "client gone"}
		}
		return errors.New("write: broken pipe")
	}
	s.out = append(s.out, m)
	return nil
}

func (s *fakeSocket) Close() error {
	s.mu.Lock()
	if !s.closed {
		s.closed = true
		close(s.closedCh)
	}
	s.mu.Unlock()
	return nil
}

func (s *fakeSocket) messages(id string) []map[string]interface{} {
	s.mu.Lock()
	defer s.mu.Unlock()
	var r []map[string]interface{}
	for _, m := range s.out {
		if m["id"] == id {
			r = append(r, m)
		}
	}
	return r
}

func waitFor(limit time.Duration, cond func() bool) bool {
	deadline := time.Now().Add(limit)
	for {
		if cond() {
			return true
		}
		if time.Now().After(deadline) {
			return false
		}
		time.Sleep(2 * time.Millisecond)
	}
}

// settle waits until the goroutine count is back at (or below) base.
func settle(base int) (int, bool) {
	ok := waitFor(3*time.Second, func() bool { return runtime.NumGoroutine() <= base })
	return runtime.NumGoroutine(), ok
}

func (e *env) runSocket(c *Case) ([]F, map[string]interface{}) {
	var fs []F
	obs := map[string]interface{}{}
	base := runtime.NumGoroutine()
	sock := &fakeSocket{in: make(chan string), closedCh: make(chan struct{}), failAt: c.FailWrite, closeErr: c.FailClose}
	ctx, cancel := context.WithCancel(context.Background())
	defer cancel()
	opts := []graphql.ConnectionOption{graphql.WithMinRerunInterval(2 * time.Millisecond)}
	if c.PanicIn == "makectx" {
		var calls int32
		opts = append(opts, graphql.WithMakeCtx(func(ctx context.Context) context.Context {
			if atomic.AddInt32(&calls, 1) == 2 { // the first computation of the second request only: the others must go on
				panic("makeCtx panics")
			}
			return ctx
		}))
	}
	conn := graphql.CreateConnection(ctx, sock, e.schema, opts...)
	if c.PanicIn == "middleware" {
		conn.Use(func(input *graphql.ComputationInput, next graphql.MiddlewareNextFunc) *graphql.ComputationOutput {
			if strings.Contains(input.Query, "boom") {
				panic("middleware panics")
			}
			return next(input)
		})
	}
	served := make(chan string, 1)
	go func() {
		defer func() {
			if x := recover(); x != nil {
				served <- fmt.Sprint(x)
				return
			}
			served <- ""
		}()
		conn.ServeJSONSocket()
	}()
	send := func(s string) bool {
		select {
		case sock.in <- s:
			return true
		case p := <-served:
			served <- p
			return false
		case <-time.After(promptCap):
			return false
		}
	}
	count := func(id, typ string) int {
		n := 0
		for _, m := range sock.messages(id) {
			if m["type"] == typ {
				n++
			}
		}
		return n
	}
	alive := true
	lossy := c.FailWrite > 0 // replies get lost from some point on: only "returns, no panic, no leak" is checked
	waitCap := promptCap
	if lossy {
		waitCap = 30 * time.Millisecond
	}
	note := func(f F) {
		if !lossy {
			fs = append(fs, f)
		}
	}
	healthy := []string{}
	bumps := 0
	hardJunk := false
	for i, st := range c.Script {
		if !alive {
			break
		}
		switch st.Op {
		case "bump":
			// every healthy subscription must have had its first answer before data changes
			for _, id := range healthy {
				if !waitFor(waitCap, func() bool { return count(id, "update") >= 1 }) {
					note(F{"healthy-subscription-silent", fmt.Sprintf("subscription %s got no initial update (step %d)", id, i)})
				}
			}
			before := map[string]int{}
			for _, id := range healthy {
				before[id] = count(id, "update")
			}
			e.live.Bump()
			bumps++
			for _, id := range healthy {
				id := id
				if !waitFor(waitCap, func() bool { return count(id, "update") > before[id] }) {
					note(F{"other-subscription-stopped-after-failing-request", fmt.Sprintf("subscription %s got no update after the data changed", id)})
				}
			}
		case "close":
			close(sock.in)
			alive = false
		case "send":
			if !send(st.Env) {
				note(F{"connection-stopped-reading", fmt.Sprintf("step %d (%s) could not be delivered", i, st.Kind)})
				alive = false
				break
			}
			switch st.Kind {
			case "healthy":
				healthy = append(healthy, st.ID)
				id := st.ID
				if !waitFor(waitCap, func() bool { return count(id, "update") >= 1 }) {
					note(F{"healthy-subscription-silent", fmt.Sprintf("subscription %s got no initial update (step %d)", id, i)})
				}
			case "panic", "mutate-panic":
				id := st.ID
				if !waitFor(waitCap, func() bool { return count(id, "error") >= 1 }) {
					note(F{"failing-request-got-no-error", fmt.Sprintf("request %s (%s) got no error envelope", id, st.Kind)})
					break
				}
				want := "Internal server error"
				if st.Safe != "" {
					want = st.Safe
				}
				for _, m := range sock.messages(id) {
					if m["type"] == "error" && m["message"] != want {
						note(F{"failing-request-error-not-sanitised", fmt.Sprintf("request %s: message %v", id, m["message"])})
					}
					if m["type"] == "update" || m["type"] == "result" {
						note(F{"failing-request-got-data", fmt.Sprintf("request %s: %v", id, m)})
					}
				}
			case "soft-junk":
				id := st.ID
				if !waitFor(waitCap, func() bool { return count(id, "error") >= 1 || count(id, "update") >= 1 }) {
					// a url message with a wrong payload is answered with an error too; anything else silent is a finding
					note(F{"junk-envelope-unanswered", fmt.Sprintf("step %d: %s", i, st.Env)})
				}
			case "echo":
				id := st.ID
				if !waitFor(waitCap, func() bool { return count(id, "echo") >= 1 }) {
					note(F{"connection-stopped-answering", fmt.Sprintf("echo %s unanswered (step %d)", id, i)})
				}
			case "mutate-ok":
				id := st.ID
				if !waitFor(waitCap, func() bool { return count(id, "result") >= 1 }) {
					note(F{"connection-stopped-answering", fmt.Sprintf("mutation %s unanswered (step %d)", id, i)})
				}
			case "hard-junk":
				hardJunk = true
			}
		}
	}
	if alive {
		close(sock.in)
	}
	select {
	case p := <-served:
		if p != "" {
			sig := "serve-json-socket-panic"
			for _, st := range c.Script {
				if strings.Contains(st.Env, "... {") {
					sig = "parse-panic-inline-fragment-without-type-condition"
				}
			}
			fs = []F{{sig, "ServeJSONSocket: " + firstLine(p)}}
		}
	case <-time.After(promptCap):
		fs = append(fs, F{"serve-json-socket-does-not-return", "still running " + promptCap.String() + " after the socket closed"})
	}
	cancel()
	if n, ok := settle(base); !ok {
		fs = append(fs, F{"goroutine-leak:socket", fmt.Sprintf("%d goroutines before, %d after the connection ended", base, n)})
	}
	npanic := 0
	for _, st := range c.Script {
		if st.Kind == "panic" || st.Kind == "mutate-panic" {
			npanic++
		}
	}
	obs["steps"], obs["failing_requests"], obs["hard_junk"], obs["out"] = len(c.Script), npanic, hardJunk, len(sock.out)
	if lossy {
		obs["failed_write"] = c.FailWrite
	}
	return fs, obs
}

// ---- http ----

func (e *env) serveHTTP(ctx context.Context, method string, body io.Reader) (rec *httptest.ResponseRecorder, done chan string) {
	h := graphql.HTTPHandler(e.schema)
	var req *http.Request
	if body == nil {
		req = httptest.NewRequest(method, "/graphql", nil)
		req.Body = nil
	} else {
		req = httptest.NewRequest(method, "/graphql", body)
	}
	req = req.WithContext(ctx)
	rec = httptest.NewRecorder()
	done = make(chan string, 1)
	go func() {
		defer func() {
			if x := recover(); x != nil {
				done <- fmt.Sprint(x)
				return
			}
			done <- ""
		}()
		h.ServeHTTP(rec, req)
	}()
	return rec, done
}

func (e *env) runHTTP(c *Case) ([]F, map[string]interface{}) {
	var fs []F
	obs := map[string]interface{}{}
	base := runtime.NumGoroutine()
	var body io.Reader
	if !c.NilBody {
		body = strings.NewReader(c.Body)
	}
	rec, done := e.serveHTTP(context.Background(), c.Method, body)
	select {
	case p := <-done:
		if p != "" {
			sig := "serve-http-panic"
			if strings.Contains(c.Body, "... {") {
				sig = "parse-panic-inline-fragment-without-type-condition"
			}
			return append(fs, F{sig, firstLine(p)}), obs
		}
	case <-time.After(slowCap):
		return append(fs, F{"serve-http-does-not-return", "no response within " + slowCap.String()}), obs
	}
	var resp struct {
		Data   interface{} `json:"data"`
		Errors []string    `json:"errors"`
	}
	if err := json.Unmarshal(rec.Body.Bytes(), &resp); err != nil {
		fs = append(fs, F{"http-response-not-json", firstLine(rec.Body.String())})
	} else {
		switch c.Expect {
		case "data":
			if len(resp.Errors) > 0 || resp.Data == nil {
				fs = append(fs, F{"http-valid-query-failed", firstLine(strings.Join(resp.Errors, "; "))})
			}
		case "errors":
			if len(resp.Errors) == 0 {
				fs = append(fs, F{"http-failing-request-got-data", firstLine(rec.Body.String())})
			}
		}
		obs["errors"] = len(resp.Errors) > 0
	}
	if n, ok := settle(base); !ok {
		fs = append(fs, F{"goroutine-leak:http", fmt.Sprintf("%d goroutines before, %d after the response", base, n)})
	}
	return fs, obs
}

// ---- cancellation ----

type delayedClient struct {
	inner federation.ExecutorClient
	// waits until the request context is cancelled (the sibling failed) before forwarding
	untilCancelled bool
}

func (d *delayedClient) Execute(ctx context.Context, req *federation.QueryRequest) (*federation.QueryResponse, error) {
	if d.untilCancelled && !isIntrospection(req) {
		select {
		case <-ctx.Done():
		case <-time.After(promptCap):
		}
	}
	return d.inner.Execute(ctx, req)
}

func isIntrospection(req *federation.QueryRequest) bool {
	if req == nil || req.Query == nil || req.Query.SelectionSet == nil {
		return false
	}
	for _, s := range req.Query.SelectionSet.Selections {
		if strings.HasPrefix(s.Name, "__") {
			return true
		}
	}
	return false
}

func fedSchemas() (*schemabuilder.Schema, *schemabuilder.Schema) {
	s1 := schemabuilder.NewSchemaWithName("s1")
	s1.Query().FieldFunc("fail", func(ctx context.Context) (int64, error) { return 0, errors.New("s1 failed") })
	s1.Query().FieldFunc("one", func(ctx context.Context) int64 { return 1 })
	s1.Query().FieldFunc("wait1", slowUnwind)
	s2 := schemabuilder.NewSchemaWithName("s2")
	s2.Query().FieldFunc("two", func(ctx context.Context) int64 { return 2 })
	s2.Query().FieldFunc("wait2", slowUnwind)
	return s1, s2
}

// resolversRunning counts resolvers of the cancellation scripts that have started and not yet returned.
var resolversRunning int64

// slowUnwind waits for its context to be cancelled and then needs a while to return, like a resolver
// that has to finish a database round trip: a request that returns before its resolvers have returned
// leaves goroutines (and the rerunner) behind.
func slowUnwind(ctx context.Context) (int64, error) {
	atomic.AddInt64(&resolversRunning, 1)
	defer atomic.AddInt64(&resolversRunning, -1)
	<-ctx.Done()
	time.Sleep(150 * time.Millisecond)
	return 0, ctx.Err()
}

func (e *env) runCancel(c *Case) ([]F, map[string]interface{}) {
	var fs []F
	obs := map[string]interface{}{}
	bg, stopAll := context.WithCancel(context.Background())
	defer stopAll()

	var start func(ctx context.Context) chan string
	query := "{ a }"
	switch c.Target {
	case "http", "http-samekey":
		if c.When == "during" {
			query = `{ a boom(mode: "wait") }`
		}
		if c.Target == "http-samekey" {
			// Expensive resolutions with equal cache keys: the later ones wait for the first when the request is cancelled
			query = `{ twins { eslow } t2: twins { eslow x } }`
		}
		start = func(ctx context.Context) chan string {
			b, _ := json.Marshal(map[string]interface{}{"query": query})
			_, done := e.serveHTTP(ctx, "POST", bytes.NewReader(b))
			return done
		}
	case "fedserver":
		s1, _ := fedSchemas()
		srv, err := federation.NewServer(s1.MustBuild())
		if err != nil {
			return []F{{"harness-federation-setup", err.Error()}}, obs
		}
		query = "{ one }"
		if c.When == "during" {
			query = "{ one wait1 }"
		}
		pq, err := federation.MarshalQuery(graphql.MustParse(query, nil))
		if err != nil {
			return []F{{"harness-federation-setup", err.Error()}}, obs
		}
		start = func(ctx context.Context) chan string {
			done := make(chan string, 1)
			go func() {
				defer func() {
					if x := recover(); x != nil {
						done <- fmt.Sprint(x)
						return
					}
					done <- ""
				}()
				srv.Execute(ctx, &thunderpb.ExecuteRequest{Query: pq})
			}()
			return done
		}
	case "gateway", "gateway-sibling":
		s1, s2 := fedSchemas()
		execs := map[string]federation.ExecutorClient{}
		for name, s := range map[string]*schemabuilder.Schema{"s1": s1, "s2": s2} {
			srv, err := federation.NewServer(s.MustBuild())
			if err != nil {
				return []F{{"harness-federation-setup", err.Error()}}, obs
			}
			execs[name] = &delayedClient{inner: &federation.DirectExecutorClient{Client: srv}, untilCancelled: c.Target == "gateway-sibling" && name == "s2"}
		}
		gw, err := federation.NewExecutor(bg, execs, &federation.SchemaSyncerConfig{SchemaSyncer: federation.NewIntrospectionSchemaSyncer(bg, execs, nil)})
		if err != nil {
			return []F{{"harness-federation-setup", err.Error()}}, obs
		}
		query = "{ one two }"
		if c.When == "during" {
			query = "{ one two wait2 }"
		}
		if c.Target == "gateway-sibling" {
			query = "{ fail two }"
		}
		pq := graphql.MustParse(query, nil)
		start = func(ctx context.Context) chan string {
			done := make(chan string, 1)
			go func() {
				defer func() {
					if x := recover(); x != nil {
						done <- fmt.Sprint(x)
						return
					}
					done <- ""
				}()
				gw.Execute(ctx, pq, nil)
			}()
			return done
		}
	default:
		return []F{{"harness-unknown-target", c.Target}}, obs
	}

	time.Sleep(5 * time.Millisecond)
	base := runtime.NumGoroutine()
	ctx, cancel := context.WithCancel(bg)
	if c.When == "before" {
		cancel()
	}
	t0 := time.Now()
	done := start(ctx)
	if c.When == "during" && c.Target != "gateway-sibling" {
		time.Sleep(30 * time.Millisecond)
		cancel()
	}
	defer cancel()
	select {
	case p := <-done:
		if p != "" {
			fs = append(fs, F{"cancel-panic:" + c.Target, firstLine(p)})
		}
		obs["returned_ms"] = time.Since(t0).Milliseconds()
		if n := atomic.LoadInt64(&resolversRunning); n > 0 {
			fs = append(fs, F{"request-returned-while-resolver-running:" + c.Target + ":" + c.When,
				fmt.Sprintf("the request returned while %d of its resolvers were still executing (computation goroutine and rerunner left behind)", n)})
		}
	case <-time.After(promptCap):
		sig := "cancelled-request-blocks:" + c.Target + ":" + c.When
		fs = append(fs, F{sig, fmt.Sprintf("request context cancelled %s the first run; still blocked after %s", c.When, promptCap)})
		return fs, obs
	}
	if n, ok := settle(base); !ok {
		fs = append(fs, F{"goroutine-leak:" + c.Target + ":" + c.When, fmt.Sprintf("%d goroutines before the request, %d after it returned", base, n)})
	}
	return fs, obs
}
