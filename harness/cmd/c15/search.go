package main

import (
	"encoding/base64"
	"encoding/json"
	"io/ioutil"
	"strings"

	"verifharness/pkg/gqlty"
	"verifharness/pkg/vh"
)

// Failing-input search (FRAMEWORK.md): model and implementation disagreed on the cases in o.Search (or a
// theorem broke) and the oracle has not failed yet.  Generate o.N variants of those cases - small edits
// of the query text, other variables, one level more or less of a bomb, another step order, another
// cancellation point - or fresh cases when the file is empty, and evaluate the oracle only.
func searchCases(o *vh.Opts) []Case {
	var seeds []Case
	if b, err := ioutil.ReadFile(o.Search); err == nil {
		for _, line := range strings.Split(string(b), "\n") {
			var w struct {
				Case Case `json:"case"`
			}
			if strings.TrimSpace(line) != "" && json.Unmarshal([]byte(line), &w) == nil && w.Case.Stream != "" {
				seeds = append(seeds, w.Case)
			}
		}
	}
	r := vh.NewRng(o.Seed)
	desc := gqlty.Walk(gqlty.BuildSchema15(gqlty.NewLive()).Query)
	var cases []Case
	for i := 0; i < o.N; i++ {
		cr := r.Fork()
		if len(seeds) == 0 {
			switch k := cr.Intn(100); {
			case k < 35:
				cases = append(cases, genBytes(cr))
			case k < 55:
				cases = append(cases, genGrammar(cr))
			case k < 85:
				cases = append(cases, genTyped(cr, desc))
			case k < 90:
				cases = append(cases, genSocket(cr))
			case k < 95:
				cases = append(cases, genHTTP(cr))
			default:
				cases = append(cases, genCancel(cr, cr.Intn(8)))
			}
			cases[len(cases)-1].Origin = "search-fresh"
			continue
		}
		sd := seeds[cr.Intn(len(seeds))]
		c := sd
		c.Origin = "search"
		switch sd.Stream {
		case "bytes", "grammar", "typed":
			q := sd.QueryText()
			for k := 1 + cr.Intn(3); k > 0; k-- {
				q = mutateText(cr, q)
			}
			// executed like the bytes stream: Parse, PrepareQuery, Execute under the no-crash oracle
			c = Case{Stream: "bytes", Exec: true, Origin: "search", Vars: sd.Vars,
				QueryB64: base64.StdEncoding.EncodeToString([]byte(q))}
			if cr.Chance(30) {
				c.Vars = genVarsText(cr)
			}
		case "bomb":
			fam := sd.Family
			if cr.Chance(30) {
				fam = cr.Pick(bombFamilies)
			}
			d := sd.Depth + cr.Intn(5) - 1
			if d < 1 {
				d = 1
			}
			if d > 16 {
				d = 16
			}
			if (fam == "sibling3") && d > 10 {
				d = 10
			}
			c = Case{Stream: "bomb", Family: fam, Depth: d, Query: bombQuery(fam, d), Origin: "search"}
		case "socket":
			c = genSocket(cr)
			// keep some of the seed's steps: splice them in front of the closing steps
			if len(sd.Script) > 2 && len(c.Script) > 2 {
				k := 1 + cr.Intn(len(sd.Script)-2)
				mid := append([]Step{}, sd.Script[1:k+1]...)
				keep := mid[:0]
				for _, st := range mid {
					if st.Op == "send" && st.Kind != "hard-junk" && st.Kind != "healthy" {
						keep = append(keep, st)
					}
				}
				c.Script = append(append(append([]Step{}, c.Script[0]), keep...), c.Script[1:]...)
			}
			c.Origin = "search"
		case "http":
			if sd.Body != "" && cr.Chance(70) {
				c.Body = mutateText(cr, sd.Body)
				c.Expect = "any"
			} else {
				c = genHTTP(cr)
				c.Origin = "search"
			}
		case "cancel":
			c = genCancel(cr, cr.Intn(8))
			c.Origin = "search"
		}
		cases = append(cases, c)
	}
	return cases
}
