// C15: untrusted input never crashes the server, polynomial cost, resolver panics contained, cancelled
// requests return.  Six streams of cases (bytes, grammar, bomb, socket, http, cancel); every case runs in a
// child process of this binary so that a crash of the process is an observation, not the end of the run.
package main

import (
	"fmt"
	"io/ioutil"
	"log"
	"path/filepath"
	"regexp"
	"runtime"
	"strings"
	"time"

	"verifharness/pkg/gqlty"
	"verifharness/pkg/vh"
)

var thunderFrame = regexp.MustCompile(`github\.com/samsarahq/thunder/([A-Za-z0-9_/]+\.[A-Za-z0-9_.()*]+)\(`)

func buildCases(o *vh.Opts) []Case {
	var cases []Case
	if o.Search != "" {
		return searchCases(o)
	}
	if o.Replay != "" {
		var c Case
		if vh.ReadReplayCase(o.Replay, &c) {
			c.Origin = "replay"
			cases = append(cases, c)
		}
		return cases
	}
	for _, f := range vh.CorpusFiles(o.Corpus) {
		var c Case
		if vh.ReadReplayCase(f, &c) {
			c.Origin = "corpus:" + filepath.Base(f)
			cases = append(cases, c)
		}
	}
	r := vh.NewRng(o.Seed)
	desc := gqlty.Walk(gqlty.BuildSchema15(gqlty.NewLive()).Query)
	// fixed families first: bombs of growing depth, then the cancellation scripts
	maxDepth := 13
	if o.Tier == "thorough" {
		maxDepth = 17
	}
	for _, fam := range bombFamilies {
		for d := 1; d <= maxDepth; d += 1 + d/6 {
			dd := d
			if fam == "sibling3" && dd > 10 {
				dd = 10
			}
			cases = append(cases, Case{Stream: "bomb", Family: fam, Depth: dd, Query: bombQuery(fam, dd), Origin: "family"})
		}
		if execFamilies[fam] && fam != "wide" {
			// hostile but small: about 1 KB of text; also executed
			for _, dd := range []int{16, 18, 20, 24} {
				cases = append(cases, Case{Stream: "bomb", Family: fam, Depth: dd, Query: bombQuery(fam, dd), Origin: "family-deep"})
			}
		}
	}
	nFan := 12
	if o.Tier == "thorough" {
		nFan = 120
	}
	for k := 0; k < nFan; k++ {
		cases = append(cases, genFanout(r.Fork()))
	}
	nCancel := 20
	if o.Tier == "thorough" {
		nCancel = 56
	}
	for k := 0; k < nCancel; k++ {
		cases = append(cases, genCancel(r, k))
	}
	for i := 0; i < o.N; i++ {
		cr := r.Fork()
		switch k := cr.Intn(100); {
		case k < 5:
			cases = append(cases, genEnvelope(cr))
		case k < 45:
			cases = append(cases, genBytes(cr))
		case k < 70:
			cases = append(cases, genGrammar(cr))
		case k < 85:
			cases = append(cases, genTyped(cr, desc))
		case k < 90:
			cases = append(cases, genSocket(cr))
		default:
			cases = append(cases, genHTTP(cr))
		}
	}
	return cases
}

func runOne(e *env, c *Case) ([]gqlty.Finding, map[string]interface{}) {
	switch c.Stream {
	case "bytes":
		return e.runText(c, false)
	case "grammar", "typed":
		return e.runText(c, true)
	case "bomb":
		return e.runBomb(c)
	case "fanout":
		return e.runFanout(c)
	case "socket":
		return e.runSocket(c)
	case "envelope":
		return e.runEnvelope(c)
	case "http":
		return e.runHTTP(c)
	case "cancel":
		return e.runCancel(c)
	}
	return []gqlty.Finding{{Sig: "harness-unknown-stream", Detail: c.Stream}}, nil
}

func main() {
	o := vh.ParseFlags()
	cases := buildCases(o)

	if from, to, results, ok := gqlty.IsChild(); ok {
		log.SetOutput(ioutil.Discard) // thunder logs every failing request
		e := newEnv()
		gqlty.ChildLoop(from, to, results, 25*time.Second, func(i int) ([]gqlty.Finding, map[string]interface{}) {
			return runOne(e, &cases[i])
		})
		return
	}

	run := vh.NewRun("C15", o)
	run.Rule = "seven streams: envelope scripts (envelopes of every shape on one connection, each followed by an echo barrier, and HTTP bodies; reactions compared with the model) 5%, bytes (random bytes, token soup, mutated valid queries + random variable maps) 40%, grammar (valid GraphQL incl. unsupported constructs, AST mirrored into Coq) 25%, typed (selection trees that follow the test schema, colliding aliases, fragments, failing resolvers; executed) 15%, socket scripts 5%, http 10%, plus fixed fragment-bomb families and cancellation scripts; non-trivial = the input got past graphql-go's parser (bytes/grammar), or is a bomb/socket/envelope/http/cancel script; distinct by stream + input text"
	workers := runtime.NumCPU() / 2
	if workers > 8 {
		workers = 8
	}
	if workers < 2 {
		workers = 2
	}
	results := gqlty.RunIsolated(len(cases), workers, o.Out, 10*time.Minute)

	e := struct{ desc *gqlty.SchemaDesc }{}
	var terms []string
	for idx := range cases {
		c := &cases[idx]
		run.LogCase(idx, c)
		res := results[idx]
		run.Hist("stream:" + c.Stream)
		if c.Origin != "" {
			run.Hist("origin:" + c.Origin)
		}
		for _, f := range res.Findings {
			sig := f.Sig
			if sig == "process-died" {
				// name the thunder function on top of the crashing goroutine's stack
				if m := thunderFrame.FindStringSubmatch(f.Detail); m != nil {
					sig += ":" + m[1]
				} else if strings.Contains(f.Detail, "stack overflow") || strings.Contains(f.Detail, "goroutine stack exceeds") {
					sig += ":stack-overflow"
				}
			}
			run.Fail(idx, sig, f.Detail, c)
		}
		nontrivial := true
		key := c.Stream + "|" + c.QueryText() + "|" + c.Vars + "|" + c.Body + "|" + c.Target + c.When + fmt.Sprint(c.Script)
		if c.Stream == "bytes" || c.Stream == "grammar" || c.Stream == "typed" {
			syn, _ := res.Obs["syntax_ok"].(bool)
			nontrivial = syn
			if v, ok := res.Obs["verdict"].(string); ok {
				run.Hist("parse:" + v)
			}
			if tl, ok := res.Obs["text_classes"].([]interface{}); ok {
				for _, k := range tl {
					run.Hist(fmt.Sprintf("parse-error-text-class:%d", int(k.(float64))))
				}
			}
			if syn {
				run.Hist("syntax:ok")
			} else {
				run.Hist("syntax:error")
			}
			if p, _ := res.Obs["prepared"].(bool); p {
				run.Hist("prepared:ok")
			}
		}
		run.Count(key, nontrivial)
		if n, ok := res.Obs["envelopes"].(float64); ok {
			run.Histogram["envelopes-compared-with-the-model"] += int(n)
		}
		if c.Stream == "grammar" && len(run.Samples) < 3 && nontrivial {
			run.Sample(map[string]interface{}{"query": c.Query, "vars": c.Vars, "codes": res.Obs["codes"]})
		}
		if c.Stream == "bomb" && c.Depth >= 8 && len(run.Samples) < 5 {
			run.Sample(map[string]interface{}{"family": c.Family, "depth": c.Depth, "obs": res.Obs})
		}
		if t := coqTerm(idx, c, res.Obs); t != "" {
			terms = append(terms, t)
		}
	}
	_ = e

	if o.Search != "" {
		// failing-input search: the oracle only, no model cases
		run.Finish()
		return
	}
	// the schema the model's prepare runs against: what the builder produced for the test schema
	live := gqlty.NewLive()
	sch := gqlty.BuildSchema15(live)
	desc := gqlty.Walk(sch.Query, sch.Mutation)
	prelude := "Definition sch : schema := " + desc.Coq() + ".\n"
	const shard = 250
	for s := 0; s < len(terms); s += shard {
		end := s + shard
		if end > len(terms) {
			end = len(terms)
		}
		run.WriteCasesV(fmt.Sprintf("cases_%d.v", s), []string{"Lib.Json", "GqlTyping.Types", "GqlTyping.Parse", "GqlTyping.Envelope", "GqlTyping.Check15"}, prelude,
			"(mismatches_c15 sch)", 0, terms[s:end])
	}
	run.Finish()
}

func coqTerm(idx int, c *Case, obs map[string]interface{}) string {
	if c.Stream == "envelope" {
		var ts []string
		if t, _ := obs["coq_env"].(string); t != "" {
			ts = append(ts, fmt.Sprintf("(%d, %s)", idx, t))
		}
		if t, _ := obs["coq_http"].(string); t != "" {
			ts = append(ts, fmt.Sprintf("(%d, %s)", idx, t))
		}
		return strings.Join(ts, ";\n")
	}
	term, _ := obs["coq"].(string)
	if term == "" {
		return ""
	}
	switch c.Stream {
	case "grammar", "typed":
		if !gqlty.CoqStringSafe(c.Query) {
			return ""
		}
		vars := "[]"
		if m, ok := decodeVars(c.Vars); ok && m != nil {
			j := vh.CoqJSON(map[string]interface{}(m))
			// (JObj [...]) -> the association list
			vars = j[len("(JObj ") : len(j)-1]
		}
		var codes []string
		if cl, ok := obs["codes"].([]interface{}); ok {
			for _, k := range cl {
				codes = append(codes, fmt.Sprint(int(k.(float64))))
			}
		}
		name, _ := obs["name"].(string)
		kind, _ := obs["kind"].(string)
		flat := "FErr"
		switch st, _ := obs["flat_ok"].(string); st {
		case "ok":
			var xs []string
			if fl, ok := obs["flat"].([]interface{}); ok {
				for _, a := range fl {
					xs = append(xs, vh.CoqString(a.(string)))
				}
			}
			flat = "(FOk " + vh.CoqList(xs) + ")"
		case "panic":
			flat = "FPanic"
		}
		return fmt.Sprintf("(%d, PCase %s %s %s %s %s %s)", idx, term, vars, vh.CoqList(codes), vh.CoqString(name), vh.CoqString(kind), flat)
	case "bomb":
		pv, _ := obs["parse_visits"].(float64)
		qv, _ := obs["prepare_visits"].(float64)
		return fmt.Sprintf("(%d, BCase %s %s %s)", idx, term, vh.CoqZ(int64(pv)), vh.CoqZ(int64(qv)))
	}
	return ""
}
