// Mode "cb": batch.Func.Invoke calls under a real limiter, one atomic operation at a time, replayed through the
// composed model Limiter/ModelBatch.v (limiter operations = CL labels, Invoke's sections = CJoin / CB labels).
//
// Invoke blocks at two places where no hook point stands: the creator's select and a joiner's <-bg.doneCh when its
// context carries no holder.  A goroutine that reaches such a place is "virtually parked": the controller goes on
// with others and knows exactly what wakes it (a MaxSize roll-over, a cancellation or a timer fire it performs
// itself, close(doneCh) by the creator it releases), and waits until it has parked for real before deciding again.
// The Func's timers are set to one hour; "the interval timer fires now" is a decision of the controller (the
// timer of the group is reset to zero through reflection; when the field cannot be found the controller falls
// back to cancellations).
package main

import (
	"context"
	"errors"
	"fmt"
	"reflect"
	"strings"
	"sync"
	"time"
	"unsafe"

	"github.com/samsarahq/thunder/batch"
	"github.com/samsarahq/thunder/concurrencylimiter"
	"verifharness/pkg/panics"
	"verifharness/pkg/sched"
	"verifharness/pkg/vh"
)

type CBSpec struct {
	MaxSize  int      `json:"max_size"`
	Shards   int      `json:"shards"`
	Outcomes []string `json:"outcomes"` // of the k-th call of Many (cycled): ok | err | panic | short | long
	Cancels  int      `json:"cancels"`  // cancellations of a waiting creator the schedule may decide
}

type cbCall struct {
	arg      int
	hid      int // holder of the caller's context in the model (-1: none)
	ctxDead  bool
	ci, gid  int
	bg       interface{}
	creator  bool
	joined   bool
	returned bool
	val      interface{}
	err      error
	panicked interface{}
}

type cbState struct {
	hookMu   sync.Mutex
	evMu     sync.Mutex
	spec     *CBSpec
	fn       *batch.Func
	gids     map[interface{}]int
	creator  map[interface{}]*gstate
	deleted  map[interface{}]bool
	woken    map[interface{}]bool
	closed   map[interface{}]bool // close(doneCh) has happened (the creator was released from its batch.done point)
	final    map[interface{}]bool
	timers   map[interface{}]*time.Timer
	nCallers int
	calls    []*cbCall
	gOutcome map[int]string
	nMany    int
	cancels  int
	timerOK  bool
	pendJoin string // a CJoin event waiting to learn whether the same critical section closed maxSizeCh
	events   []string
}

var errCBUser = errors.New("user")

func cbF(arg int) int { return arg*31 + 7 }

func newCB(e *env, spec *CBSpec) *cbState {
	cb := &cbState{spec: spec, gids: map[interface{}]int{}, creator: map[interface{}]*gstate{}, deleted: map[interface{}]bool{},
		woken: map[interface{}]bool{}, closed: map[interface{}]bool{}, final: map[interface{}]bool{}, timers: map[interface{}]*time.Timer{},
		gOutcome: map[int]string{}, cancels: spec.Cancels, timerOK: true}
	shards := spec.Shards
	if shards < 1 {
		shards = 1
	}
	cb.fn = &batch.Func{
		MaxSize:      spec.MaxSize,
		WaitInterval: time.Hour,
		MaxDuration:  time.Hour,
		Shard:        func(arg interface{}) interface{} { return arg.(int) % shards },
		Many: func(ctx context.Context, args []interface{}) ([]interface{}, error) {
			gs := e.cur()
			cb.hookMu.Lock()
			k := cb.nMany
			cb.nMany++
			out := "ok"
			if len(spec.Outcomes) > 0 {
				out = spec.Outcomes[k%len(spec.Outcomes)]
			}
			gid := 99999
			if gs != nil && gs.cbCall != nil {
				gid = gs.cbCall.gid
			}
			cb.gOutcome[gid] = out
			ints := make([]int, len(args))
			rs := make([]interface{}, len(args))
			rsi := make([]int, len(args))
			for i, a := range args {
				ints[i], _ = a.(int)
				rs[i], rsi[i] = cbF(ints[i]), cbF(ints[i])
			}
			switch out {
			case "short":
				if len(rs) > 0 {
					rs, rsi = rs[:len(rs)-1], rsi[:len(rsi)-1]
				}
			case "long":
				rs, rsi = append(rs, 0), append(rsi, 0)
			}
			o := "(B.ORes " + intList(rsi) + ")"
			switch {
			case out == "err":
				o = "B.OErr"
			case panics.Is(out):
				o = "(B.OPanic B." + panics.Coq(out) + ")"
			}
			if gs != nil && gs.cbCall != nil {
				cb.final[gs.cbCall.bg] = true
			}
			e.cbEmit(fmt.Sprintf("(CB (B.LRun %d %s), OB (B.ObMany 0 %s))", gid, o, intList(ints)))
			e.mu.Lock()
			e.stats["cb-many-"+out]++
			e.mu.Unlock()
			cb.hookMu.Unlock()
			if panics.Is(out) {
				panics.Do(out, len(ints))
			}
			if out == "err" {
				return nil, errCBUser
			}
			return rs, nil
		},
	}
	return cb
}

// cbEmit appends an event of the composed model; a join that has not learnt about a roll-over closes nothing.
func (e *env) cbEmit(ev string) {
	cb := e.cb
	cb.evMu.Lock()
	if cb.pendJoin != "" {
		cb.events = append(cb.events, fmt.Sprintf(cb.pendJoin, false))
		cb.pendJoin = ""
	}
	if ev != "" {
		cb.events = append(cb.events, ev)
	}
	cb.evMu.Unlock()
}

// intervalTimer digs the interval timer out of a *batchGroup.
func intervalTimer(bg interface{}) (t *time.Timer) {
	defer func() {
		if recover() != nil {
			t = nil
		}
	}()
	v := reflect.ValueOf(bg)
	if v.Kind() != reflect.Ptr || v.Elem().Kind() != reflect.Struct {
		return nil
	}
	f := v.Elem().FieldByName("intervalTimer")
	if !f.IsValid() || f.Type() != reflect.TypeOf((*time.Timer)(nil)) {
		return nil
	}
	return reflect.NewAt(f.Type(), unsafe.Pointer(f.UnsafeAddr())).Elem().Interface().(*time.Timer)
}

// cbHook handles the hook points of batch.go (called with cb.hookMu held); true = park here.
func (e *env) cbHook(gs *gstate, point string, a []interface{}) bool {
	cb := e.cb
	if len(a) == 0 {
		return false
	}
	bg := a[0]
	gid := func() int {
		if g, ok := cb.gids[bg]; ok {
			return g
		}
		return 99999
	}
	switch point {
	case "batch.join":
		call := gs.cbCall
		if call == nil || len(a) < 5 {
			e.mirrorOK = false
			return false
		}
		index, _ := a[2].(int)
		existed, _ := a[3].(bool)
		if !existed {
			cb.gids[bg] = len(cb.gids)
			cb.creator[bg] = gs
			if t := intervalTimer(bg); t != nil {
				cb.timers[bg] = t
			} else {
				cb.timerOK = false
			}
		}
		call.gid, call.ci, call.bg, call.creator, call.joined = gid(), cb.nCallers, bg, !existed, true
		cb.nCallers++
		h, code := "None", "None"
		if call.hid >= 0 {
			h = fmt.Sprintf("(Some %d)", call.hid)
		}
		e.cbEmit("")
		if existed {
			tid := e.newThread(0)
			if call.hid >= 0 {
				gs.cbPend, gs.cbPendTid, code = true, tid, "(Some 6)"
			} else {
				gs.cbBare, gs.cbBareTid, code = true, tid, "(Some 13)"
			}
		}
		shards := cb.spec.Shards
		if shards < 1 {
			shards = 1
		}
		cb.evMu.Lock()
		cb.pendJoin = fmt.Sprintf("(CJoin 0 %d %d %v %s, OJ (B.ObJoin %d %d %v %%v) %s)", call.arg, call.arg%shards, !existed && call.ctxDead, h,
			call.gid, index, existed, code)
		cb.evMu.Unlock()
		// a join that fills the group is followed, in the same critical section, by the maxsize point: the goroutine
		// counts as waiting only from there on
		n, _ := a[4].(int)
		fills := cb.spec.MaxSize > 0 && n == cb.spec.MaxSize
		e.mu.Lock()
		switch {
		case !existed:
			gs.vbg, gs.expectWake = bg, call.ctxDead
			if fills {
				gs.vpend = "select"
			} else {
				gs.vpark = "select"
			}
			e.stats["cb-groups"]++
		case call.hid < 0:
			gs.vbg, gs.expectWake, gs.cbWaitBg = bg, false, bg
			if fills {
				gs.vpend = "done"
			} else {
				gs.vpark = "done"
			}
			e.stats["cb-join-without-holder"]++
		default:
			gs.cbWaitBg = bg
			e.stats["cb-join-with-holder"]++
			if c := cb.creator[bg]; c != nil && c.cbCall != nil && c.cbCall.hid == call.hid {
				e.stats["cb-join-sharing-the-creators-holder"]++
			}
			if cb.woken[bg] {
				e.stats["cb-join-after-wake"]++
			}
		}
		e.mu.Unlock()
	case "batch.maxsize":
		cb.evMu.Lock()
		if cb.pendJoin != "" {
			cb.events = append(cb.events, fmt.Sprintf(cb.pendJoin, true))
			cb.pendJoin = ""
		}
		cb.evMu.Unlock()
		e.mu.Lock()
		if c := cb.creator[bg]; c != nil {
			c.expectWake = true
		}
		if gs.vpend != "" {
			gs.vpark, gs.vpend = gs.vpend, ""
		}
		e.stats["cb-maxsize-rollover"]++
		e.mu.Unlock()
	case "batch.wake":
		cause := "B.CInterval"
		if len(a) > 1 {
			s, _ := a[1].(string)
			cause = map[string]string{"interval": "B.CInterval", "maxduration": "B.CMaxDur", "ctxdone": "B.CCtxDone", "maxsize": "B.CMaxSize"}[s]
			e.mu.Lock()
			e.stats["cb-wake-"+s]++
			e.mu.Unlock()
		}
		e.cbEmit(fmt.Sprintf("(CB (B.LWake %d %s), OB B.ObNone)", gid(), cause))
		e.mu.Lock()
		gs.vpark, gs.expectWake = "", false
		cb.woken[bg] = true
		e.mu.Unlock()
		return true
	case "batch.unpublish":
		cb.deleted[bg] = true
	case "batch.unpublished":
		e.cbEmit(fmt.Sprintf("(CB (B.LUnpublish %d), OB (B.ObUnpub %v))", gid(), cb.deleted[bg]))
	case "batch.run":
		return true
	case "batch.cancelled":
		cb.final[bg] = true
		e.cbEmit(fmt.Sprintf("(CB (B.LCancel %d), OB B.ObNone)", gid()))
		e.mu.Lock()
		e.stats["cb-group-cancelled"]++
		e.mu.Unlock()
	case "batch.done":
		return true
	}
	return false
}

func cbRet(v interface{}, err error, outcome string) string {
	switch {
	case err == nil:
		if x, ok := v.(int); ok {
			return fmt.Sprintf("(B.RVal %d)", x)
		}
		return "B.RIndexPanic"
	case errors.Is(err, errCBUser):
		return "(B.RErr B.EUser)"
	case errors.Is(err, context.Canceled):
		return "(B.RErr B.ECtx)"
	}
	switch {
	case panics.Is(outcome):
		return "(B.RErr B.EPanic)"
	case outcome == "short", outcome == "long":
		return "(B.RErr B.EWrongLen)"
	}
	return "B.RIndexPanic"
}

// invoke: one batch.Invoke call of a client program
func (e *env) invoke(gs *gstate, sc scope, op Op) {
	cb := e.cb
	call := &cbCall{arg: op.N, hid: -1, ci: -1, gid: 99999}
	cb.hookMu.Lock()
	if sc.tok != nil {
		if lh, ok := e.hids[sc.tok.ptr]; ok && sc.tok.ptr != nil && lh[0] == 0 {
			call.hid = lh[1]
		} else {
			e.mirrorOK = false
		}
	}
	cb.hookMu.Unlock()
	ictx, cancel := context.WithCancel(sc.ctx)
	defer cancel()
	call.ctxDead = sc.ctx.Err() != nil
	e.mu.Lock()
	gs.cbCall, gs.invCancel = call, cancel
	cb.calls = append(cb.calls, call)
	t := sc.tok
	e.mu.Unlock()
	mark, depth := len(gs.gives), len(gs.stack)
	func() {
		defer func() {
			if p := recover(); p != nil {
				if fmt.Sprintf("%T", p) == "sched.abortT" {
					panic(p)
				}
				call.panicked = p
			}
		}()
		call.val, call.err = cb.fn.Invoke(ictx, call.arg)
	}()
	cb.hookMu.Lock()
	for len(gs.stack) > depth {
		m := gs.stack[len(gs.stack)-1]
		if m.kind == "blk" && m.pf {
			e.emit(m.lid, fmt.Sprintf("LFRet %d", m.tid), 14, -1) // the first CAS had failed: nothing to re-acquire
		} else {
			e.mirrorOK = false
		}
		gs.stack = gs.stack[:len(gs.stack)-1]
	}
	if gs.cbBare {
		e.emit(0, fmt.Sprintf("LFRet %d", gs.cbBareTid), 14, -1)
		gs.cbBare = false
	}
	if gs.cbPend {
		// Invoke joined a group on a context with a holder but never entered block()
		gs.cbPend = false
		e.mirrorOK = false
	}
	if call.joined && call.panicked == nil {
		e.cbEmit(fmt.Sprintf("(CB (B.LReturn %d), OB (B.ObRet %s))", call.ci, cbRet(call.val, call.err, cb.gOutcome[call.gid])))
	}
	call.returned = true
	cb.hookMu.Unlock()
	e.mu.Lock()
	gs.vpark, gs.expectWake, gs.cbCall, gs.invCancel, gs.cbWaitBg = "", false, nil, nil, nil
	e.popGives(gs, mark)
	_ = t
	e.checkCount("after batch.Invoke returned")
	// the property of C05 on this call, directly
	out := cb.gOutcome[call.gid]
	switch {
	case call.panicked != nil:
		e.fail("invoke-panics", fmt.Sprintf("Invoke(%d): %v", call.arg, call.panicked))
	case call.err == nil:
		if x, ok := call.val.(int); !ok || x != cbF(call.arg) || (out != "ok" && out != "") {
			e.fail("batch-invoke-wrong-result", fmt.Sprintf("Invoke(%d) = (%v, %v), Many's outcome for its group: %q", call.arg, call.val, call.err, out))
		}
	case errors.Is(call.err, context.Canceled):
		if c := cb.creator[call.bg]; c == nil || !cb.final[call.bg] || out != "" {
			e.fail("context-error-without-cancellation", fmt.Sprintf("Invoke(%d)", call.arg))
		}
	case errors.Is(call.err, errCBUser):
		if out != "err" {
			e.fail("wrong-error-kind", fmt.Sprintf("Invoke(%d) got Many's error, outcome %q", call.arg, out))
		}
	default:
		if !panics.Is(out) && out != "short" && out != "long" {
			e.fail("wrong-error-kind", fmt.Sprintf("Invoke(%d) got %v, outcome %q", call.arg, call.err, out))
		}
	}
	e.mu.Unlock()
	e.ctl.Park(gs.g, "h.return", nil)
}

// stable: the goroutine will not move until the controller does something
func (e *env) cbStable(g *sched.G) bool {
	parked, done, _ := e.ctl.State(g)
	if parked || done {
		return true
	}
	gs := e.gsOf(g)
	if gs == nil {
		return false
	}
	e.mu.Lock()
	defer e.mu.Unlock()
	return gs.vpark != "" && !gs.expectWake
}

func (e *env) cbSettle() bool {
	deadline := time.Now().Add(3 * time.Second)
	for {
		ok := true
		for _, g := range e.ctl.All() {
			if !e.cbStable(g) {
				ok = false
				break
			}
		}
		if ok {
			return true
		}
		if time.Now().After(deadline) {
			return false
		}
		e.ctl.WaitSig(50 * time.Microsecond)
	}
}

type cbDecision struct {
	kind string // step | fire | cancel
	g    *sched.G
	gs   *gstate
}

func (d cbDecision) code() int {
	switch d.kind {
	case "fire":
		return 1000 + d.g.ID
	case "cancel":
		return 2000 + d.g.ID
	}
	return d.g.ID
}

// runCB: the controller loop of mode cb.  Returns true when every goroutine returned.
func (e *env) runCB() bool {
	cb := e.cb
	root := scope{ctx: e.base, limTag: 0, limCap: e.c.Limit}
	for _, p := range e.c.Progs {
		e.spawn(root, p)
	}
	r := vh.NewRng(e.c.SchedSeed)
	for iter := 0; iter < 5000; iter++ {
		if !e.cbSettle() {
			sig, det := "operation-blocks-unexpectedly", "a goroutine released by the controller neither reached its next hook point nor a known waiting place within 3 s"
			e.mu.Lock()
			for _, x := range e.allGs {
				if x.cbPend {
					sig, det = "batch-waiter-blocks-without-temporary-release", fmt.Sprintf("goroutine %d joined a batch group on a context that carries a holder and waits for the group without having entered TemporarilyRelease: it keeps its token while it waits", x.id)
				}
			}
			e.mu.Unlock()
			e.fail(sig, det)
			return false
		}
		var ds []cbDecision
		alive := false
		for _, g := range e.ctl.All() {
			parked, done, _ := e.ctl.State(g)
			if done {
				continue
			}
			alive = true
			gs := e.gsOf(g)
			if parked {
				if g.Panic != nil {
					e.fail("panic-in-limiter", fmt.Sprint(g.Panic))
					return false
				}
				if e.enabled(g, gs) {
					ds = append(ds, cbDecision{"step", g, gs})
				}
				if gs != nil && g.Point == "batch.wake" {
					e.mu.Lock()
					if cb.cancels > 0 && gs.invCancel != nil && gs.cbCall != nil && !gs.cbCall.ctxDead {
						ds = append(ds, cbDecision{"cancel", g, gs})
					}
					e.mu.Unlock()
				}
				continue
			}
			if gs == nil {
				continue
			}
			e.mu.Lock()
			if gs.vpark == "select" && !gs.expectWake {
				if cb.timers[gs.vbg] != nil {
					ds = append(ds, cbDecision{"fire", g, gs}, cbDecision{"fire", g, gs})
				}
				if gs.invCancel != nil && gs.cbCall != nil && !gs.cbCall.ctxDead && (cb.cancels > 0 || cb.timers[gs.vbg] == nil) {
					ds = append(ds, cbDecision{"cancel", g, gs})
				}
			}
			e.mu.Unlock()
		}
		if !alive {
			return true
		}
		for _, g := range e.ctl.All() {
			if g.Panic != nil {
				e.fail("panic-in-limiter", fmt.Sprint(g.Panic))
				return false
			}
		}
		if len(ds) == 0 {
			// nothing in progress can move: as in mode ctl, cancel a waiting Acquire, else any goroutine may call a
			// holder's release function
			cancelled := false
			for _, g := range e.ctl.All() {
				if parked, _, pt := e.ctl.State(g); parked && pt == "limiter.acquire.select" {
					if gs := e.gsOf(g); gs != nil && gs.acqCtx != nil && gs.acqCtx.Err() == nil && top(gs) != nil {
						gs.acqCancl()
						e.emit(top(gs).lid, fmt.Sprintf("LCancel %d", top(gs).tid), 0, e.lenOf(top(gs).lid))
						e.mu.Lock()
						e.stats["cancel-while-waiting"]++
						e.mu.Unlock()
						cancelled = true
						break
					}
				}
			}
			if cancelled {
				continue
			}
			var t *tok
			e.mu.Lock()
			for _, x := range e.toks {
				if x.acquired && !x.relStarted {
					t = x
					break
				}
			}
			e.mu.Unlock()
			if t == nil {
				e.fail("composed-deadlock", fmt.Sprintf("no goroutine can move, len(ch)=%v, every holder has been released", e.lens()))
				return false
			}
			e.mu.Lock()
			e.stats["forced-release-on-deadlock"]++
			e.mu.Unlock()
			e.spawn(scope{ctx: e.base, rel: t.rel, relTok: t}, []Op{{K: "rel"}})
			continue
		}
		roll := r.U64()
		var d *cbDecision
		if step := len(e.picks); step < len(e.c.Picks) {
			for i := range ds {
				if ds[i].code() == e.c.Picks[step] {
					d = &ds[i]
					break
				}
			}
		}
		if d == nil {
			cand := ds
			if e.c.Hold != "" {
				var nh []cbDecision
				for _, x := range ds {
					if !(x.kind == "step" && x.g.Point == e.c.Hold) {
						nh = append(nh, x)
					}
				}
				if len(nh) > 0 && (roll>>40)%16 != 0 {
					cand = nh
				}
			}
			d = &cand[int((roll>>16)%uint64(len(cand)))]
		}
		e.picks = append(e.picks, d.code())
		if len(ds) > 1 {
			e.mu.Lock()
			e.stats["decisions-with-choice"]++
			e.mu.Unlock()
		}
		switch d.kind {
		case "fire":
			e.mu.Lock()
			d.gs.expectWake = true
			tm := cb.timers[d.gs.vbg]
			e.stats["cb-fired-interval-timer"]++
			e.mu.Unlock()
			tm.Reset(0)
		case "cancel":
			e.mu.Lock()
			cancel := d.gs.invCancel
			if d.gs.vpark == "select" {
				d.gs.expectWake = true
			}
			if d.gs.cbCall != nil {
				d.gs.cbCall.ctxDead = true
			}
			gid := 99999
			if d.gs.cbCall != nil {
				gid = d.gs.cbCall.gid
			}
			cb.cancels--
			e.stats["cb-cancelled-creator"]++
			e.mu.Unlock()
			e.cbEmit(fmt.Sprintf("(CB (B.LCtxCancel %d), OB B.ObNone)", gid))
			cancel()
		default:
			if d.g.Point == "batch.done" && d.gs != nil && d.gs.cbCall != nil {
				// the step is close(doneCh): every caller of the group waiting where no hook stands wakes up
				bg := d.gs.cbCall.bg
				e.cbEmit(fmt.Sprintf("(CB (B.LDone %d), OB B.ObNone)", d.gs.cbCall.gid))
				e.mu.Lock()
				cb.closed[bg] = true
				for _, x := range e.allGs {
					if x.vpark == "done" && x.vbg == bg {
						x.expectWake = true
					}
				}
				e.mu.Unlock()
			}
			e.ctl.Resume(d.g)
		}
	}
	e.fail("schedule-too-long", "5000 decisions")
	return false
}

// ---- generator ----

func genCB(r *vh.Rng) *Case {
	c := &Case{Limit: []int{1, 1, 1, 2, 2, 3}[r.Intn(6)], Mode: "cb", SchedSeed: r.U64() >> 1, Origin: "composed"}
	spec := &CBSpec{MaxSize: []int{0, 0, 1, 2, 2, 3}[r.Intn(6)], Shards: 1 + r.Intn(2), Cancels: []int{0, 0, 1, 2}[r.Intn(4)]}
	for k := 1 + r.Intn(3); k > 0; k-- {
		spec.Outcomes = append(spec.Outcomes, r.Pick([]string{"ok", "ok", "ok", "ok", "ok", "err", "short", "long", "panic", "panic-error", "panic-rt-nilmap", "panic-rt-index", "panic-custom"}))
	}
	c.CB = spec
	nArg := 0
	inv := func() Op { nArg++; return Op{K: "inv", N: nArg} }
	var body func(depth int) []Op
	body = func(depth int) []Op {
		var ops []Op
		for k := 1 + r.Intn(3); k > 0; k-- {
			switch x := r.Intn(100); {
			case x < 45:
				ops = append(ops, inv())
			case x < 55:
				ops = append(ops, Op{K: "work"})
			case x < 75 && depth > 0:
				// a goroutine sharing this context (and holder) that calls Invoke too
				ops = append(ops, Op{K: "go", Body: append([]Op{inv()}, body(0)...)})
			case x < 83:
				ops = append(ops, Op{K: "tr", Body: []Op{inv()}})
			case x < 90:
				ops = append(ops, Op{K: "go", Body: []Op{{K: "rel"}}})
			case x < 95:
				ops = append(ops, Op{K: "tr", Body: []Op{{K: "work"}}})
			default:
				ops = append(ops, Op{K: "rel"}, inv())
			}
		}
		return ops
	}
	ng := 2 + r.Intn(5)
	for i := 0; i < ng; i++ {
		switch x := r.Intn(100); {
		case x < 12:
			// callers on the base context: no holder
			c.Progs = append(c.Progs, append([]Op{inv()}, Op{K: "work"}))
		case x < 18:
			c.Progs = append(c.Progs, []Op{{K: "acq", Mode: "cancelled", Body: []Op{inv()}}})
		default:
			op := Op{K: "acq", Body: body(1)}
			if r.Chance(10) {
				op.Leak = true
			}
			c.Progs = append(c.Progs, []Op{op})
		}
	}
	if r.Chance(40) {
		c.Hold = r.Pick([]string{"limiter.block.cas2", "limiter.block.reacquire", "limiter.block.recv", "limiter.block.cas", "batch.wake",
			"batch.run", "batch.done", "limiter.block.f", "h.return"})
	}
	return c
}

// scripted: limit 1, the holder's goroutine creates a group, siblings sharing its context and other holders join,
// everyone waits with the token given up, the group ends in every way Invoke can end
func genCBScript(r *vh.Rng) *Case {
	c := &Case{Limit: 1 + r.Intn(2), Mode: "cb", SchedSeed: r.U64() >> 1, Origin: "composed-script"}
	out := r.Pick([]string{"ok", "err", "panic", "panic-rt-nilptr", "panic-rt-assert", "short", "long"})
	c.CB = &CBSpec{MaxSize: []int{0, 3, 4}[r.Intn(3)], Shards: 1, Outcomes: []string{out}, Cancels: r.Intn(2)}
	c.Progs = append(c.Progs, []Op{{K: "acq", Body: []Op{
		{K: "go", Body: []Op{{K: "inv", N: 2}, {K: "work"}}},
		{K: "inv", N: 1}, {K: "work"}}}})
	for i := 0; i < 1+r.Intn(3); i++ {
		c.Progs = append(c.Progs, []Op{{K: "acq", Body: []Op{{K: "inv", N: 3 + i}, {K: "work"}}}})
	}
	if r.Chance(40) {
		c.Progs = append(c.Progs, []Op{{K: "inv", N: 9}})
	}
	c.Hold = r.Pick([]string{"batch.wake", "batch.run", "batch.done", ""})
	return c
}

func cbNontrivial(e *env) bool {
	return e.stats["cb-join-with-holder"]+e.stats["cb-join-without-holder"] > 0 && e.stats["block-gave-up-token"] > 0
}

var _ = strings.HasPrefix
var _ = concurrencylimiter.Acquire
