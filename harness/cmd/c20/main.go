// C20: concurrency limiter.  Generates client programs (Acquire / release / TemporarilyRelease /
// go / cancellation) and schedules, runs them against the instrumented implementation
// (verifhook points in concurrencylimiter.go), evaluates the property directly (oracle) and writes
// the observed atomic operations as Coq events for Limiter/Model.v to replay.
package main

import (
	"context"
	"encoding/json"
	"fmt"
	"io/ioutil"
	"path/filepath"
	"strings"
	"sync"
	"sync/atomic"
	"time"

	"github.com/samsarahq/thunder/batch"
	"github.com/samsarahq/thunder/concurrencylimiter"
	"github.com/samsarahq/thunder/verifhook"
	"verifharness/pkg/sched"
	"verifharness/pkg/vh"
)

// ---- cases ----

type Op struct {
	K     string `json:"k"`               // acq | rel | tr | go | work | with (N = limit of a nested limiter) | batch (N callers of batch.Invoke on the shared context; free mode) | inv (batch.Invoke with argument N on the scope's context; mode cb)
	Mode  string `json:"mode,omitempty"`  // acq: "" | cancelled (ctx cancelled before the call) | nolimiter | cancel-later
	Leak  bool   `json:"leak,omitempty"`  // acq: the body's end does not call release
	Panic bool   `json:"panic,omitempty"` // tr: f panics at its end; the panic is recovered around TemporarilyRelease and the goroutine goes on
	N     int    `json:"n,omitempty"`     // rel / end of acq: number of calls of the release function (default 1)
	Body  []Op   `json:"body,omitempty"`
}

type Case struct {
	Limit     int          `json:"limit"`
	Progs     [][]Op       `json:"progs"`
	Mode      string       `json:"mode"`            // ctl (one atomic operation at a time) | free (Go scheduler) | cb (ctl + batch.Invoke calls, replayed through the composed model Limiter/ModelBatch.v)
	CB        *CBSpec      `json:"cb,omitempty"`    // mode cb: the batch function
	Picks     []int        `json:"picks,omitempty"` // ctl: goroutine to run at decision k (ignored when not enabled)
	Hold      string       `json:"hold,omitempty"`  // ctl: goroutines parked at this point run only when nothing else can
	SchedSeed uint64       `json:"sched_seed"`
	Holds     []sched.Hold `json:"holds,omitempty"`   // free
	Perturb   int          `json:"perturb,omitempty"` // free
	Origin    string       `json:"origin,omitempty"`
}

// ---- execution environment of one case ----

type limInfo struct {
	ptr interface{}
	tag int // which With call of the client program made it (0 = the base limiter)
	cap int
	ctx context.Context // a context whose innermost limiter this is
}

type tok struct {
	id         int
	lid        int
	acquired   bool
	relStarted bool
	giving     int // TemporarilyRelease calls on this holder that gave the token up and have not returned to the client yet
	batchDepth int // batch.Invoke fan-outs on this holder's context in progress (their waiters' TemporarilyRelease calls are not wrapped)
	ptr        interface{}
	rel        func()
}

type mth struct { // mirror of one model thread
	tid  int
	lid  int    // limiter (component of the multi-limiter model)
	kind string // acq | rel | blk
	hid  int
	pend string // the operation it is parked before
	pf   bool   // block thread running f without having given up a token
}

type gstate struct {
	id         int
	g          *sched.G
	stack      []*mth
	acqCtx     context.Context
	acqCancl   context.CancelFunc
	acqRes     int  // result of the last Acquire: 0 none yet, 1 acquired, 2 cancelled, 3 no limiter
	acqLater   bool // the seed may cancel this Acquire while it waits
	blkSeen    bool
	lastPoint  string
	acqLid     int  // limiter of the Acquire in progress
	acqTag     int  // harness-side name of the limiter the context of that Acquire resolves to
	acqCid     int  // model index of the context Acquire was called with
	newCid     int  // model index of the context the Acquire in progress returned (set when it took a token)
	trCid      int  // model index of the context of the TemporarilyRelease being entered
	trTok      *tok // holder that call is expected to act on (innermost holder of its context)
	trArmed    bool // that call has not reached block() yet
	trK        bool // the block() call being entered is the client's TemporarilyRelease on context trCid
	fPanic     bool // the function passed to TemporarilyRelease is unwinding by panic
	lastHolder interface{}
	gives      []*tok

	// mode cb
	vpark      string      // "" | select (creator waiting for a trigger) | done (joiner without holder waiting for doneCh): blocked inside Invoke where no hook point stands
	vpend      string      // becomes vpark at the maxsize point that follows its join
	vbg        interface{} // its group
	expectWake bool        // something has happened that wakes it
	cbPend     bool        // the next limiter.block.cas is the TemporarilyRelease call of Invoke; its model thread exists already
	cbPendTid  int
	cbBare     bool // joined on a context without holder: model thread cbBareTid runs f as it is
	cbBareTid  int
	cbWaitBg   interface{} // group whose doneCh the goroutine waits for
	cbCall     *cbCall
	invCancel  context.CancelFunc
}

type scope struct {
	cid    int // index of ctx among the contexts of Limiter/ModelChain.v: 0 base, 1 no limiter, then in creation order
	limTag int // innermost limiter of ctx: 0 base, k > 0 the k-th With executed, -1 none
	limCap int
	ctx    context.Context
	tok    *tok // holder TemporarilyRelease(ctx) acts on
	rel    func()
	relTok *tok // token rel releases (nil: no-op release function)
}

type env struct {
	c     *Case
	fixed bool
	base  context.Context
	nolim context.Context // a context without limiter (with its own batch context)
	ctl   *sched.Ctl
	free  *sched.Free
	wg    sync.WaitGroup

	mu       sync.Mutex
	gs       map[int64]*gstate
	nG       int
	toks     []*tok
	over     bool
	maxSet   bool
	maxRun   int // max over time and limiters of (goroutines in critical sections - limit)
	overWhat string

	// model mirror (ctl mode)
	lims     []*limInfo
	events   []string
	nThreads []int
	nHolders []int
	hids     map[interface{}][2]int // holder -> (limiter, holder index)
	bf       *batch.Func
	nBatch   int32
	nWith    int
	tokByPtr map[interface{}]*tok
	stats    map[string]int
	points   map[string]bool
	mirrorOK bool
	picks    []int
	failSig  string
	failDet  string
	allGs    []*gstate
	cb       *cbState
	nCtx     int // contexts created so far (model numbering)
}

func (e *env) cur() *gstate {
	id := sched.Goid()
	e.mu.Lock()
	defer e.mu.Unlock()
	return e.gs[id]
}

func (e *env) register(g *sched.G) *gstate {
	id := sched.Goid()
	e.mu.Lock()
	defer e.mu.Unlock()
	gs := &gstate{id: e.nG, g: g}
	e.nG++
	e.gs[id] = gs
	e.allGs = append(e.allGs, gs)
	return gs
}

func (e *env) unregister() {
	id := sched.Goid()
	e.mu.Lock()
	delete(e.gs, id)
	e.mu.Unlock()
}

// oracle counter: holders returned by Acquire whose release function has not been called and whose token is not
// given up: no TemporarilyRelease call that gave the token up (seen at the point before its receive) is still
// on its way back to its caller.  A goroutine that has returned from the TemporarilyRelease in which the token
// was given up is inside its critical section again, whatever siblings sharing its context are doing.
// Called with e.mu held.
func (e *env) checkCount(where string) {
	ns := make([]int, len(e.lims))
	for _, t := range e.toks {
		if t.acquired && !t.relStarted && t.giving == 0 && t.batchDepth == 0 && t.lid < len(ns) {
			ns[t.lid]++
		}
	}
	for lid, n := range ns {
		if d := n - e.lims[lid].cap; d > e.maxRun || !e.maxSet {
			e.maxRun, e.maxSet = d, true
		}
		if n > e.lims[lid].cap && !e.over {
			e.over = true
			e.overWhat = fmt.Sprintf("%d goroutines inside their critical sections with limit %d (limiter %d, %s)", n, e.lims[lid].cap, lid, where)
		}
	}
}

// lidOf returns the component index of the limiter behind ptr, registering it on first sight. e.mu held.
func (e *env) lidOf(ptr interface{}, capacity int, ctx context.Context, tag int) int {
	if ptr != nil {
		for i, l := range e.lims {
			if l.ptr == ptr {
				return i
			}
		}
	}
	for i, l := range e.lims {
		if l.tag == tag && (l.ptr == nil || ptr == nil) {
			if l.ptr == nil {
				l.ptr = ptr
			}
			return i
		}
	}
	if ctx != nil {
		ctx = context.WithoutCancel(ctx) // the probes at quiescence must not see a cancellation of the client's context
	}
	e.lims = append(e.lims, &limInfo{ptr: ptr, tag: tag, cap: capacity, ctx: ctx})
	e.nThreads = append(e.nThreads, 0)
	e.nHolders = append(e.nHolders, 0)
	return len(e.lims) - 1
}

func (e *env) lenOf(lid int) int {
	n, _, _ := concurrencylimiter.VerifLen(e.lims[lid].ctx)
	return n
}

func (e *env) lens() []int {
	out := make([]int, len(e.lims))
	for i := range e.lims {
		out[i] = e.lenOf(i)
	}
	return out
}

// ---- interpreter of client programs ----

func (e *env) spawn(sc scope, body []Op) {
	if e.ctl != nil {
		e.ctl.Go(func(g *sched.G) {
			gs := e.register(g)
			defer e.unregister()
			e.runOps(gs, sc, body)
		})
		return
	}
	e.wg.Add(1)
	e.mu.Lock()
	lid := e.nG // logical id is fixed by the parent, at spawn time
	e.mu.Unlock()
	go func() {
		defer e.wg.Done()
		gs := e.register(nil)
		_ = lid
		e.free.Register(gs.id)
		defer e.free.Unregister()
		defer e.unregister()
		defer func() {
			if p := recover(); p != nil {
				e.mu.Lock()
				e.failSig, e.failDet = "panic-in-limiter", fmt.Sprint(p)
				e.mu.Unlock()
			}
		}()
		e.runOps(gs, sc, body)
	}()
}

func (e *env) runOps(gs *gstate, sc scope, ops []Op) {
	for _, op := range ops {
		switch op.K {
		case "work":
			if e.ctl != nil {
				e.ctl.Park(gs.g, "work", nil)
			} else {
				e.free.Handler("work")
			}
		case "rel":
			if sc.rel != nil {
				for i := 0; i < maxi(1, op.N); i++ {
					e.release(sc)
				}
			}
		case "tr":
			e.tempRelease(gs, sc, op.Body, op.Panic)
		case "go":
			e.spawn(sc, op.Body)
		case "acq":
			e.acquire(gs, sc, op)
		case "with":
			nsc := sc
			nsc.ctx = concurrencylimiter.With(sc.ctx, op.N)
			e.mu.Lock()
			e.stats["nested-with"]++
			e.nWith++
			nsc.limTag, nsc.limCap = e.nWith, op.N
			// limiters are numbered in creation order (the order of Limiter/ModelChain.v): register it now
			if lid := e.lidOf(nil, op.N, nsc.ctx, e.nWith); lid != e.nWith {
				e.mirrorOK = false
			}
			nsc.cid = e.nCtx
			e.nCtx++
			e.mu.Unlock()
			if e.ctl != nil && e.cb == nil {
				e.emitK(fmt.Sprintf("KWith %d %d", sc.cid, op.N), 0, -1)
			}
			e.runOps(gs, nsc, op.Body)
		case "batch":
			if e.ctl == nil {
				e.batchOp(sc, maxi(2, op.N))
			}
		case "inv":
			if e.cb != nil {
				e.invoke(gs, sc, op)
			}
		}
	}
}

// batchOp: n goroutines call batch.Func.Invoke on the shared context sc.ctx, as resolvers sharing a request
// context do.  All but the group's creator wait inside TemporarilyRelease on the shared holder.  For the
// oracle the whole operation counts as a temporary release of that holder.
func (e *env) batchOp(sc scope, n int) {
	t := sc.tok
	e.mu.Lock()
	if t != nil {
		t.batchDepth++
	}
	e.stats["batch-invoke-on-shared-context"]++
	e.mu.Unlock()
	var wg sync.WaitGroup
	for i := 0; i < n; i++ {
		wg.Add(1)
		arg := int(atomic.AddInt32(&e.nBatch, 1))
		go func() {
			defer wg.Done()
			gs := e.register(nil)
			e.free.Register(gs.id)
			defer e.free.Unregister()
			defer e.unregister()
			defer func() {
				if p := recover(); p != nil {
					e.mu.Lock()
					e.fail("panic-in-limiter", fmt.Sprint(p))
					e.mu.Unlock()
				}
				e.mu.Lock()
				e.popGives(gs, 0)
				e.mu.Unlock()
			}()
			v, err := e.bf.Invoke(sc.ctx, arg)
			if err == context.Canceled {
				return // the creator's (shared) context was cancelled: the documented outcome
			}
			if x, ok := v.(int); err != nil || !ok || x != arg+1000 {
				e.mu.Lock()
				e.fail("batch-invoke-wrong-result", fmt.Sprintf("Invoke(%d) = (%v, %v)", arg, v, err))
				e.mu.Unlock()
			}
		}()
	}
	wg.Wait()
	e.mu.Lock()
	if t != nil {
		t.batchDepth--
		e.checkCount("after batch.Invoke calls on the shared context returned")
	}
	e.mu.Unlock()
}

// observe: what the oracle learns from the hook points (both modes).  e.mu held.
func (e *env) observe(gs *gstate, point string, args []interface{}) {
	switch point {
	case "limiter.acquire.acquired":
		gs.lastHolder = args[0]
	case "limiter.block.recv":
		if t := e.tokByPtr[args[0]]; t != nil {
			t.giving++
			gs.gives = append(gs.gives, t)
		}
	case "limiter.block.cas":
		// TemporarilyRelease acts on the innermost holder of its context
		gs.trK = gs.trArmed
		if gs.trArmed {
			gs.trArmed = false
			switch {
			case gs.trTok == nil:
				e.fail("temporary-release-on-another-holder-than-the-innermost", "TemporarilyRelease on a context without holder entered block() on some holder")
			case gs.trTok.ptr != nil && gs.trTok.ptr != args[0]:
				e.fail("temporary-release-on-another-holder-than-the-innermost", fmt.Sprintf("TemporarilyRelease on a context whose innermost holder is holder %d entered block() on another holder", gs.trTok.id))
			}
		}
	}
}

// popGives: the TemporarilyRelease calls of gs that gave a token up, beyond mark, have returned.  e.mu held.
func (e *env) popGives(gs *gstate, mark int) {
	for len(gs.gives) > mark {
		t := gs.gives[len(gs.gives)-1]
		gs.gives = gs.gives[:len(gs.gives)-1]
		t.giving--
	}
}

func maxi(a, b int) int {
	if a > b {
		return a
	}
	return b
}

func (e *env) acquire(gs *gstate, sc scope, op Op) {
	ctx := sc.ctx
	outer := sc.tok
	limTag, limCap := sc.limTag, sc.limCap
	cid := sc.cid
	if op.Mode == "nolimiter" {
		ctx = e.nolim
		outer = nil
		limTag, limCap = -1, 0
		cid = 1
	}
	cctx, cancel := context.WithCancel(ctx)
	if op.Mode == "cancelled" {
		cancel()
	}
	e.mu.Lock()
	gs.acqCtx, gs.acqCancl, gs.acqRes, gs.acqLater, gs.acqTag = cctx, cancel, 0, op.Mode == "cancel-later", limTag
	gs.acqCid, gs.newCid = cid, cid
	e.mu.Unlock()
	nctx, rel := concurrencylimiter.Acquire(cctx)
	live := cctx.Err() == nil
	e.mu.Lock()
	res := gs.acqRes
	gs.acqCtx, gs.acqCancl = nil, nil
	lid := gs.acqLid
	if res == 1 && limTag >= 0 && lid < len(e.lims) && e.lims[lid].tag != limTag {
		// the property's "limiter on a context" is the innermost one: an inner With shadows the outer
		e.fail("acquire-used-another-limiter-than-the-innermost", fmt.Sprintf("Acquire on a context whose innermost limiter is number %d (limit %d) took a token of limiter number %d (limit %d)",
			limTag, limCap, e.lims[lid].tag, e.lims[lid].cap))
	}
	if res != 1 && limTag >= 0 && live {
		// Acquire returned on a live context that has a limiter, so the caller is between Acquire and release and
		// counts against that limiter - although no token was seen being taken
		res = 1
		lid = e.lidOf(nil, limCap, cctx, limTag)
		e.stats["acquire-returned-without-taking-a-token"]++
		e.mirrorOK = false
	}
	e.mu.Unlock()
	nsc := scope{ctx: nctx, tok: outer, rel: rel, limTag: limTag, limCap: limCap, cid: gs.newCid}
	if res == 1 {
		e.mu.Lock()
		t := &tok{id: len(e.toks), lid: lid, acquired: true, rel: rel}
		if gs.acqRes == 1 && gs.lastHolder != nil {
			t.ptr = gs.lastHolder
			e.tokByPtr[t.ptr] = t
			gs.lastHolder = nil
		}
		e.toks = append(e.toks, t)
		e.checkCount("after Acquire returned")
		e.mu.Unlock()
		nsc.tok, nsc.relTok = t, t
	}
	e.runOps(gs, nsc, op.Body)
	if !op.Leak {
		for i := 0; i < maxi(1, op.N); i++ {
			e.release(nsc)
		}
	}
}

func (e *env) release(sc scope) {
	if sc.relTok != nil {
		e.mu.Lock()
		sc.relTok.relStarted = true
		e.mu.Unlock()
	}
	sc.rel()
}

type boomT struct{}

func (e *env) tempRelease(gs *gstate, sc scope, body []Op, panics bool) {
	mark := len(gs.gives)
	depth := len(gs.stack)
	gs.blkSeen = false
	gs.trCid, gs.trTok, gs.trArmed = sc.cid, sc.tok, true
	func() {
		defer func() {
			// the client recovers its own panic around TemporarilyRelease and goes on; anything else propagates
			if p := recover(); p != nil {
				if _, ok := p.(boomT); !ok {
					panic(p)
				}
			}
		}()
		concurrencylimiter.TemporarilyRelease(sc.ctx, func() {
			if e.ctl != nil && !gs.blkSeen {
				// context without holder: block() was not entered
				tid := e.newThread(0)
				gs.stack = append(gs.stack, &mth{tid: tid, lid: 0, kind: "blk", pf: true, hid: -1})
				if e.cb != nil {
					e.emit(0, "LNewBlock None", 13, -1)
				} else {
					e.emitK(fmt.Sprintf("KBlock %d", gs.trCid), 13, -1)
				}
				e.stats["tr-no-holder"]++
			}
			if gs.trArmed {
				// block() was not entered: the context must not carry a holder
				gs.trArmed = false
				if gs.trTok != nil && gs.trTok.ptr != nil {
					e.mu.Lock()
					e.fail("temporary-release-on-another-holder-than-the-innermost", "TemporarilyRelease on a context that carries a holder ran f without looking at that holder")
					e.mu.Unlock()
				}
			}
			gs.blkSeen = false
			e.runOps(gs, sc, body)
			if panics {
				e.mu.Lock()
				e.stats["panic-in-f"]++
				e.mu.Unlock()
				gs.fPanic = true
				panic(boomT{})
			}
		})
	}()
	if e.ctl != nil {
		for len(gs.stack) > depth {
			m := gs.stack[len(gs.stack)-1]
			if m.kind == "blk" && m.pf {
				// f ended in a block() call that had nothing to re-acquire
				e.emit(m.lid, fmt.Sprintf("%s %d", map[bool]string{false: "LFRet", true: "LFPanic"}[gs.fPanic], m.tid), 14, -1)
			} else {
				// block() returned (or unwound) without going through its re-acquire
				e.mirrorOK = false
			}
			gs.stack = gs.stack[:len(gs.stack)-1]
		}
	}
	gs.fPanic = false
	e.mu.Lock()
	e.popGives(gs, mark)
	e.checkCount("after TemporarilyRelease returned")
	e.mu.Unlock()
}

// ---- model mirror: turns hook arrivals into labels of Limiter/Model.v (ctl mode only) ----

func (e *env) newThread(lid int) int {
	if e.cb != nil {
		e.cb.evMu.Lock()
		defer e.cb.evMu.Unlock()
	}
	t := e.nThreads[lid]
	e.nThreads[lid]++
	return t
}

func (e *env) emit(lid int, label string, code int, length int) {
	l := "None"
	if length >= 0 {
		l = fmt.Sprintf("(Some %d)", length)
	}
	if e.cb != nil {
		if lid != 0 {
			e.mirrorOK = false
		}
		e.cbEmit(fmt.Sprintf("(CL (L.%s), OL %d %s)", label, code, l))
		return
	}
	e.events = append(e.events, fmt.Sprintf("(KOp %d (%s), %d, %s)", lid, label, code, l))
}

// emitK: a client label of Limiter/ModelChain.v that names a context (the model resolves it)
func (e *env) emitK(klabel string, code int, length int) {
	l := "None"
	if length >= 0 {
		l = fmt.Sprintf("(Some %d)", length)
	}
	if e.cb != nil {
		e.mirrorOK = false // mode cb has one limiter and no context labels
		return
	}
	e.events = append(e.events, fmt.Sprintf("(%s, %d, %s)", klabel, code, l))
}

func top(gs *gstate) *mth {
	if len(gs.stack) == 0 {
		return nil
	}
	return gs.stack[len(gs.stack)-1]
}

// parkPoints: the hook points that stand before an atomic operation.
var parkPoints = map[string]bool{
	"limiter.acquire.select": true, "limiter.release.swap": true, "limiter.release.recv": true,
	"limiter.block.cas": true, "limiter.block.recv": true, "limiter.block.reacquire": true,
	"limiter.block.send": true, "limiter.block.cas2": true, "limiter.block.giveback": true,
}

func (e *env) hookCtl(point string, args ...interface{}) {
	gs := e.cur()
	if gs == nil || e.ctl.Aborted() {
		return
	}
	if e.cb != nil {
		// goroutines woken from inside Invoke (a creator leaving its select, callers returning after doneCh was
		// closed) run beside the goroutine the controller released: one hook at a time
		e.cb.hookMu.Lock()
	}
	e.points[point] = true
	e.mu.Lock()
	e.observe(gs, point, args)
	e.mu.Unlock()
	length := -1
	if len(args) >= 2 {
		if n, ok := args[1].(int); ok {
			length = n
		}
	}
	bad := func() { e.mirrorOK = false }
	m := top(gs)
	switch point {
	case "limiter.acquire.nolimiter":
		tid := e.newThread(0)
		if e.cb != nil {
			e.emit(0, "LNewAcquire false false", 0, -1)
		} else {
			e.emitK(fmt.Sprintf("KAcquire %d false", gs.acqCid), 0, -1)
		}
		e.emit(0, fmt.Sprintf("LAcqNoLimiter %d", tid), 2, -1)
		gs.acqRes = 3
		e.stats["acquire-nolimiter"]++
	case "limiter.acquire.select":
		capacity, _ := args[2].(int)
		e.mu.Lock()
		lid := e.lidOf(args[0], capacity, gs.acqCtx, gs.acqTag)
		gs.acqLid = lid
		e.mu.Unlock()
		tid := e.newThread(lid)
		cancelled := gs.acqCtx != nil && gs.acqCtx.Err() != nil
		gs.stack = append(gs.stack, &mth{tid: tid, lid: lid, kind: "acq", pend: "select"})
		if e.cb != nil {
			e.emit(lid, fmt.Sprintf("LNewAcquire true %v", cancelled), 0, length)
		} else {
			e.emitK(fmt.Sprintf("KAcquire %d %v", gs.acqCid, cancelled), 0, length)
		}
		if cancelled {
			e.stats["acquire-on-cancelled-ctx"]++
		}
	case "limiter.acquire.acquired":
		if m == nil || m.kind != "acq" {
			bad()
			break
		}
		e.hids[args[0]] = [2]int{m.lid, e.nHolders[m.lid]}
		e.nHolders[m.lid]++
		e.emit(m.lid, fmt.Sprintf("LAcqSend %d", m.tid), 1, length)
		gs.stack = gs.stack[:len(gs.stack)-1]
		gs.acqRes = 1
		// Acquire returns a new context: the one it was called with plus the holder
		e.mu.Lock()
		gs.newCid = e.nCtx
		e.nCtx++
		e.mu.Unlock()
	case "limiter.acquire.cancelled":
		if m == nil || m.kind != "acq" {
			bad()
			break
		}
		e.emit(m.lid, fmt.Sprintf("LAcqCtxDone %d", m.tid), 2, length)
		gs.stack = gs.stack[:len(gs.stack)-1]
		gs.acqRes = 2
		e.stats["acquire-returned-on-ctx-done"]++
	case "limiter.release.swap":
		lh, ok := e.hids[args[0]]
		if !ok {
			bad()
			break
		}
		lid, hid := lh[0], lh[1]
		tid := e.newThread(lid)
		gs.stack = append(gs.stack, &mth{tid: tid, lid: lid, kind: "rel", hid: hid, pend: "swap"})
		e.emit(lid, fmt.Sprintf("LNewRelease %d", hid), 3, length)
	case "limiter.release.recv":
		if m == nil || m.kind != "rel" || m.pend != "swap" {
			bad()
			break
		}
		e.emit(m.lid, fmt.Sprintf("LRelSwap %d", m.tid), 4, length)
		m.pend = "recv"
	case "limiter.release.done":
		if m == nil || m.kind != "rel" {
			bad()
			break
		}
		if m.pend == "swap" {
			e.emit(m.lid, fmt.Sprintf("LRelSwap %d", m.tid), 5, length)
			e.stats["release-found-not-acquired"]++
		} else {
			e.emit(m.lid, fmt.Sprintf("LRelRecv %d", m.tid), 5, length)
		}
		gs.stack = gs.stack[:len(gs.stack)-1]
	case "limiter.block.cas":
		lh, ok := e.hids[args[0]]
		if !ok {
			bad()
			break
		}
		lid, hid := lh[0], lh[1]
		if gs.cbPend {
			// the TemporarilyRelease call of batch.Invoke: the composed model created its thread at the join
			gs.cbPend = false
			if gs.cbCall == nil || gs.cbCall.hid != hid || lid != 0 {
				bad()
			}
			gs.stack = append(gs.stack, &mth{tid: gs.cbPendTid, lid: lid, kind: "blk", hid: hid, pend: "cas"})
			gs.blkSeen = true
			break
		}
		tid := e.newThread(lid)
		gs.stack = append(gs.stack, &mth{tid: tid, lid: lid, kind: "blk", hid: hid, pend: "cas"})
		gs.blkSeen = true
		if e.cb != nil || !gs.trK {
			if e.cb == nil {
				bad() // a block() call the client program did not make
			}
			e.emit(lid, fmt.Sprintf("LNewBlock (Some %d)", hid), 6, length)
		} else {
			e.emitK(fmt.Sprintf("KBlock %d", gs.trCid), 6, length)
		}
	case "limiter.block.recv":
		if m == nil || m.kind != "blk" || m.pend != "cas" {
			bad()
			break
		}
		e.emit(m.lid, fmt.Sprintf("LBlkCas %d", m.tid), 7, length)
		m.pend = "recv"
	case "limiter.block.f":
		if m == nil || m.kind != "blk" {
			bad()
			break
		}
		if m.pend == "cas" {
			e.emit(m.lid, fmt.Sprintf("LBlkCas %d", m.tid), 13, length)
			m.pf = true
			e.stats["block-cas-failed"]++
		} else if m.pend == "recv" {
			e.emit(m.lid, fmt.Sprintf("LBlkRecv %d", m.tid), 8, length)
			e.stats["block-gave-up-token"]++
		} else {
			bad()
		}
		m.pend = "f"
	case "limiter.block.reacquire":
		if m == nil || m.kind != "blk" || m.pend != "f" || m.pf {
			bad()
			break
		}
		if gs.fPanic {
			e.emit(m.lid, fmt.Sprintf("LFPanic %d", m.tid), 9, length)
			gs.fPanic = false
		} else {
			e.emit(m.lid, fmt.Sprintf("LFRet %d", m.tid), 9, length)
		}
		m.pend = "re1"
	case "limiter.block.send": // original order: CAS succeeded, now the send
		if m == nil || m.kind != "blk" || m.pend != "re1" {
			bad()
			break
		}
		e.emit(m.lid, fmt.Sprintf("LBlkCas2 %d", m.tid), 12, length)
		m.pend = "send"
	case "limiter.block.cas2": // repaired order: sent, now the CAS
		if m == nil || m.kind != "blk" || m.pend != "re1" {
			bad()
			break
		}
		e.emit(m.lid, fmt.Sprintf("LBlkSend %d", m.tid), 10, length)
		m.pend = "cas2"
	case "limiter.block.giveback":
		if m == nil || m.kind != "blk" || m.pend != "cas2" {
			bad()
			break
		}
		e.emit(m.lid, fmt.Sprintf("LBlkCas2 %d", m.tid), 11, length)
		m.pend = "giveback"
		e.stats["reacquire-cas-failed"]++
	case "limiter.block.done":
		if m == nil || m.kind != "blk" {
			bad()
			break
		}
		switch m.pend {
		case "re1": // original order, CAS failed
			e.emit(m.lid, fmt.Sprintf("LBlkCas2 %d", m.tid), 14, length)
			e.stats["reacquire-cas-failed"]++
		case "send":
			e.emit(m.lid, fmt.Sprintf("LBlkSend %d", m.tid), 14, length)
		case "cas2":
			e.emit(m.lid, fmt.Sprintf("LBlkCas2 %d", m.tid), 14, length)
		case "giveback":
			e.emit(m.lid, fmt.Sprintf("LBlkGiveBack %d", m.tid), 14, length)
		default:
			bad()
		}
		gs.stack = gs.stack[:len(gs.stack)-1]
	}
	park := parkPoints[point]
	if e.cb != nil {
		if strings.HasPrefix(point, "batch.") {
			park = e.cbHook(gs, point, args)
		} else if point == "limiter.block.f" && gs.cbWaitBg != nil {
			park = true // f is <-bg.doneCh
		}
		e.cb.hookMu.Unlock()
	}
	if park {
		e.ctl.Park(gs.g, point, args)
	}
}

// enabled: can the goroutine parked at g.Point perform its next atomic operation without blocking?
func (e *env) enabled(g *sched.G, gs *gstate) bool {
	if gs == nil || top(gs) == nil {
		return true
	}
	lid := top(gs).lid
	n, limit := e.lenOf(lid), e.lims[lid].cap
	switch g.Point {
	case "limiter.acquire.select":
		return n < limit || (gs.acqCtx != nil && gs.acqCtx.Err() != nil)
	case "limiter.release.recv", "limiter.block.recv", "limiter.block.giveback":
		return n > 0
	case "limiter.block.send":
		return n < limit
	case "limiter.block.reacquire":
		if e.fixed {
			return n < limit
		}
		return true
	case "limiter.block.f":
		if e.cb != nil && gs.cbWaitBg != nil {
			e.mu.Lock()
			defer e.mu.Unlock()
			return e.cb.closed[gs.cbWaitBg]
		}
	}
	return true
}

func (e *env) gsOf(g *sched.G) *gstate {
	e.mu.Lock()
	defer e.mu.Unlock()
	for _, gs := range e.allGs {
		if gs.g == g {
			return gs
		}
	}
	return nil
}

func (e *env) fail(sig, det string) {
	if e.failSig == "" {
		e.failSig, e.failDet = sig, det
	}
}

// runCtl: the controller loop.  Returns true when every goroutine returned.
func (e *env) runCtl() bool {
	root := scope{ctx: e.base, limTag: 0, limCap: e.c.Limit}
	for _, p := range e.c.Progs {
		e.spawn(root, p)
	}
	r := vh.NewRng(e.c.SchedSeed)
	for iter := 0; iter < 5000; iter++ {
		parked := e.ctl.ParkedGs()
		if len(parked) == 0 {
			return !e.ctl.Alive()
		}
		var en []*sched.G
		for _, g := range parked {
			if e.enabled(g, e.gsOf(g)) {
				en = append(en, g)
			}
		}
		roll := r.U64()
		// cancellation of a waiting Acquire: when nothing can run, or (cancel-later) by the seed
		var waiting []*sched.G
		for _, g := range parked {
			if g.Point == "limiter.acquire.select" {
				if gs := e.gsOf(g); gs != nil && gs.acqCtx.Err() == nil {
					waiting = append(waiting, g)
				}
			}
		}
		var later []*sched.G
		for _, g := range waiting {
			if e.gsOf(g).acqLater {
				later = append(later, g)
			}
		}
		if len(en) > 0 && len(later) > 0 && roll%100 < 15 {
			waiting = later
		}
		if len(waiting) > 0 && (len(en) == 0 || (len(later) > 0 && roll%100 < 15)) {
			g := waiting[int((roll>>8)%uint64(len(waiting)))]
			gs := e.gsOf(g)
			gs.acqCancl()
			e.emit(top(gs).lid, fmt.Sprintf("LCancel %d", top(gs).tid), 0, e.lenOf(top(gs).lid))
			e.stats["cancel-while-waiting"]++
			continue
		}
		if len(en) == 0 {
			// every goroutine waits for room in the channel (or, never legitimately, for a token): any
			// goroutine may call the release function of a holder at any time, so do that
			var t *tok
			e.mu.Lock()
			for _, x := range e.toks {
				if x.acquired && !x.relStarted {
					t = x
					break
				}
			}
			e.mu.Unlock()
			for _, g := range parked {
				if g.Point == "limiter.release.recv" || g.Point == "limiter.block.recv" || g.Point == "limiter.block.giveback" {
					e.fail("receive-blocks-token-lost", fmt.Sprintf("goroutine %d waits at %s with an empty channel and nothing else can run", g.ID, g.Point))
					return false
				}
			}
			if t == nil {
				e.fail("deadlock-channel-full-no-holder", fmt.Sprintf("%d goroutines wait for room, len(ch)=%v, but every holder has been released", len(parked), e.lens()))
				return false
			}
			e.stats["forced-release-on-deadlock"]++
			e.spawn(scope{ctx: e.base, rel: t.rel, relTok: t}, []Op{{K: "rel"}})
			continue
		}
		var g *sched.G
		if step := len(e.picks); step < len(e.c.Picks) {
			for _, x := range en {
				if x.ID == e.c.Picks[step] {
					g = x
				}
			}
		}
		if g == nil {
			cand := en
			if e.c.Hold != "" {
				var nh []*sched.G
				for _, x := range en {
					if x.Point != e.c.Hold {
						nh = append(nh, x)
					}
				}
				if len(nh) > 0 && (roll>>40)%16 != 0 {
					cand = nh
				}
			}
			g = cand[int((roll>>16)%uint64(len(cand)))]
		}
		e.picks = append(e.picks, g.ID)
		if g.Point != "start" && g.Point != "work" && len(en) > 1 {
			e.stats["decisions-with-choice"]++
		}
		if !e.ctl.Step(g, 3*time.Second) {
			e.fail("operation-blocks-unexpectedly", fmt.Sprintf("goroutine %d released from %s did not reach its next point", g.ID, g.Point))
			return false
		}
		if g.Panic != nil {
			e.fail("panic-in-limiter", fmt.Sprint(g.Panic))
			return false
		}
	}
	e.fail("schedule-too-long", "5000 decisions")
	return false
}

// ---- free mode ----

func (e *env) hookFree(point string, args ...interface{}) {
	if gs := e.cur(); gs != nil {
		e.mu.Lock()
		e.observe(gs, point, args)
		switch point {
		case "limiter.acquire.select":
			capacity, _ := args[2].(int)
			gs.acqLid = e.lidOf(args[0], capacity, gs.acqCtx, gs.acqTag)
		case "limiter.acquire.acquired":
			gs.acqRes = 1
		case "limiter.acquire.cancelled":
			gs.acqRes = 2
			e.stats["acquire-returned-on-ctx-done"]++
		case "limiter.acquire.nolimiter":
			gs.acqRes = 3
		case "limiter.block.f":
			if gs.lastPoint == "limiter.block.cas" {
				e.stats["block-cas-failed"]++
			} else {
				e.stats["block-gave-up-token"]++
			}
		case "limiter.release.done":
			if gs.lastPoint == "limiter.release.swap" {
				e.stats["release-found-not-acquired"]++
			}
		case "limiter.block.giveback":
			e.stats["reacquire-cas-failed"]++
		case "limiter.block.done":
			if gs.lastPoint == "limiter.block.reacquire" {
				e.stats["reacquire-cas-failed"]++
			}
		}
		if point != "work" {
			gs.lastPoint = point
		}
		e.points[point] = true
		e.mu.Unlock()
	}
	e.free.Handler(point, args...)
}

// runFree: real goroutines; a watchdog resolves client-level waits the same way the controller does.
func (e *env) runFree() bool {
	root := scope{ctx: e.base, limTag: 0, limCap: e.c.Limit}
	for _, p := range e.c.Progs {
		e.spawn(root, p)
	}
	done := make(chan struct{})
	go func() { e.wg.Wait(); close(done) }()
	last, idle := -1, 0
	for {
		select {
		case <-done:
			return true
		case <-time.After(2 * time.Millisecond):
		}
		n := e.free.NumEvents()
		if n != last {
			last, idle = n, 0
			continue
		}
		idle++
		if idle < 3 {
			continue
		}
		// no progress for a while: cancel waiting Acquires, then call release functions
		acted := false
		e.mu.Lock()
		for _, gs := range e.allGs {
			if gs.acqCancl != nil && gs.acqCtx != nil && gs.acqCtx.Err() == nil {
				gs.acqCancl()
				e.stats["cancel-while-waiting"]++
				acted = true
			}
		}
		var t *tok
		if !acted {
			for _, x := range e.toks {
				if x.acquired && !x.relStarted {
					t = x
					break
				}
			}
			if t != nil {
				t.relStarted = true
			}
		}
		e.mu.Unlock()
		if t != nil {
			e.stats["forced-release-on-deadlock"]++
			rel := t.rel
			e.wg.Add(1)
			go func() { defer e.wg.Done(); rel() }()
			acted = true
		}
		if !acted && idle > 1500 {
			e.fail("goroutine-never-returns", fmt.Sprintf("no progress for 3 s, len(ch)=%v, every Acquire cancelled and every holder released", e.lens()))
			return false
		}
		if acted {
			idle = 0
		}
	}
}

// ---- one case ----

type result struct {
	quiescent bool
	finalLens []int
	free      []int // nil: not measured
	env       *env
}

func intList(xs []int) string {
	ss := make([]string, len(xs))
	for i, x := range xs {
		ss[i] = fmt.Sprint(x)
	}
	return "[" + strings.Join(ss, "; ") + "]"
}

func runCase(c *Case, fixed bool) *result {
	e := &env{c: c, fixed: fixed, gs: map[int64]*gstate{}, hids: map[interface{}][2]int{}, tokByPtr: map[interface{}]*tok{}, stats: map[string]int{},
		points: map[string]bool{}, mirrorOK: true}
	e.nCtx = 2
	e.base = batch.WithBatching(concurrencylimiter.With(context.Background(), c.Limit))
	e.nolim = batch.WithBatching(context.Background())
	e.bf = &batch.Func{
		Many: func(ctx context.Context, args []interface{}) ([]interface{}, error) {
			out := make([]interface{}, len(args))
			for i, a := range args {
				out[i] = a.(int) + 1000
			}
			return out, nil
		},
		WaitInterval: 50 * time.Microsecond, MaxDuration: 500 * time.Microsecond,
	}
	// the base limiter is component 0; its identity is learnt at the first select point of an Acquire on it
	e.lidOf(nil, c.Limit, e.base, 0)
	res := &result{env: e}
	if c.Mode == "free" {
		e.free = sched.NewFree(c.SchedSeed, c.Perturb, append([]sched.Hold{}, c.Holds...))
		verifhook.Set(e.hookFree)
		res.quiescent = e.runFree()
	} else if c.Mode == "cb" {
		spec := c.CB
		if spec == nil {
			spec = &CBSpec{}
		}
		e.cb = newCB(e, spec)
		e.ctl = sched.NewCtl()
		verifhook.Set(e.hookCtl)
		res.quiescent = e.runCB()
		e.cbEmit("")
	} else {
		e.ctl = sched.NewCtl()
		verifhook.Set(e.hookCtl)
		res.quiescent = e.runCtl()
	}
	res.finalLens = e.lens()
	if !res.quiescent {
		if e.failSig == "" {
			e.fail("goroutine-never-returns", "some goroutine did not return")
		}
		if e.ctl != nil {
			e.ctl.Abort()
		}
		verifhook.Set(nil)
		return res
	}
	// quiescence: call every release function not called yet, then the full capacity of every limiter must be
	// obtainable without blocking
	acquired := 0
	verifhook.Set(func(point string, args ...interface{}) {
		if point == "limiter.acquire.acquired" {
			acquired++
		}
	})
	for _, t := range e.toks {
		if t.acquired && !t.relStarted {
			t.relStarted = true
			relDone := make(chan struct{})
			go func() { t.rel(); close(relDone) }()
			select {
			case <-relDone:
			case <-time.After(2 * time.Second):
				e.fail("receive-blocks-token-lost", fmt.Sprintf("release of holder %d blocks at quiescence", t.id))
				verifhook.Set(nil)
				return res
			}
		}
	}
	for lid, l := range e.lims {
		acquired = 0
		before := e.lenOf(lid)
		for i := 0; i < l.cap; i++ {
			ctx, cancel := context.WithTimeout(l.ctx, 30*time.Millisecond)
			concurrencylimiter.Acquire(ctx)
			cancel()
			if acquired != i+1 {
				break
			}
		}
		res.free = append(res.free, acquired)
		if acquired != l.cap {
			e.fail("capacity-lost-at-quiescence", fmt.Sprintf("every holder released and every call returned, but only %d of %d tokens of limiter %d can be acquired (len(ch) was %d)", acquired, l.cap, lid, before))
		}
	}
	verifhook.Set(nil)
	if e.over {
		e.fail("over-admission", e.overWhat)
	}
	return res
}

// ---- generators ----

var bodyKinds = []string{"work", "work", "tr", "tr", "tr", "go-rel", "go-tr", "go-acq", "rel", "acq", "go-work",
	"work", "work", "tr", "tr", "tr", "go-rel", "go-tr", "go-acq", "rel", "acq", "go-work", "with", "with", "batch"}

func genBody(r *vh.Rng, depth int, budget *int) []Op {
	var ops []Op
	n := 1 + r.Intn(3)
	for i := 0; i < n && *budget > 0; i++ {
		*budget--
		switch r.Pick(bodyKinds) {
		case "work":
			ops = append(ops, Op{K: "work"})
		case "tr":
			var b []Op
			if depth > 0 && r.Chance(70) {
				b = genBody(r, depth-1, budget)
			} else {
				b = []Op{{K: "work"}}
			}
			if r.Chance(15) {
				// f panics, the client recovers and keeps working inside its critical section
				ops = append(ops, Op{K: "tr", Body: b, Panic: true}, Op{K: "work"})
			} else {
				ops = append(ops, Op{K: "tr", Body: b})
			}
		case "go-rel":
			ops = append(ops, Op{K: "go", Body: []Op{{K: "rel", N: 1 + r.Intn(2)}}})
		case "go-tr":
			ops = append(ops, Op{K: "go", Body: []Op{{K: "tr", Body: []Op{{K: "work"}}}}})
		case "go-work":
			ops = append(ops, Op{K: "go", Body: []Op{{K: "work"}, {K: "tr", Body: []Op{{K: "work"}}}}})
		case "go-acq":
			ops = append(ops, Op{K: "go", Body: []Op{genAcq(r, depth-1, budget)}})
		case "rel":
			ops = append(ops, Op{K: "rel", N: 1 + r.Intn(3)})
		case "with":
			// a nested limiter: Acquire inside uses it, TemporarilyRelease still finds the outer holder
			b := []Op{genAcq(r, depth-1, budget)}
			if r.Chance(50) {
				b = append([]Op{{K: "tr", Body: []Op{{K: "work"}}}}, b...)
			}
			ops = append(ops, Op{K: "with", N: r.Intn(3), Body: b})
		case "batch":
			ops = append(ops, Op{K: "batch", N: 2 + r.Intn(3)})
		case "acq":
			if depth > 0 {
				ops = append(ops, genAcq(r, depth-1, budget))
			} else {
				ops = append(ops, Op{K: "work"})
			}
		}
	}
	return ops
}

func genAcq(r *vh.Rng, depth int, budget *int) Op {
	op := Op{K: "acq"}
	switch k := r.Intn(100); {
	case k < 8:
		op.Mode = "cancelled"
	case k < 12:
		op.Mode = "nolimiter"
	case k < 24:
		op.Mode = "cancel-later"
	}
	if r.Chance(10) {
		op.Leak = true
	} else if r.Chance(25) {
		op.N = 2 + r.Intn(2)
	}
	if depth < 0 {
		depth = 0
	}
	op.Body = genBody(r, depth, budget)
	return op
}

func genCase(r *vh.Rng) *Case {
	c := &Case{Limit: []int{0, 1, 1, 1, 1, 1, 2, 2, 2, 2, 2, 3, 3, 3, 4, 4}[r.Intn(16)], Mode: "ctl", SchedSeed: r.U64() >> 1, Origin: "random"}
	ng := 1 + r.Intn(8)
	budget := 10 + r.Intn(14)
	for i := 0; i < ng; i++ {
		var p []Op
		k := 1 + r.Intn(2)
		for j := 0; j < k; j++ {
			if r.Chance(6) {
				// TemporarilyRelease on a context without holder
				p = append(p, Op{K: "tr", Body: []Op{{K: "work"}}})
			}
			b := budget/ng + 1
			p = append(p, genAcq(r, 2, &b))
		}
		c.Progs = append(c.Progs, p)
	}
	if r.Chance(22) {
		// the same kind of program under the real Go scheduler, with seeded perturbation and holds
		c.Mode, c.Origin = "free", "random-free"
		c.Perturb = 10 + r.Intn(50)
		pts := []string{"limiter.block.send", "limiter.block.cas2", "limiter.block.reacquire", "limiter.release.recv", "limiter.block.recv",
			"limiter.release.swap", "limiter.block.giveback", "limiter.block.cas", "limiter.acquire.select", "limiter.acquire.acquired",
			"limiter.release.done", "limiter.block.done", "work"}
		for k := r.Intn(3); k > 0; k-- {
			c.Holds = append(c.Holds, sched.Hold{Point: r.Pick(pts), UntilPoint: r.Pick(pts), UntilCount: 1 + r.Intn(3),
				Arrived: r.Chance(30), TimeoutUs: 200 + r.Intn(800)})
		}
		return c
	}
	if r.Chance(55) {
		c.Hold = r.Pick([]string{"limiter.block.send", "limiter.block.cas2", "limiter.block.reacquire", "limiter.release.recv",
			"limiter.block.recv", "limiter.release.swap", "limiter.block.giveback", "limiter.block.cas"})
		c.Origin = "random+hold"
	}
	return c
}

// witness family of the model's refutation trace (DESIGN F11), generalised: limit L, L-1 goroutines that
// simply hold a token, and the four goroutines of the witness.  The picks force: H acquires, enters
// TemporarilyRelease, G2 acquires inside, H's f returns and H performs the first operation of its re-acquire,
// then H's release function is called by another goroutine, then G3 acquires.
func genWitness(r *vh.Rng) *Case {
	L := 1 + r.Intn(3)
	c := &Case{Limit: L, Mode: "ctl", SchedSeed: r.U64() >> 1, Origin: "witness-f11"}
	for i := 0; i < L-1; i++ {
		c.Progs = append(c.Progs, []Op{{K: "acq", Body: []Op{{K: "work"}, {K: "work"}, {K: "work"}}}})
	}
	h := L - 1
	g3 := L
	c.Progs = append(c.Progs,
		[]Op{{K: "acq", Leak: true, Body: []Op{
			{K: "go", Body: []Op{{K: "rel"}}},
			{K: "tr", Body: []Op{{K: "go", Body: []Op{{K: "acq", Body: []Op{{K: "work"}, {K: "work"}}}}}}},
			{K: "work"},
		}}},
		[]Op{{K: "acq", Body: []Op{{K: "work"}, {K: "work"}}}})
	r1 := L + 1 // go{rel}
	g2 := L + 2 // go{acq}
	var picks []int
	for i := 0; i < L-1; i++ {
		picks = append(picks, i, i) // start -> select, send -> work
	}
	picks = append(picks, h, h, h, h) // select; send..block.cas; cas; recv..f..block.reacquire
	picks = append(picks, g2, g2)     // G2 acquires, sits in work
	picks = append(picks, h)          // first operation of the re-acquire
	picks = append(picks, r1, r1, r1) // release of H: swap, (recv)
	picks = append(picks, g3, g3)     // G3
	c.Picks = picks
	return c
}

// shared holder: the owner and goroutines started with its context are inside TemporarilyRelease at the same time,
// come back in different orders and keep working, while a third party wants the token
func genSharedTR(r *vh.Rng) *Case {
	L := 1 + r.Intn(2)
	c := &Case{Limit: L, Mode: "ctl", SchedSeed: r.U64() >> 1, Origin: "shared-holder-tr"}
	works := func(n int) []Op {
		var o []Op
		for i := 0; i < n; i++ {
			o = append(o, Op{K: "work"})
		}
		return o
	}
	var body []Op
	for k := 1 + r.Intn(2); k > 0; k-- {
		body = append(body, Op{K: "go", Body: append([]Op{{K: "tr", Body: works(1 + r.Intn(3))}}, works(r.Intn(2))...)})
	}
	body = append(body, Op{K: "tr", Body: works(1 + r.Intn(2))})
	body = append(body, works(2+r.Intn(2))...)
	if r.Chance(30) {
		body = append(body, Op{K: "tr", Body: works(1)}, Op{K: "work"})
	}
	c.Progs = append(c.Progs, []Op{{K: "acq", Body: body}})
	for k := L + r.Intn(2); k > 0; k-- {
		c.Progs = append(c.Progs, []Op{{K: "acq", Body: works(1 + r.Intn(2))}})
	}
	if r.Chance(25) {
		c.Mode, c.Perturb = "free", 20+r.Intn(40)
	}
	return c
}

// the same witness under the real scheduler, forced by holds instead of picks
func genWitnessFree(r *vh.Rng) *Case {
	L := 1 + r.Intn(3)
	c := &Case{Limit: L, Mode: "free", SchedSeed: r.U64() >> 1, Origin: "witness-f11-free", Perturb: r.Intn(20)}
	for i := 0; i < L-1; i++ {
		c.Progs = append(c.Progs, []Op{{K: "acq", Body: []Op{{K: "work"}}}})
	}
	c.Progs = append(c.Progs, []Op{{K: "acq", Leak: true, Body: []Op{
		{K: "go", Body: []Op{{K: "rel"}, {K: "acq", Body: []Op{{K: "work"}}}}},
		{K: "tr", Body: []Op{{K: "go", Body: []Op{{K: "acq", Body: []Op{{K: "work"}}}}}}},
	}}})
	to := 20000
	c.Holds = []sched.Hold{
		{Point: "limiter.block.reacquire", UntilPoint: "limiter.acquire.acquired", UntilCount: L + 1, TimeoutUs: to},
		{Point: "limiter.release.swap", UntilPoint: "limiter.block.send", UntilCount: 1, Arrived: true, TimeoutUs: to},
		{Point: "limiter.block.send", UntilPoint: "limiter.release.done", UntilCount: 1, TimeoutUs: to},
		{Point: "work", UntilPoint: "limiter.acquire.acquired", UntilCount: L + 2, TimeoutUs: to},
	}
	return c
}

// ---- failing-input search: small edits of a case on which model and implementation disagreed ----

var holdChoices = []string{"limiter.block.send", "limiter.block.cas2", "limiter.block.reacquire", "limiter.release.recv",
	"limiter.block.recv", "limiter.release.swap", "limiter.block.giveback", "limiter.block.cas", "limiter.acquire.select"}

func cloneCase(c *Case) *Case {
	b, _ := json.Marshal(c)
	var d Case
	json.Unmarshal(b, &d)
	return &d
}

func variant(r *vh.Rng, seed *Case) *Case {
	c := cloneCase(seed)
	c.Origin = "search"
	c.SchedSeed = r.U64() >> 1
	if c.Mode == "" {
		c.Mode = "ctl"
	}
	// other schedule picks: keep a prefix of the recorded picks, the seed decides the rest
	if len(c.Picks) > 0 {
		c.Picks = c.Picks[:r.Intn(len(c.Picks)+1)]
	}
	small := []Op{{K: "go", Body: []Op{{K: "rel"}}}, {K: "tr", Body: []Op{{K: "work"}}}, {K: "go", Body: []Op{{K: "tr", Body: []Op{{K: "work"}}}}},
		{K: "rel"}, {K: "work"}, {K: "go", Body: []Op{{K: "acq", Body: []Op{{K: "work"}}}}}, {K: "tr", Body: []Op{{K: "rel"}, {K: "tr", Body: []Op{{K: "work"}}}}}}
	for k := r.Intn(4); k > 0; k-- {
		switch r.Intn(7) {
		case 0: // another hold point
			c.Hold = r.Pick(holdChoices)
		case 1:
			c.Hold = ""
		case 2: // one more goroutine
			if len(c.Progs) > 0 && r.Chance(50) {
				c.Progs = append(c.Progs, cloneCase(&Case{Progs: [][]Op{c.Progs[r.Intn(len(c.Progs))]}}).Progs[0])
			} else {
				c.Progs = append(c.Progs, []Op{{K: "acq", Body: []Op{{K: "work"}, small[r.Intn(len(small))]}}})
			}
		case 3: // one more operation inside some critical section
			if len(c.Progs) > 0 {
				p := c.Progs[r.Intn(len(c.Progs))]
				for i := range p {
					if p[i].K == "acq" {
						at := r.Intn(len(p[i].Body) + 1)
						b := append([]Op{}, p[i].Body[:at]...)
						b = append(b, small[r.Intn(len(small))])
						p[i].Body = append(b, p[i].Body[at:]...)
						break
					}
				}
			}
		case 4:
			if r.Chance(50) {
				c.Limit = maxi(0, c.Limit+r.Intn(3)-1)
			} else if len(c.Progs) > 0 { // a forgotten / repeated release
				p := c.Progs[r.Intn(len(c.Progs))]
				for i := range p {
					if p[i].K == "acq" {
						p[i].Leak = !p[i].Leak
						p[i].N = r.Intn(3)
						break
					}
				}
			}
		case 5: // the same program under the real scheduler, with holds
			c.Mode, c.Picks, c.Perturb = "free", nil, 10+r.Intn(50)
			c.Holds = []sched.Hold{{Point: r.Pick(holdChoices), UntilPoint: r.Pick(append(holdChoices, "limiter.release.done", "limiter.acquire.acquired")),
				UntilCount: 1 + r.Intn(3), Arrived: r.Chance(40), TimeoutUs: 300 + r.Intn(3000)}}
		default:
			c.Mode, c.Holds = "ctl", nil
		}
	}
	return c
}

// ---- main ----

func probeFixed() (bool, map[string]bool) {
	c := &Case{Limit: 1, Mode: "ctl", Progs: [][]Op{{{K: "acq", Body: []Op{{K: "tr", Body: []Op{{K: "work"}}}}}}}}
	// the probe must not assume either order: try "original" enabledness first (CAS always enabled)
	res := runCase(c, false)
	return !res.env.points["limiter.block.send"], res.env.points
}

func main() {
	o := vh.ParseFlags()
	run := vh.NewRun("C20", o)
	run.Rule = "client programs: 1-8 goroutines, limit 0-4, Acquire (plain / cancelled ctx / no limiter / cancelled while waiting), nested Acquire, TemporarilyRelease (nested, duplicate from a second goroutine, without holder), release (repeated, early, from another goroutine, during a temporary release), forgotten release; schedules: one atomic operation at a time chosen by seed, with a hold point (55%) and scripted witness schedules; non-trivial = at least 2 goroutines, at least 12 model events and at least one contended outcome (a CAS that failed, a release that found the holder not acquired, a cancellation, a forced wait); distinct by program+picks"
	r := vh.NewRng(o.Seed)

	fixed, pts := probeFixed()
	if !pts["limiter.block.cas"] && !pts["limiter.acquire.select"] && !pts["limiter.release.swap"] {
		run.Fail(-1, "hooks-missing", "the limiter's verifhook points were not reached; is C20-hooks.patch applied?", nil)
		run.Finish()
		return
	}
	run.Extra = map[string]interface{}{"reacquire_order": map[bool]string{true: "send-then-CAS (repaired)", false: "CAS-then-send (original)"}[fixed]}

	var cases []*Case
	searching := o.Search != ""
	if searching {
		var seeds []*Case
		if b, err := ioutil.ReadFile(o.Search); err == nil {
			for _, line := range strings.Split(string(b), "\n") {
				var w struct {
					Case *Case `json:"case"`
				}
				if strings.TrimSpace(line) != "" && json.Unmarshal([]byte(line), &w) == nil && w.Case != nil && len(w.Case.Progs) > 0 {
					seeds = append(seeds, w.Case)
				}
			}
		}
		for i := 0; i < o.N; i++ {
			cr := r.Fork()
			if len(seeds) > 0 {
				cases = append(cases, variant(cr, seeds[i%len(seeds)]))
			} else {
				cases = append(cases, genCase(cr))
			}
		}
	} else if o.Replay != "" {
		var c Case
		if vh.ReadReplayCase(o.Replay, &c) {
			c.Origin = "replay"
			cases = append(cases, &c)
		}
	} else {
		for _, f := range vh.CorpusFiles(o.Corpus) {
			var c Case
			if vh.ReadReplayCase(f, &c) {
				c.Origin = "corpus:" + filepath.Base(f)
				cases = append(cases, &c)
			}
		}
		for i := 0; i < o.N; i++ {
			cr := r.Fork()
			switch k := cr.Intn(100); {
			case k < 7:
				cases = append(cases, genWitness(cr))
			case k < 10:
				cases = append(cases, genWitnessFree(cr))
			case k < 18:
				cases = append(cases, genSharedTR(cr))
			case k < 27:
				cases = append(cases, genCB(cr))
			case k < 30:
				cases = append(cases, genCBScript(cr))
			default:
				cases = append(cases, genCase(cr))
			}
		}
	}

	var cterms []string
	cstart := 0
	cflush := func() {
		if len(cterms) == 0 {
			return
		}
		run.WriteCasesV(fmt.Sprintf("ccases_%d.v", cstart), []string{"Limiter.ModelBatch"}, "", "cmismatches_from_sparse", 0, cterms)
		cterms = nil
	}
	var terms []string
	start := 0
	const shard = 150
	flush := func() {
		if len(terms) == 0 {
			return
		}
		run.WriteCasesV(fmt.Sprintf("cases_%d.v", start), []string{"Limiter.Model", "Limiter.ModelMulti", "Limiter.ModelChain"}, "", "kmismatches_from_sparse", 0, terms)
		terms = nil
	}
	nFail := 0
	for idx, c := range cases {
		if nFail >= 40 {
			// failing runs wait for time-outs; enough evidence has been collected
			run.Extra["stopped_early_after_failures"] = nFail
			break
		}
		if c.Mode == "" {
			c.Mode = "ctl"
		}
		run.LogCase(idx, c)
		res := runCase(c, fixed)
		e := res.env
		// the case as it actually ran (picks recorded), for replay files
		rc := *c
		rc.Picks = e.picks
		nev := len(e.events)
		if e.free != nil {
			nev = e.free.NumEvents()
		}
		if e.cb != nil {
			nev = len(e.cb.events)
		}
		nontrivial := len(c.Progs) >= 2 && nev >= 12 &&
			(e.stats["block-cas-failed"]+e.stats["reacquire-cas-failed"]+e.stats["release-found-not-acquired"]+
				e.stats["cancel-while-waiting"]+e.stats["forced-release-on-deadlock"] > 0)
		if e.cb != nil {
			nontrivial = len(c.Progs) >= 2 && nev >= 12 && cbNontrivial(e)
			if !e.cb.timerOK {
				run.Hist("cb:interval-timer-not-reachable")
			}
		}
		kb, _ := json.Marshal(rc)
		run.Count(string(kb), nontrivial)
		run.Hist("origin:" + strings.SplitN(c.Origin, ":", 2)[0])
		run.Hist(fmt.Sprintf("limit:%d", c.Limit))
		run.Hist(fmt.Sprintf("goroutines:%d", e.nG))
		run.Hist(fmt.Sprintf("events:%d0s", nev/10))
		run.Hist("mode:" + c.Mode)
		run.Hist(fmt.Sprintf("max-running-minus-limit:%d", e.maxRun))
		run.Hist(fmt.Sprintf("limiters:%d", len(e.lims)))
		for k, v := range e.stats {
			if v > 0 {
				run.Hist("saw:" + k)
			}
		}
		if nontrivial {
			run.Sample(map[string]interface{}{"case": rc, "events": nev, "max_running": e.maxRun, "stats": e.stats})
		}
		if e.failSig != "" {
			run.Fail(idx, e.failSig, e.failDet, rc)
			nFail++
		}
		if searching {
			if nFail >= 3 {
				break // a failing input has been found
			}
			continue
		}
		if c.Mode == "cb" {
			if !e.mirrorOK {
				e.cb.events = append(e.cb.events, "(CL (L.LFRet 99999), OL 0 None)")
			}
			free, flen := "None", 0
			if len(res.free) > 0 {
				free = fmt.Sprintf("(Some %d)", res.free[0])
			}
			if len(res.finalLens) > 0 {
				flen = res.finalLens[0]
			}
			ms := 0
			if c.CB != nil {
				ms = c.CB.MaxSize
			}
			cterms = append(cterms, fmt.Sprintf("(%d, mk_ccase %v %d [%d] %s %d %v %s %v)", idx, fixed, c.Limit, ms,
				vh.CoqList(e.cb.events), flen, res.quiescent, free, e.over))
			if len(cterms) >= 40 {
				cflush()
				cstart = idx + 1
			}
		}
		if c.Mode == "ctl" {
			if !e.mirrorOK {
				// the hook sequence does not have the shape of the code the model describes: leave the
				// events as they are, the replay will reject them
				e.events = append(e.events, "(KOp 0 (LFRet 99999), 0, None)")
			}
			free := "None"
			if res.free != nil {
				free = "(Some " + intList(res.free) + ")"
			}
			terms = append(terms, fmt.Sprintf("(%d, mk_kcase %v %d %s %s %v %s %v)", idx, fixed, c.Limit,
				vh.CoqList(e.events), intList(res.finalLens), res.quiescent, free, e.over))
			if len(terms) >= shard {
				flush()
				start = idx + 1
			}
		}
	}
	flush()
	cflush()
	run.Finish()
}
