// C05: batching.  Runs batch.Func.Invoke from many goroutines under the real Go scheduler with tiny real
// timers, seeded arrival delays, perturbation and holds at the verifhook points of batch.go, records every
// atomic section of Invoke in one log (the hooks inside bctx.mu are logged in their real order), evaluates
// the property directly on what callers got and what Many saw (oracle), and writes the log as Coq events
// for Batch/Model.v to replay.
package main

import (
	"bytes"
	"context"
	"encoding/json"
	"errors"
	"flag"
	"fmt"
	"io/ioutil"
	"math"
	"os"
	exec0 "os/exec"
	"path/filepath"
	"strings"
	"sync"
	"sync/atomic"
	"syscall"
	"time"

	"github.com/samsarahq/thunder/batch"
	"github.com/samsarahq/thunder/concurrencylimiter"
	"github.com/samsarahq/thunder/verifhook"
	"verifharness/pkg/panics"
	"verifharness/pkg/sched"
	"verifharness/pkg/vh"
)

type Cancel struct {
	Caller int    `json:"caller"`
	Point  string `json:"point"` // "start" = before any Invoke; otherwise when the Nth event at this point is logged
	Nth    int    `json:"nth"`
}

type Case struct {
	Callers   int          `json:"callers"`
	MaxSize   int          `json:"max_size"`
	Shards    int          `json:"shards"`
	NilShard  bool         `json:"nil_shard,omitempty"` // Func.Shard == nil
	WaitUs    int          `json:"wait_us"`
	MaxDurUs  int          `json:"max_dur_us"`
	Outcomes  []string     `json:"outcomes"` // of the k-th call of Many (cycled): ok | slow | err | panic | short | long
	DelaysUs  []int        `json:"delays_us"`
	Cancels   []Cancel     `json:"cancels,omitempty"`
	Holds     []sched.Hold `json:"holds,omitempty"`
	Perturb   int          `json:"perturb"`
	SchedSeed uint64       `json:"sched_seed"`
	Limit     int          `json:"limit,omitempty"`      // > 0: callers run under a concurrency limiter of this size
	Funcs     int          `json:"funcs,omitempty"`      // 2: a second Func on the same batch context, same shard values
	MaxSize2  int          `json:"max_size2,omitempty"`  // its MaxSize
	FuncOf    []int        `json:"func_of,omitempty"`    // Func called by caller i (cycled)
	ShardVals []int        `json:"shard_vals,omitempty"` // non-empty: Shard(arg) = shardCatalogue[ShardVals[arg % len]], values of
	// different Go types that print alike; the model's shard number is the catalogue index (distinct entries are
	// distinct Go values)
	ArgOf []int `json:"arg_of,omitempty"` // non-empty: caller i passes the argument value number ArgOf[i % len] (equal
	// numbers = equal arguments; numbers >= 100 are values of uncomparable types); empty: caller i passes the int i
	Origin string `json:"origin,omitempty"`
}

// argument values.  Value number v < 100 is the int v; 100..199 a []string; 200.. a map[string]int (both cannot be
// compared with ==).  Equal numbers give equal (deeply equal, freshly built) values.
func mkArg(v int) interface{} {
	switch {
	case v >= 200:
		return map[string]int{"k": v, "x": 1}
	case v >= 100:
		return []string{"s", fmt.Sprint(v)}
	}
	return v
}

func vidOf(a interface{}) int {
	switch x := a.(type) {
	case int:
		return x
	case []string:
		if len(x) == 2 {
			n := 0
			fmt.Sscan(x[1], &n)
			return n
		}
	case map[string]int:
		return x["k"]
	}
	return -1
}

func (c *Case) argOf(i int) int {
	if len(c.ArgOf) == 0 {
		return i
	}
	return c.ArgOf[i%len(c.ArgOf)]
}

func fOf(arg int) int { return arg*31 + 7 }

var errUser = errors.New("user")

type manyCall struct {
	fid     int
	k       int
	args    []int
	outcome string
	shards  map[int]bool
}

type callerRes struct {
	returned bool
	val      interface{}
	err      error
	kind     string // "" value | user (the harness's own error, returned by its Many) | ctx | liberr (any other error: the
	// batch package's own, for a panic or a wrong result count of Many) | invoke-panic:<text>.  Never decided by message text.
}

type exec struct {
	c      *Case
	free   *sched.Free
	mu     sync.Mutex
	many   []*manyCall
	nMany  int32
	res    []callerRes
	cancel []context.CancelFunc
	fired  []bool
	seen   map[string]int
}

func (c *Case) funcOf(arg int) int {
	if c.Funcs < 2 || len(c.FuncOf) == 0 {
		return 0
	}
	return c.FuncOf[arg%len(c.FuncOf)] % 2
}

func (c *Case) maxSizeOf(fid int) int {
	if fid == 1 {
		return c.MaxSize2
	}
	return c.MaxSize
}

// shard values are compared by Go equality (they are map keys in batch.go), never by their printed form
type tenantID int
type deviceID int
type pairKey struct{ A, B string }

var shardCatalogue = []interface{}{tenantID(7), deviceID(7), 7, "7", pairKey{"a b", "c"}, pairKey{"a", "b c"}, int64(7), "a b c"}

func (c *Case) shardOf(arg int) int {
	if c.NilShard {
		return 0
	}
	if len(c.ShardVals) > 0 {
		return c.ShardVals[arg%len(c.ShardVals)] % len(shardCatalogue)
	}
	if c.Shards <= 1 {
		return 0
	}
	return arg % c.Shards
}

func (c *Case) shardVal(arg int) interface{} {
	if len(c.ShardVals) > 0 {
		return shardCatalogue[c.shardOf(arg)]
	}
	return c.shardOf(arg)
}

func errKind(err error) string {
	switch {
	case err == nil:
		return ""
	case errors.Is(err, errUser):
		return "user"
	case errors.Is(err, context.Canceled), errors.Is(err, context.DeadlineExceeded):
		return "ctx"
	}
	return "liberr"
}

// wantKind: what the members of a batch get for an outcome of the harness's Many script
var wantKindTab = map[string]string{"ok": "", "slow": "", "err": "user", "short": "liberr", "long": "liberr"}

func wantKind(outcome string) string {
	if panics.Is(outcome) {
		return "liberr" // whatever the value Many panicked with
	}
	return wantKindTab[outcome]
}

func sameErr(a, b error) (same bool) {
	defer func() {
		if recover() != nil {
			same = false
		}
	}()
	return a == b
}

func runCase(c *Case) (*exec, bool) {
	e := &exec{c: c, res: make([]callerRes, c.Callers), fired: make([]bool, len(c.Cancels)), seen: map[string]int{}}
	holds := append([]sched.Hold{}, c.Holds...)
	e.free = sched.NewFree(c.SchedSeed, c.Perturb, holds)
	base := batch.WithBatching(context.Background())
	if c.Limit > 0 {
		base = concurrencylimiter.With(base, c.Limit)
	}
	ctxs := make([]context.Context, c.Callers)
	e.cancel = make([]context.CancelFunc, c.Callers)
	for i := range ctxs {
		ctxs[i], e.cancel[i] = context.WithCancel(base)
	}
	fire := func(point string) { // called with the log mutex held
		e.seen[point]++
		for k, cs := range c.Cancels {
			if !e.fired[k] && cs.Point == point && (cs.Nth <= 0 || cs.Nth == e.seen[point]) && cs.Caller < c.Callers {
				e.fired[k] = true
				e.cancel[cs.Caller]()
				e.free.AppendLocked(-1, "h.cancel", cs.Caller)
			}
		}
	}
	e.free.OnEvent = func(ev sched.Event) {
		if strings.HasPrefix(ev.Point, "batch.") || ev.Point == "h.many" {
			fire(ev.Point)
		}
	}
	for k, cs := range c.Cancels {
		if cs.Point == "start" && cs.Caller < c.Callers {
			e.fired[k] = true
			e.cancel[cs.Caller]()
			e.free.Events = append(e.free.Events, sched.Event{Seq: len(e.free.Events), G: -1, Point: "h.cancel", Args: []interface{}{cs.Caller}})
		}
	}
	mkFunc := func(fid int) *batch.Func {
		f := &batch.Func{
			MaxSize:      c.maxSizeOf(fid),
			WaitInterval: time.Duration(c.WaitUs) * time.Microsecond,
			MaxDuration:  time.Duration(c.MaxDurUs) * time.Microsecond,
		}
		if !c.NilShard {
			f.Shard = func(arg interface{}) interface{} { return c.shardVal(vidOf(arg)) }
		}
		f.Many = func(ctx context.Context, args []interface{}) ([]interface{}, error) {
			k := int(atomic.AddInt32(&e.nMany, 1)) - 1
			ints := make([]int, len(args))
			for i, a := range args {
				ints[i] = vidOf(a)
			}
			out := "ok"
			if len(c.Outcomes) > 0 {
				out = c.Outcomes[k%len(c.Outcomes)]
			}
			mc := &manyCall{fid: fid, k: k, args: ints, outcome: out}
			e.mu.Lock()
			e.many = append(e.many, mc)
			e.mu.Unlock()
			e.free.Handler("h.many", k)
			rs := make([]interface{}, len(ints))
			for i, a := range ints {
				rs[i] = fOf(a)
			}
			if panics.Is(out) {
				panics.Do(out, len(ints))
			}
			switch out {
			case "slow":
				time.Sleep(300 * time.Microsecond)
			case "err":
				return nil, errUser
			case "short":
				if len(rs) > 0 {
					rs = rs[:len(rs)-1]
				}
			case "long":
				rs = append(rs, 0)
			}
			return rs, nil
		}
		return f
	}
	fs := []*batch.Func{mkFunc(0), mkFunc(1)}

	verifhook.Set(e.free.Handler)
	var wg sync.WaitGroup
	for i := 0; i < c.Callers; i++ {
		wg.Add(1)
		go func(i int) {
			defer wg.Done()
			e.free.Register(i)
			defer e.free.Unregister()
			if d := c.DelaysUs[i%len(c.DelaysUs)]; d > 0 {
				time.Sleep(time.Duration(d) * time.Microsecond)
			}
			ctx := ctxs[i]
			if c.Limit > 0 {
				var rel concurrencylimiter.ReleaseFunc
				ctx, rel = concurrencylimiter.Acquire(ctx)
				defer rel()
			}
			var r callerRes
			func() {
				defer func() {
					if p := recover(); p != nil {
						r.kind = "invoke-panic:" + fmt.Sprint(p)
					}
				}()
				e.free.Handler("h.invoke", i)
				v, err := fs[c.funcOf(i)].Invoke(ctx, mkArg(c.argOf(i)))
				r.val, r.err, r.kind = v, err, errKind(err)
			}()
			r.returned = true
			e.mu.Lock()
			e.res[i] = r
			e.mu.Unlock()
			iv, _ := r.val.(int)
			e.free.Handler("h.return", i, iv, r.kind)
		}(i)
	}
	done := make(chan struct{})
	go func() { wg.Wait(); close(done) }()
	all := true
	select {
	case <-done:
	case <-time.After(4 * time.Second):
		all = false
	}
	verifhook.Set(nil)
	for _, cf := range e.cancel {
		cf()
	}
	return e, all
}

// staleCancel reports whether caller i, whose own context was never cancelled, entered Invoke only after
// every caller whose context was cancelled had already returned: then no batch i can belong to is still
// being cancelled, and a context error for i comes from a dead group left published.
func (e *exec) staleCancel(i int) (bool, []int) {
	evs := e.free.Snapshot()
	invoke, cancelled, returned := -1, map[int]int{}, map[int]int{}
	for _, ev := range evs {
		if len(ev.Args) == 0 {
			continue
		}
		who, ok := ev.Args[0].(int)
		if !ok {
			continue
		}
		switch ev.Point {
		case "h.invoke":
			if who == i {
				invoke = ev.Seq
			}
		case "h.cancel":
			if _, dup := cancelled[who]; !dup {
				cancelled[who] = ev.Seq
			}
		case "h.return":
			returned[who] = ev.Seq
		}
	}
	if invoke < 0 || len(cancelled) == 0 {
		return false, nil
	}
	if _, own := cancelled[i]; own {
		return false, nil
	}
	var who []int
	for j := range cancelled {
		r, ok := returned[j]
		if !ok || r > invoke {
			return false, nil
		}
		who = append(who, j)
	}
	return true, who
}

// ---- oracle: the property evaluated on what callers got and what Many saw ----

type failure struct{ sig, detail string }

func oracle(e *exec, all bool) []failure {
	c := e.c
	var fs []failure
	add := func(sig, d string, a ...interface{}) { fs = append(fs, failure{sig, fmt.Sprintf(d, a...)}) }
	e.mu.Lock()
	defer e.mu.Unlock()
	type fv struct{ fid, vid int }
	asked := map[fv]int{}    // callers that passed this value to this Func
	askedCtx := map[fv]int{} // ... of which got the context error
	for i := 0; i < c.Callers; i++ {
		k := fv{c.funcOf(i), c.argOf(i)}
		asked[k]++
		if e.res[i].returned && e.res[i].kind == "ctx" {
			askedCtx[k]++
		}
	}
	seen := map[fv]int{} // occurrences of the value in all calls of the Func's Many
	sawIn := map[fv][]*manyCall{}
	for _, mc := range e.many {
		sh := map[int]bool{}
		for _, a := range mc.args {
			k := fv{mc.fid, a}
			seen[k]++
			sawIn[k] = append(sawIn[k], mc)
			sh[c.shardOf(a)] = true
			if asked[k] == 0 {
				other := fv{1 - mc.fid, a}
				if asked[other] > 0 {
					add("batch-mixes-funcs", "call %d of Func %d's Many saw argument value %d, which was only passed to Func %d's Invoke (args %v)", mc.k, mc.fid, a, 1-mc.fid, mc.args)
				} else {
					add("many-saw-unknown-argument", "call %d of Many saw value %d", mc.k, a)
				}
			}
		}
		if len(sh) > 1 {
			add("batch-mixes-shards", "call %d of Many saw args %v", mc.k, mc.args)
		}
		if ms := c.maxSizeOf(mc.fid); ms > 0 && len(mc.args) > ms {
			add("batch-exceeds-maxsize", "call %d of Many saw %d args, MaxSize %d", mc.k, len(mc.args), ms)
		}
		if len(mc.args) == 0 {
			add("many-called-with-no-arguments", "call %d", mc.k)
		}
	}
	// every call's argument is handed to Many exactly once as its own slot: count occurrences per value
	for k, n := range asked {
		need := n - askedCtx[k]
		switch {
		case !all:
			// some caller never returned: reported below
		case seen[k] > n:
			add("argument-fetched-twice", "value %d was passed to Func %d's Invoke %d times but occurs %d times in the calls of Many", k.vid, k.fid, n, seen[k])
		case seen[k] > need:
			add("cancelled-but-fetched", "value %d (Func %d): %d Invoke calls, %d of them returned the context error, yet Many saw it %d times", k.vid, k.fid, n, askedCtx[k], seen[k])
		case seen[k] < need:
			add("argument-never-fetched", "value %d was passed to Func %d's Invoke %d times (%d got the context error) but occurs only %d times in the calls of Many: some call's argument was never handed to Many as its own slot", k.vid, k.fid, n, askedCtx[k], seen[k])
		}
	}
	// the members of one batch (as the join points show them) all get the same thing: all a value, or all the very
	// same error
	members := map[interface{}][]int{}
	for _, ev := range e.free.Snapshot() {
		if ev.Point == "batch.join" && ev.G >= 0 && ev.G < c.Callers {
			members[ev.Args[0]] = append(members[ev.Args[0]], ev.G)
		}
	}
	for _, ms := range members {
		first := -1
		for _, i := range ms {
			if !e.res[i].returned || strings.HasPrefix(e.res[i].kind, "invoke-panic") {
				continue
			}
			if first < 0 {
				first = i
				continue
			}
			a, b := e.res[first], e.res[i]
			if (a.err == nil) != (b.err == nil) || (a.err != nil && !sameErr(a.err, b.err)) {
				add("batch-members-got-different-outcomes", "Invoke(%d) and Invoke(%d) joined the same batch but got (%v, %v) and (%v, %v)", first, i, a.val, a.err, b.val, b.err)
				break
			}
		}
	}
	anyCancel := false
	for _, f := range e.fired {
		anyCancel = anyCancel || f
	}
	for i := 0; i < c.Callers; i++ {
		r := e.res[i]
		k := fv{c.funcOf(i), c.argOf(i)}
		if !r.returned {
			add("caller-never-returns", "Invoke(%d) had not returned after 4 s (all=%v)", i, all)
			continue
		}
		switch {
		case strings.HasPrefix(r.kind, "invoke-panic"):
			add("invoke-panics", "Invoke(%d) with argument value %d: %s", i, k.vid, r.kind)
		case r.kind == "ctx":
			if stale, who := e.staleCancel(i); stale {
				add("context-error-from-finished-cancelled-batch", "Invoke(%d) started after every cancelled caller (%v) had returned, its own context is live, yet it got the context error and its argument was never fetched", i, who)
			}
			if !anyCancel {
				add("context-error-without-cancellation", "Invoke(%d)", i)
			}
		case len(sawIn[k]) == 0:
			// counted above as argument-never-fetched
		default:
			// the caller belongs to one of the batches that saw its value
			wants := map[string]bool{}
			for _, mc := range sawIn[k] {
				wants[wantKind(mc.outcome)] = true
			}
			if !wants[r.kind] {
				add("wrong-error-kind", "Invoke(%d) got error kind %q, the batches that saw its argument give %v", i, r.kind, wants)
			} else if r.kind == "" {
				if v, ok := r.val.(int); !ok || v != fOf(k.vid) {
					add("wrong-result", "Invoke(%d) with argument value %d returned %v, f = %d", i, k.vid, r.val, fOf(k.vid))
				}
			}
		}
	}
	return fs
}

// ---- the log as events of Batch/Model.v ----

// coqRet: the model's return value for what Invoke returned.  An error of the batch package itself is EPanic or
// EWrongLen according to what the harness's Many did for that caller's batch (outcome), never according to its text.
func coqRet(val int, kind string, outcome string) string {
	switch kind {
	case "":
		return fmt.Sprintf("(RVal %d)", val)
	case "user":
		return "(RErr EUser)"
	case "ctx":
		return "(RErr ECtx)"
	case "liberr":
		switch {
		case panics.Is(outcome):
			return "(RErr EPanic)"
		case outcome == "short", outcome == "long":
			return "(RErr EWrongLen)"
		}
	}
	return "RIndexPanic"
}

func natList(xs []int) string {
	ss := make([]string, len(xs))
	for i, x := range xs {
		ss[i] = fmt.Sprint(x)
	}
	return "[" + strings.Join(ss, "; ") + "]"
}

type emitStats struct {
	groups, joinsAfterWake, rollovers, cancels, nonOk, maxGroup int
	wakes                                                       map[string]int // wake-ups by cause
	rearmJoins                                                  int            // joins of a group whose creator still waited (the interval timer is re-armed)
}

func emit(e *exec) ([]string, emitStats) {
	c := e.c
	var evs []string
	var st emitStats
	gids := map[interface{}]int{}
	creatorGroup := map[int]int{} // caller -> group it created
	final := map[int]bool{}       // group ran or was cancelled
	woken := map[int]bool{}
	unpub := map[int]bool{}
	size := map[int]int{}
	pendingCancel := map[int]bool{}
	cancelled := map[int]bool{}
	cid := map[int]int{}
	callerG := map[int]int{}
	gOutcome := map[int]string{}
	closedNow := false
	deleted := map[int]bool{}
	gid := func(p interface{}) int {
		if g, ok := gids[p]; ok {
			return g
		}
		return 99999
	}
	// stamps (ns): an event happened between lo and hi.  For a join, lo is taken before Invoke was called (the timer
	// is armed / re-armed later than that), hi inside the mutex section after the timer operation; for everything
	// else both are the instant the hook was logged (a wake-up is logged after the timer fired).
	var lo, hi int64
	invokeT := map[int]int64{}
	tw := func(s string) string {
		// "(label, obs)" -> "ev lo hi (label) (obs)": the obs starts at the last ", Ob".  Stamps in us: lo rounded
		// down, hi rounded up (still a lower / an upper bound); only joins and wake-ups are looked at by the timed
		// step, every other event carries 0 0 (Coq elaborates small literals much faster).
		k := strings.LastIndex(s, ", Ob")
		l, h := lo/1000, (hi+999)/1000
		if !strings.HasPrefix(s, "(LJoin") && !strings.HasPrefix(s, "(LWake") {
			l, h = 0, 0
		}
		return fmt.Sprintf("ev %d %d (%s) (%s)", l, h, s[1:k], s[k+2:len(s)-1])
	}
	flush := func(g int) {
		if pendingCancel[g] {
			evs = append(evs, tw(fmt.Sprintf("(LCtxCancel %d, ObNone)", g)))
			pendingCancel[g] = false
		}
	}
	manyByK := map[int]*manyCall{}
	for _, mc := range e.many {
		manyByK[mc.k] = mc
	}
	log := e.free.Snapshot()
	// a join that fills the group is followed, in the same critical section, by the maxsize point
	closes := map[int]bool{}
	for i, ev := range log {
		if ev.Point != "batch.join" {
			continue
		}
		for j := i + 1; j < len(log); j++ {
			if log[j].G == ev.G {
				closes[i] = log[j].Point == "batch.maxsize" && log[j].Args[0] == ev.Args[0]
				break
			}
		}
	}
	for i, ev := range log {
		a := ev.Args
		closedNow = closes[i]
		lo, hi = ev.T, ev.T
		switch ev.Point {
		case "h.invoke":
			if who, ok := a[0].(int); ok {
				invokeT[who] = ev.T
			}
		case "h.cancel":
			who := a[0].(int)
			cancelled[who] = true
			st.cancels++
			if g, ok := creatorGroup[who]; ok {
				if final[g] {
					evs = append(evs, tw(fmt.Sprintf("(LCtxCancel %d, ObNone)", g)))
				} else {
					pendingCancel[g] = true
				}
			}
		case "batch.maxsize":
			st.rollovers++
		case "batch.join":
			who := ev.G // the hook runs on the calling goroutine, which is registered under the caller's number
			if t0, ok := invokeT[who]; ok && t0 <= ev.T {
				lo = t0
			}
			vid := vidOf(a[1])
			index, _ := a[2].(int)
			existed, _ := a[3].(bool)
			if !existed {
				gids[a[0]] = len(gids)
				creatorGroup[who] = gids[a[0]]
				st.groups++
			}
			g := gid(a[0])
			callerG[who] = g
			cid[who] = len(cid)
			size[g]++
			if size[g] > st.maxGroup {
				st.maxGroup = size[g]
			}
			if woken[g] && !unpub[g] {
				st.joinsAfterWake++
			}
			if existed && !woken[g] {
				st.rearmJoins++
			}
			evs = append(evs, tw(fmt.Sprintf("(LJoin %d %d %d %v, ObJoin %d %d %v %v)", c.funcOf(who), vid, c.shardOf(vid), !existed && cancelled[who], g, index, existed, closedNow)))
		case "batch.wake":
			g := gid(a[0])
			cause := map[string]string{"interval": "CInterval", "maxduration": "CMaxDur", "ctxdone": "CCtxDone", "maxsize": "CMaxSize"}[a[1].(string)]
			if cause == "CCtxDone" {
				flush(g)
			}
			woken[g] = true
			if st.wakes == nil {
				st.wakes = map[string]int{}
			}
			st.wakes[a[1].(string)]++
			evs = append(evs, tw(fmt.Sprintf("(LWake %d %s, ObNone)", g, cause)))
		case "batch.unpublish":
			deleted[gid(a[0])] = true
		case "batch.unpublished":
			g := gid(a[0])
			unpub[g] = true
			evs = append(evs, tw(fmt.Sprintf("(LUnpublish %d, ObUnpub %v)", g, deleted[g])))
		case "h.many":
			k, _ := a[0].(int)
			mc := manyByK[k]
			g, ok := creatorGroup[ev.G]
			if !ok || mc == nil {
				evs = append(evs, tw("(LRun 99999 OErr, ObNone)"))
				break
			}
			o := "OErr"
			switch mc.outcome {
			case "ok", "slow", "short", "long":
				rs := make([]int, len(mc.args))
				for i, x := range mc.args {
					rs[i] = fOf(x)
				}
				if mc.outcome == "short" && len(rs) > 0 {
					rs = rs[:len(rs)-1]
				}
				if mc.outcome == "long" {
					rs = append(rs, 0)
				}
				o = "(ORes " + natList(rs) + ")"
			}
			if panics.Is(mc.outcome) {
				o = "(OPanic " + panics.Coq(mc.outcome) + ")"
			}
			if mc.outcome != "ok" && mc.outcome != "slow" {
				st.nonOk++
			}
			final[g] = true
			gOutcome[g] = mc.outcome
			evs = append(evs, tw(fmt.Sprintf("(LRun %d %s, ObMany %d %s)", g, o, mc.fid, natList(mc.args))))
			flush(g)
		case "batch.cancelled":
			g := gid(a[0])
			flush(g)
			final[g] = true
			evs = append(evs, tw(fmt.Sprintf("(LCancel %d, ObNone)", g)))
		case "batch.done":
			evs = append(evs, tw(fmt.Sprintf("(LDone %d, ObNone)", gid(a[0]))))
		case "h.return":
			who, _ := a[0].(int)
			val, _ := a[1].(int)
			kind, _ := a[2].(string)
			ci, ok := cid[who]
			if !ok {
				ci = 99999
			}
			evs = append(evs, tw(fmt.Sprintf("(LReturn %d, ObRet %s)", ci, coqRet(val, kind, gOutcome[callerG[who]]))))
		}
	}
	for g := range pendingCancel {
		flush(g)
	}
	return evs, st
}

func maxi(a, b int) int {
	if a > b {
		return a
	}
	return b
}

func mini(a, b int) int {
	if a < b {
		return a
	}
	return b
}

// ---- generators ----

var outcomeKinds = []string{"ok", "ok", "ok", "ok", "ok", "ok", "ok", "ok", "ok", "slow", "slow", "slow", "err", "err", "short", "long",
	"panic", "panic-error", "panic-rt-nilmap", "panic-rt-index", "panic-rt-nilptr", "panic-rt-assert", "panic-rt-divide", "panic-custom"}
var holdPoints = []string{"batch.wake", "batch.run", "batch.done", "h.many", "batch.cancelled"}
var cancelPoints = []string{"start", "batch.join", "batch.join", "batch.wake", "batch.unpublished", "batch.run", "h.many", "batch.done"}

func genCase(r *vh.Rng) *Case {
	c := &Case{Callers: 2 + r.Intn(39), MaxSize: r.Intn(6), Shards: 1 + r.Intn(3), SchedSeed: r.U64() >> 1, Origin: "random"}
	if r.Chance(50) {
		c.Callers = 2 + r.Intn(10)
	}
	c.NilShard = r.Chance(15)
	c.WaitUs = []int{20, 50, 100, 200, 500, 1000, 2000}[r.Intn(7)]
	c.MaxDurUs = []int{100, 300, 1000, 3000, 5000}[r.Intn(5)]
	nOut := 1 + r.Intn(4)
	for i := 0; i < nOut; i++ {
		c.Outcomes = append(c.Outcomes, r.Pick(outcomeKinds))
	}
	spread := []int{0, 50, 200, 600, 1500}[r.Intn(5)]
	for i := 0; i < c.Callers; i++ {
		d := 0
		if spread > 0 {
			d = r.Intn(spread)
		}
		c.DelaysUs = append(c.DelaysUs, d)
	}
	c.Perturb = r.Intn(50)
	if r.Chance(45) {
		for k := 1 + r.Intn(3); k > 0; k-- {
			c.Cancels = append(c.Cancels, Cancel{Caller: r.Intn(c.Callers), Point: r.Pick(cancelPoints), Nth: 1 + r.Intn(3)})
		}
	}
	if r.Chance(20) {
		// cancel the creators-to-be: the first arrivals
		c.Cancels = append(c.Cancels, Cancel{Caller: 0, Point: r.Pick(cancelPoints), Nth: 1})
		c.DelaysUs[0] = 0
	}
	if r.Chance(60) {
		for k := 1 + r.Intn(2); k > 0; k-- {
			p := r.Pick(holdPoints)
			c.Holds = append(c.Holds, sched.Hold{Point: p, Nth: r.Intn(3), UntilPoint: r.Pick([]string{"batch.join", "batch.join", "batch.join", "batch.done", "h.return"}),
				UntilCount: 1 + r.Intn(c.Callers), TimeoutUs: 100 + r.Intn(1500)})
		}
		c.Origin = "random+hold"
	}
	if r.Chance(15) {
		c.Limit = 1 + r.Intn(4)
	}
	if r.Chance(8) {
		// boundary configurations: MaxSize 1 / huge ("unlimited"), zero and negative durations (= the defaults)
		c.MaxSize = []int{1, math.MaxInt32, math.MaxInt64, 1 << 40, math.MaxInt64 - 1}[r.Intn(5)]
		if r.Chance(50) {
			c.WaitUs = []int{0, -5}[r.Intn(2)]
		}
		if r.Chance(30) {
			c.MaxDurUs = []int{0, -1}[r.Intn(2)]
		}
		if c.Callers > 12 {
			c.Callers = 2 + r.Intn(10)
		}
	}
	if r.Chance(35) {
		// argument values shared between callers (resolvers ask for the same key many times) and values of
		// uncomparable types (slices, maps)
		pool := []int{7, 7, 8, 3}
		switch r.Intn(3) {
		case 0:
			pool = []int{100, 101, 100, 200, 5}
		case 1:
			pool = []int{r.Intn(4), r.Intn(4), 100 + r.Intn(2), 200, r.Intn(4)}
		}
		for k := 2 + r.Intn(6); k > 0; k-- {
			c.ArgOf = append(c.ArgOf, pool[r.Intn(len(pool))])
		}
	}
	if r.Chance(25) && !c.NilShard {
		// shard values of different Go types (and structs) that print alike: they are different map keys
		n := 2 + r.Intn(3)
		start := []int{0, 0, 2, 4, 4}[r.Intn(5)]
		for k := 0; k < n; k++ {
			c.ShardVals = append(c.ShardVals, (start+k)%len(shardCatalogue))
		}
		if r.Chance(30) {
			for k := range c.ShardVals {
				c.ShardVals[k] = r.Intn(len(shardCatalogue))
			}
		}
	}
	if r.Chance(30) {
		// a second Func on the same batch context; both map arguments to the same shard values
		c.Funcs, c.MaxSize2 = 2, r.Intn(6)
		for k := 2 + r.Intn(5); k > 0; k-- {
			c.FuncOf = append(c.FuncOf, r.Intn(2))
		}
	}
	return c
}

// scripted windows: (a) a caller joins between the creator's wake-up and its second mutex section;
// (b) callers arrive after the group was unpublished, while Many has not run yet / is running;
// (c) MaxSize roll-over with more callers than one batch holds, all arriving at once.
func genScript(r *vh.Rng) *Case {
	c := genCase(r)
	c.Holds, c.Cancels = nil, nil
	switch r.Intn(4) {
	case 3:
		// (d) the creator's own context is cancelled while its group waits for a trigger; callers on live
		// sibling contexts arrive afterwards and must get a fresh group, not the dead one
		c.Origin = "script:late-join-after-cancelled-creator"
		c.Callers = 3 + r.Intn(5)
		c.MaxSize = []int{0, 0, 4}[r.Intn(3)]
		c.Shards, c.NilShard, c.WaitUs, c.MaxDurUs, c.Limit = 1, false, 2000, 5000, 0
		c.Outcomes = []string{"ok"}
		c.DelaysUs = make([]int, c.Callers)
		for i := range c.DelaysUs {
			c.DelaysUs[i] = i * (300 + r.Intn(300))
		}
		c.Cancels = []Cancel{{Caller: 0, Point: "batch.join", Nth: 1}}
		return c
	case 0:
		c.Origin = "script:join-after-wake"
		c.Callers = 3 + r.Intn(8)
		c.MaxSize = []int{0, 0, 4, 5}[r.Intn(4)]
		c.Shards, c.WaitUs, c.MaxDurUs = 1, 50, 5000
		c.DelaysUs = make([]int, c.Callers)
		for i := range c.DelaysUs {
			c.DelaysUs[i] = i * 120
		}
		c.Holds = []sched.Hold{{Point: "batch.wake", Nth: 1, UntilPoint: "batch.join", UntilCount: 2 + r.Intn(c.Callers-1), TimeoutUs: 3000}}
	case 1:
		c.Origin = "script:join-after-unpublish"
		c.Callers = 3 + r.Intn(8)
		c.MaxSize = []int{0, 0, 3}[r.Intn(3)]
		c.Shards, c.WaitUs, c.MaxDurUs = 1, 50, 5000
		c.DelaysUs = make([]int, c.Callers)
		for i := range c.DelaysUs {
			c.DelaysUs[i] = i * 150
		}
		p := r.Pick([]string{"batch.run", "h.many", "batch.done"})
		c.Holds = []sched.Hold{{Point: p, Nth: 1, UntilPoint: "batch.join", UntilCount: 2 + r.Intn(c.Callers-1), TimeoutUs: 3000}}
	default:
		c.Origin = "script:maxsize-rollover"
		c.MaxSize = 1 + r.Intn(5)
		c.Callers = c.MaxSize*(1+r.Intn(4)) + r.Intn(c.MaxSize+1)
		if c.Callers < 2 {
			c.Callers = 2
		}
		c.Shards = 1 + r.Intn(2)
		c.DelaysUs = []int{0}
		c.WaitUs, c.MaxDurUs = 2000, 5000
		if r.Chance(50) {
			c.Holds = []sched.Hold{{Point: "batch.wake", Nth: 0, UntilPoint: "batch.join", UntilCount: c.Callers, TimeoutUs: 1500}}
		}
		if r.Chance(50) {
			// the roll-over counts calls, not distinct arguments
			c.ArgOf = []int{7, 7, 8}
		}
	}
	if r.Chance(30) {
		c.Cancels = []Cancel{{Caller: 0, Point: r.Pick(cancelPoints), Nth: 1}}
	}
	return c
}

// ---- failing-input search: small edits of a case on which model and implementation disagreed ----

var cancelOrder = []string{"start", "batch.join", "batch.wake", "batch.unpublished", "batch.run", "h.many", "batch.done"}

func cloneCase(c *Case) *Case {
	b, _ := json.Marshal(c)
	var d Case
	json.Unmarshal(b, &d)
	return &d
}

func variant(r *vh.Rng, seed *Case) *Case {
	c := cloneCase(seed)
	c.Origin = "search"
	c.SchedSeed = r.U64() >> 1
	for k := 1 + r.Intn(3); k > 0; k-- {
		switch r.Intn(11) {
		case 0: // another hold point / count
			if len(c.Holds) > 0 {
				h := &c.Holds[r.Intn(len(c.Holds))]
				switch r.Intn(4) {
				case 0:
					h.Point = r.Pick(holdPoints)
				case 1:
					h.UntilCount = maxi(1, h.UntilCount+r.Intn(3)-1)
				case 2:
					h.Nth = r.Intn(3)
				default:
					h.TimeoutUs = 500 + r.Intn(3000)
				}
			}
		case 1: // one more hold
			c.Holds = append(c.Holds, sched.Hold{Point: r.Pick(holdPoints), Nth: r.Intn(3), UntilPoint: r.Pick([]string{"batch.join", "batch.done", "h.return", "h.invoke"}),
				UntilCount: 1 + r.Intn(c.Callers), TimeoutUs: 300 + r.Intn(2500)})
		case 2: // one more caller (arriving last, or together with the first)
			c.Callers++
			last := 0
			if len(c.DelaysUs) > 0 {
				last = c.DelaysUs[len(c.DelaysUs)-1]
			}
			for len(c.DelaysUs) < c.Callers-1 {
				c.DelaysUs = append(c.DelaysUs, c.DelaysUs[len(c.DelaysUs)%maxi(1, len(seed.DelaysUs))])
			}
			c.DelaysUs = append(c.DelaysUs, []int{0, last, last + 200 + r.Intn(600), last + 2500}[r.Intn(4)])
		case 3: // a cancel moved to a neighbouring event / occurrence / caller
			if len(c.Cancels) > 0 {
				cs := &c.Cancels[r.Intn(len(c.Cancels))]
				switch r.Intn(3) {
				case 0:
					for i, p := range cancelOrder {
						if p == cs.Point {
							cs.Point = cancelOrder[(i+len(cancelOrder)+[]int{-1, 1}[r.Intn(2)])%len(cancelOrder)]
							break
						}
					}
				case 1:
					cs.Nth = maxi(1, cs.Nth+r.Intn(3)-1)
				default:
					cs.Caller = (cs.Caller + 1 + r.Intn(2)) % c.Callers
				}
			}
		case 4: // one more cancellation, of an early arrival
			c.Cancels = append(c.Cancels, Cancel{Caller: r.Intn(mini(c.Callers, 3)), Point: r.Pick(cancelOrder), Nth: 1 + r.Intn(2)})
		case 5: // arrival jitter
			for i := range c.DelaysUs {
				if r.Chance(40) {
					c.DelaysUs[i] = maxi(0, c.DelaysUs[i]+r.Intn(401)-200)
				}
			}
		case 6: // later arrivals: everyone but the first waits longer
			for i := range c.DelaysUs {
				if i > 0 {
					c.DelaysUs[i] += 300 + r.Intn(1500)
				}
			}
		case 7:
			c.Perturb = r.Intn(60)
			if len(c.Outcomes) > 1 {
				c.Outcomes = append(c.Outcomes[1:], c.Outcomes[0])
			}
		case 9: // equal / uncomparable arguments
			c.ArgOf = [][]int{{7, 7, 8}, {100, 100, 200}, {1, 100, 1, 200}}[r.Intn(3)]
		case 8: // shard values that print alike
			if !c.NilShard {
				c.ShardVals = []int{r.Intn(len(shardCatalogue)), r.Intn(len(shardCatalogue)), r.Intn(len(shardCatalogue))}
			}
		default: // timers
			c.WaitUs = []int{20, 100, 500, 2000}[r.Intn(4)]
			c.MaxDurUs = []int{300, 1000, 5000}[r.Intn(3)]
		}
	}
	return c
}

// ---- risky configurations run in a child process: a fatal runtime error (out of memory on an absurd allocation)
// cannot be recovered in-process; the parent reports the death of the child as a failure of the case ----

type childOut struct {
	All   bool        `json:"all"`
	Fails [][2]string `json:"fails"`
	Evs   []string    `json:"evs"`
	St    [6]int      `json:"st"`
	Holds int         `json:"holds"`
}

func risky(c *Case) bool { return c.MaxSize >= 1<<20 || c.MaxSize2 >= 1<<20 }

func childMain(path string) {
	// address space limit: an absurd allocation fails at once instead of hurting the machine
	lim := syscall.Rlimit{Cur: 6 << 30, Max: 6 << 30}
	syscall.Setrlimit(syscall.RLIMIT_AS, &lim)
	var c Case
	b, err := ioutil.ReadFile(path)
	if err != nil || json.Unmarshal(b, &c) != nil {
		os.Exit(3)
	}
	e, all := runCase(&c)
	out := childOut{All: all, Holds: e.free.HoldsHit}
	for _, f := range oracle(e, all) {
		out.Fails = append(out.Fails, [2]string{f.sig, f.detail})
	}
	var st emitStats
	out.Evs, st = emit(e)
	out.St = [6]int{st.groups, st.joinsAfterWake, st.rollovers, st.cancels, st.nonOk, st.maxGroup}
	jb, _ := json.Marshal(out)
	os.Stdout.Write(append([]byte("CHILD-RESULT "), append(jb, '\n')...))
	os.Exit(0)
}

func runInChild(c *Case, dir string, idx int) (fs []failure, evs []string, st emitStats, all bool, holds int) {
	path := filepath.Join(dir, fmt.Sprintf("child-%d.json", idx))
	b, _ := json.Marshal(c)
	ioutil.WriteFile(path, b, 0o644)
	defer os.Remove(path)
	cmd := exec0.Command(os.Args[0], "-child", path)
	var outb, errb bytes.Buffer
	cmd.Stdout, cmd.Stderr = &outb, &errb
	done := make(chan error, 1)
	if err := cmd.Start(); err != nil {
		return []failure{{"child-process-not-started", err.Error()}}, nil, st, false, 0
	}
	go func() { done <- cmd.Wait() }()
	var werr error
	select {
	case werr = <-done:
	case <-time.After(30 * time.Second):
		cmd.Process.Kill()
		werr = errors.New("killed after 30 s")
	}
	for _, line := range strings.Split(outb.String(), "\n") {
		if strings.HasPrefix(line, "CHILD-RESULT ") {
			var o childOut
			if json.Unmarshal([]byte(strings.TrimPrefix(line, "CHILD-RESULT ")), &o) == nil {
				for _, f := range o.Fails {
					fs = append(fs, failure{f[0], f[1]})
				}
				st = emitStats{groups: o.St[0], joinsAfterWake: o.St[1], rollovers: o.St[2], cancels: o.St[3], nonOk: o.St[4], maxGroup: o.St[5]}
				return fs, o.Evs, st, o.All, o.Holds
			}
		}
	}
	tail := errb.String()
	if len(tail) > 600 {
		tail = tail[:600]
	}
	return []failure{{"invoke-kills-the-process", fmt.Sprintf("the process running this case died (%v): %s", werr, strings.Join(strings.Fields(tail), " "))}}, nil, st, false, 0
}

func main() {
	child := flag.String("child", "", "internal: run the single case in this file and print its result")
	o := vh.ParseFlags()
	if *child != "" {
		childMain(*child)
	}
	run := vh.NewRun("C05", o)
	run.Rule = "2-40 concurrent callers of one Func, MaxSize 0-5, 1-3 shards (or no Shard function), wait interval 20us-2ms, max duration 100us-5ms, arrival delays, outcome of each call of Many by seed (ok / slow / error / panic / short / long result), cancellation of chosen callers' contexts at chosen events, perturbation and holds at hook points, 15% under a concurrency limiter; scripted windows (join after wake-up, join after unpublish, MaxSize roll-over); non-trivial = (at least 2 groups or a group of at least 3) and at least one of: MaxSize roll-over, cancellation, non-ok outcome, a join between wake-up and unpublish, a hold that was hit; distinct by case"
	r := vh.NewRng(o.Seed)

	var cases []*Case
	searching := o.Search != ""
	if searching {
		var seeds []*Case
		if b, err := ioutil.ReadFile(o.Search); err == nil {
			for _, line := range strings.Split(string(b), "\n") {
				var w struct {
					Case *Case `json:"case"`
				}
				if strings.TrimSpace(line) != "" && json.Unmarshal([]byte(line), &w) == nil && w.Case != nil && w.Case.Callers > 0 {
					seeds = append(seeds, w.Case)
				}
			}
		}
		for i := 0; i < o.N; i++ {
			cr := r.Fork()
			switch {
			case len(seeds) > 0:
				cases = append(cases, variant(cr, seeds[i%len(seeds)]))
			case cr.Chance(40):
				cases = append(cases, genScript(cr))
			default:
				cases = append(cases, genCase(cr))
			}
		}
	} else if o.Replay != "" {
		var c Case
		if vh.ReadReplayCase(o.Replay, &c) {
			c.Origin = "replay"
			cases = append(cases, &c)
		}
	} else {
		for _, f := range vh.CorpusFiles(o.Corpus) {
			var c Case
			if vh.ReadReplayCase(f, &c) {
				c.Origin = "corpus:" + filepath.Base(f)
				cases = append(cases, &c)
			}
		}
		for i := 0; i < o.N; i++ {
			cr := r.Fork()
			if cr.Chance(30) {
				cases = append(cases, genScript(cr))
			} else {
				cases = append(cases, genCase(cr))
			}
		}
	}

	// are the hook points there?
	{
		e, _ := runCase(&Case{Callers: 2, Shards: 1, WaitUs: 50, MaxDurUs: 1000, DelaysUs: []int{0}})
		pts := map[string]bool{}
		for _, ev := range e.free.Snapshot() {
			pts[ev.Point] = true
		}
		if !pts["batch.join"] && !pts["batch.wake"] && !pts["batch.unpublished"] && !pts["batch.done"] {
			run.Fail(-1, "hooks-missing", "the verifhook points of batch.go were not reached; is C05-hooks.patch applied?", nil)
			run.Finish()
			return
		}
	}

	var terms []string
	start := 0
	const shard = 100
	flush := func() {
		if len(terms) == 0 {
			return
		}
		run.WriteCasesV(fmt.Sprintf("cases_%d.v", start), []string{"Batch.Model", "Batch.ModelTimed"}, "", "tmismatches_from_sparse", 0, terms)
		terms = nil
	}
	nFail := 0
	for idx, c := range cases {
		if nFail >= 40 {
			run.Extra = map[string]interface{}{"stopped_early_after_failures": nFail}
			break
		}
		if len(c.DelaysUs) == 0 {
			c.DelaysUs = []int{0}
		}
		run.LogCase(idx, c)
		var e *exec
		var all bool
		var fs []failure
		var evs []string
		var st emitStats
		holdsHit := 0
		if risky(c) {
			fs, evs, st, all, holdsHit = runInChild(c, o.Out, idx)
			e = &exec{c: c}
			run.Hist("ran-in-child-process")
		} else {
			e, all = runCase(c)
			fs = oracle(e, all)
			evs, st = emit(e)
			holdsHit = e.free.HoldsHit
		}
		nontrivial := (st.groups >= 2 || st.maxGroup >= 3) &&
			(st.rollovers+st.cancels+st.nonOk+st.joinsAfterWake+holdsHit > 0)
		kb, _ := json.Marshal(c)
		run.Count(string(kb), nontrivial)
		run.Hist("origin:" + strings.SplitN(c.Origin, ":", 2)[0])
		if strings.HasPrefix(c.Origin, "script:") {
			run.Hist(c.Origin)
		}
		run.Hist(fmt.Sprintf("maxsize:%d", mini(c.MaxSize, 6)))
		run.Hist(fmt.Sprintf("funcs:%d", maxi(1, c.Funcs)))
		if len(c.ShardVals) > 0 {
			run.Hist("shards:typed-values-that-print-alike")
		}
		if len(c.ArgOf) > 0 {
			run.Hist("args:equal-between-callers-or-uncomparable")
		}
		run.Hist(fmt.Sprintf("callers:%d0s", c.Callers/10))
		run.Hist(fmt.Sprintf("groups:%d", mini(st.groups, 12)))
		run.Hist(fmt.Sprintf("largest-group:%d", mini(st.maxGroup, 12)))
		if st.joinsAfterWake > 0 {
			run.Hist("saw:join-between-wake-and-unpublish")
		}
		if st.rollovers > 0 {
			run.Hist("saw:maxsize-rollover")
		}
		if st.cancels > 0 {
			run.Hist("saw:cancellation")
		}
		for cause, n := range st.wakes {
			if n > 0 {
				run.Hist("timed:wake-by-" + cause)
			}
		}
		if st.rearmJoins > 0 && st.wakes["interval"] > 0 {
			run.Hist("timed:interval-wake-after-re-arming-joins")
		}
		for _, mc := range e.many {
			run.Hist("many-outcome:" + mc.outcome)
		}
		for _, rr := range e.res {
			k := rr.kind
			if k == "" {
				k = "value"
			}
			run.Hist("caller-got:" + strings.SplitN(k, ":", 2)[0])
		}
		if nontrivial {
			run.Sample(map[string]interface{}{"case": c, "groups": st.groups, "largest_group": st.maxGroup, "events": len(evs)})
		}
		if len(fs) > 0 {
			nFail++
			det := fs[0].detail
			if len(fs) > 1 {
				det += fmt.Sprintf(" (+%d more: %s ...)", len(fs)-1, fs[1].sig)
			}
			run.Fail(idx, fs[0].sig, det, c)
		}
		if searching {
			if nFail >= 3 {
				break // a failing input has been found
			}
			continue
		}
		// a MaxSize beyond any possible number of callers is "never full"; the model gets 1000 for it (nat literal)
		wns, mns := int64(c.WaitUs), int64(c.MaxDurUs) // the unit of the timed replay is 1 us
		terms = append(terms, fmt.Sprintf("(%d, mk_tcase [%d; %d] [((%d)%%Z, (%d)%%Z); ((%d)%%Z, (%d)%%Z)] %s %v)", idx, mini(c.MaxSize, 1000), mini(c.MaxSize2, 1000),
			wns, mns, wns, mns, vh.CoqList(evs), all))
		if len(terms) >= shard {
			flush()
			start = idx + 1
		}
	}
	flush()
	run.Finish()
}
