package main

// Merging must not modify its inputs, and its outcome must not depend on what was merged before: a schema
// syncer keeps the introspection result of a version it has already fetched and hands the very same object to
// later merges.  The other oracles decode fresh objects for every call, which would hide aliasing between a
// merge result and the caller's objects; this file runs histories of merges over SHARED in-memory objects.

import (
	"encoding/json"
	"fmt"
	"sort"

	"github.com/samsarahq/thunder/federation"
	"verifharness/pkg/vh"
)

func snapshot(in iqrMap) string {
	b, err := json.Marshal(in)
	if err != nil {
		return "unmarshalable: " + err.Error()
	}
	return string(b)
}

// firstDiff names the first service/version whose object changed
func firstDiff(in iqrMap, before map[string]map[string]string) string {
	var ss []string
	for s := range in {
		ss = append(ss, s)
	}
	sort.Strings(ss)
	for _, s := range ss {
		var vv []string
		for v := range in[s] {
			vv = append(vv, v)
		}
		sort.Strings(vv)
		for _, v := range vv {
			b, _ := json.Marshal(in[s][v])
			if string(b) != before[s][v] {
				return fmt.Sprintf("service %q version %q: before %s after %s", s, v, short(before[s][v], 300), short(string(b), 300))
			}
		}
	}
	return "?"
}

func perVersion(in iqrMap) map[string]map[string]string {
	m := map[string]map[string]string{}
	for s, vs := range in {
		m[s] = map[string]string{}
		for v, r := range vs {
			b, _ := json.Marshal(r)
			m[s][v] = string(b)
		}
	}
	return m
}

func sameOutcome(a, b mergeOut) bool {
	return a.ok == b.ok && a.canon == b.canon
}

// checkPurity: (1) MergeIntrospectionSchemas and ConvertVersionedSchemas leave their input objects as they were;
// (2) the same objects merged again give the same outcome; (3) sub-merges {v0, vi} of a service over the shared
// objects, one after the other, each give what the same merge gives over freshly decoded objects.
func checkPurity(run *vh.Run, idx int, c Case, vs []*version, first mergeOut) {
	shared := mkInput(vs, nil)
	before := perVersion(shared)
	snap := snapshot(shared)

	m1 := runMerge(shared)
	if s := snapshot(shared); s != snap {
		failCapped(run, idx, "merge-modifies-its-input", "MergeIntrospectionSchemas: "+firstDiff(shared, before), c)
		return
	}
	if !sameOutcome(m1, first) {
		failCapped(run, idx, "merge-not-repeatable", fmt.Sprintf("fresh objects: ok=%v %s; again: ok=%v %s", first.ok, short(first.canon, 300), m1.ok, short(m1.canon, 300)), c)
		return
	}
	m2 := runMerge(shared)
	if !sameOutcome(m2, m1) {
		failCapped(run, idx, "merge-depends-on-earlier-merges-of-the-same-objects", fmt.Sprintf("second merge of the same objects: ok=%v %s vs ok=%v %s", m2.ok, short(m2.canon, 300), m1.ok, short(m1.canon, 300)), c)
		return
	}
	if m1.ok {
		func() {
			defer func() { recover() }()
			federation.ConvertVersionedSchemas(shared)
		}()
		if s := snapshot(shared); s != snap {
			failCapped(run, idx, "merge-modifies-its-input", "ConvertVersionedSchemas: "+firstDiff(shared, before), c)
			return
		}
	}
	// histories of sub-merges sharing the first version of a service
	bySvc := map[string][]*version{}
	var svcs []string
	for _, v := range vs {
		if bySvc[v.svc] == nil {
			svcs = append(svcs, v.svc)
		}
		bySvc[v.svc] = append(bySvc[v.svc], v)
	}
	sort.Strings(svcs)
	hist := 0
	for _, s := range svcs {
		l := bySvc[s]
		if len(l) < 3 {
			continue
		}
		for i := 1; i < len(l); i++ {
			sub := iqrMap{s: {l[0].ver: shared[s][l[0].ver], l[i].ver: shared[s][l[i].ver]}}
			got := runMerge(sub)
			want := runMerge(mkInput([]*version{l[0], l[i]}, nil))
			hist++
			if !sameOutcome(got, want) {
				failCapped(run, idx, "merge-depends-on-earlier-merges-of-the-same-objects",
					fmt.Sprintf("service %q: versions {%q, %q} merged after %d earlier merges that were handed the same %q object: ok=%v %s; over fresh objects: ok=%v %s",
						s, l[0].ver, l[i].ver, i+1, l[0].ver, got.ok, short(got.canon, 300), want.ok, short(want.canon, 300)), c)
				return
			}
		}
	}
	if hist > 0 {
		run.Histogram["purity:sub-merges-over-shared-objects"] += hist
	}
	if s := snapshot(shared); s != snap {
		failCapped(run, idx, "merge-modifies-its-input", "after the history of sub-merges: "+firstDiff(shared, before), c)
	}
}
