package main

// Which reading of mergeSchemaSlice does the implementation under test show?  The model (Federation/Merge.v,
// slice_of) has both: the plain left fold (the code as it is) and the fold guarded by a check of every pair of
// schemas (patches/C09-fix-1).  The fixed three-version set of the known finding merge-error-depends-on-naming
// tells them apart: versions a: f(x: Int!), b: no f, c: f() of one service are accepted by the plain fold in
// the order a, b, c and refused in the order a, c, b; the repaired code refuses them in every order.  The
// verdict is written into every Coq case (c_repaired) and into the histogram.

func probeSchema(withF bool, arg bool) *Schema {
	q := Type{Name: "Query", Kind: "OBJECT", Fields: []Field{{Name: "h", Type: named("SCALAR", "int64")}}}
	if withF {
		f := Field{Name: "f", Type: named("SCALAR", "int64")}
		if arg {
			f.Args = []IField{{Name: "x", Type: nn(named("SCALAR", "int64"))}}
		}
		q.Fields = append([]Field{f}, q.Fields...)
	}
	return &Schema{Types: []Type{{Name: "int64", Kind: "SCALAR"}, q}}
}

func probeRepaired() (repaired bool, detail string) {
	a, b, c := probeSchema(true, true), probeSchema(false, false), probeSchema(true, false)
	mk := func(na, nb, nc string) []*version {
		return []*version{
			{svc: "svc", ver: na, rs: a, jsonb: a.introspectionJSON()},
			{svc: "svc", ver: nb, rs: b, jsonb: b.introspectionJSON()},
			{svc: "svc", ver: nc, rs: c, jsonb: c.introspectionJSON()},
		}
	}
	abc := runMerge(mkInput(mk("a", "b", "c"), nil))
	acb := runMerge(mkInput(mk("a", "c", "b"), nil))
	ab := runMerge(mkInput(mk("a", "b", "c")[:2], nil))
	switch {
	case abc.ok && !acb.ok:
		return false, "plain-fold"
	case !abc.ok && !acb.ok && ab.ok:
		return true, "pairs-checked-first"
	default:
		// neither reading: keep the reading of the code as it is; the correspondence will speak
		return false, "neither"
	}
}
