package main

import (
	"context"
	"encoding/json"
	"fmt"
	"sort"
	"strings"
	"time"

	"github.com/samsarahq/thunder/federation"
	"github.com/samsarahq/thunder/graphql"
	"github.com/samsarahq/thunder/graphql/introspection"

	"verifharness/pkg/vh"
)

// ---- federation keys: the part of ConvertVersionedSchemas that decides whether a set of schemas can be
// federated at all (validateFederationKeys / validateFederatedObjects, schema.go:42-118) ----
//
// One federated object, Item, known to several services.  A service that has Item is a root for it (it has
// Item._federation), exposes some of the candidate key fields, and asks for some of them in the input object of
// its Federation.<svc>_Item(keys:) field.  The set of schemas is valid iff every key field any service asks for
// is exposed by every root service.

var keyPool = []string{"id", "orgId", "name", "sku"}

func keyFieldType(k string) *TRef {
	switch k {
	case "id":
		return nn(named("SCALAR", "int64"))
	case "orgId":
		return named("SCALAR", "int64")
	}
	return named("SCALAR", "string")
}

type keySvc struct {
	name     string
	hasItem  bool
	root     bool     // Item._federation present
	exposes  []string // key-pool fields on Item
	requires []string // input fields of Keys_<name>
}

func (k keySvc) schema() *Schema {
	s := &Schema{}
	for _, n := range scalars {
		s.Types = append(s.Types, Type{Name: n, Kind: "SCALAR"})
	}
	q := Type{Name: "Query", Kind: "OBJECT"}
	q.Fields = append(q.Fields, Field{Name: "count_" + k.name, Type: named("SCALAR", "int64")})
	if k.hasItem {
		it := Type{Name: "Item", Kind: "OBJECT"}
		for _, f := range k.exposes {
			it.Fields = append(it.Fields, Field{Name: f, Type: keyFieldType(f)})
		}
		it.Fields = append(it.Fields, Field{Name: "data_" + k.name, Type: named("SCALAR", "int64")})
		q.Fields = append(q.Fields, Field{Name: "items_" + k.name, Type: list(named("OBJECT", "Item"))})
		if k.root {
			it.Fields = append(it.Fields, Field{Name: "_federation", Type: named("OBJECT", "Item")})
			q.Fields = append(q.Fields, Field{Name: "_federation", Type: named("OBJECT", "Federation")})
			in := Type{Name: "Keys_" + k.name, Kind: "INPUT_OBJECT"}
			for _, f := range k.requires {
				in.Inputs = append(in.Inputs, IField{Name: f, Type: keyFieldType(f)})
			}
			fed := Type{Name: "Federation", Kind: "OBJECT", Fields: []Field{{
				Name: k.name + "_Item", Type: list(named("OBJECT", "Item")),
				Args: []IField{{Name: "keys", Type: nn(list(nn(named("INPUT_OBJECT", in.Name))))}},
			}}}
			s.Types = append(s.Types, in, fed)
		}
		s.Types = append(s.Types, it)
	}
	s.Types = append(s.Types, q, Type{Name: "Mutation", Kind: "OBJECT", Fields: []Field{{Name: "noop", Type: named("SCALAR", "int64")}}})
	sortSchema(s)
	return s
}

func subset(r *vh.Rng, xs []string, p int, atLeastOne bool) []string {
	var out []string
	for _, x := range xs {
		if r.Chance(p) {
			out = append(out, x)
		}
	}
	if len(out) == 0 && atLeastOne {
		out = append(out, xs[r.Intn(len(xs))])
	}
	return out
}

func has(xs []string, x string) bool {
	for _, y := range xs {
		if y == x {
			return true
		}
	}
	return false
}

func genKeyCase(r *vh.Rng) Case {
	c := Case{Kind: "raw", Raw: map[string]map[string]*Schema{}, Seed: r.U64()}
	names := []string{"alpha", "beta", "gamma", "s1", "s2", "zeta", "m1", "b2"}
	shuffle(r, names)
	n := 3 + r.Intn(2)
	var svcs []keySvc
	for i := 0; i < n; i++ {
		k := keySvc{name: names[i], hasItem: i < 2 || r.Chance(75)}
		if k.hasItem {
			k.root = !r.Chance(22) // a holder that does not federate the object: refused whenever another service federates it
			k.exposes = subset(r, keyPool, 60, false)
			if !has(k.exposes, "id") && r.Chance(85) {
				k.exposes = append([]string{"id"}, k.exposes...)
			}
			k.requires = subset(r, keyPool, 30, true)
		}
		svcs = append(svcs, k)
	}
	if r.Chance(55) {
		// make it valid: every root exposes every key any service asks for
		var need []string
		for _, k := range svcs {
			if k.hasItem {
				for _, f := range k.requires {
					if !has(need, f) {
						need = append(need, f)
					}
				}
			}
		}
		for i := range svcs {
			if svcs[i].hasItem {
				svcs[i].root = true
				for _, f := range need {
					if !has(svcs[i].exposes, f) {
						svcs[i].exposes = append(svcs[i].exposes, f)
					}
				}
			}
		}
		c.Labels = append(c.Labels, "federation-keys:made-valid")
	} else {
		c.Labels = append(c.Labels, "federation-keys:random")
	}
	for _, k := range svcs {
		s := k.schema()
		c.Raw[k.name] = map[string]*Schema{"v1": s}
		if r.Chance(25) {
			c.Raw[k.name]["v2"] = s.clone()
		}
	}
	return c
}

// ---- the specification, read off the per-service schemas ----

type keyViolation struct{ asker, key, root, obj string }

// keyViolations lists (service X asking for key k of object O, root service R of O that does not expose k).
func keyViolations(perSvc map[string]mergeOut, merged *Schema) (out []keyViolation, comparable bool) {
	var names []string
	for n := range perSvc {
		names = append(names, n)
	}
	sort.Strings(names)
	for _, x := range names {
		if !perSvc[x].ok {
			return nil, false
		}
		fed := perSvc[x].s.find("Federation")
		if fed == nil {
			continue
		}
		for _, f := range fed.Fields {
			parts := strings.SplitN(f.Name, "_", 2)
			if len(parts) != 2 {
				return nil, false
			}
			obj := parts[1]
			if mt := merged.find(obj); mt == nil || mt.Kind != "OBJECT" {
				return nil, false
			}
			for _, a := range f.Args {
				in := merged.find(a.Type.root().N)
				if in == nil || in.Kind != "INPUT_OBJECT" {
					return nil, false
				}
				for _, k := range in.Inputs {
					for _, rn := range names {
						t := perSvc[rn].s.find(obj)
						if t == nil {
							continue
						}
						root, exposes := false, false
						for _, tf := range t.Fields {
							root = root || tf.Name == "_federation"
							exposes = exposes || tf.Name == k.Name
						}
						if root && !exposes {
							out = append(out, keyViolation{x, k.Name, rn, obj})
						}
					}
				}
			}
		}
	}
	return out, true
}

// ---- running the gateway over mock services that answer from their (raw) schema ----

type mockClient struct {
	name     string
	s        *Schema
	problems *[]string
}

func (m *mockClient) value(t *TRef, ss *graphql.SelectionSet, sel *graphql.Selection) (interface{}, error) {
	switch t.K {
	case "NON_NULL":
		return m.value(t.Of, ss, sel)
	case "LIST":
		n := 2
		if sel != nil {
			if keys, ok := sel.UnparsedArgs["keys"].([]interface{}); ok {
				n = len(keys)
			} else if sel.Args != nil {
				if am, ok := sel.Args.(map[string]interface{}); ok {
					if keys, ok := am["keys"].([]interface{}); ok {
						n = len(keys)
					}
				}
			}
		}
		out := []interface{}{}
		for i := 0; i < n; i++ {
			v, err := m.value(t.Of, ss, nil)
			if err != nil {
				return nil, err
			}
			out = append(out, v)
		}
		return out, nil
	case "SCALAR":
		switch t.N {
		case "string":
			return "s", nil
		case "bool":
			return true, nil
		}
		return 1, nil
	case "ENUM":
		if et := m.s.find(t.N); et != nil && len(et.Enums) > 0 {
			return et.Enums[0], nil
		}
		return nil, nil
	case "OBJECT":
		return m.object(t.N, ss)
	}
	return nil, fmt.Errorf("mock: type kind %s", t.K)
}

func (m *mockClient) object(typ string, ss *graphql.SelectionSet) (interface{}, error) {
	t := m.s.find(typ)
	if t == nil || t.Kind != "OBJECT" {
		return nil, fmt.Errorf("service %s has no object type %s", m.name, typ)
	}
	out := map[string]interface{}{}
	if ss == nil {
		return out, nil
	}
	for _, sel := range ss.Selections {
		if sel.Name == "__typename" {
			out[sel.Alias] = typ
			continue
		}
		var fd *Field
		for i := range t.Fields {
			if t.Fields[i].Name == sel.Name {
				fd = &t.Fields[i]
			}
		}
		if fd == nil {
			return nil, fmt.Errorf("service %s has no field %s.%s", m.name, typ, sel.Name)
		}
		for a := range sel.UnparsedArgs {
			known := false
			for _, d := range fd.Args {
				known = known || d.Name == a
			}
			if !known {
				return nil, fmt.Errorf("service %s: field %s.%s has no argument %s", m.name, typ, sel.Name, a)
			}
		}
		v, err := m.value(fd.Type, sel.SelectionSet, sel)
		if err != nil {
			return nil, err
		}
		out[sel.Alias] = v
	}
	for _, fr := range ss.Fragments {
		if fr.On == typ {
			v, err := m.object(typ, fr.SelectionSet)
			if err != nil {
				return nil, err
			}
			for k, x := range v.(map[string]interface{}) {
				out[k] = x
			}
		}
	}
	return out, nil
}

func (m *mockClient) Execute(ctx context.Context, req *federation.QueryRequest) (*federation.QueryResponse, error) {
	root := "Query"
	if req.Query.Kind == "mutation" {
		root = "Mutation"
	}
	v, err := m.object(root, req.Query.SelectionSet)
	if err != nil {
		*m.problems = append(*m.problems, err.Error()+"  (sub-query: "+short(ssTextOf(req.Query.SelectionSet), 200)+")")
		return nil, err
	}
	b, _ := json.Marshal(v)
	return &federation.QueryResponse{Result: b}, nil
}

func ssTextOf(ss *graphql.SelectionSet) string {
	if ss == nil {
		return ""
	}
	var parts []string
	for _, s := range ss.Selections {
		p := s.Name
		if s.SelectionSet != nil {
			p += " { " + ssTextOf(s.SelectionSet) + " }"
		}
		parts = append(parts, p)
	}
	for _, f := range ss.Fragments {
		parts = append(parts, "... on "+f.On+" { "+ssTextOf(f.SelectionSet)+" }")
	}
	return strings.Join(parts, " ")
}

type fixedSyncer struct {
	p *federation.Planner
	s *graphql.Schema
}

func (f fixedSyncer) FetchPlannerAndSchema(ctx context.Context) (*federation.Planner, *graphql.Schema, error) {
	return f.p, f.s, nil
}

// gatewayOverMocks: the schemas were accepted; every query that enters a federated object through one service
// and selects a field of another must plan into sub-queries each service can answer from its own schema.
func gatewayOverMocks(in iqrMap, perSvc map[string]mergeOut, merged *Schema) (queries int, problems []string) {
	defer func() {
		if e := recover(); e != nil {
			problems = append(problems, "panic: "+fmt.Sprint(e))
		}
	}()
	types, err := federation.ConvertVersionedSchemas(in)
	if err != nil {
		return 0, nil
	}
	planner, err := federation.NewPlanner(types, nil)
	if err != nil {
		return 0, nil // e.g. no Mutation type: nothing to plan with
	}
	execs := map[string]federation.ExecutorClient{}
	for n, m := range perSvc {
		if !m.ok {
			return 0, nil
		}
		execs[n] = &mockClient{name: n, s: m.s, problems: &problems}
	}
	ctx, cancel := context.WithCancel(context.Background())
	defer cancel()
	ex, err := federation.NewExecutor(ctx, execs, &federation.SchemaSyncerConfig{
		SchemaSyncer:              fixedSyncer{planner, introspection.BareIntrospectionSchema(types.Schema)},
		SchemaSyncIntervalSeconds: func(context.Context) int64 { return 3600 },
	})
	if err != nil {
		return 0, nil
	}
	q := merged.find("Query")
	if q == nil {
		return 0, nil
	}
	for _, qf := range q.Fields {
		rt := qf.Type.root()
		if rt.K != "OBJECT" || len(qf.Args) > 0 || qf.Name == "_federation" {
			continue
		}
		ot := merged.find(rt.N)
		if ot == nil {
			continue
		}
		federated := false
		for _, f := range ot.Fields {
			federated = federated || f.Name == "_federation"
		}
		if !federated {
			continue
		}
		for _, f := range ot.Fields {
			if f.Name == "_federation" || len(f.Args) > 0 || (f.Type.root().K != "SCALAR" && f.Type.root().K != "ENUM") {
				continue
			}
			if queries >= 40 {
				return
			}
			text := "{ " + qf.Name + " { " + f.Name + " } }"
			pq, err := graphql.Parse(text, map[string]interface{}{})
			if err != nil {
				continue
			}
			queries++
			before := len(problems)
			c2, cancel2 := context.WithTimeout(ctx, 2*time.Second)
			_, _, err = ex.Execute(c2, pq, nil)
			cancel2()
			if err != nil && len(problems) == before {
				// an error that is not a service refusing its sub-query (e.g. missing keys): reported as such
				problems = append(problems, "query "+text+": "+firstLineOf(err.Error()))
			}
			for i := before; i < len(problems); i++ {
				problems[i] = "query " + text + ": " + problems[i]
			}
		}
	}
	return
}

func firstLineOf(s string) string {
	if i := strings.Index(s, "\n"); i >= 0 {
		return s[:i]
	}
	return s
}

// unfederatedHolders lists (object, service) where the service has the object without _federation although
// another service federates it (validateFederatedObjects, schema.go:78-118).
func unfederatedHolders(perSvc map[string]mergeOut, merged *Schema) (out []string, comparable bool) {
	var names []string
	for n := range perSvc {
		if !perSvc[n].ok {
			return nil, false
		}
		names = append(names, n)
	}
	sort.Strings(names)
	for _, mt := range merged.Types {
		if mt.Name == "Query" || mt.Name == "Mutation" {
			continue
		}
		fed := false
		var plain []string
		for _, n := range names {
			for _, t := range perSvc[n].s.Types {
				if t.Name != mt.Name {
					continue
				}
				has := false
				for _, f := range t.Fields {
					has = has || f.Name == "_federation"
				}
				if has {
					fed = true
				} else {
					plain = append(plain, n)
				}
			}
		}
		if fed {
			for _, n := range plain {
				out = append(out, mt.Name+" on "+n)
			}
		}
	}
	return out, true
}
