package main

import (
	"encoding/json"
	"fmt"
	"sort"
	"strings"

	"github.com/samsarahq/thunder/federation"
	"verifharness/pkg/vh"
)

// ---- raw introspection schemas (the harness' own structured form; mirrors Federation/Merge.v) ----

type TRef struct {
	K  string `json:"k"` // NON_NULL | LIST | SCALAR | ENUM | OBJECT | UNION | INPUT_OBJECT | ...
	N  string `json:"n,omitempty"`
	Of *TRef  `json:"of,omitempty"`
}
type IField struct {
	Name string `json:"name"`
	Type *TRef  `json:"type"`
}
type Field struct {
	Name string   `json:"name"`
	Type *TRef    `json:"type"`
	Args []IField `json:"args,omitempty"`
}
type PRef struct {
	Name string `json:"name"`
	Kind string `json:"kind"`
}
type Type struct {
	Name       string   `json:"name"`
	Kind       string   `json:"kind"`
	Fields     []Field  `json:"fields,omitempty"`
	Inputs     []IField `json:"inputs,omitempty"`
	Possible   []PRef   `json:"possible,omitempty"`
	Enums      []string `json:"enums,omitempty"`
	Interfaces []PRef   `json:"interfaces,omitempty"`
}
type Schema struct {
	Types []Type `json:"types"`
}

func named(k, n string) *TRef { return &TRef{K: k, N: n} }
func list(t *TRef) *TRef      { return &TRef{K: "LIST", Of: t} }
func nn(t *TRef) *TRef {
	if t.K == "NON_NULL" {
		return t
	}
	return &TRef{K: "NON_NULL", Of: t}
}
func (t *TRef) root() *TRef {
	for t.Of != nil {
		t = t.Of
	}
	return t
}
func (t *TRef) clone() *TRef {
	if t == nil {
		return nil
	}
	c := *t
	c.Of = t.Of.clone()
	return &c
}
func (t *TRef) String() string {
	switch t.K {
	case "NON_NULL":
		return t.Of.String() + "!"
	case "LIST":
		return "[" + t.Of.String() + "]"
	}
	return t.N
}

func (s *Schema) clone() *Schema {
	b, _ := json.Marshal(s)
	var c Schema
	json.Unmarshal(b, &c)
	return &c
}
func (s *Schema) find(name string) *Type {
	for i := range s.Types {
		if s.Types[i].Name == name {
			return &s.Types[i]
		}
	}
	return nil
}

// ---- conversion to / from introspection JSON ----

func trefJSON(t *TRef) interface{} {
	if t == nil {
		return nil
	}
	switch t.K {
	case "NON_NULL", "LIST":
		return map[string]interface{}{"kind": t.K, "name": nil, "ofType": trefJSON(t.Of)}
	}
	return map[string]interface{}{"kind": t.K, "name": t.N, "ofType": nil}
}

func ifieldsJSON(fs []IField) []interface{} {
	out := []interface{}{}
	for _, f := range fs {
		out = append(out, map[string]interface{}{"name": f.Name, "type": trefJSON(f.Type), "defaultValue": nil, "description": ""})
	}
	return out
}

func (s *Schema) introspectionJSON() []byte {
	types := []interface{}{}
	for _, t := range s.Types {
		fields := []interface{}{}
		for _, f := range t.Fields {
			fields = append(fields, map[string]interface{}{"name": f.Name, "type": trefJSON(f.Type), "args": ifieldsJSON(f.Args),
				"description": "", "isDeprecated": false, "deprecationReason": ""})
		}
		poss := []interface{}{}
		for _, p := range t.Possible {
			poss = append(poss, map[string]interface{}{"kind": p.Kind, "name": p.Name, "ofType": nil})
		}
		ifaces := []interface{}{}
		for _, p := range t.Interfaces {
			ifaces = append(ifaces, map[string]interface{}{"kind": p.Kind, "name": p.Name, "ofType": nil})
		}
		enums := []interface{}{}
		for _, e := range t.Enums {
			enums = append(enums, map[string]interface{}{"name": e, "description": "", "isDeprecated": false, "deprecationReason": ""})
		}
		types = append(types, map[string]interface{}{"name": t.Name, "kind": t.Kind, "description": "", "fields": fields,
			"inputFields": ifieldsJSON(t.Inputs), "possibleTypes": poss, "enumValues": enums, "interfaces": ifaces})
	}
	b, _ := json.Marshal(map[string]interface{}{"__schema": map[string]interface{}{"types": types,
		"queryType": map[string]interface{}{"name": "Query"}, "mutationType": map[string]interface{}{"name": "Mutation"}, "directives": []interface{}{}}})
	return b
}

func (s *Schema) toIQR() *federation.IntrospectionQueryResult {
	var r federation.IntrospectionQueryResult
	if err := json.Unmarshal(s.introspectionJSON(), &r); err != nil {
		panic(err)
	}
	return &r
}

func trefFrom(v interface{}) *TRef {
	m, ok := v.(map[string]interface{})
	if !ok || m == nil {
		return nil
	}
	k, _ := m["kind"].(string)
	n, _ := m["name"].(string)
	switch k {
	case "NON_NULL", "LIST":
		return &TRef{K: k, Of: trefFrom(m["ofType"])}
	}
	return &TRef{K: k, N: n}
}

func arr(v interface{}) []interface{} {
	a, _ := v.([]interface{})
	return a
}

func ifieldsFrom(v interface{}) []IField {
	var out []IField
	for _, e := range arr(v) {
		m := e.(map[string]interface{})
		out = append(out, IField{Name: m["name"].(string), Type: trefFrom(m["type"])})
	}
	return out
}

// schemaFromIntrospection parses introspection JSON (as produced by thunder or by marshalling an
// IntrospectionQueryResult) into the raw form.
func schemaFromIntrospection(b []byte) (*Schema, error) {
	var top map[string]interface{}
	if err := json.Unmarshal(b, &top); err != nil {
		return nil, err
	}
	sch, _ := top["__schema"].(map[string]interface{})
	if sch == nil {
		return nil, fmt.Errorf("no __schema")
	}
	s := &Schema{}
	for _, e := range arr(sch["types"]) {
		m := e.(map[string]interface{})
		t := Type{}
		t.Name, _ = m["name"].(string)
		t.Kind, _ = m["kind"].(string)
		for _, fe := range arr(m["fields"]) {
			fm := fe.(map[string]interface{})
			t.Fields = append(t.Fields, Field{Name: fm["name"].(string), Type: trefFrom(fm["type"]), Args: ifieldsFrom(fm["args"])})
		}
		t.Inputs = ifieldsFrom(m["inputFields"])
		for _, pe := range arr(m["possibleTypes"]) {
			pm := pe.(map[string]interface{})
			k, _ := pm["kind"].(string)
			n, _ := pm["name"].(string)
			t.Possible = append(t.Possible, PRef{Name: n, Kind: k})
		}
		for _, pe := range arr(m["interfaces"]) {
			pm := pe.(map[string]interface{})
			k, _ := pm["kind"].(string)
			n, _ := pm["name"].(string)
			t.Interfaces = append(t.Interfaces, PRef{Name: n, Kind: k})
		}
		for _, ee := range arr(m["enumValues"]) {
			t.Enums = append(t.Enums, ee.(map[string]interface{})["name"].(string))
		}
		s.Types = append(s.Types, t)
	}
	return s, nil
}

// ---- canonical JSON (same shape as Merge.schema_json) ----

func trefCanon(t *TRef) interface{} {
	if t == nil {
		return []interface{}{"nil"}
	}
	switch t.K {
	case "NON_NULL":
		return []interface{}{"NN", trefCanon(t.Of)}
	case "LIST":
		return []interface{}{"L", trefCanon(t.Of)}
	}
	return []interface{}{"N", t.K, t.N}
}
func ifieldsCanon(fs []IField) []interface{} {
	out := []interface{}{}
	for _, f := range fs {
		out = append(out, []interface{}{f.Name, trefCanon(f.Type)})
	}
	return out
}
func prefsCanon(ps []PRef) []interface{} {
	out := []interface{}{}
	for _, p := range ps {
		out = append(out, []interface{}{p.Name, p.Kind})
	}
	return out
}
func (s *Schema) canon() interface{} {
	out := []interface{}{}
	for _, t := range s.Types {
		fields := []interface{}{}
		for _, f := range t.Fields {
			fields = append(fields, []interface{}{f.Name, trefCanon(f.Type), ifieldsCanon(f.Args)})
		}
		enums := []interface{}{}
		for _, e := range t.Enums {
			enums = append(enums, e)
		}
		out = append(out, []interface{}{t.Name, t.Kind, fields, ifieldsCanon(t.Inputs), prefsCanon(t.Possible), enums, prefsCanon(t.Interfaces)})
	}
	return out
}

// ---- Coq terms ----

func trefCoq(t *TRef) string {
	switch t.K {
	case "NON_NULL":
		return "(TNonNull " + trefCoq(t.Of) + ")"
	case "LIST":
		return "(TList " + trefCoq(t.Of) + ")"
	}
	return "(TNamed " + vh.CoqString(t.K) + " " + vh.CoqString(t.N) + ")"
}
func ifieldsCoq(fs []IField) string {
	xs := []string{}
	for _, f := range fs {
		xs = append(xs, "mk_ifield "+vh.CoqString(f.Name)+" "+trefCoq(f.Type))
	}
	return vh.CoqList(xs)
}
func prefsCoq(ps []PRef) string {
	xs := []string{}
	for _, p := range ps {
		xs = append(xs, "("+vh.CoqString(p.Name)+", "+vh.CoqString(p.Kind)+")")
	}
	return vh.CoqList(xs)
}
func (s *Schema) coq() string {
	ts := []string{}
	for _, t := range s.Types {
		fs := []string{}
		for _, f := range t.Fields {
			fs = append(fs, "mk_field "+vh.CoqString(f.Name)+" "+trefCoq(f.Type)+" "+ifieldsCoq(f.Args))
		}
		es := []string{}
		for _, e := range t.Enums {
			es = append(es, vh.CoqString(e))
		}
		ts = append(ts, "mk_itype "+vh.CoqString(t.Name)+" "+vh.CoqString(t.Kind)+" "+vh.CoqList(fs)+" "+ifieldsCoq(t.Inputs)+" "+
			prefsCoq(t.Possible)+" "+vh.CoqList(es)+" "+prefsCoq(t.Interfaces))
	}
	return vh.CoqList(ts)
}

// ---- well-formedness and closedness, evaluated by the harness on every input (oracle guards) ----

func uniq(xs []string) bool {
	m := map[string]bool{}
	for _, x := range xs {
		if m[x] {
			return false
		}
		m[x] = true
	}
	return true
}

func (s *Schema) wf() bool {
	var tn []string
	for _, t := range s.Types {
		tn = append(tn, t.Name)
		var fn, in, pn []string
		for _, f := range t.Fields {
			fn = append(fn, f.Name)
			var an []string
			for _, a := range f.Args {
				an = append(an, a.Name)
			}
			if !uniq(an) {
				return false
			}
		}
		for _, f := range t.Inputs {
			in = append(in, f.Name)
		}
		for _, p := range t.Possible {
			pn = append(pn, p.Name)
		}
		if !uniq(fn) || !uniq(in) || !uniq(pn) || !uniq(t.Enums) {
			return false
		}
	}
	return uniq(tn)
}

func (s *Schema) refOK(t *TRef) bool {
	r := t.root()
	ty := s.find(r.N)
	return ty != nil && ty.Kind == r.K
}

func (s *Schema) closed() bool {
	for _, t := range s.Types {
		for _, f := range t.Fields {
			if !s.refOK(f.Type) {
				return false
			}
			for _, a := range f.Args {
				if !s.refOK(a.Type) {
					return false
				}
			}
		}
		for _, a := range t.Inputs {
			if !s.refOK(a.Type) {
				return false
			}
		}
		for _, p := range t.Possible {
			ty := s.find(p.Name)
			if ty == nil || ty.Kind != p.Kind {
				return false
			}
		}
	}
	return true
}

// ---- generator ----

var scalars = []string{"int64", "string", "bool"}

type gen struct {
	r *vh.Rng
}

func (g *gen) wrap(t *TRef, maxDepth int) *TRef {
	r := g.r
	for d := 0; d < maxDepth; d++ {
		switch r.Intn(6) {
		case 0, 1:
			t = nn(t)
		case 2:
			t = list(t)
		case 3:
			t = nn(list(t))
		default:
			return t
		}
	}
	return t
}

func (g *gen) outType(s *Schema) *TRef {
	var cands []*TRef
	for _, t := range s.Types {
		switch t.Kind {
		case "SCALAR", "ENUM", "OBJECT", "UNION":
			if t.Name != "Query" && t.Name != "Mutation" {
				cands = append(cands, named(t.Kind, t.Name))
			}
		}
	}
	return g.wrap(cands[g.r.Intn(len(cands))].clone(), 3)
}

func (g *gen) inType(s *Schema) *TRef {
	var cands []*TRef
	for _, t := range s.Types {
		switch t.Kind {
		case "SCALAR", "ENUM", "INPUT_OBJECT":
			cands = append(cands, named(t.Kind, t.Name))
		}
	}
	return g.wrap(cands[g.r.Intn(len(cands))].clone(), 3)
}

func (g *gen) newField(s *Schema, name string) Field {
	f := Field{Name: name, Type: g.outType(s)}
	used := map[string]bool{}
	for n := g.r.Intn(3); n > 0; n-- {
		an := fmt.Sprintf("a%d", 1+g.r.Intn(4))
		if used[an] {
			continue
		}
		used[an] = true
		f.Args = append(f.Args, IField{Name: an, Type: g.inType(s)})
	}
	return f
}

func (g *gen) base() *Schema {
	r := g.r
	s := &Schema{}
	for _, n := range scalars {
		s.Types = append(s.Types, Type{Name: n, Kind: "SCALAR"})
	}
	for i := 1; i <= 1+r.Intn(2); i++ {
		t := Type{Name: fmt.Sprintf("E%d", i), Kind: "ENUM"}
		for v := 1; v <= 5; v++ {
			if r.Chance(55) || len(t.Enums) == 0 && v == 5 {
				t.Enums = append(t.Enums, fmt.Sprintf("V%d", v))
			}
		}
		s.Types = append(s.Types, t)
	}
	nObj := 1 + r.Intn(3)
	for i := 1; i <= nObj; i++ {
		s.Types = append(s.Types, Type{Name: fmt.Sprintf("O%d", i), Kind: "OBJECT"})
	}
	s.Types = append(s.Types, Type{Name: "Query", Kind: "OBJECT"})
	if r.Chance(50) {
		s.Types = append(s.Types, Type{Name: "Mutation", Kind: "OBJECT"})
	}
	for i := 1; i <= r.Intn(3); i++ {
		t := Type{Name: fmt.Sprintf("U%d", i), Kind: "UNION"}
		for o := 1; o <= nObj; o++ {
			if r.Chance(60) || len(t.Possible) == 0 && o == nObj {
				t.Possible = append(t.Possible, PRef{Name: fmt.Sprintf("O%d", o), Kind: "OBJECT"})
			}
		}
		s.Types = append(s.Types, t)
	}
	nIn := r.Intn(3)
	for i := 1; i <= nIn; i++ {
		s.Types = append(s.Types, Type{Name: fmt.Sprintf("I%d", i), Kind: "INPUT_OBJECT"})
	}
	for i := range s.Types {
		t := &s.Types[i]
		switch t.Kind {
		case "INPUT_OBJECT":
			used := map[string]bool{}
			for n := 1 + r.Intn(3); n > 0; n-- {
				in := fmt.Sprintf("i%d", 1+r.Intn(4))
				if !used[in] {
					used[in] = true
					t.Inputs = append(t.Inputs, IField{Name: in, Type: g.inType(s)})
				}
			}
		case "OBJECT":
			used := map[string]bool{}
			for n := 1 + r.Intn(4); n > 0; n-- {
				fn := fmt.Sprintf("f%d", 1+r.Intn(6))
				if !used[fn] {
					used[fn] = true
					t.Fields = append(t.Fields, g.newField(s, fn))
				}
			}
		}
	}
	// thunder's introspection lists types, fields, args sorted by name; shuffle sometimes to show order is irrelevant
	if r.Chance(60) {
		sortSchema(s)
	}
	return s
}

func sortSchema(s *Schema) {
	sort.SliceStable(s.Types, func(i, j int) bool { return s.Types[i].Name < s.Types[j].Name })
	for i := range s.Types {
		t := &s.Types[i]
		sort.SliceStable(t.Fields, func(a, b int) bool { return t.Fields[a].Name < t.Fields[b].Name })
	}
}

// toggleNN flips the NON_NULL wrapper at a random nesting position of t.
func (g *gen) toggleNN(t *TRef) *TRef {
	flags, k, n := nnPath(t)
	i := g.r.Intn(len(flags))
	flags[i] = !flags[i]
	return rebuild(flags, k, n)
}

// rebuild is the inverse of nnPath: flags[0] is the outermost level.
func rebuild(flags []bool, k, n string) *TRef {
	t := named(k, n)
	for i := len(flags) - 1; i >= 0; i-- {
		if flags[i] {
			t = nn(t)
		}
		if i > 0 {
			t = list(t)
		}
	}
	return t
}

type mutStats struct{ incompatible bool }

// mutate applies one random edit to s (in place); returns a label.
func (g *gen) mutate(s *Schema, allowIncompat bool) string {
	r := g.r
	objs := []*Type{}
	ins := []*Type{}
	enums := []*Type{}
	unions := []*Type{}
	for i := range s.Types {
		t := &s.Types[i]
		switch t.Kind {
		case "OBJECT":
			objs = append(objs, t)
		case "INPUT_OBJECT":
			ins = append(ins, t)
		case "ENUM":
			enums = append(enums, t)
		case "UNION":
			unions = append(unions, t)
		}
	}
	pickObj := func() *Type { return objs[r.Intn(len(objs))] }
	k := r.Intn(100)
	if allowIncompat && k < 18 {
		switch r.Intn(7) {
		case 0: // new required argument
			t := pickObj()
			if len(t.Fields) > 0 {
				f := &t.Fields[r.Intn(len(t.Fields))]
				f.Args = append(f.Args, IField{Name: fmt.Sprintf("a%d", 5+r.Intn(2)), Type: nn(g.inType(s))})
				return "x-add-required-arg"
			}
		case 1: // change the named type of a field
			t := pickObj()
			if len(t.Fields) > 0 {
				f := &t.Fields[r.Intn(len(t.Fields))]
				f.Type = g.outType(s)
				return "x-retype-field"
			}
		case 2: // wrap in a list
			t := pickObj()
			if len(t.Fields) > 0 {
				f := &t.Fields[r.Intn(len(t.Fields))]
				f.Type = list(f.Type)
				return "x-listify-field"
			}
		case 3: // change kind of a type
			if len(enums) > 0 {
				e := enums[r.Intn(len(enums))]
				e.Kind = "SCALAR"
				e.Enums = nil
				return "x-enum-to-scalar"
			}
		case 4: // retype an argument
			t := pickObj()
			if len(t.Fields) > 0 {
				f := &t.Fields[r.Intn(len(t.Fields))]
				if len(f.Args) > 0 {
					f.Args[r.Intn(len(f.Args))].Type = g.inType(s)
					return "x-retype-arg"
				}
			}
		case 5: // new required input field
			if len(ins) > 0 {
				t := ins[r.Intn(len(ins))]
				t.Inputs = append(t.Inputs, IField{Name: fmt.Sprintf("i%d", 5+r.Intn(2)), Type: nn(g.inType(s))})
				return "x-add-required-input-field"
			}
		case 6: // object becomes a union
			if len(objs) > 2 {
				t := objs[r.Intn(len(objs))]
				if t.Name != "Query" && t.Name != "Mutation" {
					t.Kind = "UNION"
					t.Fields = nil
					t.Possible = []PRef{{Name: "Query", Kind: "OBJECT"}}
					return "x-object-to-union"
				}
			}
		}
		return "noop"
	}
	switch r.Intn(13) {
	case 0: // add field
		t := pickObj()
		name := fmt.Sprintf("f%d", 1+r.Intn(8))
		for _, f := range t.Fields {
			if f.Name == name {
				return "noop"
			}
		}
		t.Fields = append(t.Fields, g.newField(s, name))
		return "add-field"
	case 1: // remove field
		t := pickObj()
		if len(t.Fields) > 1 {
			i := r.Intn(len(t.Fields))
			t.Fields = append(t.Fields[:i], t.Fields[i+1:]...)
			return "remove-field"
		}
	case 2: // add optional arg
		t := pickObj()
		if len(t.Fields) > 0 {
			f := &t.Fields[r.Intn(len(t.Fields))]
			name := fmt.Sprintf("a%d", 1+r.Intn(6))
			for _, a := range f.Args {
				if a.Name == name {
					return "noop"
				}
			}
			ty := g.inType(s)
			if ty.K == "NON_NULL" {
				ty = ty.Of
			}
			f.Args = append(f.Args, IField{Name: name, Type: ty})
			return "add-optional-arg"
		}
	case 3: // remove arg
		t := pickObj()
		if len(t.Fields) > 0 {
			f := &t.Fields[r.Intn(len(t.Fields))]
			if len(f.Args) > 0 {
				i := r.Intn(len(f.Args))
				f.Args = append(f.Args[:i], f.Args[i+1:]...)
				return "remove-arg"
			}
		}
	case 4, 5: // toggle nullability in an output type
		t := pickObj()
		if len(t.Fields) > 0 {
			f := &t.Fields[r.Intn(len(t.Fields))]
			f.Type = g.toggleNN(f.Type)
			return "toggle-output-nonnull"
		}
	case 6, 7: // toggle nullability in an argument type
		t := pickObj()
		if len(t.Fields) > 0 {
			f := &t.Fields[r.Intn(len(t.Fields))]
			if len(f.Args) > 0 {
				a := &f.Args[r.Intn(len(f.Args))]
				a.Type = g.toggleNN(a.Type)
				return "toggle-arg-nonnull"
			}
		}
	case 8: // enum value add / remove
		if len(enums) > 0 {
			e := enums[r.Intn(len(enums))]
			if r.Bool() && len(e.Enums) > 1 {
				i := r.Intn(len(e.Enums))
				e.Enums = append(e.Enums[:i:i], e.Enums[i+1:]...)
				return "remove-enum-value"
			}
			v := fmt.Sprintf("V%d", 1+r.Intn(7))
			for _, x := range e.Enums {
				if x == v {
					return "noop"
				}
			}
			e.Enums = append(e.Enums, v)
			return "add-enum-value"
		}
	case 9: // union member add / remove
		if len(unions) > 0 {
			u := unions[r.Intn(len(unions))]
			if r.Bool() && len(u.Possible) > 1 {
				i := r.Intn(len(u.Possible))
				u.Possible = append(u.Possible[:i:i], u.Possible[i+1:]...)
				return "remove-union-member"
			}
			o := pickObj()
			if o.Name == "Query" || o.Name == "Mutation" {
				return "noop"
			}
			for _, p := range u.Possible {
				if p.Name == o.Name {
					return "noop"
				}
			}
			u.Possible = append(u.Possible, PRef{Name: o.Name, Kind: "OBJECT"})
			return "add-union-member"
		}
	case 10: // input field add (optional) / remove / toggle
		if len(ins) > 0 {
			t := ins[r.Intn(len(ins))]
			switch r.Intn(3) {
			case 0:
				name := fmt.Sprintf("i%d", 1+r.Intn(6))
				for _, a := range t.Inputs {
					if a.Name == name {
						return "noop"
					}
				}
				ty := g.inType(s)
				if ty.K == "NON_NULL" {
					ty = ty.Of
				}
				t.Inputs = append(t.Inputs, IField{Name: name, Type: ty})
				return "add-optional-input-field"
			case 1:
				if len(t.Inputs) > 1 {
					i := r.Intn(len(t.Inputs))
					t.Inputs = append(t.Inputs[:i:i], t.Inputs[i+1:]...)
					return "remove-input-field"
				}
			default:
				if len(t.Inputs) > 0 {
					a := &t.Inputs[r.Intn(len(t.Inputs))]
					a.Type = g.toggleNN(a.Type)
					return "toggle-input-field-nonnull"
				}
			}
		}
	case 11: // add a type
		n := fmt.Sprintf("O%d", 4+r.Intn(3))
		if s.find(n) == nil {
			s.Types = append(s.Types, Type{Name: n, Kind: "OBJECT"})
			t := &s.Types[len(s.Types)-1]
			t.Fields = append(t.Fields, g.newField(s, "f1"))
			q := s.find("Query")
			fn := fmt.Sprintf("g%s", n)
			q.Fields = append(q.Fields, Field{Name: fn, Type: named("OBJECT", n)})
			return "add-type"
		}
	case 12: // remove a type and everything that refers to it
		var cands []string
		for _, t := range s.Types {
			if t.Name != "Query" && t.Kind != "SCALAR" {
				cands = append(cands, t.Name)
			}
		}
		if len(cands) > 0 {
			removeType(s, cands[r.Intn(len(cands))])
			return "remove-type"
		}
	}
	return "noop"
}

func removeType(s *Schema, name string) {
	var ts []Type
	for _, t := range s.Types {
		if t.Name == name {
			continue
		}
		var fs []Field
		for _, f := range t.Fields {
			if f.Type.root().N == name {
				continue
			}
			var as []IField
			for _, a := range f.Args {
				if a.Type.root().N != name {
					as = append(as, a)
				}
			}
			f.Args = as
			fs = append(fs, f)
		}
		t.Fields = fs
		var is []IField
		for _, a := range t.Inputs {
			if a.Type.root().N != name {
				is = append(is, a)
			}
		}
		t.Inputs = is
		var ps []PRef
		for _, p := range t.Possible {
			if p.Name != name {
				ps = append(ps, p)
			}
		}
		t.Possible = ps
		ts = append(ts, t)
	}
	s.Types = ts
}

// malform makes s ill-formed (duplicate names, unknown kinds): exercised for correspondence only.
func (g *gen) malform(s *Schema) string {
	r := g.r
	switch r.Intn(4) {
	case 0:
		if len(s.Types) > 0 {
			t := s.Types[r.Intn(len(s.Types))]
			s.Types = append(s.Types, t)
			return "m-duplicate-type"
		}
	case 1:
		for i := range s.Types {
			t := &s.Types[i]
			if t.Kind == "OBJECT" && len(t.Fields) > 0 {
				f := t.Fields[0]
				f.Type = g.outType(s)
				t.Fields = append(t.Fields, f)
				return "m-duplicate-field"
			}
		}
	case 2:
		s.Types = append(s.Types, Type{Name: "Node", Kind: "INTERFACE", Interfaces: []PRef{{Name: "X", Kind: "INTERFACE"}}})
		return "m-interface"
	case 3:
		s.Types = append(s.Types, Type{Name: "Weird", Kind: "WEIRD"})
		return "m-unknown-kind"
	}
	return "noop"
}

func nnPath(t *TRef) (flags []bool, rootKind, rootName string) {
	cur := false
	for c := t; c != nil; c = c.Of {
		switch c.K {
		case "NON_NULL":
			cur = true
		case "LIST":
			flags = append(flags, cur)
			cur = false
		default:
			flags = append(flags, cur)
			return flags, c.K, c.N
		}
	}
	return flags, "", ""
}

func short(s string, n int) string {
	if len(s) > n {
		return s[:n] + "..."
	}
	return s
}

var _ = strings.Join
