// C09: the merged gateway schema is executable by every live version of every service.
//
// Generates sets of introspection schemas (services x versions) two ways -- raw terms mutated from a common
// base, and schemas actually built with schemabuilder from a dynamic specification (pkg/fedgen) whose
// introspection result is taken from the implementation -- runs federation.MergeIntrospectionSchemas and
// federation.ConvertVersionedSchemas, evaluates the property directly on the outputs (oracles, independent of
// the Coq model) and writes inputs + observed outputs as Coq cases for Federation/Merge.v.
package main

import (
	"encoding/json"
	"fmt"
	"path/filepath"
	"sort"
	"strings"

	"github.com/samsarahq/thunder/federation"
	"github.com/samsarahq/thunder/graphql"
	"github.com/samsarahq/thunder/graphql/introspection"
	"verifharness/pkg/fedgen"
	"verifharness/pkg/vh"
)

type Case struct {
	Kind   string                               `json:"kind"` // raw | built
	Origin string                               `json:"origin"`
	Raw    map[string]map[string]*Schema        `json:"raw,omitempty"`
	Built  map[string]map[string]fedgen.Service `json:"built,omitempty"`
	Seed   uint64                               `json:"seed"`
	Labels []string                             `json:"labels,omitempty"`
}

func js(v interface{}) string {
	b, _ := json.Marshal(v)
	return string(b)
}

type version struct {
	svc, ver string
	rs       *Schema
	jsonb    []byte
	built    *graphql.Schema
}

type iqrMap = map[string]map[string]*federation.IntrospectionQueryResult

func mkInput(vs []*version, rename func(svc, ver string) (string, string)) iqrMap {
	m := iqrMap{}
	for _, v := range vs {
		s, ve := v.svc, v.ver
		if rename != nil {
			s, ve = rename(s, ve)
		}
		if m[s] == nil {
			m[s] = map[string]*federation.IntrospectionQueryResult{}
		}
		var r federation.IntrospectionQueryResult
		if err := json.Unmarshal(v.jsonb, &r); err != nil {
			panic(err)
		}
		m[s][ve] = &r
	}
	return m
}

type mergeOut struct {
	ok    bool
	err   string
	s     *Schema
	canon string
}

func runMerge(in iqrMap) (out mergeOut) {
	defer func() {
		if e := recover(); e != nil {
			out = mergeOut{err: "panic: " + fmt.Sprint(e)}
		}
	}()
	r, err := federation.MergeIntrospectionSchemas(in)
	if err != nil {
		return mergeOut{err: err.Error()}
	}
	b, _ := json.Marshal(r)
	s, err := schemaFromIntrospection(b)
	if err != nil {
		return mergeOut{err: "unparsable result: " + err.Error()}
	}
	return mergeOut{ok: true, s: s, canon: js(s.canon())}
}

type fieldKey struct{ typ, field string }

func runConvert(in iqrMap) (svcs map[fieldKey][]string, errs string) {
	defer func() {
		if e := recover(); e != nil {
			svcs, errs = nil, "panic: "+fmt.Sprint(e)
		}
	}()
	c, err := federation.ConvertVersionedSchemas(in)
	if err != nil {
		return nil, err.Error()
	}
	types := map[graphql.Type]string{}
	if c.Schema.Query != nil {
		federation.CollectTypes(c.Schema.Query, types)
	}
	if c.Schema.Mutation != nil {
		federation.CollectTypes(c.Schema.Mutation, types)
	}
	svcs = map[fieldKey][]string{}
	for t, name := range types {
		o, ok := t.(*graphql.Object)
		if !ok {
			continue
		}
		for fn, f := range o.Fields {
			info := c.Fields[f]
			var l []string
			if info != nil {
				for s, has := range info.Services {
					if has {
						l = append(l, s)
					}
				}
			}
			sort.Strings(l)
			svcs[fieldKey{name, fn}] = l
		}
	}
	return svcs, ""
}

func genRawCase(r *vh.Rng) Case {
	g := &gen{r: r}
	c := Case{Kind: "raw", Raw: map[string]map[string]*Schema{}, Seed: r.U64()}
	base := g.base()
	nSvc := 1 + r.Intn(3)
	allowIncompat := r.Chance(35)
	malformed := r.Chance(6)
	for si := 0; si < nSvc; si++ {
		sname := r.Pick([]string{"alpha", "beta", "gamma", "s1", "s2", "zeta"})
		if c.Raw[sname] != nil {
			continue
		}
		sbase := base.clone()
		if si > 0 {
			for n := 2 + r.Intn(6); n > 0; n-- {
				c.Labels = append(c.Labels, "svc:"+g.mutate(sbase, allowIncompat && r.Chance(30)))
			}
		}
		c.Raw[sname] = map[string]*Schema{}
		nVer := 1 + r.Intn(3)
		for vi := 0; vi < nVer; vi++ {
			vname := r.Pick([]string{"", "v1", "v2", "v10", "a", "b", "2021-01"})
			if c.Raw[sname][vname] != nil {
				continue
			}
			v := sbase.clone()
			if vi > 0 || r.Chance(30) {
				for n := 1 + r.Intn(4); n > 0; n-- {
					c.Labels = append(c.Labels, "ver:"+g.mutate(v, allowIncompat))
				}
			}
			// a live version that reports no Mutation (or no Query) type at all
			if r.Chance(14) {
				root := "Mutation"
				if r.Chance(12) {
					root = "Query"
				}
				if v.find(root) != nil {
					removeType(v, root)
					c.Labels = append(c.Labels, "ver:drop-root-type-"+root)
				}
			}
			if malformed && r.Chance(50) {
				c.Labels = append(c.Labels, g.malform(v))
			}
			if r.Chance(50) {
				sortSchema(v)
			}
			c.Raw[sname][vname] = v
		}
	}
	return c
}

var builtObjects = []string{"A", "B", "C"}

func genBuiltCase(r *vh.Rng) Case {
	c := Case{Kind: "built", Built: map[string]map[string]fedgen.Service{}, Seed: r.U64()}
	o := fedgen.GenOpts{Objects: builtObjects, Unions: true, Leaf: true, Args: true, Lists: true}
	two := r.Chance(45)
	allowIncompat := r.Chance(25)
	mk := func(name string) fedgen.Service {
		s := fedgen.Service{Name: name, Federated: true, UseKey: r.Bool()}
		for i, n := 1, 1+r.Intn(3); i <= n; i++ {
			s.Query = append(s.Query, fedgen.GenField(r, "Query", i, o))
		}
		for _, on := range builtObjects {
			if r.Chance(70) {
				ob := fedgen.Object{Name: on, KeyVariant: r.Intn(2)}
				for i, n := 1, r.Intn(4); i <= n; i++ {
					ob.Fields = append(ob.Fields, fedgen.GenField(r, on, i, o))
				}
				s.Objects = append(s.Objects, ob)
			}
		}
		return s
	}
	names := []string{"s1"}
	if two {
		names = append(names, "s2")
	}
	var first fedgen.Service
	for si, name := range names {
		var base fedgen.Service
		if si == 0 {
			base = mk(name)
			first = base
		} else {
			// the second service: its own fields (renamed apart) plus some fields shared with the first, possibly
			// with different optional arguments (the situation of DESIGN F17)
			base = mk(name)
			for i := range base.Query {
				base.Query[i].Name = "X" + base.Query[i].Name
			}
			for i := range base.Objects {
				for j := range base.Objects[i].Fields {
					base.Objects[i].Fields[j].Name = "X" + base.Objects[i].Fields[j].Name
				}
			}
			if r.Chance(60) && len(first.Query) > 0 {
				f := first.Query[r.Intn(len(first.Query))]
				sf := fedgen.Field{Name: f.Name, Ret: f.Ret, Args: append([]fedgen.Arg{}, f.Args...)}
				switch r.Intn(3) {
				case 0:
					a := fedgen.GenArg(r, 8)
					a.Opt = true
					sf.Args = append(sf.Args, a)
					c.Labels = append(c.Labels, "shared-field-extra-optional-arg")
				case 1:
					if len(sf.Args) > 0 && sf.Args[0].Opt {
						sf.Args = sf.Args[1:]
						c.Labels = append(c.Labels, "shared-field-fewer-args")
					}
				default:
					c.Labels = append(c.Labels, "shared-field-same")
				}
				base.Query = append(base.Query, sf)
			}
		}
		c.Built[name] = map[string]fedgen.Service{}
		nVer := 1 + r.Intn(3)
		if !two && nVer == 1 {
			nVer = 2
		}
		for vi := 0; vi < nVer; vi++ {
			vname := []string{"v1", "v2", "v3"}[vi]
			v := fedgen.CloneService(base)
			if vi > 0 {
				for n := 1 + r.Intn(3); n > 0; n-- {
					c.Labels = append(c.Labels, "ver:"+fedgen.MutateService(r, &v, o, allowIncompat))
				}
			}
			fedgen.Complete(&v, func(string) int { return 0 })
			c.Built[name][vname] = v
		}
	}
	return c
}

func materialise(c Case) ([]*version, string) {
	var vs []*version
	if c.Kind == "raw" {
		for _, sn := range sortedKeys2(c.Raw) {
			for _, vn := range sortedKeysS(c.Raw[sn]) {
				s := c.Raw[sn][vn]
				vs = append(vs, &version{svc: sn, ver: vn, rs: s, jsonb: s.introspectionJSON()})
			}
		}
		return vs, ""
	}
	w := fedgen.NewWorld(c.Seed)
	for _, sn := range sortedKeysB(c.Built) {
		var vns []string
		for vn := range c.Built[sn] {
			vns = append(vns, vn)
		}
		sort.Strings(vns)
		for _, vn := range vns {
			spec := c.Built[sn][vn]
			sb, err := fedgen.Build(spec, w, fedgen.AllColors)
			if err != nil {
				return nil, err.Error()
			}
			var built *graphql.Schema
			func() {
				defer func() {
					if e := recover(); e != nil {
						err = fmt.Errorf("%v", e)
					}
				}()
				built, err = sb.Build()
			}()
			if err != nil {
				return nil, err.Error()
			}
			b, err := introspection.RunIntrospectionQuery(introspection.BareIntrospectionSchema(built))
			if err != nil {
				return nil, err.Error()
			}
			rs, err := schemaFromIntrospection(b)
			if err != nil {
				return nil, err.Error()
			}
			vs = append(vs, &version{svc: sn, ver: vn, rs: rs, jsonb: b, built: built})
		}
	}
	return vs, ""
}

func sortedKeys2(m map[string]map[string]*Schema) []string {
	var ks []string
	for k := range m {
		ks = append(ks, k)
	}
	sort.Strings(ks)
	return ks
}
func sortedKeysS(m map[string]*Schema) []string {
	var ks []string
	for k := range m {
		ks = append(ks, k)
	}
	sort.Strings(ks)
	return ks
}
func sortedKeysB(m map[string]map[string]fedgen.Service) []string {
	var ks []string
	for k := range m {
		ks = append(ks, k)
	}
	sort.Strings(ks)
	return ks
}

// subsumes checks, on schema terms only, that everything a query can rely on in `m` is provided by version
// `v` (the schema-level reading of "valid against m => valid against v").
func subsumes(v, m *Schema) string {
	for _, mt := range m.Types {
		vt := v.find(mt.Name)
		if vt == nil {
			return "type " + mt.Name + " missing"
		}
		if vt.Kind != mt.Kind {
			return "type " + mt.Name + " kind differs"
		}
		for _, mf := range mt.Fields {
			var vf *Field
			for i := range vt.Fields {
				if vt.Fields[i].Name == mf.Name {
					vf = &vt.Fields[i]
				}
			}
			if vf == nil {
				return mt.Name + "." + mf.Name + " missing"
			}
			_, mk, mn := nnPath(mf.Type)
			_, vk, vn := nnPath(vf.Type)
			if mk != vk || mn != vn || len(depthOnly(mf.Type)) != len(depthOnly(vf.Type)) {
				return mt.Name + "." + mf.Name + " type differs"
			}
			if msg := inputsSubsumed(vf.Args, mf.Args); msg != "" {
				return mt.Name + "." + mf.Name + ": " + msg
			}
		}
		if msg := inputsSubsumed(vt.Inputs, mt.Inputs); msg != "" {
			return mt.Name + ": " + msg
		}
		for _, p := range mt.Possible {
			found := false
			for _, q := range vt.Possible {
				found = found || q.Name == p.Name
			}
			if !found {
				return mt.Name + " possible type " + p.Name + " missing"
			}
		}
		for _, e := range mt.Enums {
			found := false
			for _, q := range vt.Enums {
				found = found || q == e
			}
			if !found {
				return mt.Name + " enum value " + e + " missing"
			}
		}
	}
	return ""
}

func depthOnly(t *TRef) []bool { f, _, _ := nnPath(t); return f }

// inputsSubsumed: every merged input is known to the version with the same shape and is at least as strict;
// every input the version requires is in the merged list.
func inputsSubsumed(vs, ms []IField) string {
	for _, ma := range ms {
		var va *IField
		for i := range vs {
			if vs[i].Name == ma.Name {
				va = &vs[i]
			}
		}
		if va == nil {
			return "argument " + ma.Name + " unknown to version"
		}
		mf, mk, mn := nnPath(ma.Type)
		vf, vk, vn := nnPath(va.Type)
		if mk != vk || mn != vn || len(mf) != len(vf) {
			return "argument " + ma.Name + " type differs"
		}
		for i := range mf {
			if vf[i] && !mf[i] {
				return "argument " + ma.Name + " is nullable in the merge but non-null in a version"
			}
		}
	}
	for _, va := range vs {
		if va.Type.K != "NON_NULL" {
			continue
		}
		found := false
		for _, ma := range ms {
			found = found || ma.Name == va.Name
		}
		if !found {
			return "argument " + va.Name + " required by a version is not in the merge"
		}
	}
	return ""
}

func allWF(vs []*version) bool {
	for _, v := range vs {
		if !v.rs.wf() {
			return false
		}
	}
	return true
}
func allClosed(vs []*version) bool {
	for _, v := range vs {
		if !v.rs.closed() {
			return false
		}
	}
	return true
}

type obs struct {
	idx      int
	c        Case
	vs       []*version
	merged   mergeOut
	fieldSvc map[fieldKey][]string
	fedkeys  int // ConvertVersionedSchemas: 1 accepted, 2 refused with 'Invalid federation key', 3 refused with '... is not federated', 4 refused (key configurations: whatever the text), 0 anything else
	queries  []qobs
	skip     bool
	per      map[string]mergeOut // per service: MergeIntrospectionSchemas of that service alone
}
type qobs struct {
	q   []Sel
	res []qres
}
type qres struct {
	svc, ver string
	ok       bool
}

func main() {
	o := vh.ParseFlags()
	run := vh.NewRun("C09", o)
	run.Rule = "a case is a set of services x versions of introspection schemas: 15% federation-key configurations (one federated object on 3-4 services, each a root exposing some candidate key fields and asking for some; half made valid, half random; service names drawn in random order), 55% raw terms (a random closed base schema; versions and services derived by add/remove/retype of types, fields, arguments, input fields, enum values, union members, NON_NULL toggles at any list depth; ~1/3 of the cases allow incompatible edits, 6% ill-formed) and 30% schemas built with schemabuilder from a dynamic specification (introspection JSON taken from the implementation); non-trivial = at least two schemas are merged and the merge result differs from each single input; distinct by the canonical JSON of all inputs"
	r := vh.NewRng(o.Seed)

	var cases []Case
	searching := o.Search != ""
	if searching {
		cases = searchCases(o, r)
	} else if o.Replay != "" {
		var c Case
		if vh.ReadReplayCase(o.Replay, &c) {
			c.Origin = "replay"
			cases = append(cases, c)
		}
	} else {
		for _, f := range vh.CorpusFiles(o.Corpus) {
			var c Case
			if vh.ReadReplayCase(f, &c) {
				c.Origin = "corpus:" + filepath.Base(f)
				cases = append(cases, c)
			}
		}
		for i := 0; i < o.N; i++ {
			cr := r.Fork()
			var c Case
			switch k := cr.Intn(100); {
			case k < 30:
				c = genBuiltCase(cr)
			case k < 45:
				c = genKeyCase(cr)
			default:
				c = genRawCase(cr)
			}
			c.Origin = "generated"
			cases = append(cases, c)
		}
	}

	repaired, reading := probeRepaired()
	run.Hist("mergeSchemaSlice-reading:" + reading)

	var all []*obs
	for idx, c := range cases {
		run.LogCase(idx, c)
		ob := &obs{idx: idx, c: c}
		all = append(all, ob)
		vs, berr := materialise(c)
		if berr != "" {
			run.Hist("built:build-failed")
			run.Count(fmt.Sprint(idx), false)
			ob.skip = true
			continue
		}
		ob.vs = vs
		run.Hist("kind:" + c.Kind)
		run.Hist(fmt.Sprintf("schemas:%d", len(vs)))
		for _, l := range c.Labels {
			if l != "noop" {
				run.Hist("edit:" + strings.TrimPrefix(strings.TrimPrefix(l, "ver:"), "svc:"))
			}
		}
		in := mkInput(vs, nil)
		ob.merged = runMerge(in)
		if strings.HasPrefix(ob.merged.err, "panic:") {
			failCapped(run, idx, "merge-panic", ob.merged.err, c)
		}
		if !strings.HasPrefix(ob.merged.err, "panic:") {
			// ---- oracle (p): merging leaves its inputs alone and does not depend on earlier merges of the same objects
			checkPurity(run, idx, c, vs, ob.merged)
		}
		ob.per = map[string]mergeOut{}
		maxFold := 0
		{
			bySvc := map[string][]*version{}
			for _, v := range vs {
				bySvc[v.svc] = append(bySvc[v.svc], v)
			}
			for s, l := range bySvc {
				ob.per[s] = runMerge(mkInput(l, nil))
				if len(l) > maxFold {
					maxFold = len(l)
				}
			}
			if len(bySvc) > maxFold {
				maxFold = len(bySvc)
			}
		}
		wf := allWF(vs)
		closed := allClosed(vs)
		if !wf {
			run.Hist("input:ill-formed")
		}
		if !closed {
			run.Hist("input:not-closed")
		}
		key := ""
		for _, v := range vs {
			key += v.svc + "/" + v.ver + "=" + js(v.rs.canon()) + ";"
		}
		nontrivial := len(vs) >= 2 && ob.merged.ok
		if nontrivial {
			same := false
			for _, v := range vs {
				if js(v.rs.canon()) == ob.merged.canon {
					same = true
				}
			}
			nontrivial = !same
		}
		run.Count(key, nontrivial)
		if ob.merged.ok {
			run.Hist("merge:ok")
		} else {
			run.Hist("merge:error")
		}

		// ---- oracle (a): the outcome does not depend on how services and versions are named / ordered
		if wf {
			svcNames := map[string]string{}
			verNames := map[string]string{}
			cr := vh.NewRng(c.Seed)
			var ss, vv []string
			for _, v := range vs {
				ss = append(ss, v.svc)
				vv = append(vv, v.ver)
			}
			ss, vv = dedupeSorted(ss), dedupeSorted(vv)
			perm := func(xs []string, prefix string) map[string]string {
				p := make([]int, len(xs))
				for i := range p {
					p[i] = i
				}
				for i := len(p) - 1; i > 0; i-- {
					j := cr.Intn(i + 1)
					p[i], p[j] = p[j], p[i]
				}
				m := map[string]string{}
				for i, x := range xs {
					m[x] = fmt.Sprintf("%s%02d", prefix, p[i])
				}
				return m
			}
			differs := false
			for try := 0; try < 3; try++ {
				svcNames, verNames = perm(ss, "svc"), perm(vv, "ver")
				m2 := runMerge(mkInput(vs, func(s, v string) (string, string) { return svcNames[s], verNames[v] }))
				if m2.ok != ob.merged.ok {
					sig := "merge-error-depends-on-naming"
					failCapped(run, idx, sig, fmt.Sprintf("original: ok=%v %s; renamed %v %v: ok=%v %s", ob.merged.ok, short(ob.merged.err, 200), svcNames, verNames, m2.ok, short(m2.err, 200)), c)
					differs = true
					break
				} else if m2.ok && m2.canon != ob.merged.canon {
					failCapped(run, idx, "merge-result-depends-on-naming", fmt.Sprintf("renamed %v %v: %s vs %s", svcNames, verNames, short(ob.merged.canon, 400), short(m2.canon, 400)), c)
					break
				}
			}
			// folds of three or more schemas (versions of one service, or services): does the outcome survive reordering?
			if maxFold >= 3 {
				switch {
				case differs:
					run.Hist("fold-of->=3-schemas:some-order-fails-another-succeeds")
				case ob.merged.ok:
					run.Hist("fold-of->=3-schemas:every-tried-order-succeeds(equal-results)")
				default:
					run.Hist("fold-of->=3-schemas:every-tried-order-fails")
				}
			}
		}

		// per-service intersections through the public entry point
		perSvc := map[string]mergeOut{}
		if wf && ob.merged.ok {
			bySvc := map[string][]*version{}
			for _, v := range vs {
				bySvc[v.svc] = append(bySvc[v.svc], v)
			}
			for s := range bySvc {
				perSvc[s] = ob.per[s]
			}
			// ---- oracle (d): a service's schema offers only what every version of it supports
			for s, l := range bySvc {
				ps := perSvc[s]
				if !ps.ok {
					failCapped(run, idx, "service-merge-fails-but-whole-succeeds", s+": "+ps.err, c)
					continue
				}
				if len(l) < 2 {
					continue
				}
				for _, v := range l {
					if msg := subsumes(v.rs, ps.s); msg != "" {
						failCapped(run, idx, "intersection-keeps-what-a-version-lacks", fmt.Sprintf("service %s version %q: %s", s, v.ver, msg), c)
					}
				}
			}
			// ---- oracle (f): the union offers every field some service offers
			for s, ps := range perSvc {
				if !ps.ok {
					continue
				}
				for _, t := range ps.s.Types {
					mt := ob.merged.s.find(t.Name)
					if mt == nil {
						failCapped(run, idx, "union-loses-type", s+": "+t.Name, c)
						continue
					}
					for _, f := range t.Fields {
						found := false
						for _, mf := range mt.Fields {
							found = found || mf.Name == f.Name
						}
						if !found {
							failCapped(run, idx, "union-loses-field", s+": "+t.Name+"."+f.Name, c)
						}
					}
				}
			}
			// ---- oracle (b): nullability lattice, read off the outputs
			checkNullability(run, idx, c, vs, perSvc, ob.merged.s)
			// ---- oracle (c): closure
			if closed && !ob.merged.s.closed() {
				failCapped(run, idx, "merged-schema-not-closed", short(ob.merged.canon, 600), c)
			}
		}

		// ConvertVersionedSchemas: which services serve which field
		if ob.merged.ok {
			fs, cerr := runConvert(mkInput(vs, nil))
			if strings.HasPrefix(cerr, "panic:") {
				// parseSchema's error path for a union member that is not an OBJECT dereferences a nil pointer
				// (schema.go:516-518); introspection of a real schema cannot produce such input, so it is only
				// reported when every input is well-formed and closed.
				if wf && closed {
					failCapped(run, idx, "convert-panic", cerr, c)
				} else {
					run.Hist("convert:panic-on-unclosed-input")
				}
			}
			if cerr == "" {
				ob.fieldSvc = fs
				run.Hist("convert:ok")
				ob.fedkeys = 1
			} else {
				run.Hist("convert:error")
				if strings.Contains(cerr, "Invalid federation key") {
					ob.fedkeys = 2
					run.Hist("convert:invalid-federation-key")
				} else if strings.Contains(cerr, "exists on another server and is not federated") {
					ob.fedkeys = 3
					run.Hist("convert:object-not-federated-everywhere")
				}
			}
			// for the federation-key configurations the verdict is classified without reading the error text: the
			// two validations are the only reasons such a set of schemas can be refused
			keyFamily := false
			for _, l := range c.Labels {
				keyFamily = keyFamily || strings.HasPrefix(l, "federation-keys:")
			}
			if keyFamily && cerr != "" && !strings.HasPrefix(cerr, "panic:") {
				ob.fedkeys = 4
			}
			// ---- oracle (h): federation keys.  The verdict of ConvertVersionedSchemas does not depend on how the
			// services are named; accepted <=> every key field a service asks for is exposed by every root service
			// of the object; and what is accepted plans into sub-queries the services can answer.
			if wf && !strings.HasPrefix(cerr, "panic:") {
				cr := vh.NewRng(c.Seed ^ 0x6b65)
				var ss []string
				for _, v := range vs {
					ss = append(ss, v.svc)
				}
				ss = dedupeSorted(ss)
				for try := 0; try < 3; try++ {
					p := make([]int, len(ss))
					for i := range p {
						p[i] = i
					}
					for i := len(p) - 1; i > 0; i-- {
						j := cr.Intn(i + 1)
						p[i], p[j] = p[j], p[i]
					}
					names := map[string]string{}
					for i, x := range ss {
						names[x] = fmt.Sprintf("svc%02d", p[i])
					}
					ren := func(s, v string) (string, string) { return names[s], v }
					if m2 := runMerge(mkInput(vs, ren)); !m2.ok {
						continue // the merge itself depends on the naming: oracle (a), known finding
					}
					_, cerr2 := runConvert(mkInput(vs, ren))
					if (cerr == "") != (cerr2 == "") {
						failCapped(run, idx, "convert-verdict-depends-on-naming", fmt.Sprintf("original: %q; services renamed %v: %q", short(cerr, 200), names, short(cerr2, 200)), c)
						break
					}
				}
				if unf, comparable := unfederatedHolders(perSvc, ob.merged.s); comparable {
					if cerr == "" && len(unf) > 0 {
						failCapped(run, idx, "convert-accepts-object-not-federated-everywhere", fmt.Sprintf("%s has the object without _federation while another service federates it; ConvertVersionedSchemas accepts", unf[0]), c)
					}
					if ob.fedkeys == 3 && len(unf) == 0 {
						failCapped(run, idx, "convert-refuses-objects-federated-everywhere", short(cerr, 300), c)
					}
				}
				if viol, comparable := keyViolations(perSvc, ob.merged.s); comparable {
					if cerr == "" && len(viol) > 0 {
						v := viol[0]
						failCapped(run, idx, "convert-accepts-federation-key-a-root-service-lacks", fmt.Sprintf("service %s asks for key %s of %s, root service %s does not expose it; ConvertVersionedSchemas accepts", v.asker, v.key, v.obj, v.root), c)
					}
					unf, _ := unfederatedHolders(perSvc, ob.merged.s)
					if (ob.fedkeys == 2 || (ob.fedkeys == 4 && len(unf) == 0)) && len(viol) == 0 {
						failCapped(run, idx, "convert-refuses-valid-federation-keys", short(cerr, 300), c)
					}
					if len(viol) == 0 {
						run.Hist("federation-keys:valid")
					} else {
						run.Hist("federation-keys:invalid")
					}
				}
				if cerr == "" && c.Kind == "raw" {
					nq, problems := gatewayOverMocks(mkInput(vs, nil), perSvc, ob.merged.s)
					if nq > 0 {
						run.Histogram["federation-keys:hop-queries-run-over-mock-services"] += nq
					}
					if len(problems) > 0 {
						failCapped(run, idx, "accepted-schemas-plan-subquery-a-service-cannot-answer", short(problems[0], 600), c)
					}
				}
			}
		}

		// ---- oracle (g): everything on the input side of a field of the merged schema (argument names, enum
		// values and input-object fields reachable from its arguments) is known to every service that may be
		// asked to serve the field
		known := map[string]bool{}
		if wf && ob.merged.ok && ob.fieldSvc != nil {
			for _, msg := range inputSideUnknown(ob.merged.s, perSvc, ob.fieldSvc) {
				if !known[msg.sig] {
					known[msg.sig] = true
					failCapped(run, idx, msg.sig, msg.detail, c)
				}
			}
		}

		// ---- oracle (e): queries valid against the merged schema, routed to one service, are accepted by
		// every version of that service (built cases: the versions are real schemas)
		if c.Kind == "built" && ob.merged.ok && ob.fieldSvc != nil {
			qr := vh.NewRng(c.Seed ^ 0x5151)
			svcs := dedupeSortedVersions(vs)
			for k := 0; k < 6; k++ {
				svc := svcs[qr.Intn(len(svcs))]
				w := &walker{r: qr, s: ob.merged.s, allow: func(t, f string) bool {
					for _, s := range ob.fieldSvc[fieldKey{t, f}] {
						if s == svc {
							return true
						}
					}
					return false
				}}
				q := w.sels("Query", 2+qr.Intn(2))
				onlyTypename := len(q) == 1 && q[0].Name == "__typename"
				if len(q) == 0 || onlyTypename {
					continue
				}
				run.Hist("query:valid-by-construction")
				if w.usedUn {
					run.Hist("query:with-union")
				}
				if w.nArgs > 0 {
					run.Hist("query:with-args")
				}
				qo := qobs{q: q}
				for _, v := range vs {
					if v.svc != svc {
						continue
					}
					ok, msg := prepare(v.built.Query, q)
					qo.res = append(qo.res, qres{v.svc, v.ver, ok})
					if !ok {
						// The class of the refusal is computed from schemas and the query, never from the message.  The
						// intersection of the service's versions is sound (Props/C09.intersection_sound): a query that is
						// valid against it is accepted by every version.  So a refusal by a version is either a violation
						// of that soundness -- the query IS valid against the service's own intersected schema -- or the
						// query uses, on the input side, something the service's intersection does not have and the union
						// with the other services re-supplied: an argument, an enum value, an input-object field (the
						// three open "union keeps ..." findings, reported independently by oracle (g) above).  The root
						// cause is therefore read off the SERVICE's intersected schema: a version may stumble over a
						// different detail of the same re-supplied input (s1 = {v1: e2 with all colours, v2: e2 with fewer
						// colours, v3: no e2}: the intersection has no e2; asked `qf1(e2: GREEN)`, v2 trips over GREEN).
						sig := "merged-valid-query-rejected-by-version"
						why := whyRefused(v.rs, q)
						if ps, has := perSvc[v.svc]; has && ps.ok && ps.s != nil {
							why = whyRefused(ps.s, q)
						}
						switch {
						case why.other:
						case why.arg && known[sigArg]:
							sig = sigArg
						case why.enum && known[sigEnum]:
							sig = sigEnum
						case why.input && known[sigInput]:
							sig = sigInput
						}
						failCapped(run, idx, sig, fmt.Sprintf("service %s version %s rejects {%s}: %s", v.svc, v.ver, selsText(q), msg), c)
					}
				}
				ob.queries = append(ob.queries, qo)
				// a corrupted variant, for the model-vs-PrepareQuery comparison only
				if cq, what := corrupt(qr, q); what != "none" {
					run.Hist("query:corrupted:" + what)
					co := qobs{q: cq}
					for _, v := range vs {
						if v.svc != svc {
							continue
						}
						ok, _ := prepare(v.built.Query, cq)
						co.res = append(co.res, qres{v.svc, v.ver, ok})
						if ok {
							run.Hist("query:corrupted-accepted")
						}
					}
					ob.queries = append(ob.queries, co)
				}
			}
		}
		if nontrivial {
			run.Sample(map[string]interface{}{"kind": c.Kind, "labels": c.Labels, "schemas": len(vs), "merged_ok": ob.merged.ok,
				"merged": short(ob.merged.canon, 300), "error": short(ob.merged.err, 200)})
		}
	}

	if searching {
		// oracle only
		run.Finish()
		return
	}
	// ---- Coq cases
	const shard = 60
	var terms []string
	start := 0
	flush := func() {
		if len(terms) == 0 {
			return
		}
		run.WriteCasesV(fmt.Sprintf("cases_%d.v", start), []string{"Lib.Json", "Federation.Merge"}, "", "mismatches_from_sparse", 0, terms)
		start += len(terms)
		terms = nil
	}
	for _, ob := range all {
		if ob.skip || strings.HasPrefix(ob.merged.err, "panic:") {
			continue
		}
		// services as an association list in a seed-dependent (not sorted) order
		bySvc := map[string][]*version{}
		var order []string
		for _, v := range ob.vs {
			if bySvc[v.svc] == nil {
				order = append(order, v.svc)
			}
			bySvc[v.svc] = append(bySvc[v.svc], v)
		}
		sr := vh.NewRng(ob.c.Seed ^ 77)
		shuffle(sr, order)
		var ss []string
		for _, s := range order {
			l := bySvc[s]
			idxs := make([]string, len(l))
			for i, v := range l {
				idxs[i] = "(" + vh.CoqString(v.ver) + ", " + v.rs.coq() + ")"
			}
			shuffle(sr, idxs)
			ss = append(ss, "("+vh.CoqString(s)+", "+vh.CoqList(idxs)+")")
		}
		merged := "None"
		if ob.merged.ok {
			merged = "(Some " + vh.CoqJSON(ob.merged.s.canon()) + ")"
		}
		var fsv []string
		var fks []fieldKey
		for k := range ob.fieldSvc {
			fks = append(fks, k)
		}
		sort.Slice(fks, func(i, j int) bool {
			if fks[i].typ != fks[j].typ {
				return fks[i].typ < fks[j].typ
			}
			return fks[i].field < fks[j].field
		})
		for _, k := range fks {
			var l []string
			for _, s := range ob.fieldSvc[k] {
				l = append(l, vh.CoqString(s))
			}
			fsv = append(fsv, "("+vh.CoqString(k.typ)+", "+vh.CoqString(k.field)+", "+vh.CoqList(l)+")")
		}
		var qs []string
		for _, q := range ob.queries {
			var rs []string
			for _, x := range q.res {
				rs = append(rs, "("+vh.CoqString(x.svc)+", "+vh.CoqString(x.ver)+", "+vh.CoqBool(x.ok)+")")
			}
			qs = append(qs, "("+selsCoq(q.q)+", "+vh.CoqList(rs)+")")
		}
		var pers []string
		var pnames []string
		for s := range ob.per {
			pnames = append(pnames, s)
		}
		sort.Strings(pnames)
		for _, s := range pnames {
			p := ob.per[s]
			if strings.HasPrefix(p.err, "panic:") {
				continue
			}
			pj := "None"
			if p.ok {
				pj = "(Some " + vh.CoqJSON(p.s.canon()) + ")"
			}
			pers = append(pers, "("+vh.CoqString(s)+", "+pj+")")
		}
		terms = append(terms, fmt.Sprintf("(%d, mk_case %s %s %s %s %d %s %s)", ob.idx, vh.CoqList(ss), merged, vh.CoqList(fsv), vh.CoqList(qs), ob.fedkeys, vh.CoqBool(repaired), vh.CoqList(pers)))
		if len(terms) >= shard {
			flush()
		}
	}
	flush()
	run.Finish()
}

func shuffle(r *vh.Rng, xs []string) {
	for i := len(xs) - 1; i > 0; i-- {
		j := r.Intn(i + 1)
		xs[i], xs[j] = xs[j], xs[i]
	}
}

func dedupeSorted(xs []string) []string {
	sort.Strings(xs)
	var out []string
	for i, x := range xs {
		if i == 0 || x != xs[i-1] {
			out = append(out, x)
		}
	}
	return out
}

func dedupeSortedVersions(vs []*version) []string {
	var ss []string
	for _, v := range vs {
		ss = append(ss, v.svc)
	}
	return dedupeSorted(ss)
}

// checkNullability reads the lattice rule off the outputs: for every field / argument of the merged schema,
// level by level through the list nesting: an output position is NON_NULL iff it is NON_NULL in every service
// schema that has the field (and, per service, in every version); an argument position is NON_NULL iff it is in
// any schema that has the argument.
func checkNullability(run *vh.Run, idx int, c Case, vs []*version, perSvc map[string]mergeOut, merged *Schema) {
	for _, mt := range merged.Types {
		for _, mf := range mt.Fields {
			var outs [][]bool
			argFlags := map[string][][]bool{}
			for _, v := range vs {
				ps := perSvc[v.svc]
				if !ps.ok {
					return
				}
				// only versions of services whose intersection kept the field contribute
				pt := ps.s.find(mt.Name)
				if pt == nil {
					continue
				}
				var pf *Field
				for i := range pt.Fields {
					if pt.Fields[i].Name == mf.Name {
						pf = &pt.Fields[i]
					}
				}
				if pf == nil {
					continue
				}
				vt := v.rs.find(mt.Name)
				if vt == nil {
					continue
				}
				for _, vf := range vt.Fields {
					if vf.Name != mf.Name {
						continue
					}
					f, _, _ := nnPath(vf.Type)
					outs = append(outs, f)
					for _, a := range vf.Args {
						kept := false
						for _, pa := range pf.Args {
							kept = kept || pa.Name == a.Name
						}
						if !kept {
							continue // dropped by this service's intersection: does not contribute
						}
						af, _, _ := nnPath(a.Type)
						argFlags[a.Name] = append(argFlags[a.Name], af)
					}
				}
			}
			mfl, _, _ := nnPath(mf.Type)
			for lvl := range mfl {
				all := len(outs) > 0
				for _, f := range outs {
					if lvl >= len(f) || !f[lvl] {
						all = false
					}
				}
				if len(outs) > 0 && mfl[lvl] != all {
					failCapped(run, idx, "output-nullability-rule", fmt.Sprintf("%s.%s level %d: merged non-null=%v, sides=%v", mt.Name, mf.Name, lvl, mfl[lvl], outs), c)
				}
			}
			for _, ma := range mf.Args {
				afl, _, _ := nnPath(ma.Type)
				sides := argFlags[ma.Name]
				for lvl := range afl {
					any := false
					for _, f := range sides {
						if lvl < len(f) && f[lvl] {
							any = true
						}
					}
					if len(sides) > 0 && afl[lvl] != any {
						failCapped(run, idx, "input-nullability-rule", fmt.Sprintf("%s.%s(%s) level %d: merged non-null=%v, sides=%v", mt.Name, mf.Name, ma.Name, lvl, afl[lvl], sides), c)
					}
				}
			}
		}
	}
}

const (
	sigArg   = "union-keeps-argument-unknown-to-a-serving-service"
	sigEnum  = "union-keeps-enum-value-unknown-to-a-serving-service"
	sigInput = "union-keeps-input-field-unknown-to-a-serving-service"
)

type sideMsg struct{ sig, detail string }

func inputSideUnknown(merged *Schema, perSvc map[string]mergeOut, fieldSvc map[fieldKey][]string) []sideMsg {
	var out []sideMsg
	var fks []fieldKey
	for k := range fieldSvc {
		fks = append(fks, k)
	}
	sort.Slice(fks, func(i, j int) bool {
		if fks[i].typ != fks[j].typ {
			return fks[i].typ < fks[j].typ
		}
		return fks[i].field < fks[j].field
	})
	for _, k := range fks {
		mt := merged.find(k.typ)
		if mt == nil {
			continue
		}
		var mf *Field
		for i := range mt.Fields {
			if mt.Fields[i].Name == k.field {
				mf = &mt.Fields[i]
			}
		}
		if mf == nil {
			continue
		}
		for _, svc := range fieldSvc[k] {
			ps, ok := perSvc[svc]
			if !ok || !ps.ok {
				continue
			}
			st := ps.s.find(k.typ)
			if st == nil {
				continue
			}
			var sf *Field
			for i := range st.Fields {
				if st.Fields[i].Name == k.field {
					sf = &st.Fields[i]
				}
			}
			if sf == nil {
				continue
			}
			for _, ma := range mf.Args {
				found := false
				for _, sa := range sf.Args {
					found = found || sa.Name == ma.Name
				}
				if !found {
					out = append(out, sideMsg{sigArg, fmt.Sprintf("%s.%s(%s) is in the merged schema; service %s serves the field without that argument", k.typ, k.field, ma.Name, svc)})
					continue
				}
				seen := map[string]bool{}
				var walk func(t *TRef)
				walk = func(t *TRef) {
					r := t.root()
					if seen[r.N] {
						return
					}
					seen[r.N] = true
					mty, sty := merged.find(r.N), ps.s.find(r.N)
					if mty == nil || sty == nil {
						return
					}
					switch r.K {
					case "ENUM":
						for _, e := range mty.Enums {
							f := false
							for _, x := range sty.Enums {
								f = f || x == e
							}
							if !f {
								out = append(out, sideMsg{sigEnum, fmt.Sprintf("%s.%s(%s): enum %s value %s is in the merged schema; service %s does not know it", k.typ, k.field, ma.Name, r.N, e, svc)})
								return
							}
						}
					case "INPUT_OBJECT":
						for _, mi := range mty.Inputs {
							f := false
							for _, x := range sty.Inputs {
								f = f || x.Name == mi.Name
							}
							if !f {
								out = append(out, sideMsg{sigInput, fmt.Sprintf("%s.%s(%s): input object %s field %s is in the merged schema; service %s does not know it", k.typ, k.field, ma.Name, r.N, mi.Name, svc)})
							} else {
								walk(mi.Type)
							}
						}
					}
				}
				walk(ma.Type)
			}
		}
	}
	return out
}

// failCapped records at most 12 failures per signature (vh.Run keeps 200 in all), so that a frequent signature
// -- e.g. an open known finding -- cannot crowd out a different one; the rest are counted in the histogram.
var failCount = map[string]int{}

func failCapped(run *vh.Run, idx int, sig, detail string, c interface{}) {
	failCount[sig]++
	if failCount[sig] > 12 {
		run.Hist("failures-not-listed:" + sig)
		return
	}
	run.Fail(idx, sig, detail, c)
}
