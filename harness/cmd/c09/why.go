package main

// Why a version must refuse a query that is valid against the merged schema -- computed from the version's own
// schema and the query, never from the text of the error: the query uses an argument the version's field does not
// declare, an enum value the version's enum does not have, or an input-object field the version's input type
// does not have (the three "union keeps ..." classes), or something else (a field / type the version lacks).

type refusal struct{ arg, enum, input, other bool }

func (w *refusal) valueIn(s *Schema, t *TRef, v interface{}) {
	if v == nil || t == nil {
		return
	}
	switch t.K {
	case "NON_NULL":
		w.valueIn(s, t.Of, v)
	case "LIST":
		if l, ok := v.([]interface{}); ok {
			for _, e := range l {
				w.valueIn(s, t.Of, e)
			}
		}
	case "ENUM":
		ty := s.find(t.N)
		str, isStr := v.(string)
		if ty == nil || !isStr {
			w.other = true
			return
		}
		found := false
		for _, e := range ty.Enums {
			found = found || e == str
		}
		if !found {
			w.enum = true
		}
	case "INPUT_OBJECT":
		ty := s.find(t.N)
		m, isMap := v.(map[string]interface{})
		if ty == nil || !isMap {
			w.other = true
			return
		}
		for k, x := range m {
			var decl *IField
			for i := range ty.Inputs {
				if ty.Inputs[i].Name == k {
					decl = &ty.Inputs[i]
				}
			}
			if decl == nil {
				w.input = true
				continue
			}
			w.valueIn(s, decl.Type, x)
		}
	}
}

func (w *refusal) sels(s *Schema, typ string, q []Sel) {
	ty := s.find(typ)
	if ty == nil {
		w.other = true
		return
	}
	for _, sel := range q {
		if sel.On != "" {
			// a fragment: on the type itself or on a member of the union
			w.sels(s, sel.On, sel.Subs)
			continue
		}
		if sel.Name == "__typename" {
			continue
		}
		var fd *Field
		for i := range ty.Fields {
			if ty.Fields[i].Name == sel.Name {
				fd = &ty.Fields[i]
			}
		}
		if fd == nil {
			w.other = true
			continue
		}
		for _, kv := range sel.Args {
			var decl *IField
			for i := range fd.Args {
				if fd.Args[i].Name == kv.K {
					decl = &fd.Args[i]
				}
			}
			if decl == nil {
				w.arg = true
				continue
			}
			w.valueIn(s, decl.Type, kv.V)
		}
		if len(sel.Subs) > 0 {
			w.sels(s, fd.Type.root().N, sel.Subs)
		}
	}
}

func whyRefused(s *Schema, q []Sel) refusal {
	var w refusal
	w.sels(s, "Query", q)
	return w
}
