package main

import (
	"context"
	"fmt"
	"strings"

	"github.com/samsarahq/thunder/graphql"
	"verifharness/pkg/vh"
)

type KV struct {
	K string      `json:"k"`
	V interface{} `json:"v"`
}

// Sel is a field selection (On == "") or an inline fragment (On != "").
type Sel struct {
	Alias string `json:"alias,omitempty"`
	Name  string `json:"name,omitempty"`
	Args  []KV   `json:"args,omitempty"`
	Subs  []Sel  `json:"subs,omitempty"`
	On    string `json:"on,omitempty"`
}

func toSelectionSet(sels []Sel) *graphql.SelectionSet {
	if len(sels) == 0 {
		return nil
	}
	ss := &graphql.SelectionSet{}
	for _, s := range sels {
		if s.On != "" {
			sub := toSelectionSet(s.Subs)
			if sub == nil {
				sub = &graphql.SelectionSet{}
			}
			ss.Fragments = append(ss.Fragments, &graphql.Fragment{On: s.On, SelectionSet: sub})
			continue
		}
		args := map[string]interface{}{}
		for _, kv := range s.Args {
			args[kv.K] = kv.V
		}
		ss.Selections = append(ss.Selections, &graphql.Selection{Name: s.Name, Alias: s.Alias, UnparsedArgs: args, SelectionSet: toSelectionSet(s.Subs)})
	}
	return ss
}

func prepare(typ graphql.Type, sels []Sel) (ok bool, msg string) {
	defer func() {
		if e := recover(); e != nil {
			ok, msg = false, "panic: "+fmt.Sprint(e)
		}
	}()
	ss := toSelectionSet(sels)
	if ss == nil {
		return false, "empty"
	}
	if err := graphql.PrepareQuery(context.Background(), typ, ss); err != nil {
		return false, err.Error()
	}
	return true, ""
}

func selsCoq(sels []Sel) string {
	xs := []string{}
	for _, s := range sels {
		if s.On != "" {
			xs = append(xs, "SFrag "+vh.CoqString(s.On)+" "+selsCoq(s.Subs))
			continue
		}
		as := []string{}
		for _, kv := range s.Args {
			as = append(as, "("+vh.CoqString(kv.K)+", "+vh.CoqJSON(kv.V)+")")
		}
		xs = append(xs, "SField "+vh.CoqString(s.Alias)+" "+vh.CoqString(s.Name)+" "+vh.CoqList(as)+" "+selsCoq(s.Subs))
	}
	return vh.CoqList(xs)
}

func selsText(sels []Sel) string {
	var b strings.Builder
	for i, s := range sels {
		if i > 0 {
			b.WriteString(" ")
		}
		if s.On != "" {
			b.WriteString("... on " + s.On + " { " + selsText(s.Subs) + " }")
			continue
		}
		if s.Alias != s.Name {
			b.WriteString(s.Alias + ": ")
		}
		b.WriteString(s.Name)
		if len(s.Args) > 0 {
			b.WriteString("(")
			for j, kv := range s.Args {
				if j > 0 {
					b.WriteString(", ")
				}
				b.WriteString(kv.K + ": " + js(kv.V))
			}
			b.WriteString(")")
		}
		if len(s.Subs) > 0 {
			b.WriteString(" { " + selsText(s.Subs) + " }")
		}
	}
	return b.String()
}

// ---- walking a schema to make queries that are valid against it ----

type walker struct {
	r      *vh.Rng
	s      *Schema
	allow  func(typ, field string) bool // restrict to the fields a service can serve
	usedUn bool
	nArgs  int
}

func (w *walker) value(t *TRef, depth int) (interface{}, bool) {
	switch t.K {
	case "NON_NULL":
		return w.inner(t.Of, depth)
	}
	if w.r.Chance(12) {
		return nil, true
	}
	return w.inner(t, depth)
}

// inner produces a non-null value of (the nullable form of) t; ok=false if impossible.
func (w *walker) inner(t *TRef, depth int) (interface{}, bool) {
	r := w.r
	switch t.K {
	case "NON_NULL":
		return w.inner(t.Of, depth)
	case "LIST":
		n := r.Intn(3)
		l := []interface{}{}
		for i := 0; i < n; i++ {
			v, ok := w.value(t.Of, depth)
			if !ok {
				return nil, false
			}
			l = append(l, v)
		}
		return l, true
	case "SCALAR":
		switch t.N {
		case "int64", "int32", "int", "float64":
			return float64(r.Intn(9) - 2), true
		case "string":
			return r.Pick([]string{"", "x", "tag", "V1"}), true
		case "bool":
			return r.Bool(), true
		}
		return nil, false
	case "ENUM":
		ty := w.s.find(t.N)
		if ty == nil || len(ty.Enums) == 0 {
			return nil, false
		}
		return r.Pick(ty.Enums), true
	case "INPUT_OBJECT":
		ty := w.s.find(t.N)
		if ty == nil || depth <= 0 {
			return nil, false
		}
		m := map[string]interface{}{}
		for _, f := range ty.Inputs {
			if f.Type.K == "NON_NULL" || r.Chance(50) {
				v, ok := w.value(f.Type, depth-1)
				if !ok {
					if f.Type.K == "NON_NULL" {
						return nil, false
					}
					continue
				}
				m[f.Name] = v
			}
		}
		return m, true
	}
	return nil, false
}

func (w *walker) args(f *Field) ([]KV, bool) {
	var out []KV
	for _, a := range f.Args {
		if a.Type.K == "NON_NULL" || w.r.Chance(55) {
			v, ok := w.value(a.Type, 2)
			if !ok {
				if a.Type.K == "NON_NULL" {
					return nil, false
				}
				continue
			}
			out = append(out, KV{a.Name, v})
			w.nArgs++
		}
	}
	return out, true
}

func (w *walker) sels(typ string, depth int) []Sel {
	r := w.r
	ty := w.s.find(typ)
	if ty == nil {
		return nil
	}
	switch ty.Kind {
	case "OBJECT":
		var out []Sel
		var cands []*Field
		for i := range ty.Fields {
			if w.allow(typ, ty.Fields[i].Name) {
				cands = append(cands, &ty.Fields[i])
			}
		}
		n := 1 + r.Intn(3)
		for k := 0; k < n && len(cands) > 0; k++ {
			f := cands[r.Intn(len(cands))]
			root := f.Type.root()
			args, ok := w.args(f)
			if !ok {
				continue
			}
			s := Sel{Alias: f.Name, Name: f.Name, Args: args}
			if r.Chance(20) {
				s.Alias = fmt.Sprintf("%s_%d", f.Name, r.Intn(3))
			}
			switch root.K {
			case "SCALAR", "ENUM":
			case "OBJECT", "UNION":
				if depth <= 0 {
					s.Subs = []Sel{{Alias: "__typename", Name: "__typename"}}
				} else {
					s.Subs = w.sels(root.N, depth-1)
					if len(s.Subs) == 0 {
						s.Subs = []Sel{{Alias: "__typename", Name: "__typename"}}
					}
				}
			default:
				continue
			}
			out = append(out, s)
		}
		if len(out) == 0 || r.Chance(15) {
			out = append(out, Sel{Alias: "__typename", Name: "__typename"})
		}
		if r.Chance(15) && len(out) > 1 {
			out = []Sel{out[0], {On: typ, Subs: out[1:]}}
		}
		return out
	case "UNION":
		w.usedUn = true
		var out []Sel
		if r.Chance(60) {
			out = append(out, Sel{Alias: "__typename", Name: "__typename"})
		}
		for _, p := range ty.Possible {
			if r.Chance(65) {
				sub := w.sels(p.Name, depth-1)
				if len(sub) == 0 {
					sub = []Sel{{Alias: "__typename", Name: "__typename"}}
				}
				out = append(out, Sel{On: p.Name, Subs: sub})
			}
		}
		if len(out) == 0 {
			out = append(out, Sel{Alias: "__typename", Name: "__typename"})
		}
		return out
	}
	return nil
}

// corrupt makes a (usually) invalid variant of q: for the model-vs-PrepareQuery comparison only.
func corrupt(r *vh.Rng, q []Sel) ([]Sel, string) {
	c := cloneSels(q)
	var fields []*Sel
	var visit func(l []Sel)
	visit = func(l []Sel) {
		for i := range l {
			if l[i].On == "" && l[i].Name != "__typename" {
				fields = append(fields, &l[i])
			}
			visit(l[i].Subs)
		}
	}
	visit(c)
	if len(fields) == 0 {
		return c, "none"
	}
	f := fields[r.Intn(len(fields))]
	switch r.Intn(9) {
	case 0:
		f.Name = "nope"
		return c, "unknown-field"
	case 1:
		f.Args = append(f.Args, KV{"zz", float64(1)})
		return c, "unknown-arg"
	case 2:
		if len(f.Args) > 0 {
			i := r.Intn(len(f.Args))
			f.Args = append(f.Args[:i:i], f.Args[i+1:]...)
			return c, "drop-arg"
		}
	case 3:
		if len(f.Args) > 0 {
			i := r.Intn(len(f.Args))
			switch f.Args[i].V.(type) {
			case float64:
				f.Args[i].V = "str"
			case string:
				f.Args[i].V = float64(3)
			case nil:
				f.Args[i].V = true
			default:
				f.Args[i].V = nil
			}
			return c, "wrong-arg-value"
		}
	case 4:
		if len(f.Subs) == 0 {
			f.Subs = []Sel{{Alias: "__typename", Name: "__typename"}}
			return c, "selection-on-leaf"
		}
		f.Subs = nil
		return c, "no-selection-on-composite"
	case 5:
		f.Subs = append(f.Subs, Sel{On: "Nope", Subs: []Sel{{Alias: "x", Name: "x"}}})
		return c, "fragment-on-unknown-type"
	case 6:
		if len(f.Args) > 0 {
			i := r.Intn(len(f.Args))
			if m, ok := f.Args[i].V.(map[string]interface{}); ok {
				m["zz"] = float64(1)
				return c, "unknown-input-field"
			}
			if s, ok := f.Args[i].V.(string); ok && strings.HasPrefix(s, "V") || ok && strings.ToUpper(s) == s && s != "" {
				f.Args[i].V = "V9"
				return c, "unknown-enum-value"
			}
		}
	case 7:
		f.Subs = append(f.Subs, Sel{Alias: "__typename", Name: "__typename", Args: []KV{{"a", float64(1)}}})
		return c, "typename-with-args"
	case 8:
		if len(f.Args) > 0 {
			f.Args[r.Intn(len(f.Args))].V = nil
			return c, "null-arg"
		}
	}
	return c, "none"
}

func cloneSels(q []Sel) []Sel {
	out := make([]Sel, len(q))
	for i, s := range q {
		out[i] = s
		out[i].Args = make([]KV, len(s.Args))
		for j, kv := range s.Args {
			out[i].Args[j] = KV{kv.K, cloneJSON(kv.V)}
		}
		out[i].Subs = cloneSels(s.Subs)
	}
	return out
}

func cloneJSON(v interface{}) interface{} {
	switch x := v.(type) {
	case map[string]interface{}:
		m := map[string]interface{}{}
		for k, e := range x {
			m[k] = cloneJSON(e)
		}
		return m
	case []interface{}:
		a := make([]interface{}, len(x))
		for i, e := range x {
			a[i] = cloneJSON(e)
		}
		return a
	}
	return v
}
