package main

import (
	"encoding/json"
	"io/ioutil"
	"sort"
	"strings"

	"verifharness/pkg/fedgen"
	"verifharness/pkg/vh"
)

// Failing-input search (FRAMEWORK.md): variants of the cases on which model and implementation disagreed --
// one or two more edits of one of the schemas (the generator's own edit repertoire: add / remove / retype of
// types, fields, arguments, input fields, enum values, union members, NON_NULL toggles), a version more or
// less, other names for versions, another seed for the naming / query oracles -- evaluated by the oracle only.

func readSeeds(path string) []Case {
	var seeds []Case
	b, err := ioutil.ReadFile(path)
	if err != nil {
		return nil
	}
	for _, line := range strings.Split(string(b), "\n") {
		var w struct {
			Case Case `json:"case"`
		}
		if strings.TrimSpace(line) != "" && json.Unmarshal([]byte(line), &w) == nil && (len(w.Case.Raw) > 0 || len(w.Case.Built) > 0) {
			seeds = append(seeds, w.Case)
		}
	}
	return seeds
}

func cloneCase(c Case) Case {
	b, _ := json.Marshal(c)
	var d Case
	_ = json.Unmarshal(b, &d)
	return d
}

func variant(r *vh.Rng, seed Case) Case {
	c := cloneCase(seed)
	g := &gen{r: r}
	o := fedgen.GenOpts{Objects: builtObjects, Unions: true, Leaf: true, Args: true, Lists: true}
	var edits []string
	for k := 1 + r.Intn(2); k > 0; k-- {
		if r.Chance(15) {
			c.Seed = r.U64()
			edits = append(edits, "seed")
			continue
		}
		if c.Kind == "raw" {
			svcs := sortedKeys2(c.Raw)
			if len(svcs) == 0 {
				break
			}
			sn := svcs[r.Intn(len(svcs))]
			vers := sortedKeysS(c.Raw[sn])
			if len(vers) == 0 {
				break
			}
			vn := vers[r.Intn(len(vers))]
			switch x := r.Intn(10); {
			case x < 6: // one more edit of one schema
				edits = append(edits, "edit:"+g.mutate(c.Raw[sn][vn], r.Chance(40)))
			case x < 7: // a new version derived from an existing one
				nv := r.Pick([]string{"v3", "v7", "c", "2022-02", "v11"})
				if c.Raw[sn][nv] == nil {
					v := c.Raw[sn][vn].clone()
					edits = append(edits, "new-version:"+g.mutate(v, r.Chance(40)))
					c.Raw[sn][nv] = v
				}
			case x < 8: // a version less
				if len(vers) > 1 {
					delete(c.Raw[sn], vn)
					edits = append(edits, "drop-version")
				}
			case x < 9: // the same schema under another version name (order of versions changes)
				nv := r.Pick([]string{"", "a0", "v0", "zz", "v100"})
				if c.Raw[sn][nv] == nil {
					c.Raw[sn][nv] = c.Raw[sn][vn]
					delete(c.Raw[sn], vn)
					edits = append(edits, "rename-version")
				}
			default: // a new service with a copy of this schema, edited
				ns := r.Pick([]string{"delta", "s3", "omega"})
				if c.Raw[ns] == nil {
					v := c.Raw[sn][vn].clone()
					edits = append(edits, "new-service:"+g.mutate(v, r.Chance(30)))
					c.Raw[ns] = map[string]*Schema{"v1": v}
				}
			}
			continue
		}
		svcs := sortedKeysB(c.Built)
		if len(svcs) == 0 {
			break
		}
		sn := svcs[r.Intn(len(svcs))]
		var vers []string
		for vn := range c.Built[sn] {
			vers = append(vers, vn)
		}
		sort.Strings(vers)
		if len(vers) == 0 {
			break
		}
		vn := vers[r.Intn(len(vers))]
		switch x := r.Intn(10); {
		case x < 7:
			v := fedgen.CloneService(c.Built[sn][vn])
			edits = append(edits, "edit:"+fedgen.MutateService(r, &v, o, r.Chance(30)))
			fedgen.Complete(&v, func(string) int { return 0 })
			c.Built[sn][vn] = v
		case x < 9:
			nv := r.Pick([]string{"v4", "v5", "v0"})
			if _, ok := c.Built[sn][nv]; !ok {
				v := fedgen.CloneService(c.Built[sn][vn])
				edits = append(edits, "new-version:"+fedgen.MutateService(r, &v, o, r.Chance(30)))
				fedgen.Complete(&v, func(string) int { return 0 })
				c.Built[sn][nv] = v
			}
		default:
			if len(vers) > 1 {
				delete(c.Built[sn], vn)
				edits = append(edits, "drop-version")
			}
		}
	}
	c.Labels = append(c.Labels, edits...)
	c.Origin = "search:" + strings.Join(edits, "+")
	return c
}

func searchCases(o *vh.Opts, r *vh.Rng) []Case {
	seeds := readSeeds(o.Search)
	var cases []Case
	for i := 0; i < o.N; i++ {
		cr := r.Fork()
		if len(seeds) == 0 {
			var c Case
			switch k := cr.Intn(100); {
			case k < 30:
				c = genBuiltCase(cr)
			case k < 45:
				c = genKeyCase(cr)
			default:
				c = genRawCase(cr)
			}
			c.Origin = "search-fresh"
			cases = append(cases, c)
			continue
		}
		cases = append(cases, variant(cr, seeds[cr.Intn(len(seeds))]))
	}
	return cases
}
