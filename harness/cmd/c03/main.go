// C03: diff/merge round trip.  Generates (old,new) pairs, runs diff.Diff, merge.Merge and
// client/src/merge.ts, evaluates the property directly (oracle) and writes the observations as
// Coq cases for the model in DiffMerge/Model.v.
package main

import (
	"bytes"
	"encoding/json"
	"fmt"

	"verifharness/pkg/vh"
)

type Case struct {
	Old      interface{} `json:"old"`
	New      interface{} `json:"new"`
	IntTyped bool        `json:"int_typed"`
	NumType  string      `json:"num_type,omitempty"` // Go type of every number when int_typed (default int64)
	Exotic   bool        `json:"exotic,omitempty"`   // oracle only: fractional floats and []byte leaves (outside the model)
	Shared   bool        `json:"shared"`             // old and new share unchanged sub-values by pointer
	Origin   string      `json:"origin"`
	Typing   *Typing     `json:"typing,omitempty"` // per-leaf Go types (typed.go); compared with the generic model only
	Fuzz     *FuzzCase   `json:"fuzz,omitempty"`   // a (previous value, delta) pair for the two merges (fuzz.go); Old/New unused
	Probe    string      `json:"probe,omitempty"`  // "bytes-key": objects keyed by a []byte value (not expressible in JSON)
	Alias    *Alias      `json:"alias,omitempty"`  // the new value shares list storage with the old one (built from Old at run time; New is its JSON view)
}

// Alias describes a new value that shares list storage with the old one, as a resolver that re-slices a cached
// list or appends to it in place hands them to Diff: the list at Path of the old value is rebuilt over a backing
// array that has Extra behind it, and the new value holds, at the same path, another view of that array:
// "prefix" = old[:K], "extend" = old[:len(old)+len(Extra)], "same" = the same slice.  Everything else is equal
// (maps and lists along the path are distinct objects, siblings are shared).
type Alias struct {
	Path  []string      `json:"path"`
	Op    string        `json:"op"`
	K     int           `json:"k"`
	Extra []interface{} `json:"extra"`
}

func applyAlias(old interface{}, a Alias) (interface{}, interface{}) {
	if len(a.Path) == 0 {
		lst, ok := old.([]interface{})
		if !ok {
			return old, old
		}
		back := make([]interface{}, len(lst)+len(a.Extra))
		copy(back, lst)
		copy(back[len(lst):], a.Extra)
		o := back[:len(lst):len(lst)]
		if a.Op == "extend" {
			o = back[:len(lst)]
		}
		switch a.Op {
		case "prefix":
			k := a.K
			if k > len(lst) {
				k = len(lst)
			}
			return o, back[:k]
		case "extend":
			return o, back[:len(back)]
		}
		return o, o
	}
	rest := Alias{Path: a.Path[1:], Op: a.Op, K: a.K, Extra: a.Extra}
	switch x := old.(type) {
	case map[string]interface{}:
		oo, nn := map[string]interface{}{}, map[string]interface{}{}
		for k, v := range x {
			oo[k], nn[k] = v, v
		}
		if sub, ok := x[a.Path[0]]; ok {
			oo[a.Path[0]], nn[a.Path[0]] = applyAlias(sub, rest)
		}
		return oo, nn
	case []interface{}:
		oo, nn := append([]interface{}{}, x...), append([]interface{}{}, x...)
		i := 0
		fmt.Sscan(a.Path[0], &i)
		if i >= 0 && i < len(x) {
			oo[i], nn[i] = applyAlias(x[i], rest)
		}
		return oo, nn
	}
	return old, old
}

// listPaths returns the paths of all lists inside v.
func listPaths(v interface{}, prefix []string, out *[][]string) {
	switch x := v.(type) {
	case map[string]interface{}:
		for _, k := range sortedKeys(x) {
			listPaths(x[k], append(append([]string{}, prefix...), k), out)
		}
	case []interface{}:
		*out = append(*out, append([]string{}, prefix...))
		for i, e := range x {
			listPaths(e, append(append([]string{}, prefix...), fmt.Sprint(i)), out)
		}
	}
}

// genAlias picks a list of old and an aliasing view of it; ok=false if old holds no list.
func genAlias(r *vh.Rng, old interface{}) (*Alias, bool) {
	var paths [][]string
	listPaths(old, nil, &paths)
	if len(paths) == 0 {
		return nil, false
	}
	a := &Alias{Path: paths[r.Intn(len(paths))], Extra: []interface{}{}}
	var lst []interface{}
	cur := old
	for _, p := range a.Path {
		switch x := cur.(type) {
		case map[string]interface{}:
			cur = x[p]
		case []interface{}:
			i := 0
			fmt.Sscan(p, &i)
			cur = x[i]
		}
	}
	lst, _ = cur.([]interface{})
	switch k := r.Intn(10); {
	case k < 5 && len(lst) > 0:
		a.Op, a.K = "prefix", r.Intn(len(lst))
	case k < 9:
		a.Op = "extend"
		for n := 1 + r.Intn(2); n > 0; n-- {
			if len(lst) > 0 && r.Chance(50) {
				a.Extra = append(a.Extra, deepCopy(mutate(r, lst[r.Intn(len(lst))], 1)))
			} else {
				a.Extra = append(a.Extra, genValue(r, 1))
			}
		}
	default:
		a.Op = "same"
	}
	return a, true
}

var fieldNames = []string{"a", "b", "c", "d", "$", "0", "1", "id"}
var strs = []string{"", "x", "y", "bob", "-1", "0", "$", "é"}

func genScalar(r *vh.Rng) interface{} {
	switch r.Intn(10) {
	case 0:
		return nil
	case 1:
		return r.Bool()
	case 2, 3, 4:
		return float64(r.Intn(7) - 2)
	case 5:
		return float64(-1)
	case 6:
		return float64(int64(r.U64()%(1<<53)) - (1 << 52))
	default:
		return r.Pick(strs)
	}
}

func genKeyVal(r *vh.Rng) interface{} {
	if r.Chance(70) {
		return float64(r.Intn(6))
	}
	return r.Pick([]string{"k0", "k1", "k2", "0", "1"})
}

func genObj(r *vh.Rng, depth int, keyed bool) map[string]interface{} {
	m := map[string]interface{}{}
	if keyed {
		m["__key"] = genKeyVal(r)
	}
	n := r.Intn(4)
	for i := 0; i < n; i++ {
		m[r.Pick(fieldNames)] = genValue(r, depth-1)
	}
	return m
}

func genArr(r *vh.Rng, depth int) []interface{} {
	n := r.Intn(6)
	a := make([]interface{}, 0, n)
	style := r.Intn(5)
	for i := 0; i < n; i++ {
		switch style {
		case 0:
			a = append(a, genScalar(r))
		case 1:
			a = append(a, genObj(r, depth-1, true))
		case 2:
			a = append(a, genObj(r, depth-1, false))
		case 3:
			a = append(a, float64(r.Intn(4)))
		default:
			a = append(a, genValue(r, depth-1))
		}
	}
	return a
}

func genValue(r *vh.Rng, depth int) interface{} {
	if depth <= 0 {
		return genScalar(r)
	}
	switch r.Intn(10) {
	case 0, 1, 2:
		return genScalar(r)
	case 3, 4, 5:
		return genArr(r, depth)
	case 6:
		return genObj(r, depth, true)
	default:
		return genObj(r, depth, false)
	}
}

// mutate returns a value derived from v; unchanged sub-values are shared by pointer.
// genSpine returns two values nested d levels deep that share no Go object: equal, or differing only in the
// value at the bottom of the spine.
func genSpine(r *vh.Rng, d int) (interface{}, interface{}) {
	bottom := genValue(r, 1)
	var o, n interface{} = bottom, deepCopy(bottom)
	if r.Chance(60) {
		n = deepCopy(mutate(r, bottom, 1))
	}
	for i := 0; i < d; i++ {
		switch r.Intn(4) {
		case 0:
			f := r.Pick(fieldNames)
			o, n = map[string]interface{}{f: o}, map[string]interface{}{f: n}
		case 1:
			f := r.Pick(fieldNames)
			k := genKeyVal(r)
			o, n = map[string]interface{}{"__key": k, f: o}, map[string]interface{}{"__key": k, f: n}
		case 2:
			o, n = []interface{}{o}, []interface{}{n}
		default:
			s := genScalar(r)
			o, n = []interface{}{s, o}, []interface{}{s, n}
		}
	}
	return o, n
}

func mutate(r *vh.Rng, v interface{}, depth int) interface{} {
	if r.Chance(8) {
		return genValue(r, depth)
	}
	switch x := v.(type) {
	case map[string]interface{}:
		if r.Chance(10) {
			return x
		}
		m := map[string]interface{}{}
		for k, e := range x {
			m[k] = e
		}
		for ops := r.Intn(3) + 1; ops > 0; ops-- {
			switch r.Intn(6) {
			case 0: // add field
				m[r.Pick(fieldNames)] = genValue(r, depth-1)
			case 1: // remove field
				for k := range sortedKeys(m) {
					_ = k
				}
				ks := sortedKeys(m)
				if len(ks) > 0 {
					k := ks[r.Intn(len(ks))]
					if k != "__key" || r.Chance(20) {
						delete(m, k)
					}
				}
			case 2: // change key
				if _, ok := m["__key"]; ok && r.Chance(50) {
					m["__key"] = genKeyVal(r)
				}
			default: // mutate a field
				ks := sortedKeys(m)
				if len(ks) > 0 {
					k := ks[r.Intn(len(ks))]
					if k != "__key" {
						m[k] = mutate(r, m[k], depth-1)
					}
				}
			}
		}
		return m
	case []interface{}:
		if r.Chance(8) {
			return x
		}
		a := append([]interface{}{}, x...)
		for ops := r.Intn(3) + 1; ops > 0; ops-- {
			switch r.Intn(10) {
			case 9: // an object replaced by its own key value, or a scalar by an object keyed with it
				if len(a) > 0 {
					i := r.Intn(len(a))
					if m, ok := a[i].(map[string]interface{}); ok {
						if k, has := m["__key"]; has {
							a[i] = k
						}
					} else if a[i] != nil {
						if _, isArr := a[i].([]interface{}); !isArr {
							a[i] = map[string]interface{}{"__key": a[i], "a": genScalar(r)}
						}
					}
				}
			case 0: // insert
				i := r.Intn(len(a) + 1)
				var e interface{}
				if len(a) > 0 && r.Chance(50) {
					e = mutate(r, a[r.Intn(len(a))], depth-1) // near-duplicate
				} else {
					e = genValue(r, depth-1)
				}
				a = append(a[:i], append([]interface{}{e}, a[i:]...)...)
			case 1: // delete
				if len(a) > 0 {
					i := r.Intn(len(a))
					a = append(a[:i], a[i+1:]...)
				}
			case 2: // swap
				if len(a) > 1 {
					i, j := r.Intn(len(a)), r.Intn(len(a))
					a[i], a[j] = a[j], a[i]
				}
			case 3: // duplicate
				if len(a) > 0 {
					a = append(a, a[r.Intn(len(a))])
				}
			case 4: // truncate
				if len(a) > 0 {
					a = a[:r.Intn(len(a))]
				}
			case 5: // rotate
				if len(a) > 1 {
					k := r.Intn(len(a))
					a = append(append([]interface{}{}, a[k:]...), a[:k]...)
				}
			case 6: // reverse
				for i, j := 0, len(a)-1; i < j; i, j = i+1, j-1 {
					a[i], a[j] = a[j], a[i]
				}
			default: // mutate element
				if len(a) > 0 {
					i := r.Intn(len(a))
					a[i] = mutate(r, a[i], depth-1)
				}
			}
		}
		return a
	default:
		if r.Chance(70) {
			return genScalar(r)
		}
		return v
	}
}

// leafEdit replaces one randomly chosen leaf or element of v by a boundary value (null, -1, a scalar of
// another type) or drops it.
func leafEdit(r *vh.Rng, v interface{}) interface{} {
	repl := func() interface{} {
		switch r.Intn(6) {
		case 0, 1:
			return nil
		case 2:
			return float64(-1)
		case 3:
			return "1"
		case 4:
			return float64(1)
		default:
			return genScalar(r)
		}
	}
	switch x := v.(type) {
	case map[string]interface{}:
		ks := sortedKeys(x)
		if len(ks) == 0 || r.Chance(10) {
			return repl()
		}
		k := ks[r.Intn(len(ks))]
		if k == "__key" {
			return x
		}
		if r.Chance(15) {
			delete(x, k)
			return x
		}
		x[k] = leafEdit(r, x[k])
		return x
	case []interface{}:
		if len(x) == 0 || r.Chance(10) {
			return repl()
		}
		i := r.Intn(len(x))
		if r.Chance(15) {
			return append(x[:i:i], x[i+1:]...)
		}
		x[i] = leafEdit(r, x[i])
		return x
	}
	return repl()
}

func sortedKeys(m map[string]interface{}) []string {
	ks := make([]string, 0, len(m))
	for k := range m {
		ks = append(ks, k)
	}
	for i := 1; i < len(ks); i++ {
		for j := i; j > 0 && ks[j] < ks[j-1]; j-- {
			ks[j], ks[j-1] = ks[j-1], ks[j]
		}
	}
	return ks
}

func deepCopy(v interface{}) interface{} {
	switch x := v.(type) {
	case map[string]interface{}:
		m := map[string]interface{}{}
		for k, e := range x {
			m[k] = deepCopy(e)
		}
		return m
	case []interface{}:
		a := make([]interface{}, len(x))
		for i, e := range x {
			a[i] = deepCopy(e)
		}
		return a
	}
	return v
}

// numTypes lists the Go numeric types executor output can carry; a case uses one of them throughout.
var numTypes = []string{"int64", "int", "int32", "int16", "int8", "uint", "uint8", "uint16", "uint32", "uint64", "float32", "float64"}

func fits(t string, x float64) bool {
	switch t {
	case "int8":
		return x >= -128 && x <= 127
	case "int16":
		return x >= -32768 && x <= 32767
	case "int32":
		return x >= -(1<<31) && x < (1<<31)
	case "uint8":
		return x >= 0 && x <= 255
	case "uint16":
		return x >= 0 && x <= 65535
	case "uint32":
		return x >= 0 && x < (1<<32)
	case "uint", "uint64":
		return x >= 0
	case "float32":
		return x >= -(1<<24) && x <= (1<<24)
	}
	return true
}

func allFit(t string, v interface{}) bool {
	switch x := v.(type) {
	case map[string]interface{}:
		for _, e := range x {
			if !allFit(t, e) {
				return false
			}
		}
	case []interface{}:
		for _, e := range x {
			if !allFit(t, e) {
				return false
			}
		}
	case float64:
		return fits(t, x)
	}
	return true
}

func conv(t string, x float64) interface{} {
	switch t {
	case "int":
		return int(x)
	case "int8":
		return int8(x)
	case "int16":
		return int16(x)
	case "int32":
		return int32(x)
	case "uint":
		return uint(x)
	case "uint8":
		return uint8(x)
	case "uint16":
		return uint16(x)
	case "uint32":
		return uint32(x)
	case "uint64":
		return uint64(x)
	case "float32":
		return float32(x)
	case "float64":
		return x
	}
	return int64(x)
}

// toNums turns float64 numbers into Go type t, as executor output has them.
func toNums(t string, v interface{}) interface{} {
	switch x := v.(type) {
	case map[string]interface{}:
		m := map[string]interface{}{}
		for k, e := range x {
			m[k] = toNums(t, e)
		}
		return m
	case []interface{}:
		a := make([]interface{}, len(x))
		for i, e := range x {
			a[i] = toNums(t, e)
		}
		return a
	case float64:
		return conv(t, x)
	}
	return v
}

// exotic rewrites leaves into values outside the model: x+0.5 for numbers (not under __key), []byte for strings.
func exotic(v interface{}, underKey bool) interface{} {
	switch x := v.(type) {
	case map[string]interface{}:
		m := map[string]interface{}{}
		for k, e := range x {
			m[k] = exotic(e, k == "__key")
		}
		return m
	case []interface{}:
		a := make([]interface{}, len(x))
		for i, e := range x {
			a[i] = exotic(e, false)
		}
		return a
	case float64:
		if !underKey && int64(x)%2 == 0 && x < 1e6 && x > -1e6 {
			return x + 0.5
		}
	case string:
		if !underKey && len(x)%2 == 1 {
			return []byte(x)
		}
	}
	return v
}

func roundTrip(v interface{}) (interface{}, error) {
	b, err := json.Marshal(v)
	if err != nil {
		return nil, err
	}
	var out interface{}
	d := json.NewDecoder(bytes.NewReader(b))
	if err := d.Decode(&out); err != nil {
		return nil, err
	}
	return out, nil
}

func js(v interface{}) string {
	b, _ := json.Marshal(v)
	return string(b)
}

func depthOf(v interface{}) int {
	switch x := v.(type) {
	case map[string]interface{}:
		d := 0
		for _, e := range x {
			if k := depthOf(e); k > d {
				d = k
			}
		}
		return d + 1
	case []interface{}:
		d := 0
		for _, e := range x {
			if k := depthOf(e); k > d {
				d = k
			}
		}
		return d + 1
	}
	return 0
}

