package main

import (
	"bytes"
	"encoding/json"
	"fmt"
	"io/ioutil"
	"os/exec"
	"path/filepath"
	"reflect"
	"strings"

	"github.com/samsarahq/thunder/diff"
	"github.com/samsarahq/thunder/merge"
	"verifharness/pkg/vh"
)

type obs struct {
	c        Case
	typedOld interface{} // what diff.Diff was given
	typedNew interface{}
	delta    interface{} // after round trip; nil = no diff
	hasDelta bool
	goOut    interface{}
	goErr    string
	stripOld interface{}
	stripNew interface{}
	jsOut    interface{}
	jsErr    string
	jsSeen   bool
	oldModel bool // the JSON view of the case is what Diff saw (one numeric type, no exotic leaves): DiffMerge/Model.v applies
	skip     bool // nothing comparable (a failure was already reported)
	nullKey  bool // an explicit nil "__key" occurs in the typed values
	guides   []guideEntry // list diffs where the implementation's index list is not the model's own
	// fuzz cases
	fuzz       bool
	jsCompared bool
	wellFormed bool
}

func safeDiff(a, b interface{}) (d interface{}, p string) {
	defer func() {
		if e := recover(); e != nil {
			p = fmt.Sprint(e)
		}
	}()
	return diff.Diff(a, b), ""
}
func safeMerge(a, b interface{}) (d interface{}, err string) {
	defer func() {
		if e := recover(); e != nil {
			err = "panic: " + fmt.Sprint(e)
		}
	}()
	r, e := merge.Merge(a, b)
	if e != nil {
		return nil, e.Error()
	}
	return r, ""
}

// probeKeyField reports whether diff.Diff leaves the "__key" pseudo-field out of object deltas (the repaired
// diffMap of patches/C03-fix-4) or diffs it like a field (an explicit nil key against an absent one then puts
// "__key" into the delta).  The model is evaluated with the variant found.
func probeKeyField() bool {
	d, p := safeDiff(map[string]interface{}{"__key": nil, "a": 1}, map[string]interface{}{"a": 1})
	return p == "" && d == nil
}

// probeBytesKey reports whether objects keyed by a []byte value make diff.Diff panic.
func probeBytesKey() bool {
	_, p := safeDiff([]interface{}{map[string]interface{}{"__key": []byte("k"), "a": 1}},
		[]interface{}{map[string]interface{}{"__key": []byte("k"), "a": 2}})
	return p != ""
}

const sigNullKey = "null-key-pseudo-field-in-delta"
const sigBytesKey = "diff-panics-on-bytes-key"

// knownOpen: the signature is an open entry of KNOWN_FINDINGS.jsonl for C03.
func knownOpen(verif, sig string) bool {
	b, err := ioutil.ReadFile(filepath.Join(verif, "KNOWN_FINDINGS.jsonl"))
	if err != nil {
		return false
	}
	for _, line := range strings.Split(string(b), "\n") {
		var k struct {
			Property  string `json:"property"`
			Status    string `json:"status"`
			Signature string `json:"signature"`
		}
		if json.Unmarshal([]byte(line), &k) == nil && k.Property == "C03" && k.Status == "open" && k.Signature == sig {
			return true
		}
	}
	return false
}

// guarded runs a piece of the harness's own bookkeeping (generators of edited deltas, walkers of the oracles);
// a panic inside it is a defect of the harness, not of the code under test: it is counted and the piece skipped.
func guarded(run *vh.Run, what string, f func()) (ok bool) {
	defer func() {
		if e := recover(); e != nil {
			run.Hist("harness-recovered:" + what)
			ok = false
		}
	}()
	f()
	return true
}

func arrayShapes(v interface{}, into map[string]bool) {
	switch x := v.(type) {
	case map[string]interface{}:
		for _, e := range x {
			arrayShapes(e, into)
		}
	case []interface{}:
		keyed, unkeyed, nested := 0, 0, 0
		seen := map[string]int{}
		for _, e := range x {
			switch y := e.(type) {
			case map[string]interface{}:
				if k, ok := y["__key"]; ok {
					keyed++
					seen[js(k)]++
				} else {
					unkeyed++
				}
			case []interface{}:
				nested++
				unkeyed++
			default:
				unkeyed++
				seen[js(e)]++
			}
			arrayShapes(e, into)
		}
		if keyed > 0 && unkeyed > 0 {
			into["mixed-keyed-unkeyed"] = true
		}
		if nested > 0 {
			into["nested-list"] = true
		}
		for _, n := range seen {
			if n > 1 {
				into["duplicate-key"] = true
			}
		}
	}
}

func main() {
	o := vh.ParseFlags()
	run := vh.NewRun("C03", o)
	run.Rule = "pairs (old,new): 70% new = seeded mutation of old (field add/remove/retype, list insert/delete/swap/duplicate/truncate/rotate/reverse, __key change, scalar<->complex), 15% independent values, 15% identical; Go types of the leaves: float64 throughout, one numeric type throughout, or per-leaf types (every numeric type, fractional floats, []byte, a named string type, nil slices and maps, explicit nil keys); plus (previous value, delta) pairs for the two merges obtained by editing real deltas; non-trivial = delta is non-empty and the pair not seen before; distinct by JSON text of the pair"
	r := vh.NewRng(o.Seed)
	fixed := probeKeyField()
	bytesKeyPanics := probeBytesKey()
	nullKeyKnown := knownOpen(o.Verif, sigNullKey)
	dl, ml, extracted := passthroughLists(o.Repo)
	listsT := "(" + coqStrings(dl) + ", " + coqStrings(ml) + ")"
	run.Extra = map[string]interface{}{
		"passthrough_markReplaced":       strings.Join(dl, " "),
		"passthrough_mergeReplaced":      strings.Join(ml, " "),
		"passthrough_lists_from_sources": extracted,
		"diffMap_skips_key_pseudo_field": fixed,
		"bytes_key_makes_Diff_panic":     bytesKeyPanics,
		"null_key_finding_registered":    nullKeyKnown,
	}

	var cases []Case
	searching := o.Search != ""
	if searching {
		// failing-input search: variants of the cases on which model and implementation disagreed
		var seeds []Case
		if b, err := ioutil.ReadFile(o.Search); err == nil {
			for _, line := range strings.Split(string(b), "\n") {
				var w struct {
					Case Case `json:"case"`
				}
				if strings.TrimSpace(line) != "" && json.Unmarshal([]byte(line), &w) == nil && w.Case.Fuzz == nil {
					seeds = append(seeds, w.Case)
				}
			}
		}
		for i := 0; i < o.N; i++ {
			cr := r.Fork()
			if len(seeds) == 0 {
				old := genValue(cr, 2)
				cases = append(cases, Case{Old: old, New: deepCopy(mutate(cr, old, 2)), Origin: "search-fresh"})
				continue
			}
			sd := seeds[cr.Intn(len(seeds))]
			c := Case{Old: deepCopy(sd.Old), New: deepCopy(sd.New), IntTyped: sd.IntTyped, NumType: sd.NumType, Origin: "search"}
			if sd.Typing != nil && sd.Typing.Mode != "nullkey" {
				t := *sd.Typing
				t.Seed = cr.U64()
				c.Typing = &t
			}
			for k := 1 + cr.Intn(2); k > 0; k-- {
				switch cr.Intn(6) {
				case 0, 1:
					c.New = leafEdit(cr, c.New)
				case 2:
					c.Old = leafEdit(cr, c.Old)
				case 3:
					c.New = deepCopy(mutate(cr, c.New, 2))
				case 4:
					c.Old = deepCopy(mutate(cr, c.Old, 2))
				default:
					c.Old, c.New = c.New, c.Old
				}
			}
			if c.IntTyped && (!allFit(c.NumType, c.Old) || !allFit(c.NumType, c.New)) {
				c.NumType = "int64"
			}
			cases = append(cases, c)
		}
	} else if o.Replay != "" {
		var c Case
		if vh.ReadReplayCase(o.Replay, &c) {
			c.Origin = "replay"
			cases = append(cases, c)
		}
	} else {
		for _, f := range vh.CorpusFiles(o.Corpus) {
			var c Case
			if vh.ReadReplayCase(f, &c) {
				c.Origin = "corpus:" + filepath.Base(f)
				cases = append(cases, c)
			}
		}
		for i := 0; i < o.N; i++ {
			cr := r.Fork()
			depth := 1 + cr.Intn(3)
			old := genValue(cr, depth)
			var c Case
			switch k := cr.Intn(100); {
			case k < 4:
				// deep, narrow values: a spine of 20..200 nested objects / arrays above a small value; the new value
				// is an equal copy or differs only at the bottom (recursion limits, per-level costs)
				d := 20 + cr.Intn(60)
				if cr.Chance(40) {
					d = 80 + cr.Intn(121)
				}
				o, n := genSpine(cr, d)
				c = Case{Old: o, New: n, Origin: "deep"}
			case k < 10:
				// the new value is another view of a list of the old one (re-sliced or appended to in place)
				if a, ok := genAlias(cr, old); ok {
					_, n := applyAlias(old, *a)
					nj, _ := roundTrip(n)
					c = Case{Old: old, New: nj, Alias: a, Origin: "alias"}
				} else {
					c = Case{Old: old, New: mutate(cr, old, depth), Shared: true, Origin: "mutation"}
				}
			case k < 70:
				c = Case{Old: old, New: mutate(cr, old, depth), Shared: true, Origin: "mutation"}
			case k < 85:
				c = Case{Old: old, New: genValue(cr, depth), Origin: "independent"}
			default:
				c = Case{Old: old, New: old, Shared: true, Origin: "identical"}
			}
			if !c.Shared || cr.Chance(30) {
				c.New = deepCopy(c.New)
				c.Shared = false
			}
			c.IntTyped = c.Alias == nil && cr.Chance(35)
			if c.Alias != nil {
				// keeps float64 leaves: any conversion would copy the lists
			} else if c.IntTyped {
				c.NumType = numTypes[cr.Intn(len(numTypes))]
				if !allFit(c.NumType, c.Old) || !allFit(c.NumType, c.New) {
					c.NumType = "int64"
				}
			} else if cr.Chance(8) {
				c.Exotic = true
			} else if cr.Chance(45) {
				// per-leaf Go types
				t := &Typing{Mode: "mixed", Seed: cr.U64(), Dominant: numTypes[cr.Intn(len(numTypes))], Mix: 10 + cr.Intn(30), BytesKeys: !bytesKeyPanics}
				if cr.Chance(18) {
					t.Mode = "nullkey"
				}
				c.Typing = t
				c.Shared = false
			}
			cases = append(cases, c)
		}
	}

	// how many generated pairs lie in the domains the theorems quantify over
	premises := map[string]int{}
	var all []*obs
	var jsIn bytes.Buffer
	var jsIdx []int
	for idx, c := range cases {
		run.LogCase(idx, c)
		ob := &obs{c: c}
		all = append(all, ob)
		if c.Probe == "bytes-key" {
			// replayed on its own the probe always reports; in a normal run only while the finding is registered
			ob.skip = true
			if probeBytesKey() && (o.Replay != "" || knownOpen(o.Verif, sigBytesKey)) {
				run.Fail(idx, sigBytesKey, "diff.Diff([{__key: []byte(k), a: 1}], [{__key: []byte(k), a: 2}]) panics: Go cannot hash or compare []byte", c)
			}
			run.Count("probe:bytes-key", false)
			continue
		}
		if c.Fuzz != nil { // a replayed fuzz case
			ob.fuzz = true
			runFuzz(run, idx, ob, &jsIn, &jsIdx)
			continue
		}
		old, nw := c.Old, c.New
		ob.oldModel = true
		if c.Alias != nil {
			old, nw = applyAlias(c.Old, *c.Alias)
			run.Hist("alias:" + c.Alias.Op)
			run.Hist("typing:float64")
		} else if c.Typing != nil {
			old, nw = applyTyping(*c.Typing, old, nw)
			ob.oldModel = false
			run.Hist("typing:" + c.Typing.Mode)
		} else if c.IntTyped {
			nt := c.NumType
			if nt == "" {
				nt = "int64"
			}
			// conversion keeps sharing only when old and new are the same object
			if c.Shared && reflect.DeepEqual(old, nw) && c.Origin == "identical" {
				old = toNums(nt, old)
				nw = old
			} else {
				old, nw = toNums(nt, old), toNums(nt, nw)
			}
			run.Hist("numtype:" + nt)
		} else if c.Exotic {
			old, nw = exotic(old, false), exotic(nw, false)
			ob.oldModel = false
			run.Hist("exotic")
		} else {
			run.Hist("typing:float64")
		}
		kinds := map[string]bool{}
		leafKinds(old, kinds)
		leafKinds(nw, kinds)
		for k := range kinds {
			run.Hist("leaves:" + k)
		}
		ob.nullKey = kinds["null-key"]
		premises["pairs"]++
		switch {
		case !keysComparable(old) || !keysComparable(nw):
			premises["outside (a key that is a list or an object)"]++
		case kinds["bytes-key"] && kinds["null-key"]:
			premises["vwf with fix-4 and fix-5 (nil keys and []byte keys)"]++
		case kinds["bytes-key"]:
			premises["vwf_strict with fix-5 ([]byte keys)"]++
		case kinds["null-key"]:
			premises["vwf, not vwf_strict (explicit nil key): round trip only with fix-4"]++
		default:
			premises["vwf_strict (all theorems apply)"]++
		}
		if ob.nullKey {
			ob.oldModel = false // outside the domain of DiffMerge/Model.v
		}
		shapes := map[string]bool{}
		arrayShapes(old, shapes)
		arrayShapes(nw, shapes)
		for k := range shapes {
			run.Hist("lists:" + k)
		}
		ob.typedOld, ob.typedNew = typedDeepCopy(old), typedDeepCopy(nw)
		oldCopy, newCopy := typedDeepCopy(old), typedDeepCopy(nw)
		d, p := safeDiff(old, nw)
		if p != "" {
			run.Fail(idx, "diff-panic", p, c)
			ob.skip = true
			continue
		}
		if !reflect.DeepEqual(old, oldCopy) || !reflect.DeepEqual(nw, newCopy) {
			run.Fail(idx, "diff-modifies-arguments", "", c)
		}
		if sd, _ := safeDiff(old, old); sd != nil {
			run.Fail(idx, "self-diff-nonempty", "Diff(old,old)="+js(sd), c)
		}
		if sd, _ := safeDiff(nw, typedDeepCopy(nw)); sd != nil {
			run.Fail(idx, "self-diff-nonempty", "Diff(new,copy new)="+js(sd), c)
		}
		ob.stripOld, _ = roundTrip(diff.StripKey(old))
		ob.stripNew, _ = roundTrip(diff.StripKey(nw))
		// StripKey is idempotent and leaves no "__key" behind
		if s1 := diff.StripKey(old); !reflect.DeepEqual(diff.StripKey(s1), s1) || strings.Contains(js(s1), "\"__key\":") {
			run.Fail(idx, "stripkey-not-idempotent", js(s1), c)
		}
		run.Hist("origin:" + strings.SplitN(c.Origin, ":", 2)[0])
		switch dd := depthOf(c.New); {
		case dd >= 80:
			run.Hist("depth:80+")
		case dd >= 20:
			run.Hist("depth:20-79")
		case dd >= 5:
			run.Hist("depth:5-19")
		default:
			run.Hist(fmt.Sprintf("depth:%d", dd))
		}
		key := js(old) + "|" + js(nw)
		// the null-key finding: with the unrepaired diffMap an explicit nil key against an absent one
		// puts "__key" into the delta; such failures are reported under their own signature, and only when that
		// finding is registered (otherwise the case is still compared with the model of the unrepaired code)
		fail := func(sig, detail string) {
			if ob.nullKey && !fixed {
				if nullKeyKnown {
					run.Fail(idx, sigNullKey, sig+": "+detail, c)
				} else {
					run.Hist("null-key:round-trip-broken(finding-not-registered)")
				}
				return
			}
			run.Fail(idx, sig, detail, c)
		}
		if d == nil {
			run.Hist("delta:nil")
			run.Count(key, false)
			if !reflect.DeepEqual(ob.stripOld, ob.stripNew) {
				fail("nil-delta-but-different", "")
			}
			if !ob.nullKey && keysComparable(old) && keysComparable(nw) {
				w := &deltaWalk{}
				msg := ""
				guarded(run, "delta-format oracle", func() { msg = w.checkDelta(old, nw, nil, "$root") })
				if msg != "" {
					run.Fail(idx, "delta-format", msg, c)
				}
			}
			continue
		}
		ob.hasDelta = true
		rt, err := roundTrip(d)
		if err != nil {
			run.Fail(idx, "delta-not-serialisable", err.Error(), c)
			ob.skip = true
			continue
		}
		ob.delta = rt
		if rt == nil {
			run.Fail(idx, "delta-serialises-to-null", js(d), c)
			ob.skip = true
			continue
		}
		if m, ok := rt.(map[string]interface{}); ok {
			if _, has := m["$"]; has {
				run.Hist("delta:top-reorder")
			}
			run.Hist("delta:object")
		} else {
			run.Hist("delta:replace")
		}
		if strings.Contains(js(rt), "\"$\":") {
			run.Hist("delta:has-reorder")
		}
		if keysComparable(old) && keysComparable(nw) {
			w := &deltaWalk{}
			guarded(run, "index-list walker", func() { w.collect(old, nw, rt) })
			ob.guides = w.guides
			if len(w.guides) > 0 {
				run.Hist("index-lists-other-than-the-model's")
				ob.oldModel = false // DiffMerge/Model.v has no guide; the generic model follows the implementation's lists
			}
		}
		if !ob.nullKey && keysComparable(old) && keysComparable(nw) {
			w := &deltaWalk{}
			msg := ""
			guarded(run, "delta-format oracle", func() { msg = w.checkDelta(old, nw, rt, "$root") })
			if msg != "" {
				sig := "delta-format"
				for _, s := range []string{"delta-not-minimal", "delta-not-local", "reorder-indices-not-a-matching", "reorder-runs-not-maximal"} {
					if strings.Contains(msg, s) {
						sig = s
					}
				}
				run.Fail(idx, sig, msg+" delta="+js(rt), c)
			}
		}
		run.Count(key, true)
		run.Sample(map[string]interface{}{"old": c.Old, "new": c.New, "delta": rt})
		ob.goOut, ob.goErr = safeMerge(deepCopy(ob.stripOld), deepCopy(rt))
		if ob.goErr != "" {
			fail("go-merge-error", ob.goErr+" delta="+js(rt))
		} else {
			g, _ := roundTrip(ob.goOut)
			ob.goOut = g
			if !reflect.DeepEqual(g, ob.stripNew) {
				fail("go-merge-mismatch", "merged="+js(g)+" want="+js(ob.stripNew)+" delta="+js(rt))
			}
		}
		if !wellFormedDelta(ob.stripOld, rt) && !(ob.nullKey && !fixed) {
			run.Fail(idx, "diff-produces-ill-formed-delta", "delta="+js(rt)+" for "+js(ob.stripOld), c)
		}
		jsIn.WriteString(js([]interface{}{ob.stripOld, rt}) + "\n")
		jsIdx = append(jsIdx, idx)
	}

	// (previous value, delta) pairs: real deltas with one or two edits
	if !searching && o.Replay == "" {
		var src []*obs
		for _, ob := range all {
			if ob.hasDelta && !ob.skip && ob.delta != nil && depthOf(ob.delta) < 12 {
				src = append(src, ob)
			}
		}
		nf := o.N / 2
		if nf > 4000 {
			nf = 4000
		}
		for i := 0; i < nf && len(src) > 0; i++ {
			cr := r.Fork()
			s := src[cr.Intn(len(src))]
			prev, delta := deepCopy(s.stripOld), deepCopy(s.delta)
			var edits []string
			if !guarded(run, "edited-delta generator", func() {
				if dm, isObj := delta.(map[string]interface{}); isObj && cr.Chance(50) {
					// only rewritings that keep the delta well-formed
					for k := 1 + cr.Intn(3); k > 0; k-- {
						if name, ok := validEdit(cr, prev, dm); ok {
							edits = append(edits, name)
						}
					}
				}
				for k := 1 + cr.Intn(2); k > 0 && len(edits) == 0; k-- {
					var e string
					prev, delta, e = fuzzEdit(cr, prev, delta)
					edits = append(edits, e)
				}
			}) {
				continue
			}
			c := Case{Origin: "fuzz", Fuzz: &FuzzCase{Prev: prev, Delta: delta, Edits: edits}}
			idx := len(all)
			run.LogCase(idx, c)
			ob := &obs{c: c, fuzz: true}
			all = append(all, ob)
			runFuzz(run, idx, ob, &jsIn, &jsIdx)
		}
	}

	// JavaScript client
	cmd := exec.Command("node", filepath.Join(o.Verif, "tools/js/run_merge.js"), o.Repo)
	cmd.Stdin = &jsIn
	outb, err := cmd.Output()
	if err != nil {
		run.Fail(-1, "js-runner-failed", err.Error(), nil)
	} else {
		lines := strings.Split(strings.TrimSpace(string(outb)), "\n")
		for k, idx := range jsIdx {
			if k >= len(lines) {
				break
			}
			var res struct {
				Ok  interface{} `json:"ok"`
				Err string      `json:"err"`
			}
			json.Unmarshal([]byte(lines[k]), &res)
			ob := all[idx]
			ob.jsSeen = true
			if ob.fuzz {
				finishFuzz(run, idx, ob, res.Ok, res.Err)
				continue
			}
			if res.Err != "" {
				ob.jsErr = res.Err
				run.Fail(idx, "js-merge-error", res.Err, ob.c)
				continue
			}
			ob.jsOut = res.Ok
			if !reflect.DeepEqual(res.Ok, ob.stripNew) {
				if ob.nullKey && !fixed {
					if nullKeyKnown {
						run.Fail(idx, sigNullKey, "js-merge-mismatch: merged="+js(res.Ok)+" want="+js(ob.stripNew), ob.c)
					} else {
						run.Hist("null-key:round-trip-broken(finding-not-registered)")
					}
				} else {
					run.Fail(idx, "js-merge-mismatch", "merged="+js(res.Ok)+" want="+js(ob.stripNew)+" delta="+js(ob.delta), ob.c)
				}
			}
		}
	}

	for k, v := range premises {
		run.Extra["premise: "+k] = v
	}
	nwf, nfz := 0, 0
	for _, ob := range all {
		if ob.fuzz {
			nfz++
			if ob.wellFormed {
				nwf++
			}
		}
	}
	run.Extra["premise: edited deltas that are well-formed (clients_agree applies)"] = fmt.Sprintf("%d of %d", nwf, nfz)
	if searching {
		run.Finish()
		return
	}
	// Coq cases: DiffMerge/Model.v on the JSON view (components 1-3), DiffMerge/GInst.v on the Go-typed view
	// (4-6) and on the (previous value, delta) pairs (7-8)
	const shard = 300
	var terms, gterms, fterms []string
	nOld, nGen, nFz := 0, 0, 0
	flush := func(force bool) {
		if len(terms) > 0 && (force || len(terms) >= shard) {
			run.WriteCasesV(fmt.Sprintf("cases_%d.v", nOld), []string{"Lib.Json", "DiffMerge.Model"}, "", "mismatches_from_sparse", 0, terms)
			terms = nil
			nOld++
		}
		if len(gterms) > 0 && (force || len(gterms) >= shard) {
			run.WriteCasesV(fmt.Sprintf("gcases_%d.v", nGen), []string{"Lib.Json", "DiffMerge.GModel", "DiffMerge.GInst"}, "", "gmismatches", 0, gterms)
			gterms = nil
			nGen++
		}
		if len(fterms) > 0 && (force || len(fterms) >= shard) {
			run.WriteCasesV(fmt.Sprintf("fcases_%d.v", nFz), []string{"Lib.Json", "DiffMerge.GModel", "DiffMerge.GInst"}, "", "fmismatches", 0, fterms)
			fterms = nil
			nFz++
		}
	}
	for idx, ob := range all {
		if ob.fuzz {
			// behaviour on ill-formed deltas is unspecified (a merge may be hardened or relaxed without touching the
			// property): only well-formed ones are compared with the model; the others are counted above
			if ob.skip || !ob.jsSeen || !ob.wellFormed {
				continue
			}
			goT := "None"
			if ob.goErr == "" {
				goT = "(Some " + coqWire(ob.goOut) + ")"
			}
			jsT := "None"
			if ob.jsCompared {
				jsT = "(Some " + coqWire(ob.jsOut) + ")"
			}
			fterms = append(fterms, fmt.Sprintf("(%d, mk_fcase %s %s %s %s %s)", idx, coqStrings(ml), coqWire(ob.c.Fuzz.Prev), coqWire(ob.c.Fuzz.Delta), goT, jsT))
			flush(false)
			continue
		}
		if ob.skip || (ob.hasDelta && ob.jsErr != "") {
			continue // failures already reported; nothing comparable
		}
		if ob.oldModel {
			oldT, _ := roundTrip(ob.c.Old)
			newT, _ := roundTrip(ob.c.New)
			goT := "None"
			if ob.hasDelta && ob.goErr == "" {
				goT = "(Some " + vh.CoqJSON(ob.goOut) + ")"
			}
			jsT := "JNull"
			if ob.hasDelta {
				jsT = vh.CoqJSON(ob.jsOut)
			}
			terms = append(terms, fmt.Sprintf("(%d, mk_case %s %s %s %s %s)", idx, vh.CoqJSON(oldT), vh.CoqJSON(newT),
				vh.CoqOpt(vh.CoqJSON(ob.delta), ob.hasDelta), goT, jsT))
		}
		goT := "None"
		if ob.hasDelta && ob.goErr == "" {
			goT = "(Some " + coqWire(ob.goOut) + ")"
		}
		jsT := "VNull"
		if ob.hasDelta {
			jsT = coqWire(ob.jsOut)
		}
		dT := "None"
		if ob.hasDelta {
			dT = "(Some " + coqWire(ob.delta) + ")"
		}
		gterms = append(gterms, fmt.Sprintf("(%d, mk_gcase %s %s %s %s %s %s %s %s)", idx, listsT, vh.CoqBool(fixed), coqGuides(ob.guides), coqTyped(ob.typedOld), coqTyped(ob.typedNew), dT, goT, jsT))
		flush(false)
	}
	flush(true)
	run.Finish()
}

// runFuzz feeds a (previous value, delta) pair to merge.Merge and queues it for merge.ts.
func runFuzz(run *vh.Run, idx int, ob *obs, jsIn *bytes.Buffer, jsIdx *[]int) {
	f := ob.c.Fuzz
	for _, e := range f.Edits {
		name := e
		for strings.HasPrefix(name, "nested:") {
			name = strings.TrimPrefix(name, "nested:")
		}
		if i := strings.Index(name, "="); i >= 0 {
			name = name[:i]
		}
		run.Hist("fuzz-edit:" + name)
	}
	g, gerr := safeMerge(deepCopy(f.Prev), deepCopy(f.Delta))
	ob.goErr = gerr
	if gerr == "" {
		rt, err := roundTrip(g)
		if err != nil {
			ob.skip = true
			return
		}
		ob.goOut = rt
		run.Hist("fuzz:go-ok")
	} else if strings.HasPrefix(gerr, "panic:") {
		run.Hist("fuzz:go-panic")
	} else {
		run.Hist("fuzz:go-error")
	}
	jsIn.WriteString(js([]interface{}{f.Prev, f.Delta}) + "\n")
	*jsIdx = append(*jsIdx, idx)
}

// finishFuzz: agreement of the two clients on well-formed deltas (oracle), and what is handed to the model.
func finishFuzz(run *vh.Run, idx int, ob *obs, jsOk interface{}, jsErr string) {
	f := ob.c.Fuzz
	wf := wellFormedDelta(f.Prev, f.Delta)
	ob.wellFormed = wf
	if wf {
		run.Hist("fuzz:well-formed")
		run.Count(js(f.Prev)+"|"+js(f.Delta), true)
		switch {
		case ob.goErr != "":
			run.Fail(idx, "merge-error-on-well-formed-delta", ob.goErr, ob.c)
		case jsErr != "":
			run.Fail(idx, "js-merge-error-on-well-formed-delta", jsErr, ob.c)
		case !reflect.DeepEqual(ob.goOut, jsOk):
			run.Fail(idx, "clients-disagree-on-well-formed-delta", "go="+js(ob.goOut)+" js="+js(jsOk), ob.c)
		}
	} else {
		run.Hist("fuzz:ill-formed")
		run.Count(js(f.Prev)+"|"+js(f.Delta), false)
		switch {
		case ob.goErr == "" && jsErr == "" && reflect.DeepEqual(ob.goOut, jsOk):
			run.Hist("fuzz:ill-formed:clients-agree")
		case ob.goErr != "" && jsErr == "":
			run.Hist("fuzz:ill-formed:go-rejects-js-accepts")
		case ob.goErr == "" && jsErr != "":
			run.Hist("fuzz:ill-formed:go-accepts-js-throws")
		case ob.goErr != "" && jsErr != "":
			run.Hist("fuzz:ill-formed:both-reject")
		default:
			run.Hist("fuzz:ill-formed:both-accept-different-values")
		}
	}
	if strings.HasPrefix(ob.c.Origin, "corpus:") {
		// the witnesses of clients_differ_on_ill_formed_deltas: what the two clients do with them is recorded, not enforced
		cls := func(e string) string {
			if e == "" {
				return "accepts"
			}
			return "rejects"
		}
		run.Extra["witness:"+strings.TrimPrefix(ob.c.Origin, "corpus:")] = "merge.go " + cls(ob.goErr) + " (" + js(ob.goOut) + "), merge.ts " + cls(jsErr) + " (" + js(jsOk) + ")"
	}
	if jsErr == "" && jsComparable(f.Prev, f.Delta) {
		ob.jsCompared = true
		ob.jsOut = jsOk
		run.Hist("fuzz:js-compared-with-model")
	}
}
