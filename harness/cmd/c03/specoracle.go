// Oracles on the implementation's own outputs that do not go through the Coq model: the documented
// meaning of the reorder field (each new element is matched to the least not yet used old position with the
// same key), the canonical run-length form, locality of the delta (a field / position is in the delta exactly
// when it changed; two objects with the same key are never resent whole), and agreement of the two clients
// on every well-formed delta.
package main

import (
	"bytes"
	"fmt"
	"math"
	"reflect"
	"strconv"
)

// refKey is reorderKey of the documentation: the "__key" of an object, the value itself for a
// comparable scalar, nil otherwise.
type hBytes string

// cmpKey: a []byte key compares by content.
func cmpKey(k interface{}) interface{} {
	if b, ok := k.([]byte); ok {
		return hBytes(b)
	}
	return k
}

func refKey(v interface{}) interface{} {
	switch x := v.(type) {
	case nil:
		return nil
	case map[string]interface{}:
		if k, ok := x["__key"]; ok {
			return cmpKey(k)
		}
		return nil
	case []interface{}, []byte:
		return nil
	}
	return v
}

// refIndices: for each new element the least old position with the same key that no earlier element took; -1 if none.
func refIndices(old, nw []interface{}) []int {
	used := make([]bool, len(old))
	out := make([]int, len(nw))
	for i, e := range nw {
		out[i] = -1
		k := refKey(e)
		for j, o := range old {
			if !used[j] && refKey(o) == k {
				used[j] = true
				out[i] = j
				break
			}
		}
	}
	return out
}

// decodeReorder expands the "$" field of a delta after JSON; ok=false if it is not a list of integers >= -1 and
// [start,count] pairs.  canonical=false if some run is not maximal or is written in a longer form than needed.
func decodeReorder(c interface{}) (idx []int, ok bool, canonical bool) {
	arr, isArr := c.([]interface{})
	if !isArr {
		return nil, false, false
	}
	canonical = true
	prevEnd := -2 // index following the previous run, -2 if the previous entry was -1 or there is none
	for _, e := range arr {
		switch x := e.(type) {
		case float64:
			if x != math.Trunc(x) || x < -1 {
				return nil, false, false
			}
			idx = append(idx, int(x))
			if x == -1 {
				prevEnd = -2
			} else {
				if int(x) == prevEnd {
					canonical = false
				}
				prevEnd = int(x) + 1
			}
		case []interface{}:
			if len(x) != 2 {
				return nil, false, false
			}
			s, ok1 := x[0].(float64)
			n, ok2 := x[1].(float64)
			if !ok1 || !ok2 || s != math.Trunc(s) || n != math.Trunc(n) || s < 0 || n < 0 || n > 1e6 {
				return nil, false, false
			}
			if n < 2 || int(s) == prevEnd {
				canonical = false
			}
			for i := 0; i < int(n); i++ {
				idx = append(idx, int(s)+i)
			}
			prevEnd = int(s) + int(n)
		default:
			return nil, false, false
		}
	}
	return idx, true, canonical
}

// normNil replaces nil slices and nil maps by empty ones (Diff does not tell them apart; reflect.DeepEqual does).
func normNil(v interface{}) interface{} {
	switch x := v.(type) {
	case map[string]interface{}:
		m := map[string]interface{}{}
		for k, e := range x {
			m[k] = normNil(e)
		}
		return m
	case []interface{}:
		a := make([]interface{}, len(x))
		for i, e := range x {
			a[i] = normNil(e)
		}
		return a
	}
	return v
}

func sameValue(a, b interface{}) bool { return reflect.DeepEqual(normNil(a), normNil(b)) }

func keysComparable(v interface{}) bool {
	switch x := v.(type) {
	case map[string]interface{}:
		if k, ok := x["__key"]; ok {
			switch k.(type) {
			case []interface{}, map[string]interface{}:
				return false
			}
		}
		for _, e := range x {
			if !keysComparable(e) {
				return false
			}
		}
	case []interface{}:
		for _, e := range x {
			if !keysComparable(e) {
				return false
			}
		}
	}
	return true
}

// guideEntry: a list diff where the implementation's index list is not the one the model computes
// (least unused position with the same key).
type guideEntry struct {
	Old, New []interface{}
	Idx      []int
}

type deltaWalk struct {
	guides []guideEntry
}

// matchingOK: what the documentation of computeReorderIndices promises about the index list: every index is the
// position of an old element with the same reorder key, no position is used twice, and -1 is given only when every
// old position with that key is used.
func matchingOK(old, nw []interface{}, idx []int) string {
	if len(idx) != len(nw) {
		return "index list has the wrong length"
	}
	used := make([]int, len(old))
	for i, j := range idx {
		if j == -1 {
			continue
		}
		if j < 0 || j >= len(old) {
			return fmt.Sprintf("index %d out of range", j)
		}
		if refKey(old[j]) != refKey(nw[i]) {
			return fmt.Sprintf("new[%d] matched with old[%d], which has another key", i, j)
		}
		used[j]++
		if used[j] > 1 {
			return fmt.Sprintf("old[%d] used twice", j)
		}
	}
	for i, j := range idx {
		if j != -1 {
			continue
		}
		for p := range old {
			if used[p] == 0 && refKey(old[p]) == refKey(nw[i]) {
				return fmt.Sprintf("new[%d] is given -1 although old[%d] has its key and is unused", i, p)
			}
		}
	}
	return ""
}

// collect walks (old, new, delta after JSON) the way diff.Diff did and notes every list diff whose index list
// (read from the delta; the identity when "$" is absent) is not the one the model computes.
func (w *deltaWalk) collect(old, nw, d interface{}) {
	dm, ok := d.(map[string]interface{})
	if !ok {
		return
	}
	switch n := nw.(type) {
	case map[string]interface{}:
		o, ok := old.(map[string]interface{})
		if !ok {
			return
		}
		for k, dv := range dm {
			ov, h1 := o[k]
			nv, h2 := n[k]
			if h1 && h2 {
				w.collect(ov, nv, dv)
			}
		}
	case []interface{}:
		o, ok := old.([]interface{})
		if !ok {
			return
		}
		var got []int
		if c, has := dm["$"]; has {
			g, ok, _ := decodeReorder(c)
			if !ok {
				return
			}
			got = g
		} else if len(o) == len(n) {
			got = make([]int, len(n))
			for i := range got {
				got[i] = i
			}
		}
		if len(got) != len(n) {
			return
		}
		for _, j := range got {
			if j >= len(o) {
				return
			}
		}
		if want := refIndices(o, n); !reflect.DeepEqual(got, want) && len(got) > 0 {
			w.guides = append(w.guides, guideEntry{Old: o, New: n, Idx: got})
		}
		for i, nv := range n {
			var ov interface{}
			if got[i] >= 0 {
				ov = o[got[i]]
			}
			if dv, has := dm[strconv.Itoa(i)]; has {
				w.collect(ov, nv, dv)
			}
		}
	}
}

// checkDelta walks (old, new, delta after JSON) and returns the first departure from the documented delta
// format, "" if none.  Index lists are read from the delta (the identity when "$" is absent); they must be
// matchings as documented (matchingOK), not necessarily the ones the model computes - those that differ are
// collected in w.guides.
func (w *deltaWalk) checkDelta(old, nw, d interface{}, path string) string {
	if d == nil {
		if !sameValue(old, nw) {
			return path + ": no delta although the values differ"
		}
		return ""
	}
	if sameValue(old, nw) {
		return path + ": delta-not-minimal: delta for equal values"
	}
	switch n := nw.(type) {
	case map[string]interface{}:
		o, ok := old.(map[string]interface{})
		if !ok || cmpKey(o["__key"]) != cmpKey(n["__key"]) {
			return wantReplacement(nw, d, path)
		}
		dm, ok := d.(map[string]interface{})
		if !ok {
			return path + ": delta-not-local: objects with the same key resent whole"
		}
		for k, ov := range o {
			if k == "__key" {
				continue
			}
			nv, has := n[k]
			dv, inD := dm[k]
			if !has {
				if a, isA := dv.([]interface{}); !inD || !isA || len(a) != 0 {
					return fmt.Sprintf("%s.%s: removed field without removal marker", path, k)
				}
				continue
			}
			if !inD {
				dv = nil
			}
			if msg := w.checkDelta(ov, nv, dv, path+"."+k); msg != "" {
				return msg
			}
		}
		for k, nv := range n {
			if k == "__key" {
				continue
			}
			if _, has := o[k]; !has {
				dv, inD := dm[k]
				if !inD {
					return fmt.Sprintf("%s.%s: new field missing from delta", path, k)
				}
				if msg := wantReplacement(nv, dv, path+"."+k); msg != "" {
					return msg
				}
			}
		}
		for k := range dm {
			_, inO := o[k]
			_, inN := n[k]
			if k != "__key" && !inO && !inN {
				return fmt.Sprintf("%s.%s: delta names a field of neither value", path, k)
			}
		}
		return ""
	case []interface{}:
		o, ok := old.([]interface{})
		if !ok {
			return wantReplacement(nw, d, path)
		}
		dm, ok := d.(map[string]interface{})
		if !ok {
			return path + ": delta-not-local: list resent whole"
		}
		var got []int
		if c, has := dm["$"]; has {
			g, ok, canonical := decodeReorder(c)
			if !ok {
				return path + ": reorder field malformed"
			}
			got = g
			if !canonical {
				return path + ": reorder-runs-not-maximal"
			}
			identity := len(o) == len(got)
			for i, j := range got {
				if i != j {
					identity = false
				}
			}
			if identity {
				return path + ": delta-not-minimal: reorder field although the order is unchanged"
			}
		} else {
			if len(o) != len(n) {
				return path + ": reorder field missing although the length changed"
			}
			got = make([]int, len(n))
			for i := range got {
				got[i] = i
			}
		}
		if msg := matchingOK(o, n, got); msg != "" {
			return fmt.Sprintf("%s: reorder-indices-not-a-matching: %s (indices %v)", path, msg, got)
		}
		for i, nv := range n {
			var ov interface{}
			if got[i] >= 0 {
				ov = o[got[i]]
			}
			dv, inD := dm[strconv.Itoa(i)]
			if !inD {
				dv = nil
			}
			if msg := w.checkDelta(ov, nv, dv, fmt.Sprintf("%s[%d]", path, i)); msg != "" {
				return msg
			}
		}
		for k := range dm {
			if k == "$" {
				continue
			}
			if i, err := strconv.Atoi(k); err != nil || strconv.Itoa(i) != k || i < 0 || i >= len(n) {
				return fmt.Sprintf("%s: delta key %q is not a position of the new list", path, k)
			}
		}
		return ""
	}
	return wantReplacement(nw, d, path)
}

// wantReplacement: d must be a replacement encoding of nw: a one-element array, or - for a scalar - the raw value
// (which types markReplaced sends raw is its business: both forms merge to the same value).  The value itself
// is checked by the round trip.
func wantReplacement(nw, d interface{}, path string) string {
	if a, ok := d.([]interface{}); ok && len(a) == 1 {
		return ""
	}
	switch nw.(type) {
	case bool, int, int8, int16, int32, int64, uint, uint8, uint16, uint32, uint64, float32, float64, string:
		switch d.(type) {
		case bool, float64, string:
			return ""
		}
		return path + ": scalar replacement neither raw nor wrapped"
	}
	return path + ": complex replacement not wrapped in a one-element array"
}

// ---- well-formed deltas (for the agreement of the two clients) ----

// isRepl: a replacement as the documentation describes it: a raw scalar or a ONE-element array (merge.go and
// merge.ts also take the first element of a longer array; that is not part of the format).
func isRepl(d interface{}) bool {
	switch x := d.(type) {
	case bool, float64, string:
		return true
	case []interface{}:
		return len(x) == 1
	}
	return false
}

func isRemovalMarker(d interface{}) bool {
	a, ok := d.([]interface{})
	return ok && len(a) == 0
}

// expandForMerge expands a "$" field that follows the documented format: integers that are -1 or positions of
// the previous list, and runs [start, count] of positions with count >= 1.
func expandForMerge(c interface{}, n int) ([]int, bool) {
	arr, isArr := c.([]interface{})
	if !isArr {
		return nil, false
	}
	var idx []int
	for _, e := range arr {
		switch x := e.(type) {
		case float64:
			if x != math.Trunc(x) {
				return nil, false
			}
			idx = append(idx, int(x))
		case []interface{}:
			if len(x) != 2 {
				return nil, false
			}
			s, ok1 := x[0].(float64)
			c, ok2 := x[1].(float64)
			if !ok1 || !ok2 || s != math.Trunc(s) || c != math.Trunc(c) || c > 50 || c < 1 || s < 0 {
				return nil, false
			}
			for i := 0; i < int(c); i++ {
				idx = append(idx, int(s)+i)
			}
		default:
			return nil, false
		}
	}
	for _, j := range idx {
		if j < -1 || j >= n {
			return nil, false
		}
	}
	return idx, true
}

// wellFormedDelta: d is a delta in the documented format that a correct server could send to a client holding prev
// (a subset of the model's [vdwf], which admits everything merge.go accepts).
func wellFormedDelta(prev, d interface{}) bool {
	dm, ok := d.(map[string]interface{})
	if !ok {
		return isRepl(d)
	}
	switch p := prev.(type) {
	case map[string]interface{}:
		for k, dv := range dm {
			v, has := p[k]
			switch {
			case isRemovalMarker(dv):
				if !has {
					return false
				}
			case has:
				if !wellFormedDelta(v, dv) {
					return false
				}
			default:
				if !isRepl(dv) {
					return false
				}
			}
		}
		return true
	case []interface{}:
		base := p
		if c, has := dm["$"]; has {
			idx, ok := expandForMerge(c, len(p))
			if !ok {
				return false
			}
			base = make([]interface{}, len(idx))
			for i, j := range idx {
				if j >= 0 {
					base[i] = p[j]
				}
			}
		}
		for k, dv := range dm {
			if k == "$" {
				continue
			}
			i, err := strconv.Atoi(k)
			if err != nil || strconv.Itoa(i) != k || i < 0 || i >= len(base) || isRemovalMarker(dv) {
				return false
			}
			if !wellFormedDelta(base[i], dv) {
				return false
			}
		}
		return true
	}
	return false
}

var _ = bytes.Equal
