// The pass-through type lists of diff.markReplaced and merge.mergeReplaced, read from the sources of the tree
// under test with go/ast (data, not control flow: the first case of the type switch of each function).  The
// model's [raw] classification is instantiated with them, and [lists_ok] - the premise of the serialisation
// theorems - is evaluated on them.  If the functions no longer have that shape the lists of the tree as it was
// are used and the run says so.
package main

import (
	"go/ast"
	"go/parser"
	"go/token"
	"go/types"
	"path/filepath"
)

var defaultPassthrough = []string{"bool", "int", "int8", "int16", "int32", "int64", "uint", "uint8", "uint16", "uint32", "uint64", "float32", "float64", "string"}

// firstCaseTypes returns the types named in the first non-default case of the first type switch of function fn.
func firstCaseTypes(file, fn string) ([]string, bool) {
	fset := token.NewFileSet()
	f, err := parser.ParseFile(fset, file, nil, 0)
	if err != nil {
		return nil, false
	}
	for _, d := range f.Decls {
		fd, ok := d.(*ast.FuncDecl)
		if !ok || fd.Name.Name != fn || fd.Recv != nil || fd.Body == nil {
			continue
		}
		var out []string
		found := false
		ast.Inspect(fd.Body, func(n ast.Node) bool {
			if found {
				return false
			}
			ts, ok := n.(*ast.TypeSwitchStmt)
			if !ok {
				return true
			}
			for _, c := range ts.Body.List {
				cc := c.(*ast.CaseClause)
				if len(cc.List) == 0 {
					continue
				}
				for _, e := range cc.List {
					out = append(out, types.ExprString(e))
				}
				found = true
				break
			}
			return false
		})
		return out, found && len(out) > 0
	}
	return nil, false
}

// passthroughLists returns (markReplaced's list, mergeReplaced's list, extracted from the sources?).
func passthroughLists(repo string) ([]string, []string, bool) {
	dl, ok1 := firstCaseTypes(filepath.Join(repo, "diff", "diff.go"), "markReplaced")
	ml, ok2 := firstCaseTypes(filepath.Join(repo, "merge", "merge.go"), "mergeReplaced")
	if !ok1 || !ok2 {
		return defaultPassthrough, defaultPassthrough, false
	}
	return dl, ml, true
}
