// Arbitrary (previous value, delta) pairs for merge.Merge and merge.ts: real deltas with small edits
// (reorder field, entries, keys, previous value).  They exercise the error branches of both merges, which
// deltas produced by diff.Diff never reach.
package main

import (
	"math"
	"strconv"

	"verifharness/pkg/vh"
)

// FuzzCase is a wire-level (after JSON) pair fed to both merges.
type FuzzCase struct {
	Prev  interface{} `json:"prev"`
	Delta interface{} `json:"delta"`
	Edits []string    `json:"edits"`
}

func wireScalar(r *vh.Rng) interface{} {
	switch r.Intn(6) {
	case 0:
		return nil
	case 1:
		return r.Bool()
	case 2:
		return float64(r.Intn(5) - 1)
	case 3:
		return "x"
	case 4:
		return ""
	}
	return float64(0)
}

func wireValue(r *vh.Rng, depth int) interface{} {
	v, _ := roundTrip(genValue(r, depth))
	return v
}

// editReorder rewrites the "$" field of an array delta.
func editReorder(r *vh.Rng, m map[string]interface{}, prevLen int) string {
	cur, _ := m["$"].([]interface{})
	switch r.Intn(12) {
	case 0:
		delete(m, "$")
		return "$:dropped"
	case 1:
		m["$"] = append(append([]interface{}{}, cur...), float64(prevLen+r.Intn(3)))
		return "$:index-beyond-end"
	case 2:
		m["$"] = append(append([]interface{}{}, cur...), float64(-2-r.Intn(2)))
		return "$:negative-index"
	case 3:
		s := float64(r.Intn(prevLen + 1))
		m["$"] = append(append([]interface{}{}, cur...), []interface{}{s, float64(r.Intn(4))})
		return "$:extra-run"
	case 4:
		m["$"] = append(append([]interface{}{}, cur...), []interface{}{float64(r.Intn(3)), float64(-r.Intn(3))})
		return "$:run-count-nonpositive"
	case 5:
		m["$"] = append(append([]interface{}{}, cur...), []interface{}{float64(-1 - r.Intn(2)), float64(r.Intn(3))})
		return "$:run-negative-start"
	case 6:
		k := r.Intn(4)
		a := make([]interface{}, k)
		for i := range a {
			a[i] = float64(r.Intn(prevLen + 1))
		}
		if k == 2 {
			a = a[:1]
		}
		m["$"] = append(append([]interface{}{}, cur...), a)
		return "$:run-wrong-length"
	case 7:
		m["$"] = append(append([]interface{}{}, cur...), r.Pick([]string{"b", "n", "s"}))
		switch m["$"].([]interface{})[len(cur)] {
		case "b":
			m["$"].([]interface{})[len(cur)] = true
			return "$:entry-bool"
		case "n":
			m["$"].([]interface{})[len(cur)] = nil
			return "$:entry-null"
		}
		m["$"].([]interface{})[len(cur)] = "1"
		return "$:entry-string"
	case 8:
		switch r.Intn(5) {
		case 0:
			m["$"] = float64(0)
		case 1:
			m["$"] = nil
		case 2:
			m["$"] = "x"
		case 3:
			m["$"] = map[string]interface{}{}
		default:
			m["$"] = true
		}
		return "$:not-an-array"
	case 9:
		if len(cur) > 0 {
			m["$"] = cur[:r.Intn(len(cur))]
			return "$:truncated"
		}
		m["$"] = []interface{}{}
		return "$:empty"
	case 10:
		m["$"] = append(append([]interface{}{}, cur...), []interface{}{float64(r.Intn(3)), []interface{}{}})
		return "$:run-element-not-a-number"
	}
	if len(cur) > 0 {
		a := append([]interface{}{}, cur...)
		i := r.Intn(len(a))
		a[i] = float64(r.Intn(prevLen + 2))
		m["$"] = a
		return "$:index-changed"
	}
	m["$"] = []interface{}{float64(-1)}
	return "$:just-minus-one"
}

func entryValue(r *vh.Rng) (interface{}, string) {
	switch r.Intn(8) {
	case 0:
		return []interface{}{}, "removal-marker"
	case 1:
		return nil, "null"
	case 2:
		return map[string]interface{}{}, "empty-object"
	case 3:
		return map[string]interface{}{"a": float64(1)}, "object"
	case 4:
		return []interface{}{wireValue(r, 1), float64(7)}, "two-element-array"
	case 5:
		return []interface{}{wireValue(r, 1)}, "wrapped"
	case 6:
		return map[string]interface{}{"$": []interface{}{float64(0)}}, "array-delta"
	}
	return wireScalar(r), "scalar"
}

// validEdit rewrites the delta into another well-formed delta for the same previous value that diff.Diff would
// not produce (a different server could): a raw scalar wrapped, a run split or written in the long form, a
// redundant identity reordering, an entry replaced by a wrapped value, an empty nested delta.
func validEdit(r *vh.Rng, prev interface{}, dm map[string]interface{}) (string, bool) {
	keys := sortedKeys(dm)
	switch r.Intn(5) {
	case 0: // wrap a raw scalar entry
		for _, k := range keys {
			switch dm[k].(type) {
			case bool, float64, string:
				if k != "$" {
					dm[k] = []interface{}{dm[k]}
					return "valid:scalar-wrapped", true
				}
			}
		}
	case 1: // runs written differently
		_, prevIsList := prev.([]interface{})
		if c, ok := dm["$"].([]interface{}); ok && prevIsList {
			var out []interface{}
			changed := false
			for _, e := range c {
				if run, isRun := e.([]interface{}); isRun && len(run) == 2 {
					s, ok1 := run[0].(float64)
					n, ok2 := run[1].(float64)
					if !ok1 || !ok2 {
						return "", false
					}
					for i := 0.0; i < n; i++ {
						out = append(out, s+i)
					}
					changed = true
				} else if x, isNum := e.(float64); isNum && x >= 0 {
					out = append(out, []interface{}{x, float64(1)})
					changed = true
				} else {
					out = append(out, e)
				}
			}
			if changed {
				dm["$"] = out
				return "valid:runs-rewritten", true
			}
		}
	case 2: // identity reordering spelled out
		if p, ok := prev.([]interface{}); ok {
			if _, has := dm["$"]; !has && len(p) > 0 {
				dm["$"] = []interface{}{[]interface{}{float64(0), float64(len(p))}}
				return "valid:identity-reorder", true
			}
		}
	case 3: // an entry of an object replaced by a wrapped value / an unchanged field gets an empty delta
		if p, ok := prev.(map[string]interface{}); ok {
			for _, k := range sortedKeys(p) {
				if _, inD := dm[k]; inD {
					continue
				}
				switch p[k].(type) {
				case map[string]interface{}, []interface{}:
					dm[k] = map[string]interface{}{}
					return "valid:empty-nested-delta", true
				default:
					dm[k] = []interface{}{wireValue(r, 1)}
					return "valid:field-replaced", true
				}
			}
		}
	default: // a field removed that the previous value has
		if p, ok := prev.(map[string]interface{}); ok {
			for _, k := range sortedKeys(p) {
				if _, inD := dm[k]; !inD {
					dm[k] = []interface{}{}
					return "valid:field-removed", true
				}
			}
		}
	}
	return "", false
}

// fuzzEdit applies one edit somewhere in (prev, delta) and names it.
func fuzzEdit(r *vh.Rng, prev, delta interface{}) (interface{}, interface{}, string) {
	dm, isObj := delta.(map[string]interface{})
	if isObj && r.Chance(30) {
		if name, ok := validEdit(r, prev, dm); ok {
			return prev, dm, name
		}
	}
	if !isObj || r.Chance(12) {
		// top-level replacement
		switch r.Intn(4) {
		case 0:
			v, n := entryValue(r)
			return prev, v, "top:" + n
		case 1:
			return wireScalar(r), delta, "prev:scalar"
		case 2:
			if _, ok := prev.(map[string]interface{}); ok {
				return []interface{}{prev}, delta, "prev:object->array"
			}
			return map[string]interface{}{"a": prev}, delta, "prev:->object"
		}
		return wireValue(r, 2), delta, "prev:regenerated"
	}
	// descend with some probability
	keys := sortedKeys(dm)
	if len(keys) > 0 && r.Chance(35) {
		k := keys[r.Intn(len(keys))]
		if sub, ok := dm[k].(map[string]interface{}); ok && k != "$" {
			var subPrev interface{}
			switch p := prev.(type) {
			case map[string]interface{}:
				subPrev = p[k]
			case []interface{}:
				// the element the entry applies to is only known after reordering; edits of the sub-delta
				// alone are still meaningful
				if i, err := strconv.Atoi(k); err == nil && i >= 0 && i < len(p) {
					subPrev = p[i]
				}
			}
			_, nd, name := fuzzEdit(r, subPrev, sub)
			dm[k] = nd
			return prev, dm, "nested:" + name
		}
	}
	switch p := prev.(type) {
	case []interface{}:
		switch r.Intn(5) {
		case 0, 1:
			return prev, dm, editReorder(r, dm, len(p))
		case 2:
			k := r.Pick([]string{"x", "-1", "1.0", "", "1e0", strconv.Itoa(len(p) + 1 + r.Intn(3)), strconv.Itoa(r.Intn(len(p) + 1))})
			v, n := entryValue(r)
			dm[k] = v
			cls := "canonical"
			if i, err := strconv.Atoi(k); err != nil {
				cls = "not-an-integer"
			} else if i < 0 {
				cls = "negative"
			} else if strconv.Itoa(i) != k {
				cls = "non-canonical"
			}
			return prev, dm, "array-key:" + cls + "=" + n
		case 3:
			if len(keys) > 0 {
				k := keys[r.Intn(len(keys))]
				if k != "$" {
					v, n := entryValue(r)
					dm[k] = v
					return prev, dm, "array-entry:" + n
				}
			}
		}
		return prev, dm, editReorder(r, dm, len(p))
	case map[string]interface{}:
		switch r.Intn(4) {
		case 0: // a key the previous value does not have
			k := r.Pick([]string{"zz", "$", "7", "__key"})
			v, n := entryValue(r)
			dm[k] = v
			if _, has := p[k]; has {
				return prev, dm, "object-entry:" + n
			}
			return prev, dm, "object-new-key:" + n
		case 1:
			pk := sortedKeys(p)
			if len(pk) > 0 {
				k := pk[r.Intn(len(pk))]
				v, n := entryValue(r)
				dm[k] = v
				return prev, dm, "object-entry:" + n
			}
		case 2:
			if len(keys) > 0 {
				k := keys[r.Intn(len(keys))]
				v, n := entryValue(r)
				dm[k] = v
				return prev, dm, "object-entry:" + n
			}
		}
		v, n := entryValue(r)
		dm["a"] = v
		return prev, dm, "object-entry:" + n
	}
	return wireValue(r, 2), dm, "prev:regenerated"
}

// jsComparable says whether merge.ts on (prev, delta) is inside what the model of merge.ts represents: the
// "$" field is absent, falsy or an array of integers, booleans, nulls, runs of two non-negative integers with a
// small count, or arrays with fewer than two elements; keys of an array delta are "$", canonical in-range
// indices or the tokens "x" and "-1" (which JSON.stringify drops).  Everything else (a string inside "$",
// Number("1.0"), an index beyond the end, which makes the array grow) is left to the Go side of the check.
func jsComparable(prev, delta interface{}) bool {
	dm, ok := delta.(map[string]interface{})
	if !ok {
		if a, isArr := delta.([]interface{}); isArr && len(a) > 0 {
			return true
		}
		return true
	}
	switch p := prev.(type) {
	case []interface{}:
		n := len(p)
		if d, has := dm["$"]; has {
			switch x := d.(type) {
			case nil:
			case bool:
				if x {
					return false
				}
			case float64:
				if x != 0 {
					return false
				}
			case string:
				if x != "" {
					return false
				}
			case []interface{}:
				n = 0
				for _, e := range x {
					switch y := e.(type) {
					case nil, bool:
						n++
					case float64:
						if y != math.Trunc(y) {
							return false
						}
						n++
					case []interface{}:
						if len(y) >= 2 {
							s, ok1 := y[0].(float64)
							c, ok2 := y[1].(float64)
							if !ok1 || !ok2 || s < 0 || c < 0 || c > 50 || s != math.Trunc(s) || c != math.Trunc(c) {
								return false
							}
							n += int(c)
						}
					default:
						return false
					}
				}
			default:
				return false
			}
		}
		// the elements the entries apply to depend on the reordering; check the entries against any
		// previous element (conservative: all entries must be comparable whatever they are applied to)
		for k, dv := range dm {
			if k == "$" {
				continue
			}
			if k == "x" || k == "-1" {
				if !jsComparableAny(dv) {
					return false
				}
				continue
			}
			i, err := strconv.Atoi(k)
			if err != nil || strconv.Itoa(i) != k || i < 0 || i >= n {
				return false
			}
			if !jsComparableAny(dv) {
				return false
			}
		}
		return true
	case map[string]interface{}:
		for k, dv := range dm {
			if !jsComparable(p[k], dv) {
				return false
			}
		}
		return true
	}
	for _, dv := range dm {
		if !jsComparable(nil, dv) {
			return false
		}
	}
	return true
}

// jsComparableAny: the sub-delta is comparable whatever value it is merged into (no array branch with a
// questionable "$" or key anywhere inside).
func jsComparableAny(delta interface{}) bool {
	dm, ok := delta.(map[string]interface{})
	if !ok {
		return true
	}
	if _, has := dm["$"]; has {
		return false
	}
	for k, dv := range dm {
		if _, err := strconv.Atoi(k); err == nil {
			return false
		}
		if k == "" || k == "1.0" || k == "1e0" {
			return false
		}
		if !jsComparableAny(dv) {
			return false
		}
	}
	return true
}
