// Go-typed views of a case (what diff.Diff sees on the server) and printers of the terms of
// DiffMerge/GInst.v: [val satom] for the server's values, [val watom] for values after encoding/json.
package main

import (
	"encoding/base64"
	"fmt"
	"math"
	"sort"
	"strings"

	"verifharness/pkg/vh"
)

// namedStr is a scalar type outside markReplaced's pass-through list (like an enum type of a schema):
// comparable, marshals as a JSON string, is wrapped by markReplaced.
type namedStr string

// Typing says how the JSON-shaped value of a case is turned into Go-typed data.
//   mode "mixed": every leaf draws its own Go type from Seed (numbers: the dominant numeric type with
//   probability 1-Mix%, else any type the value fits, floats may get a fractional part; strings: string, []byte or
//   namedStr; empty containers may become nil slices / nil maps).  Leaves under "__key" keep the dominant type
//   and stay comparable.
//   mode "nullkey": as mixed, and objects lose, gain or null their "__key" (explicit nil key against absent key).
type Typing struct {
	Mode     string `json:"mode"`
	Seed     uint64 `json:"seed"`
	Dominant string `json:"dominant"`
	Mix      int    `json:"mix"`
	// BytesKeys: string keys may become []byte keys (only generated for a tree where such keys do not make Diff
	// panic, i.e. with patches/C03-fix-5)
	BytesKeys bool `json:"bytes_keys,omitempty"`
}

type typer struct {
	r       *vh.Rng
	t       Typing
	nullKey bool
}

func fitting(x float64) []string {
	var out []string
	for _, t := range numTypes {
		if fits(t, x) {
			out = append(out, t)
		}
	}
	return out
}

func (ty *typer) num(x float64, underKey bool) interface{} {
	t := ty.t.Dominant
	if !underKey && ty.r.Chance(ty.t.Mix) {
		f := fitting(x)
		t = f[ty.r.Intn(len(f))]
	}
	if !fits(t, x) {
		t = "int64"
		if x != math.Trunc(x) {
			t = "float64"
		}
	}
	if !underKey && (t == "float64" || t == "float32") && x < 1e6 && x > -1e6 && ty.r.Chance(30) {
		x += 0.5
	}
	return conv(t, x)
}

func (ty *typer) conv(v interface{}, underKey bool) interface{} {
	switch x := v.(type) {
	case map[string]interface{}:
		if len(x) == 0 && ty.r.Chance(20) {
			return map[string]interface{}(nil)
		}
		m := map[string]interface{}{}
		for _, k := range sortedKeys(x) {
			m[k] = ty.conv(x[k], k == "__key")
		}
		if ty.nullKey {
			switch _, has := m["__key"]; {
			case has && ty.r.Chance(35):
				m["__key"] = nil
			case has && ty.r.Chance(15):
				delete(m, "__key")
			case !has && ty.r.Chance(30):
				m["__key"] = nil
			}
		}
		return m
	case []interface{}:
		if len(x) == 0 && ty.r.Chance(20) {
			return []interface{}(nil)
		}
		a := make([]interface{}, len(x))
		for i, e := range x {
			a[i] = ty.conv(e, false)
		}
		return a
	case float64:
		return ty.num(x, underKey)
	case string:
		if underKey && ty.t.BytesKeys && ty.r.Chance(50) {
			return []byte(x)
		}
		if !underKey && ty.r.Chance(ty.t.Mix) {
			if ty.r.Bool() {
				return []byte(x)
			}
			return namedStr(x)
		}
	}
	return v
}

// applyTyping returns the Go-typed old and new values of a case.
func applyTyping(t Typing, old, nw interface{}) (interface{}, interface{}) {
	ty := &typer{r: vh.NewRng(t.Seed), t: t, nullKey: t.Mode == "nullkey"}
	return ty.conv(old, false), ty.conv(nw, false)
}

// ---- Coq terms ----

func coqPos(n int) string { return fmt.Sprintf("%d%%positive", n) }

// dyad prints a finite float as DInt z or DFrac m k (m odd, value m / 2^k).
func dyad(x float64) string {
	if x == math.Trunc(x) && math.Abs(x) <= 1<<53 {
		return "(DInt " + vh.CoqZ(int64(x)) + ")"
	}
	frac, exp := math.Frexp(x)
	m := int64(frac * (1 << 53))
	e := exp - 53
	for m%2 == 0 && m != 0 {
		m /= 2
		e++
	}
	if e >= 0 {
		panic(fmt.Sprintf("dyad: %v is not representable", x))
	}
	return "(DFrac " + vh.CoqZ(m) + " " + coqPos(-e) + ")"
}

func tyIndex(t string) int {
	for i, n := range numTypes {
		if n == t {
			return i
		}
	}
	panic("unknown numeric type " + t)
}

func snum(t string, x float64) string {
	return fmt.Sprintf("(VAtom (SNum %d %s))", tyIndex(t), dyad(x))
}

// coqTyped prints a Go-typed value as a [val satom] term (object keys sorted).
func coqTyped(v interface{}) string {
	switch x := v.(type) {
	case nil:
		return "VNull"
	case bool:
		return "(VAtom (SBool " + vh.CoqBool(x) + "))"
	case int:
		return snum("int", float64(x))
	case int8:
		return snum("int8", float64(x))
	case int16:
		return snum("int16", float64(x))
	case int32:
		return snum("int32", float64(x))
	case int64:
		return snum("int64", float64(x))
	case uint:
		return snum("uint", float64(x))
	case uint8:
		return snum("uint8", float64(x))
	case uint16:
		return snum("uint16", float64(x))
	case uint32:
		return snum("uint32", float64(x))
	case uint64:
		return snum("uint64", float64(x))
	case float32:
		return snum("float32", float64(x))
	case float64:
		return snum("float64", x)
	case string:
		return "(VAtom (SStr " + vh.CoqString(x) + "))"
	case []byte:
		return "(VAtom (SBytes " + vh.CoqString(base64.StdEncoding.EncodeToString(x)) + "))"
	case namedStr:
		return "(VAtom (SNamed " + vh.CoqString(string(x)) + "))"
	case []interface{}:
		xs := make([]string, len(x))
		for i, e := range x {
			xs[i] = coqTyped(e)
		}
		return "(VArr " + vh.CoqList(xs) + ")"
	case map[string]interface{}:
		keys := make([]string, 0, len(x))
		for k := range x {
			keys = append(keys, k)
		}
		sort.Strings(keys)
		xs := make([]string, len(keys))
		for i, k := range keys {
			xs[i] = "(" + vh.CoqString(k) + ", " + coqTyped(x[k]) + ")"
		}
		return "(VObj " + vh.CoqList(xs) + ")"
	}
	panic(fmt.Sprintf("coqTyped: unsupported %T", v))
}

// coqWire prints a value decoded by encoding/json as a [val watom] term (object keys sorted).
func coqWire(v interface{}) string {
	switch x := v.(type) {
	case nil:
		return "VNull"
	case bool:
		return "(VAtom (WBool " + vh.CoqBool(x) + "))"
	case float64:
		return "(VAtom (WNum " + dyad(x) + "))"
	case string:
		return "(VAtom (WStr " + vh.CoqString(x) + "))"
	case []interface{}:
		xs := make([]string, len(x))
		for i, e := range x {
			xs[i] = coqWire(e)
		}
		return "(VArr " + vh.CoqList(xs) + ")"
	case map[string]interface{}:
		keys := make([]string, 0, len(x))
		for k := range x {
			keys = append(keys, k)
		}
		sort.Strings(keys)
		xs := make([]string, len(keys))
		for i, k := range keys {
			xs[i] = "(" + vh.CoqString(k) + ", " + coqWire(x[k]) + ")"
		}
		return "(VObj " + vh.CoqList(xs) + ")"
	}
	panic(fmt.Sprintf("coqWire: unsupported %T", v))
}

// typedDeepCopy copies a Go-typed value ([]byte leaves included).
func typedDeepCopy(v interface{}) interface{} {
	switch x := v.(type) {
	case map[string]interface{}:
		if x == nil {
			return x
		}
		m := map[string]interface{}{}
		for k, e := range x {
			m[k] = typedDeepCopy(e)
		}
		return m
	case []interface{}:
		if x == nil {
			return x
		}
		a := make([]interface{}, len(x))
		for i, e := range x {
			a[i] = typedDeepCopy(e)
		}
		return a
	case []byte:
		return append([]byte{}, x...)
	}
	return v
}

// leafKinds lists which kinds of Go leaves a typed value holds (for the histogram).
func leafKinds(v interface{}, into map[string]bool) {
	switch x := v.(type) {
	case map[string]interface{}:
		if x == nil {
			into["nil-map"] = true
		}
		for k, e := range x {
			if k == "__key" && e == nil {
				into["null-key"] = true
			}
			if _, isB := e.([]byte); k == "__key" && isB {
				into["bytes-key"] = true
			}
			leafKinds(e, into)
		}
	case []interface{}:
		if x == nil {
			into["nil-slice"] = true
		}
		for _, e := range x {
			leafKinds(e, into)
		}
	case []byte:
		into["bytes"] = true
	case namedStr:
		into["named"] = true
	case float32, float64:
		f, _ := toF(x)
		if f != math.Trunc(f) {
			into["fractional"] = true
		}
	}
}

func toF(v interface{}) (float64, bool) {
	switch x := v.(type) {
	case float32:
		return float64(x), true
	case float64:
		return x, true
	}
	return 0, false
}

func joinKinds(m map[string]bool) string {
	ks := make([]string, 0, len(m))
	for k := range m {
		ks = append(ks, k)
	}
	sort.Strings(ks)
	return strings.Join(ks, "+")
}

// coqGuides prints the [table] of a case: (old list, new list, index list) triples.
func coqGuides(gs []guideEntry) string {
	xs := make([]string, len(gs))
	for i, g := range gs {
		o := make([]string, len(g.Old))
		for k, e := range g.Old {
			o[k] = coqTyped(e)
		}
		n := make([]string, len(g.New))
		for k, e := range g.New {
			n[k] = coqTyped(e)
		}
		ix := make([]string, len(g.Idx))
		for k, j := range g.Idx {
			if j < 0 {
				ix[k] = "None"
			} else {
				ix[k] = fmt.Sprintf("(Some %d)", j)
			}
		}
		xs[i] = "(" + vh.CoqList(o) + ", " + vh.CoqList(n) + ", " + vh.CoqList(ix) + ")"
	}
	return vh.CoqList(xs)
}

func coqStrings(xs []string) string {
	ys := make([]string, len(xs))
	for i, x := range xs {
		ys[i] = vh.CoqString(x)
	}
	return vh.CoqList(ys)
}
