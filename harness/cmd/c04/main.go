// C04: no lost invalidation in the reactive graph / rerunner.  All code is shared with C08 (pkg/reactsim);
// the two commands differ in the oracle clauses they report and in the bias of the generator.
package main

import "verifharness/pkg/reactsim"

func main() { reactsim.Main("C04") }
