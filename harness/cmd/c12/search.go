package main

import (
	"encoding/json"
	"io/ioutil"
	"strings"

	"verifharness/pkg/sqlh"
	"verifharness/pkg/vh"
)

// Failing-input search (-search file): variants of the cases on which model and implementation
// disagreed, evaluated with the oracle only.  Edits stay close to the seed: another method of the same
// family, one filter / row / limit value replaced (nil, pointer, zero, same value in another Go type, other
// value), a key dropped, the limit moved to another column, one more caller, a second handle sharing the
// batch function, the call wrapped in a transaction or a sequence, another chunk size.

var readFamily = []string{"query", "queryrow", "fullscan", "basequery", "count"}
var writeFamily = []string{"insert", "upsert", "update", "delete"}
var bulkFamily = []string{"insertrows", "upsertrows"}

func family(op string) []string {
	for _, f := range [][]string{readFamily, writeFamily, bulkFamily} {
		for _, o := range f {
			if o == op {
				return f
			}
		}
	}
	return nil
}

func deepCopyCase(c Case) Case {
	b, _ := json.Marshal(c)
	var out Case
	json.Unmarshal(b, &out)
	return out
}

// valueEdit: nil / typed nil / pointer / zero / same value in another Go type / another value.
func (g *gen) valueEdit(c *sqlh.ColDesc, v sqlh.GV) sqlh.GV {
	switch g.R.Intn(7) {
	case 0:
		return sqlh.GV{T: "nil"}
	case 1:
		if c != nil {
			return sqlh.GV{T: "nilptr", PT: baseType(c.Ty)}
		}
		return sqlh.GV{T: "nil"}
	case 2:
		if v.T != "ptr" && v.T != "nil" && v.T != "nilptr" && v.T != "nilbytes" {
			e := v
			return sqlh.GV{T: "ptr", Addr: g.NewAddr(), Elem: &e}
		}
		return g.Retype(v)
	case 3:
		if c != nil {
			bt := baseType(c.Ty)
			if bt == "bytes" && g.R.Bool() {
				return sqlh.GV{T: "nilbytes"}
			}
			return sqlh.GV{T: bt} // the zero value of the column's type
		}
		return g.Other(v)
	case 4:
		return g.retypeOrCustom(v)
	default:
		return g.Other(v)
	}
}

func (g *gen) editFilter(t *sqlh.TableDesc, f sqlh.Filter, limits []sqlh.Filter) sqlh.Filter {
	out := copyFilter(f)
	keys := out.Keys()
	var lkeys []string
	for _, l := range limits {
		lkeys = append(lkeys, l.Keys()...)
	}
	switch k := g.R.Intn(10); {
	case k < 5 && len(keys) > 0: // one value replaced, limit columns first
		key := keys[g.R.Intn(len(keys))]
		if len(lkeys) > 0 && g.R.Chance(70) {
			key = lkeys[g.R.Intn(len(lkeys))]
		}
		if v, ok := out[key]; ok {
			out[key] = g.valueEdit(t.Col(key), v)
		} else if c := t.Col(key); c != nil {
			out[key] = g.FieldValue(c)
		}
	case k < 7 && len(keys) > 0:
		delete(out, keys[g.R.Intn(len(keys))])
	case k < 9: // one more column
		c := &t.Cols[g.R.Intn(len(t.Cols))]
		out[c.Name] = g.FieldValue(c)
	default:
		out = sqlh.Filter{}
	}
	return out
}

func (g *gen) editRow(t *sqlh.TableDesc, r sqlh.Row, limits []sqlh.Filter) sqlh.Row {
	out := append(sqlh.Row{}, r...)
	if len(out) != len(t.Cols) {
		return g.row(t, sqlh.Handle{}, false)
	}
	i := g.R.Intn(len(t.Cols))
	for _, l := range limits {
		for k := range l {
			for j := range t.Cols {
				if t.Cols[j].Name == k && g.R.Chance(70) {
					i = j
				}
			}
		}
	}
	c := &t.Cols[i]
	switch g.R.Intn(4) {
	case 0:
		out[i] = g.FieldValue(c)
	case 1:
		if strings.HasPrefix(c.Ty, "*") {
			out[i] = sqlh.GV{T: "nilptr", PT: c.Ty[1:]}
		} else if c.Ty == "bytes" {
			out[i] = sqlh.GV{T: "nilbytes"}
		} else {
			out[i] = sqlh.GV{T: c.Ty}
		}
	default:
		if out[i].T == "ptr" {
			e := g.Other(*out[i].Elem)
			out[i] = sqlh.GV{T: "ptr", Addr: g.NewAddr(), Elem: &e}
		} else if out[i].T != "nilptr" && out[i].T != "nilbytes" {
			out[i] = g.Other(out[i])
		} else {
			out[i] = g.FieldValue(c)
		}
	}
	return out
}

func (g *gen) editSub(t *sqlh.TableDesc, s Sub, limits []sqlh.Filter) Sub {
	switch k := g.R.Intn(10); {
	case k < 3: // another method of the same family
		if fam := family(s.Op); fam != nil {
			s.Op = fam[g.R.Intn(len(fam))]
			if s.Op == "count" {
				s.Opts = nil
			}
		}
	case k < 4 && family(s.Op) != nil && s.Op != "count" && family(s.Op)[0] == "query":
		o := *optsCatalogue[g.R.Intn(len(optsCatalogue))]
		s.Opts = &o
		if g.R.Chance(30) {
			s.Opts = nil
		}
	default:
		switch {
		case s.Filter != nil || family(s.Op) != nil && family(s.Op)[0] == "query":
			s.Filter = g.editFilter(t, s.Filter, limits)
		case len(s.Rows) > 0 || s.Op == "insertrows" || s.Op == "upsertrows":
			switch g.R.Intn(4) {
			case 0:
				s.Chunk = g.R.Intn(4)
			case 1:
				s.Rows = append(s.Rows, g.row(t, sqlh.Handle{}, false))
			default:
				if len(s.Rows) > 0 {
					i := g.R.Intn(len(s.Rows))
					s.Rows[i] = g.editRow(t, s.Rows[i], limits)
				}
			}
		default:
			s.Row = g.editRow(t, s.Row, limits)
		}
	}
	return s
}

func (g *gen) editHandle(t *sqlh.TableDesc, h sqlh.Handle) sqlh.Handle {
	switch g.R.Intn(6) {
	case 0: // the limit moved to another column
		l := g.limit(t)
		if h.Shard != nil {
			h.Shard = l
		} else {
			h.HasDyn, h.Dyn = true, l
		}
	case 1: // shard limit <-> rejecting dynamic limit
		if h.Shard != nil {
			h = sqlh.Handle{HasDyn: true, Dyn: h.Shard, DynCb: true}
		} else if h.Dyn != nil {
			h = sqlh.Handle{Shard: h.Dyn}
		}
	case 2:
		h.DynContinue = !h.DynContinue
	case 3:
		h.DynCb = !h.DynCb
	case 4: // one limit value replaced
		l := h.Shard
		if l == nil {
			l = h.Dyn
		}
		if keys := l.Keys(); len(keys) > 0 {
			k := keys[g.R.Intn(len(keys))]
			nl := copyFilter(l)
			nl[k] = g.valueEdit(t.Col(k), l[k])
			if h.Shard != nil {
				h.Shard = nl
			} else {
				h.Dyn = nl
			}
		}
	default: // both limits
		if h.Shard != nil && !h.HasDyn {
			h.HasDyn, h.Dyn, h.DynCb = true, g.limit(t), true
		} else if h.Shard == nil {
			h.Shard = g.limit(t)
		}
	}
	return h
}

func (g *gen) variant(seed Case) Case {
	c := deepCopyCase(seed)
	c.Origin = "search"
	t := sqlh.TableByName(c.Table)
	if t == nil {
		return g.genCase()
	}
	for n := 1 + g.R.Intn(2); n > 0; n-- {
		limits := []sqlh.Filter{}
		for _, l := range []sqlh.Filter{c.Handle.Shard, c.Handle.Dyn} {
			if l != nil {
				limits = append(limits, l)
			}
		}
		switch k := g.R.Intn(20); {
		case k < 2:
			c.InTx = !c.InTx && c.Op != "batch" && c.Op != "mbatch"
		case k < 3:
			c.Batching = !c.Batching || c.Op == "batch" || c.Op == "mbatch"
		case k < 4:
			c.Commit = !c.Commit
		case k < 7:
			c.Handle = g.editHandle(t, c.Handle)
			if c.Op == "mbatch" && len(c.Handles) > 0 {
				c.Handles[0] = c.Handle
			}
		default:
			switch c.Op {
			case "batch", "mbatch":
				switch j := g.R.Intn(10); {
				case j < 3 && len(c.Filters) > 0: // one more caller: a copy of one, edited
					i := g.R.Intn(len(c.Filters))
					c.Filters = append(c.Filters, g.editFilter(t, c.Filters[i], limits))
					if c.Op == "mbatch" {
						c.Owners = append(c.Owners, g.R.Intn(len(c.Handles)))
					}
				case j < 5 && c.Op == "batch": // a second handle sharing the batch function
					c.Op = "mbatch"
					c.Handles = []sqlh.Handle{c.Handle, g.otherHandle(t, c.Handle)}
					c.Owners = make([]int, len(c.Filters))
					for i := range c.Owners {
						c.Owners[i] = g.R.Intn(2)
					}
				case j < 6 && c.Op == "mbatch" && len(c.Owners) > 0: // a caller moved to another handle
					c.Owners[g.R.Intn(len(c.Owners))] = g.R.Intn(len(c.Handles))
				case j < 7 && len(c.Filters) > 1:
					i := g.R.Intn(len(c.Filters))
					c.Filters = append(c.Filters[:i], c.Filters[i+1:]...)
					if c.Op == "mbatch" {
						c.Owners = append(c.Owners[:i], c.Owners[i+1:]...)
					}
				default:
					if len(c.Filters) > 0 {
						i := g.R.Intn(len(c.Filters))
						c.Filters[i] = g.editFilter(t, c.Filters[i], limits)
					}
				}
			case "txseq":
				switch j := g.R.Intn(4); {
				case j == 0 || len(c.Ops) == 0:
					c.Ops = append(c.Ops, g.sub(t, c.Handle, singleOps[g.R.Intn(len(singleOps))]))
				default:
					i := g.R.Intn(len(c.Ops))
					c.Ops[i] = g.editSub(t, c.Ops[i], limits)
				}
			default:
				switch j := g.R.Intn(10); {
				case j < 1 && family(c.Op) != nil && family(c.Op)[0] == "query" && c.Op != "count": // one more caller
					c.Filters = []sqlh.Filter{c.Filter, g.editFilter(t, c.Filter, limits)}
					c.Sub = Sub{Op: "batch"}
					c.Batching, c.InTx = true, false
				case j < 2: // the call inside a sequence
					c.Ops = []Sub{c.Sub, g.editSub(t, c.Sub, limits)}
					c.Sub = Sub{Op: "txseq"}
					c.InTx = true
				default:
					c.Sub = g.editSub(t, c.Sub, limits)
				}
			}
		}
	}
	if len(c.Steps) > 0 { // keep the chain of With* calls in line with the (possibly edited) handle
		_, explain, _ := sqlh.HandleOf(c.Steps)
		c.Steps = sqlh.StepsOf(c.Handle)
		if explain {
			c.Steps = append(c.Steps, sqlh.Step{Kind: "explain"})
		}
	}
	return c
}

func searchCases(o *vh.Opts, r *vh.Rng) []Case {
	var seeds []Case
	if b, err := ioutil.ReadFile(o.Search); err == nil {
		for _, line := range strings.Split(string(b), "\n") {
			var w struct {
				Case Case `json:"case"`
			}
			if strings.TrimSpace(line) != "" && json.Unmarshal([]byte(line), &w) == nil && w.Case.Table != "" {
				seeds = append(seeds, w.Case)
			}
		}
	}
	var cases []Case
	for i := 0; i < o.N; i++ {
		// pointer addresses of the edits must not collide with those of the seed (one pointee per address)
		g := &gen{&sqlh.Gen{R: r.Fork(), Addr: 100000}}
		if len(seeds) == 0 {
			c := g.genCase()
			c.Origin = "search-fresh"
			cases = append(cases, c)
			continue
		}
		cases = append(cases, g.variant(seeds[g.R.Intn(len(seeds))]))
	}
	return cases
}
