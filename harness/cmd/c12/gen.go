package main

import (
	"fmt"
	"strings"

	"verifharness/pkg/sqlh"
)

// ---- generator ----

type gen struct {
	*sqlh.Gen
}

func baseType(ty string) string { return sqlh.BaseType(ty) }

var limitCols = map[string][][]string{
	"users":  {{"shard"}, {"shard"}, {"shard"}, {"shard", "name"}, {"nick"}, {"id"}, {"flag"}},
	"items":  {{"shard"}, {"shard"}, {"shard", "kind"}, {"label"}, {"note"}, {"shard", "id"}, {"data"}, {"score"}},
	"events": {{"org_id"}, {"org_id"}, {"tag"}, {"id"}, {"seq"}},
	"tags":   {{"space"}, {"space"}, {"name", "space"}, {"namespace"}, {"a", "b"}, {"ab"}},
}

// limitValue: mostly the driver-level type (so that writes can comply), sometimes the field's own type,
// another type, a pointer, nil.
func (g *gen) limitValue(c *sqlh.ColDesc) sqlh.GV {
	k := g.R.Intn(100)
	switch {
	case k < 62:
		v := g.Scalar(sqlh.DriverType(c))
		if v.T == "bytes" && g.R.Chance(70) {
			v.T = "string"
		}
		return v
	case k < 74:
		return g.Scalar(baseType(c.Ty))
	case k < 82:
		return g.Retype(g.Scalar(sqlh.DriverType(c)))
	case k < 90:
		e := g.Scalar(baseType(c.Ty))
		return sqlh.GV{T: "ptr", Addr: g.NewAddr(), Elem: &e}
	case k < 96:
		return sqlh.GV{T: "nil"}
	}
	return sqlh.GV{T: "nilptr", PT: baseType(c.Ty)}
}

func (g *gen) limit(t *sqlh.TableDesc) sqlh.Filter {
	sets := limitCols[t.Name]
	f := sqlh.Filter{}
	cols := sets[g.R.Intn(len(sets))]
	for _, c := range cols {
		v := g.limitValue(t.Col(c))
		// Comparing two []byte panics; with several limit columns Go's map order would decide whether the
		// panic or an ordinary mismatch comes first.  []byte limit values are kept to one-column limits.
		if len(cols) > 1 && v.T == "bytes" {
			v.T = "string"
		}
		f[c] = v
	}
	return f
}

// dynamicFor makes a dynamic limit for a handle that already has the shard limit sh: the same limit, a
// limit on other columns, the same columns with other values, or the shard limit plus another column.
func (g *gen) dynamicFor(t *sqlh.TableDesc, sh sqlh.Filter) sqlh.Filter {
	d := sqlh.Filter{}
	switch k := g.R.Intn(100); {
	case k < 35:
		for c, v := range sh {
			d[c] = v
		}
	case k < 60:
		return g.limit(t)
	case k < 80:
		for c, v := range sh {
			d[c] = g.Other(v)
		}
	default:
		for c, v := range sh {
			d[c] = v
		}
		for c, v := range g.limit(t) {
			if _, ok := d[c]; !ok {
				d[c] = v
			}
		}
	}
	return d
}

// setDynMode: strict (the callback rejects), report-only (it answers "continue"), no callback, nil filter.
func (g *gen) setDynMode(h *sqlh.Handle, strict, report, nocb int) {
	h.HasDyn = true
	switch k := g.R.Intn(100); {
	case k < strict:
		h.DynCb = true
	case k < strict+report:
		h.DynCb, h.DynContinue = true, true
	case k < strict+report+nocb:
	default:
		h.Dyn, h.DynCb = nil, true
	}
}

func (g *gen) handle(t *sqlh.TableDesc) sqlh.Handle {
	var h sqlh.Handle
	k := g.R.Intn(100)
	switch {
	case k < 35:
		h.Shard = g.limit(t)
	case k < 59:
		h.Dyn = g.limit(t)
		g.setDynMode(&h, 55, 25, 10)
	case k < 95: // both limits at once
		h.Shard = g.limit(t)
		h.Dyn = g.dynamicFor(t, h.Shard)
		g.setDynMode(&h, 45, 45, 5)
	}
	return h
}

// retypeOrCustom: another Go type for the same underlying value; in a quarter of the cases a named type of
// the same kind whose driver.Valuer serializes to another value (sqlh.Shifted, sqlh.Loud).
func (g *gen) retypeOrCustom(v sqlh.GV) sqlh.GV {
	if g.R.Chance(25) {
		u := v
		if u.T == "ptr" {
			u = *u.Elem
		}
		switch u.T {
		case "int", "int8", "int16", "int32", "int64", "uint", "uint8", "uint16", "uint32", "uint64", "Kind":
			return sqlh.GV{T: "Shifted", Z: u.Z}
		case "string", "Label":
			return sqlh.GV{T: "Loud", S: u.S}
		}
	}
	return g.Retype(v)
}

func copyFilter(f sqlh.Filter) sqlh.Filter {
	o := sqlh.Filter{}
	for k, v := range f {
		o[k] = v
	}
	return o
}

// readFilter derives a filter from the limits: complying, or broken in one of several ways.
func (g *gen) readFilter(t *sqlh.TableDesc, h sqlh.Handle) (sqlh.Filter, string) {
	f := sqlh.Filter{}
	order := []sqlh.Filter{h.Dyn, h.Shard} // the later one wins where both name a column with different values:
	if g.R.Chance(35) {                    // the filter then violates exactly the other limit
		order = []sqlh.Filter{h.Shard, h.Dyn}
	}
	for _, l := range order {
		for k, v := range l {
			f[k] = v
		}
	}
	extra := g.R.Intn(3)
	if g.R.Chance(10) { // wide filters: up to every column of the table
		extra = g.R.Intn(2 * len(t.Cols))
	}
	for n := extra; n > 0; n-- {
		c := &t.Cols[g.R.Intn(len(t.Cols))]
		if _, ok := f[c.Name]; !ok {
			v := g.FieldValue(c)
			if g.R.Chance(20) {
				v = g.Retype(v)
			}
			f[c.Name] = v
		}
	}
	keys := f.Keys()
	lk := append(h.Shard.Keys(), h.Dyn.Keys()...)
	if h.Shard != nil && h.Dyn != nil { // aim the edit at one of the two limits
		switch g.R.Intn(3) {
		case 0:
			lk = h.Shard.Keys()
		case 1:
			lk = h.Dyn.Keys()
		}
	}
	mode := "comply"
	k := g.R.Intn(100)
	switch {
	case k < 50 || len(lk) == 0:
	case k < 62:
		mode = "drop-key"
		delete(f, lk[g.R.Intn(len(lk))])
	case k < 76:
		mode = "other-value"
		c := lk[g.R.Intn(len(lk))]
		f[c] = g.Other(f[c])
	case k < 90:
		mode = "retyped"
		c := lk[g.R.Intn(len(lk))]
		f[c] = g.retypeOrCustom(f[c])
	case k < 94:
		mode = "unknown-column"
		f["nope"] = sqlh.GV{T: "int64", Z: 1}
	default:
		mode = "empty"
		f = sqlh.Filter{}
	}
	_ = keys
	return f, mode
}

// asField converts a limit value to the column's field type when it denotes a value the field can hold.
func asField(c *sqlh.ColDesc, v sqlh.GV, g *gen) (sqlh.GV, bool) {
	if v.T == "ptr" {
		v = *v.Elem
	}
	bt := baseType(c.Ty)
	var out sqlh.GV
	switch bt {
	case "string", "Label", "bytes":
		if v.T != "string" && v.T != "Label" && v.T != "bytes" {
			return out, false
		}
		out = sqlh.GV{T: bt, S: v.S}
	case "bool":
		if v.T != "bool" {
			return out, false
		}
		out = v
	case "float64":
		if v.T != "float64" {
			return out, false
		}
		out = v
	default:
		if _, isInt := map[string]bool{"int": true, "int8": true, "int16": true, "int32": true, "int64": true, "uint": true,
			"uint8": true, "uint16": true, "uint32": true, "uint64": true, "Kind": true}[v.T]; !isInt {
			return out, false
		}
		if strings.HasPrefix(bt, "uint") && v.Z < 0 {
			return out, false
		}
		out = sqlh.GV{T: bt, Z: v.Z}
	}
	if strings.HasPrefix(c.Ty, "*") {
		e := out
		return sqlh.GV{T: "ptr", Addr: g.NewAddr(), Elem: &e}, true
	}
	return out, true
}

var nextID int64 = 1000

func (g *gen) row(t *sqlh.TableDesc, h sqlh.Handle, comply bool) sqlh.Row {
	// with both limits: comply with both, or with one of them only
	if comply && h.Shard != nil && h.Dyn != nil {
		switch g.R.Intn(10) {
		case 0, 1:
			h.Dyn = nil
		case 2, 3:
			h.Shard = nil
		case 4: // where both name a column, the dynamic limit's value wins
			h.Shard, h.Dyn = h.Dyn, h.Shard
		}
	}
	r := make(sqlh.Row, len(t.Cols))
	for i := range t.Cols {
		c := &t.Cols[i]
		r[i] = g.FieldValue(c)
		if c.Primary && c.Name == "id" {
			nextID++
			if c.Ty == "string" {
				r[i] = sqlh.GV{T: "string", S: fmt.Sprintf("e%d", nextID)}
			} else {
				r[i] = sqlh.GV{T: c.Ty, Z: nextID}
			}
		}
		for _, l := range []sqlh.Filter{h.Dyn, h.Shard} {
			if lv, ok := l[c.Name]; ok && comply {
				if lv.T == "nil" || lv.T == "nilptr" {
					if strings.HasPrefix(c.Ty, "*") {
						r[i] = sqlh.GV{T: "nilptr", PT: c.Ty[1:]}
					} else if c.ImplicitNull {
						r[i] = sqlh.GV{T: c.Ty}
					}
				} else if fv, ok := asField(c, lv, g); ok {
					r[i] = fv
				}
			}
		}
	}
	return r
}

var optsCatalogue = []*sqlh.Opts{
	{}, {OrderBy: "id"}, {Limit: 2}, {OrderBy: "id DESC", Limit: 1}, {ForUpdate: true},
	{Where: "id > ?", Values: []int64{1}}, {Where: "id > ? OR id < ?", Values: []int64{100, 0}, OrderBy: "id", Limit: 10},
	{UseIdx: []string{"PRIMARY"}}, {ForceIdx: []string{"PRIMARY", "ix"}, UseIdx: []string{"other"}, OrderBy: "id"},
	{Where: "id IN (?, ?) AND NOT id = ?", Values: []int64{1, 2, 3}, ForUpdate: true},
}

var singleOps = []string{"query", "query", "queryrow", "fullscan", "count", "count", "insert", "insertrows", "upsert", "upsertrows", "update", "delete"}

// callOps: what a single-method case may call -- every exported method of sqlgen.DB.
var callOps = append(append([]string{}, singleOps...), "basequery", "basequery", "withtx", "withexistingtx", "hastx", "queryexecer",
	"withshardlimit", "withdynamiclimit", "withpaniconnoindex")

// chain: a chain of With* calls that yields handle h: its limits in either order, WithPanicOnNoIndex somewhere
// (40%), and now and then a second shard / dynamic limit or a second WithPanicOnNoIndex after the first (which
// must be refused and change nothing).
func (g *gen) chain(t *sqlh.TableDesc, h sqlh.Handle) []sqlh.Step {
	steps := sqlh.StepsOf(h)
	if len(steps) == 2 && g.R.Bool() {
		steps[0], steps[1] = steps[1], steps[0]
	}
	insertAfter := func(kind string, s sqlh.Step) {
		first := -1
		for i, x := range steps {
			if x.Kind == kind {
				first = i
				break
			}
		}
		pos := first + 1 + g.R.Intn(len(steps)-first)
		steps = append(steps[:pos], append([]sqlh.Step{s}, steps[pos:]...)...)
	}
	if g.R.Chance(40) {
		pos := g.R.Intn(len(steps) + 1)
		steps = append(steps[:pos], append([]sqlh.Step{{Kind: "explain"}}, steps[pos:]...)...)
		if g.R.Chance(25) {
			insertAfter("explain", sqlh.Step{Kind: "explain"})
		}
	}
	if h.Shard != nil && g.R.Chance(30) { // a second shard limit: looser, other, or none at all
		l := g.limit(t)
		if g.R.Chance(30) {
			l = sqlh.Filter{}
		}
		insertAfter("shard", sqlh.Step{Kind: "shard", Filter: l})
	}
	if h.HasDyn && g.R.Chance(30) {
		s := sqlh.Step{Kind: "dyn", Filter: g.limit(t), Cb: true, Cont: g.R.Bool()}
		if g.R.Chance(30) {
			s = sqlh.Step{Kind: "dyn"}
		}
		insertAfter("dyn", s)
	}
	return steps
}

// sub makes one DB method call for handle h.
func (g *gen) sub(t *sqlh.TableDesc, h sqlh.Handle, op string) Sub {
	s := Sub{Op: op}
	switch op {
	case "query", "queryrow", "fullscan", "basequery", "count":
		s.Filter, _ = g.readFilter(t, h)
		if op != "count" && g.R.Chance(40) {
			o := *optsCatalogue[g.R.Intn(len(optsCatalogue))]
			o.AllowNoIndex = g.R.Chance(30)
			s.Opts = &o
		}
	case "withshardlimit":
		s.Step = &sqlh.Step{Kind: "shard", Filter: g.limit(t)}
	case "withdynamiclimit":
		s.Step = &sqlh.Step{Kind: "dyn", Filter: g.limit(t), Cb: g.R.Chance(80), Cont: g.R.Chance(30)}
	case "insert", "upsert", "update", "delete":
		s.Row = g.row(t, h, g.R.Chance(60))
		if op != "insert" && g.R.Chance(50) { // aim at a row that exists (ids 1..9 of the fixed contents)
			k := int64(1 + g.R.Intn(9))
			for i := range t.Cols {
				c := &t.Cols[i]
				switch {
				case c.Primary && c.Name == "id" && c.Ty == "string":
					s.Row[i] = sqlh.GV{T: "string", S: fmt.Sprintf("e%d", k)}
				case c.Primary && c.Name == "id":
					s.Row[i] = sqlh.GV{T: c.Ty, Z: k}
				case c.Primary && c.Name == "shard" && g.R.Chance(50):
					s.Row[i] = sqlh.GV{T: c.Ty, Z: k % 4}
				}
			}
		}
	case "insertrows", "upsertrows":
		n := g.R.Intn(6)
		allComply := g.R.Chance(55)
		for i := 0; i < n; i++ {
			s.Rows = append(s.Rows, g.row(t, h, allComply || g.R.Chance(70)))
		}
		s.Chunk = g.R.Intn(4)
		if s.Chunk == 0 && g.R.Chance(70) {
			s.Chunk = 2
		}
	}
	return s
}

// otherHandle: a second handle for a mixed batch: unrestricted, the same limit columns with other values, or
// an unrelated limit.
func (g *gen) otherHandle(t *sqlh.TableDesc, h sqlh.Handle) sqlh.Handle {
	switch k := g.R.Intn(100); {
	case k < 40:
		return sqlh.Handle{}
	case k < 80 && h.Shard != nil:
		o := sqlh.Handle{Shard: sqlh.Filter{}}
		for c, v := range h.Shard {
			o.Shard[c] = g.Other(v)
		}
		return o
	}
	return g.handle(t)
}

func (g *gen) genCase() Case {
	t := sqlh.Tables[g.R.Intn(len(sqlh.Tables))]
	c := Case{Table: t.Name, Handle: g.handle(t), Origin: "generated"}
	c.InTx = g.R.Chance(25)
	c.Batching = g.R.Chance(40)
	c.Commit = g.R.Chance(50)
	ops := append(append([]string{}, callOps...), "batch", "batch", "batch", "mbatch", "mbatch", "mbatch", "txseq", "txseq", "txseq")
	op := ops[g.R.Intn(len(ops))]
	switch op {
	case "batch":
		c.Op = op
		c.Batching, c.InTx = true, false
		n := 2 + g.R.Intn(5)
		for i := 0; i < n; i++ {
			f, _ := g.readFilter(t, c.Handle)
			if len(c.Filters) > 0 && g.R.Chance(20) {
				f = copyFilter(c.Filters[g.R.Intn(len(c.Filters))])
			}
			c.Filters = append(c.Filters, f)
		}
	case "mbatch":
		c.Op = op
		c.Batching, c.InTx = true, false
		c.Handles = []sqlh.Handle{c.Handle, g.otherHandle(t, c.Handle)}
		if g.R.Chance(25) {
			c.Handles = append(c.Handles, g.otherHandle(t, c.Handle))
		}
		n := 2 + g.R.Intn(5)
		for i := 0; i < n; i++ {
			own := g.R.Intn(len(c.Handles))
			src := own
			if g.R.Chance(25) { // a filter made for another handle of the batch
				src = g.R.Intn(len(c.Handles))
			}
			f, _ := g.readFilter(t, c.Handles[src])
			c.Owners = append(c.Owners, own)
			c.Filters = append(c.Filters, f)
		}
	case "txseq":
		c.Op = op
		c.InTx = true
		for n := 2 + g.R.Intn(3); n > 0; n-- {
			c.Ops = append(c.Ops, g.sub(t, c.Handle, singleOps[g.R.Intn(len(singleOps))]))
		}
	default:
		c.Sub = g.sub(t, c.Handle, op)
		if g.R.Chance(45) {
			c.Steps = g.chain(t, c.Handle)
		}
	}
	return c
}
