// C12: a shard-limited sqlgen.DB handle never reads or writes outside its shard.
//
// Every case builds a fresh fake MySQL server (pkg/fakesql) with the catalogue of pkg/sqlh, restricts a
// sqlgen.DB with a shard limit and/or a dynamic limit, runs one DB method (or several concurrent batched
// Query calls) with a filter / row that complies with the limit or not, and looks at what reached the
// server.  Oracle (independent of the Coq model): every recorded statement is confined to the limit, and a
// call that does not comply returned an error and issued no statement of its own.  The observations are
// also written as Coq terms and compared with Sql/Model.v ([run], [run_batched]).
package main

import (
	"context"
	"database/sql/driver"
	"encoding/json"
	"fmt"
	"path/filepath"
	"reflect"
	"sort"
	"strings"

	"github.com/samsarahq/thunder/batch"
	"github.com/samsarahq/thunder/sqlgen"
	"verifharness/pkg/fakesql"
	"verifharness/pkg/sqlh"
	"verifharness/pkg/vh"
)

type Case struct {
	Table    string        `json:"table"`
	Handle   sqlh.Handle   `json:"handle"`
	InTx     bool          `json:"in_tx"`
	Batching bool          `json:"batching"`
	Op       string        `json:"op"` // query queryrow fullscan count insert insertrows upsert upsertrows update delete batch
	Filter   sqlh.Filter   `json:"filter,omitempty"`
	Opts     *sqlh.Opts    `json:"opts,omitempty"`
	Row      sqlh.Row      `json:"row,omitempty"`
	Rows     []sqlh.Row    `json:"rows,omitempty"`
	Chunk    int           `json:"chunk,omitempty"`
	Filters  []sqlh.Filter `json:"filters,omitempty"`
	Origin   string        `json:"origin"`
}

// ---- generator ----

type gen struct {
	*sqlh.Gen
}

func baseType(ty string) string { return sqlh.BaseType(ty) }

var limitCols = map[string][][]string{
	"users":  {{"shard"}, {"shard"}, {"shard"}, {"shard", "name"}, {"nick"}, {"id"}, {"flag"}},
	"items":  {{"shard"}, {"shard"}, {"shard", "kind"}, {"label"}, {"note"}, {"shard", "id"}, {"data"}, {"score"}},
	"events": {{"org_id"}, {"org_id"}, {"tag"}, {"id"}, {"seq"}},
}

// limitValue: mostly the driver-level type (so that writes can comply), sometimes the field's own type,
// another type, a pointer, nil.
func (g *gen) limitValue(c *sqlh.ColDesc) sqlh.GV {
	k := g.R.Intn(100)
	switch {
	case k < 62:
		v := g.Scalar(sqlh.DriverType(c))
		if v.T == "bytes" && g.R.Chance(70) {
			v.T = "string"
		}
		return v
	case k < 74:
		return g.Scalar(baseType(c.Ty))
	case k < 82:
		return g.Retype(g.Scalar(sqlh.DriverType(c)))
	case k < 90:
		e := g.Scalar(baseType(c.Ty))
		return sqlh.GV{T: "ptr", Addr: g.NewAddr(), Elem: &e}
	case k < 96:
		return sqlh.GV{T: "nil"}
	}
	return sqlh.GV{T: "nilptr", PT: baseType(c.Ty)}
}

func (g *gen) limit(t *sqlh.TableDesc) sqlh.Filter {
	sets := limitCols[t.Name]
	f := sqlh.Filter{}
	cols := sets[g.R.Intn(len(sets))]
	for _, c := range cols {
		v := g.limitValue(t.Col(c))
		// Comparing two []byte panics; with several limit columns Go's map order would decide whether the
		// panic or an ordinary mismatch comes first.  []byte limit values are kept to one-column limits.
		if len(cols) > 1 && v.T == "bytes" {
			v.T = "string"
		}
		f[c] = v
	}
	return f
}

func (g *gen) handle(t *sqlh.TableDesc) sqlh.Handle {
	var h sqlh.Handle
	k := g.R.Intn(100)
	switch {
	case k < 50:
		h.Shard = g.limit(t)
	case k < 65:
		h.HasDyn, h.Dyn, h.DynCb = true, g.limit(t), true
	case k < 73:
		h.HasDyn, h.Dyn, h.DynCb, h.DynContinue = true, g.limit(t), true, true
	case k < 77:
		h.HasDyn, h.Dyn = true, g.limit(t)
	case k < 81:
		h.HasDyn, h.DynCb = true, true
	case k < 95:
		h.Shard = g.limit(t)
		h.HasDyn, h.Dyn, h.DynCb = true, g.limit(t), true
		if g.R.Chance(50) { // same dynamic limit as the shard limit, so that a call can comply with both
			h.Dyn = sqlh.Filter{}
			for k, v := range h.Shard {
				h.Dyn[k] = v
			}
		}
	}
	return h
}

func copyFilter(f sqlh.Filter) sqlh.Filter {
	o := sqlh.Filter{}
	for k, v := range f {
		o[k] = v
	}
	return o
}

// readFilter derives a filter from the limits: complying, or broken in one of several ways.
func (g *gen) readFilter(t *sqlh.TableDesc, h sqlh.Handle) (sqlh.Filter, string) {
	f := sqlh.Filter{}
	for _, l := range []sqlh.Filter{h.Dyn, h.Shard} {
		for k, v := range l {
			f[k] = v
		}
	}
	for n := g.R.Intn(3); n > 0; n-- {
		c := &t.Cols[g.R.Intn(len(t.Cols))]
		if _, ok := f[c.Name]; !ok {
			v := g.FieldValue(c)
			if g.R.Chance(20) {
				v = g.Retype(v)
			}
			f[c.Name] = v
		}
	}
	keys := f.Keys()
	lk := append(h.Shard.Keys(), h.Dyn.Keys()...)
	mode := "comply"
	k := g.R.Intn(100)
	switch {
	case k < 50 || len(lk) == 0:
	case k < 62:
		mode = "drop-key"
		delete(f, lk[g.R.Intn(len(lk))])
	case k < 76:
		mode = "other-value"
		c := lk[g.R.Intn(len(lk))]
		f[c] = g.Other(f[c])
	case k < 90:
		mode = "retyped"
		c := lk[g.R.Intn(len(lk))]
		f[c] = g.Retype(f[c])
	case k < 94:
		mode = "unknown-column"
		f["nope"] = sqlh.GV{T: "int64", Z: 1}
	default:
		mode = "empty"
		f = sqlh.Filter{}
	}
	_ = keys
	return f, mode
}

// asField converts a limit value to the column's field type when it denotes a value the field can hold.
func asField(c *sqlh.ColDesc, v sqlh.GV, g *gen) (sqlh.GV, bool) {
	if v.T == "ptr" {
		v = *v.Elem
	}
	bt := baseType(c.Ty)
	var out sqlh.GV
	switch bt {
	case "string", "Label", "bytes":
		if v.T != "string" && v.T != "Label" && v.T != "bytes" {
			return out, false
		}
		out = sqlh.GV{T: bt, S: v.S}
	case "bool":
		if v.T != "bool" {
			return out, false
		}
		out = v
	case "float64":
		if v.T != "float64" {
			return out, false
		}
		out = v
	default:
		if _, isInt := map[string]bool{"int": true, "int8": true, "int16": true, "int32": true, "int64": true, "uint": true,
			"uint8": true, "uint16": true, "uint32": true, "uint64": true, "Kind": true}[v.T]; !isInt {
			return out, false
		}
		if strings.HasPrefix(bt, "uint") && v.Z < 0 {
			return out, false
		}
		out = sqlh.GV{T: bt, Z: v.Z}
	}
	if strings.HasPrefix(c.Ty, "*") {
		e := out
		return sqlh.GV{T: "ptr", Addr: g.NewAddr(), Elem: &e}, true
	}
	return out, true
}

var nextID int64 = 1000

func (g *gen) row(t *sqlh.TableDesc, h sqlh.Handle, comply bool) sqlh.Row {
	r := make(sqlh.Row, len(t.Cols))
	for i := range t.Cols {
		c := &t.Cols[i]
		r[i] = g.FieldValue(c)
		if c.Primary && c.Name == "id" {
			nextID++
			if c.Ty == "string" {
				r[i] = sqlh.GV{T: "string", S: fmt.Sprintf("e%d", nextID)}
			} else {
				r[i] = sqlh.GV{T: c.Ty, Z: nextID}
			}
		}
		for _, l := range []sqlh.Filter{h.Dyn, h.Shard} {
			if lv, ok := l[c.Name]; ok && comply {
				if lv.T == "nil" || lv.T == "nilptr" {
					if strings.HasPrefix(c.Ty, "*") {
						r[i] = sqlh.GV{T: "nilptr", PT: c.Ty[1:]}
					} else if c.ImplicitNull {
						r[i] = sqlh.GV{T: c.Ty}
					}
				} else if fv, ok := asField(c, lv, g); ok {
					r[i] = fv
				}
			}
		}
	}
	return r
}

var optsCatalogue = []*sqlh.Opts{
	{}, {OrderBy: "id"}, {Limit: 2}, {OrderBy: "id DESC", Limit: 1}, {ForUpdate: true},
	{Where: "id > ?", Values: []int64{1}}, {Where: "id > ? OR id < ?", Values: []int64{100, 0}, OrderBy: "id", Limit: 10},
}

func (g *gen) genCase() Case {
	t := sqlh.Tables[g.R.Intn(len(sqlh.Tables))]
	c := Case{Table: t.Name, Handle: g.handle(t), Origin: "generated"}
	c.InTx = g.R.Chance(25)
	c.Batching = g.R.Chance(40)
	ops := []string{"query", "query", "queryrow", "fullscan", "count", "insert", "insertrows", "upsert", "upsertrows", "update", "delete", "batch", "batch"}
	c.Op = ops[g.R.Intn(len(ops))]
	switch c.Op {
	case "query", "queryrow", "fullscan", "count":
		c.Filter, _ = g.readFilter(t, c.Handle)
		if c.Op != "count" && g.R.Chance(35) {
			o := *optsCatalogue[g.R.Intn(len(optsCatalogue))]
			c.Opts = &o
		}
	case "insert", "upsert", "update", "delete":
		c.Row = g.row(t, c.Handle, g.R.Chance(60))
	case "insertrows", "upsertrows":
		n := g.R.Intn(6)
		allComply := g.R.Chance(55)
		for i := 0; i < n; i++ {
			c.Rows = append(c.Rows, g.row(t, c.Handle, allComply || g.R.Chance(70)))
		}
		c.Chunk = g.R.Intn(4)
		if c.Chunk == 0 && g.R.Chance(70) {
			c.Chunk = 2
		}
	case "batch":
		c.Batching, c.InTx = true, false
		n := 2 + g.R.Intn(5)
		for i := 0; i < n; i++ {
			f, _ := g.readFilter(t, c.Handle)
			if len(c.Filters) > 0 && g.R.Chance(20) {
				f = copyFilter(c.Filters[g.R.Intn(len(c.Filters))])
			}
			c.Filters = append(c.Filters, f)
		}
	}
	return c
}

// ---- fixed contents ----

func contents() map[string][][]driver.Value {
	m := map[string][][]driver.Value{}
	for i := int64(1); i <= 9; i++ {
		var nick driver.Value
		if i%3 != 0 {
			nick = sqlh.SmallStrings[i%4]
		}
		m["users"] = append(m["users"], []driver.Value{i, i % 4, sqlh.SmallStrings[i%5], nick, i % 5, i%2 == 0})
		var note driver.Value
		if i%2 == 0 {
			note = "n"
		}
		m["items"] = append(m["items"], []driver.Value{i % 4, i, i % 3, sqlh.SmallStrings[i%3], note, []byte(sqlh.SmallStrings[i%4]), float64(i%5) / 4})
		var org driver.Value
		if i%3 != 1 {
			org = i % 4
		}
		m["events"] = append(m["events"], []driver.Value{fmt.Sprintf("e%d", i), org, sqlh.SmallStrings[i%3], i % 4})
	}
	return m
}

// ---- oracle ----

// pins says whether a conjunction of atoms constrains column col to the SQL value want (nil = NULL): it has
// an un-negated atom  col = want,  col IS NULL (want NULL),  or  col IN (want, ..., want).  A comparison
// with NULL (never true) also confines the disjunct: it selects nothing.
func pins(conj []fakesql.Atom, args []interface{}, col string, want interface{}) bool {
	for _, a := range conj {
		if !strings.EqualFold(a.Col, col) || a.Neg {
			continue
		}
		switch a.Op {
		case "=", "in":
			all := len(a.Vals) > 0
			for _, o := range a.Vals {
				v := o.Resolve(args)
				if v == nil {
					continue // never true
				}
				if want == nil || !sqlh.SQLEqual(v, want) {
					all = false
				}
			}
			if all {
				return true
			}
		case "is":
			if v := a.Vals[0].Resolve(args); v == nil && want == nil {
				return true
			}
		}
	}
	return false
}

// confined checks one recorded statement against one limit; "" = confined.
func confined(t *sqlh.TableDesc, e fakesql.Entry, limit sqlh.Filter, pool sqlh.Pool) string {
	st, err := fakesql.Parse(e.SQL)
	if err != nil {
		return "unparsable statement: " + err.Error()
	}
	if !strings.EqualFold(st.Table, t.Name) {
		return "statement on another table " + st.Table
	}
	for _, k := range limit.Keys() {
		want := sqlh.DriverOf(t.Col(k), limit[k].Go(pool))
		wherePins := func() bool {
			for _, conj := range fakesql.Disjuncts(st.Where) {
				if !pins(conj, e.Args, k, want) {
					return false
				}
			}
			return true
		}
		switch st.Kind {
		case fakesql.Select, fakesql.Count, fakesql.Delete:
			if !wherePins() {
				return fmt.Sprintf("%s: a disjunct of WHERE does not constrain %s to %v", st.Kind, k, want)
			}
		case fakesql.InsertStmt, fakesql.Upsert:
			ci := -1
			for i, c := range st.Cols {
				if strings.EqualFold(c, k) {
					ci = i
				}
			}
			if ci < 0 {
				return fmt.Sprintf("%s does not carry column %s", st.Kind, k)
			}
			for _, row := range st.Rows {
				if v := row[ci].Resolve(e.Args); !sqlh.SQLEqual(v, want) {
					return fmt.Sprintf("%s carries %s = %v, limit is %v", st.Kind, k, v, want)
				}
			}
		case fakesql.Update:
			ok := wherePins()
			for i, c := range st.Set {
				if strings.EqualFold(c, k) && sqlh.SQLEqual(st.SetVals[i].Resolve(e.Args), want) {
					ok = true
				}
			}
			if !ok {
				return fmt.Sprintf("UPDATE neither sets nor filters %s = %v", k, want)
			}
		default:
			return "unexpected statement kind " + string(st.Kind)
		}
	}
	return ""
}

// filterComplies: property-level compliance of a read filter: it filters on each limit column with the
// value the limit denotes.
func filterComplies(t *sqlh.TableDesc, f, limit sqlh.Filter, pool sqlh.Pool) bool {
	for k, lv := range limit {
		fv, ok := f[k]
		if !ok {
			return false
		}
		c := t.Col(k)
		if !sqlh.SQLEqual(sqlh.DriverOf(c, fv.Go(pool)), sqlh.DriverOf(c, lv.Go(pool))) {
			return false
		}
	}
	return true
}

// rowComplies: the row's column values are those of the limit.  cols = the columns the statement carries.
func rowComplies(t *sqlh.TableDesc, r sqlh.Row, cols map[string]bool, limit sqlh.Filter, pool sqlh.Pool) bool {
	for k, lv := range limit {
		if !cols[k] {
			return false
		}
		for i := range t.Cols {
			if t.Cols[i].Name == k {
				if !sqlh.SQLEqual(sqlh.DriverOf(&t.Cols[i], r[i].Go(pool)), sqlh.DriverOf(&t.Cols[i], lv.Go(pool))) {
					return false
				}
			}
		}
	}
	return true
}

func carried(t *sqlh.TableDesc, op string) map[string]bool {
	m := map[string]bool{}
	for _, c := range t.Cols {
		switch op {
		case "insert", "insertrows":
			if !(c.Primary && t.Auto) {
				m[c.Name] = true
			}
		case "delete":
			if c.Primary {
				m[c.Name] = true
			}
		default:
			m[c.Name] = true
		}
	}
	return m
}

// ---- running one case ----

type result struct {
	log      []fakesql.Entry
	outcomes []int
	dbErr    bool
	arrival  [][]int
	detail   string
	panics   []string
	errored  []bool // the call returned an error or panicked
}

func runCase(c Case, run *vh.Run, idx int) (res result, fatal string) {
	t := sqlh.TableByName(c.Table)
	if t == nil {
		return res, "unknown table"
	}
	env, err := sqlh.NewEnv(c.Handle, contents())
	if err != nil {
		return res, "environment: " + err.Error()
	}
	defer env.Close()
	ctx := context.Background()
	if c.Batching && c.Op != "batch" {
		ctx = batch.WithBatching(ctx)
	}
	db := env.DB
	if c.InTx {
		var e2 error
		ctx, _, e2 = db.WithTx(ctx)
		if e2 != nil {
			return res, "WithTx: " + e2.Error()
		}
	}
	env.Srv.ResetLog()
	if bf := sqlh.BatchFunc(db); bf == nil {
		return res, "sqlgen.DB has no batchFetch field any more: the batch function cannot be observed"
	}

	if c.Op == "batch" {
		filters := make([]sqlgen.Filter, len(c.Filters))
		for i, f := range c.Filters {
			filters[i] = f.Go(env.Pool)
		}
		br := sqlh.RunBatched(db, t, filters)
		res.log = env.Srv.Log()
		res.arrival = br.Arrival
		for i := range filters {
			cl, dbe := sqlh.Classify(br.Errs[i], br.Panics[i], sqlh.AnyFailed(res.log))
			res.outcomes = append(res.outcomes, cl)
			res.dbErr = res.dbErr || dbe
			res.panics = append(res.panics, br.Panics[i])
			res.errored = append(res.errored, br.Errs[i] != nil || br.Panics[i] != "")
			if br.Errs[i] != nil {
				res.detail += fmt.Sprintf("caller %d: %v; ", i, br.Errs[i])
			}
			// rows handed to a caller of a limited handle lie in the shard
			for _, l := range c.Handle.Enforced() {
				for _, row := range br.Rows[i] {
					for k, lv := range l {
						col := t.Col(k)
						fv := reflect.ValueOf(row).Elem().FieldByName(col.Field).Interface()
						if !sqlh.SQLEqual(sqlh.DriverOf(col, fv), sqlh.DriverOf(col, lv.Go(env.Pool))) {
							run.Fail(idx, "c12-batched-row-outside-shard", fmt.Sprintf("caller %d received a row with %s = %v", i, k, fv), c)
						}
					}
				}
			}
		}
		for _, b := range br.Arrival {
			for _, k := range b {
				if k < 0 {
					return res, "an item of the batch function could not be attributed to a caller"
				}
			}
		}
		return res, ""
	}

	var opErr error
	var pt string
	switch c.Op {
	case "query":
		opErr, pt = sqlh.Safely(func() error { return db.Query(ctx, t.NewResultSlice(), c.Filter.Go(env.Pool), c.Opts.Go()) })
	case "queryrow":
		opErr, pt = sqlh.Safely(func() error { return db.QueryRow(ctx, t.NewResultRow(), c.Filter.Go(env.Pool), c.Opts.Go()) })
	case "fullscan":
		opErr, pt = sqlh.Safely(func() error {
			return db.FullScanQuery(ctx, t.NewResultSlice(), c.Filter.Go(env.Pool), c.Opts.Go())
		})
	case "count":
		opErr, pt = sqlh.Safely(func() error {
			_, err := db.Count(ctx, reflect.New(reflect.TypeOf(t.Proto)).Interface(), c.Filter.Go(env.Pool))
			return err
		})
	case "insert":
		opErr, pt = sqlh.Safely(func() error { _, err := db.InsertRow(ctx, t.Struct(c.Row, env.Pool)); return err })
	case "upsert":
		opErr, pt = sqlh.Safely(func() error { _, err := db.UpsertRow(ctx, t.Struct(c.Row, env.Pool)); return err })
	case "update":
		opErr, pt = sqlh.Safely(func() error { return db.UpdateRow(ctx, t.Struct(c.Row, env.Pool)) })
	case "delete":
		opErr, pt = sqlh.Safely(func() error { return db.DeleteRow(ctx, t.Struct(c.Row, env.Pool)) })
	case "insertrows":
		opErr, pt = sqlh.Safely(func() error { return db.InsertRows(ctx, t.SliceOf(c.Rows, env.Pool), c.Chunk) })
	case "upsertrows":
		opErr, pt = sqlh.Safely(func() error { return db.UpsertRows(ctx, t.SliceOf(c.Rows, env.Pool), c.Chunk) })
	default:
		return res, "unknown op " + c.Op
	}
	res.log = env.Srv.Log()
	cl, dbe := sqlh.Classify(opErr, pt, sqlh.AnyFailed(res.log))
	res.outcomes = []int{cl}
	res.dbErr = dbe
	res.panics = []string{pt}
	res.errored = []bool{opErr != nil || pt != ""}
	if opErr != nil {
		res.detail = opErr.Error()
	}
	if pt != "" {
		res.detail = "panic: " + pt
	}
	return res, ""
}

func statements(log []fakesql.Entry) []fakesql.Entry {
	var out []fakesql.Entry
	for _, e := range log {
		if e.Kind == "query" || e.Kind == "exec" {
			out = append(out, e)
		}
	}
	return out
}

func oracle(c Case, res result, run *vh.Run, idx int) {
	t := sqlh.TableByName(c.Table)
	pool := sqlh.Pool{}
	limits := c.Handle.Enforced()
	stmts := statements(res.log)
	for _, cl := range res.outcomes {
		if cl == sqlh.Panicked {
			run.Fail(idx, "c12-panic", res.detail+strings.Join(res.panics, " | "), c)
			return
		}
	}
	// 1. every statement that reached the server is confined to every enforced limit
	for _, e := range stmts {
		for _, l := range limits {
			if why := confined(t, e, l, pool); why != "" {
				run.Fail(idx, "c12-unconfined-statement", why+" :: "+e.SQL+" "+fmt.Sprint(e.Args), c)
				return
			}
		}
	}
	// 2. a call that does not comply returns an error and issues nothing
	switch c.Op {
	case "query", "queryrow", "fullscan", "count":
		for _, l := range limits {
			if !filterComplies(t, c.Filter, l, pool) {
				if !res.errored[0] {
					run.Fail(idx, "c12-noncomplying-read-not-rejected", res.detail, c)
				}
				if len(stmts) > 0 {
					run.Fail(idx, "c12-noncomplying-read-issued-statement", stmts[0].SQL, c)
				}
			}
		}
	case "insert", "upsert", "update", "delete":
		for _, l := range limits {
			if !rowComplies(t, c.Row, carried(t, c.Op), l, pool) {
				if !res.errored[0] {
					run.Fail(idx, "c12-noncomplying-write-not-rejected", res.detail, c)
				}
				if len(stmts) > 0 {
					run.Fail(idx, "c12-noncomplying-write-issued-statement", stmts[0].SQL, c)
				}
			}
		}
	case "insertrows", "upsertrows":
		bad := false
		for _, l := range limits {
			for _, r := range c.Rows {
				if !rowComplies(t, r, carried(t, c.Op), l, pool) {
					bad = true
				}
			}
		}
		if bad && c.Chunk > 0 {
			if !res.errored[0] { // an error of the database on an earlier (confined) chunk also ends the call
				run.Fail(idx, "c12-noncomplying-bulk-write-not-rejected", res.detail, c)
			}
			for _, e := range res.log {
				if e.Kind == "commit" {
					run.Fail(idx, "c12-noncomplying-bulk-write-committed", "", c)
				}
			}
		}
	case "batch":
		for i, f := range c.Filters {
			for _, l := range limits {
				if !filterComplies(t, f, l, pool) {
					if !res.errored[i] {
						run.Fail(idx, "c12-noncomplying-batched-read-not-rejected", fmt.Sprintf("caller %d", i), c)
					}
					for _, b := range res.arrival {
						for _, k := range b {
							if k == i {
								run.Fail(idx, "c12-noncomplying-batched-read-reached-batch", fmt.Sprintf("caller %d", i), c)
							}
						}
					}
				}
			}
		}
		if len(stmts) != len(res.arrival) {
			run.Fail(idx, "c12-batch-statement-count", fmt.Sprintf("%d invocations of the batch function, %d statements", len(res.arrival), len(stmts)), c)
		}
	}
	// 3. an error from a limit check means nothing was issued by that call (single-statement operations)
	if c.Op != "batch" && c.Op != "insertrows" && c.Op != "upsertrows" && res.outcomes[0] != sqlh.Proceeds && len(stmts) > 0 {
		run.Fail(idx, "c12-rejected-call-issued-statement", stmts[0].SQL, c)
	}
}

func coqOp(c Case) string {
	f := c.Filter
	if f == nil {
		f = sqlh.Filter{}
	}
	rows := func() string {
		xs := make([]string, len(c.Rows))
		for i, r := range c.Rows {
			xs[i] = r.Coq()
		}
		return vh.CoqList(xs)
	}
	switch c.Op {
	case "query", "queryrow":
		return fmt.Sprintf("(Single (OQuery %s %s))", f.Coq(), c.Opts.Coq())
	case "fullscan":
		o := c.Opts
		if o == nil {
			o = &sqlh.Opts{}
		}
		return fmt.Sprintf("(Single (OQuery %s %s))", f.Coq(), o.Coq())
	case "count":
		return fmt.Sprintf("(Single (OCount %s))", f.Coq())
	case "insert":
		return fmt.Sprintf("(Single (OInsertRow %s))", c.Row.Coq())
	case "upsert":
		return fmt.Sprintf("(Single (OUpsertRow %s))", c.Row.Coq())
	case "update":
		return fmt.Sprintf("(Single (OUpdateRow %s))", c.Row.Coq())
	case "delete":
		return fmt.Sprintf("(Single (ODeleteRow %s))", c.Row.Coq())
	case "insertrows":
		return fmt.Sprintf("(Single (OInsertRows %s %d))", rows(), c.Chunk)
	case "upsertrows":
		return fmt.Sprintf("(Single (OUpsertRows %s %d))", rows(), c.Chunk)
	}
	panic("coqOp " + c.Op)
}

func main() {
	o := vh.ParseFlags()
	run := vh.NewRun("C12", o)
	run.Rule = "one case = (table of a 3-table catalogue, shard and/or dynamic limit, in/out of a transaction, with/without batch.WithBatching, one DB method or 2-6 concurrent batched Query calls, filter/rows derived from the limit: 50-60% complying, else key dropped / other value / same value with another Go type or pointer / unknown column / empty); non-trivial = the handle enforces a limit and the call reached a limit check (not rejected for bad input); distinct by JSON of the case"
	r := vh.NewRng(o.Seed)
	g := &gen{&sqlh.Gen{R: r}}

	var cases []Case
	if o.Replay != "" {
		var c Case
		if vh.ReadReplayCase(o.Replay, &c) {
			c.Origin = "replay"
			cases = append(cases, c)
		}
	} else {
		for _, f := range vh.CorpusFiles(o.Corpus) {
			var c Case
			if vh.ReadReplayCase(f, &c) {
				c.Origin = "corpus:" + filepath.Base(f)
				cases = append(cases, c)
			}
		}
		for i := 0; i < o.N; i++ {
			g.R = r.Fork()
			g.Addr = 0
			cases = append(cases, g.genCase())
		}
	}

	const shard = 250
	var terms []string
	start := 0
	flush := func() {
		if len(terms) == 0 {
			return
		}
		run.WriteCasesV(fmt.Sprintf("cases_%d.v", start), []string{"Sql.Model", "Sql.ModelCheck"}, "", "mismatches_c12", 0, terms)
		start += len(terms)
		terms = nil
	}

	for idx, c := range cases {
		run.LogCase(idx, c)
		res, fatal := runCase(c, run, idx)
		if fatal != "" {
			run.Fail(idx, "c12-harness-cannot-run", fatal, c)
			continue
		}
		oracle(c, res, run, idx)

		run.Hist("op:" + c.Op)
		run.Hist("table:" + c.Table)
		enforced := len(c.Handle.Enforced()) > 0
		for i, cl := range res.outcomes {
			run.Hist([]string{"outcome:proceeds", "outcome:rejected", "outcome:bad-input", "outcome:panic"}[cl])
			if res.panics[i] != "" {
				run.Hist("panic:comparing-uncomparable")
			}
		}
		if c.InTx {
			run.Hist("ctx:in-tx")
		}
		if c.Batching {
			run.Hist("ctx:batching")
		}
		switch {
		case c.Handle.Shard != nil && c.Handle.HasDyn:
			run.Hist("handle:shard+dynamic")
		case c.Handle.Shard != nil:
			run.Hist("handle:shard")
		case c.Handle.HasDyn:
			run.Hist("handle:dynamic")
		default:
			run.Hist("handle:unrestricted")
		}
		if c.Op == "batch" {
			run.Hist(fmt.Sprintf("batch:invocations=%d", len(res.arrival)))
		}
		nontrivial := enforced
		all2 := true
		for _, cl := range res.outcomes {
			if cl != sqlh.BadInput {
				all2 = false
			}
		}
		if all2 {
			nontrivial = false
		}
		kc := c
		kc.Origin = ""
		kb, _ := json.Marshal(kc)
		run.Count(string(kb), nontrivial)
		if nontrivial {
			var st []string
			for _, e := range statements(res.log) {
				st = append(st, e.SQL+" "+fmt.Sprint(e.Args))
			}
			run.Sample(map[string]interface{}{"case": c, "outcomes": res.outcomes, "statements": st})
		}

		if res.dbErr {
			run.Hist("skipped-model:database-error")
			continue
		}
		ev, ok := sqlh.CoqEvents(res.log)
		if !ok {
			run.Hist("skipped-model:value-outside-model")
			continue
		}
		outs := make([]string, len(res.outcomes))
		for i, cl := range res.outcomes {
			outs[i] = fmt.Sprint(cl)
		}
		t := sqlh.TableByName(c.Table)
		var op string
		if c.Op == "batch" {
			fs := make([]string, len(c.Filters))
			for i, f := range c.Filters {
				fs[i] = f.Coq()
			}
			arr := res.arrival
			sort.SliceStable(arr, func(a, b int) bool { return false })
			op = fmt.Sprintf("(Batched %s %s)", vh.CoqList(fs), sqlh.CoqArrival(arr))
		} else {
			op = coqOp(c)
		}
		terms = append(terms, fmt.Sprintf("(%d, mk_c12 %s %s (mk_ctx %s %s) %s %s %s)", idx, t.Coq(), c.Handle.Coq(),
			vh.CoqBool(c.InTx), vh.CoqBool(c.Batching), op, ev, vh.CoqList(outs)))
		if len(terms) >= shard {
			flush()
		}
	}
	flush()
	run.Finish()
}
