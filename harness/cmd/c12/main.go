// C12: a shard-limited sqlgen.DB handle never reads or writes outside its shard.
//
// Every case builds a fresh fake MySQL server (pkg/fakesql) with the catalogue of pkg/sqlh, restricts a
// sqlgen.DB with a shard limit and/or a dynamic limit, and runs one of
//   - one DB method (Query, QueryRow, FullScanQuery with SelectOptions, Count, InsertRow(s), UpsertRow(s),
//     UpdateRow, DeleteRow), in or out of a transaction, with or without batch.WithBatching;
//   - several concurrent batched Query calls on one handle ("batch") or on several handles derived from the
//     same DB, which share its batch function ("mbatch": restricted + unrestricted, two shard limits);
//   - a sequence of methods inside one transaction of the caller ("txseq"), committed or rolled back;
//
// with filters / rows that comply with the limit or not, and looks at what reached the server.  Oracle
// (independent of the Coq model): every recorded statement is confined to the limit; every disjunct of a
// combined statement is the filter of a caller of that invocation; a call that does not comply returned an
// error (not a panic) and issued no statement of its own; Count answers the number of matching rows.  The
// observations are also written as Coq terms and compared with Sql/Model.v ([run], [run_batched],
// [run_batched_multi], [run_seq]).  With -search the cases are variants of given cases, oracle only.
package main

import (
	"context"
	"database/sql"
	"database/sql/driver"
	"encoding/json"
	"fmt"
	"io/ioutil"
	"path/filepath"
	"reflect"
	"strings"
	"sync"

	"github.com/samsarahq/thunder/batch"
	"github.com/samsarahq/thunder/sqlgen"
	"verifharness/pkg/fakesql"
	"verifharness/pkg/sqlh"
	"verifharness/pkg/vh"
)

// Sub is one DB method call.
type Sub struct {
	Op     string      `json:"op"` // query queryrow fullscan basequery count insert insertrows upsert upsertrows update delete
	//                              withtx withexistingtx hastx queryexecer withshardlimit withdynamiclimit withpaniconnoindex
	Step   *sqlh.Step  `json:"step,omitempty"` // withshardlimit / withdynamiclimit: the limit asked for
	Filter sqlh.Filter `json:"filter,omitempty"`
	Opts   *sqlh.Opts  `json:"opts,omitempty"`
	Row    sqlh.Row    `json:"row,omitempty"`
	Rows   []sqlh.Row  `json:"rows,omitempty"`
	Chunk  int         `json:"chunk,omitempty"`
}

type Case struct {
	Table    string        `json:"table"`
	Handle   sqlh.Handle   `json:"handle"`
	InTx     bool          `json:"in_tx"`
	Batching bool          `json:"batching"`
	Commit   bool          `json:"commit,omitempty"` // how the harness ends the transaction of an in_tx / txseq case
	Sub                    // a single method; Op may also be "batch", "mbatch", "txseq"
	Filters  []sqlh.Filter `json:"filters,omitempty"` // batch, mbatch: one per caller
	Handles  []sqlh.Handle `json:"handles,omitempty"` // mbatch
	Owners   []int         `json:"owners,omitempty"`  // mbatch: index into Handles per caller
	Steps    []sqlh.Step   `json:"steps,omitempty"`   // single method: the With* calls that derive the handle from a fresh DB (Handle is what they yield); empty = shard limit, then dynamic limit, as Handle says
	Ops      []Sub         `json:"ops,omitempty"`     // txseq
	Origin   string        `json:"origin"`
}

// ---- running ----

// obs is what one method call (or one batched caller) showed.
type obs struct {
	log     []fakesql.Entry // the server log entries of this call
	outcome int
	dbErr   bool
	errored bool
	panicTx string
	detail  string
	count   int64 // Count's answer, -1 otherwise
}

type result struct {
	subs    []obs           // single: 1, txseq: one per op, batch/mbatch: one per caller (log empty)
	log     []fakesql.Entry // everything between the harness's own Begin and Commit/Rollback
	arrival [][]int
	refused []bool // per step of Case.Steps: the With* call answered an error
	foreign int    // committed changes to rows whose before-image lies outside an enforced limit
}

func execSub(db *sqlgen.DB, ctx context.Context, t *sqlh.TableDesc, pool sqlh.Pool, s Sub, extTx *sql.Tx) (err error, pt string, count int64) {
	count = -1
	switch s.Op {
	case "query":
		err, pt = sqlh.Safely(func() error { return db.Query(ctx, t.NewResultSlice(), s.Filter.Go(pool), s.Opts.Go()) })
	case "queryrow":
		err, pt = sqlh.Safely(func() error { return db.QueryRow(ctx, t.NewResultRow(), s.Filter.Go(pool), s.Opts.Go()) })
	case "fullscan":
		err, pt = sqlh.Safely(func() error { return db.FullScanQuery(ctx, t.NewResultSlice(), s.Filter.Go(pool), s.Opts.Go()) })
	case "count":
		err, pt = sqlh.Safely(func() error {
			n, err := db.Count(ctx, reflect.New(reflect.TypeOf(t.Proto)).Interface(), s.Filter.Go(pool))
			if err == nil {
				count = n
			}
			return err
		})
	case "insert":
		err, pt = sqlh.Safely(func() error { _, err := db.InsertRow(ctx, t.Struct(s.Row, pool)); return err })
	case "upsert":
		err, pt = sqlh.Safely(func() error { _, err := db.UpsertRow(ctx, t.Struct(s.Row, pool)); return err })
	case "update":
		err, pt = sqlh.Safely(func() error { return db.UpdateRow(ctx, t.Struct(s.Row, pool)) })
	case "delete":
		err, pt = sqlh.Safely(func() error { return db.DeleteRow(ctx, t.Struct(s.Row, pool)) })
	case "insertrows":
		err, pt = sqlh.Safely(func() error { return db.InsertRows(ctx, t.SliceOf(s.Rows, pool), s.Chunk) })
	case "upsertrows":
		err, pt = sqlh.Safely(func() error { return db.UpsertRows(ctx, t.SliceOf(s.Rows, pool), s.Chunk) })
	case "basequery":
		err, pt = sqlh.Safely(func() error {
			q, err := db.Schema.MakeSelect(t.NewResultSlice(), s.Filter.Go(pool), s.Opts.Go())
			if err != nil {
				return err
			}
			_, err = db.BaseQuery(ctx, q)
			return err
		})
	case "withtx":
		err, pt = sqlh.Safely(func() error {
			_, tx, err := db.WithTx(ctx)
			if err == nil && tx != nil {
				cleanups = append(cleanups, func() { tx.Rollback() }) // after the log of the call has been read
			}
			return err
		})
	case "withexistingtx":
		err, pt = sqlh.Safely(func() error {
			if extTx == nil {
				return fmt.Errorf("harness: no transaction to hand over")
			}
			_, err := db.WithExistingTx(ctx, extTx)
			return err
		})
	case "hastx":
		err, pt = sqlh.Safely(func() error {
			if db.HasTx(ctx) {
				count = 11
			} else {
				count = 10
			}
			return nil
		})
	case "queryexecer":
		err, pt = sqlh.Safely(func() error {
			if db.QueryExecer(ctx) == nil {
				return fmt.Errorf("harness: QueryExecer answered nil")
			}
			return nil
		})
	case "withshardlimit", "withdynamiclimit", "withpaniconnoindex":
		err, pt = sqlh.Safely(func() error {
			st := sqlh.Step{Kind: "explain"}
			if s.Step != nil {
				st = *s.Step
			}
			return sqlh.DeriveOne(db, st, pool)
		})
	default:
		pt = "harness: unknown op " + s.Op
	}
	return
}

func exercisedName(m string) (string, bool) {
	for op, k := range methodOf {
		if k == m {
			return op, true
		}
	}
	return "", false
}

// cleanups: what the harness has to undo after a case (transactions opened by a WithTx under test).
var cleanups []func()

// configOp: the methods that send no row-level statement (they derive handles / contexts or answer a question).
func configOp(op string) bool {
	switch op {
	case "withtx", "withexistingtx", "hastx", "queryexecer", "withshardlimit", "withdynamiclimit", "withpaniconnoindex":
		return true
	}
	return false
}

// methodOf: the exported method of sqlgen.DB a Sub calls.
var methodOf = map[string]string{"query": "Query", "queryrow": "QueryRow", "fullscan": "FullScanQuery", "basequery": "BaseQuery",
	"count": "Count", "insert": "InsertRow", "insertrows": "InsertRows", "upsert": "UpsertRow", "upsertrows": "UpsertRows",
	"update": "UpdateRow", "delete": "DeleteRow", "withtx": "WithTx", "withexistingtx": "WithExistingTx", "hastx": "HasTx",
	"queryexecer": "QueryExecer", "withshardlimit": "WithShardLimit", "withdynamiclimit": "WithDynamicLimit",
	"withpaniconnoindex": "WithPanicOnNoIndex"}

func mkObs(log []fakesql.Entry, err error, pt string, count int64) obs {
	o := obs{log: log, panicTx: pt, count: count, errored: err != nil || pt != ""}
	o.outcome, o.dbErr = sqlh.Classify(err, pt, sqlh.AnyFailed(log))
	if err != nil {
		o.detail = err.Error()
	}
	if pt != "" {
		o.detail = "panic: " + pt
	}
	return o
}

// steps: the chain of With* calls that yields the handle of a single-method case.
func (c Case) steps() []sqlh.Step {
	if len(c.Steps) > 0 {
		return c.Steps
	}
	return sqlh.StepsOf(c.Handle)
}

func (c Case) callerHandle(i int) sqlh.Handle {
	if c.Op == "mbatch" && i < len(c.Owners) && c.Owners[i] < len(c.Handles) {
		return c.Handles[c.Owners[i]]
	}
	return c.Handle
}

func runCase(c Case, run *vh.Run, idx int) (res result, fatal string) {
	t := sqlh.TableByName(c.Table)
	if t == nil {
		return res, "unknown table"
	}
	env, err := sqlh.NewEnv(c.Handle, contents())
	if err != nil {
		return res, "environment: " + err.Error()
	}
	defer env.Close()
	if sqlh.BatchFunc(env.DB) == nil {
		return res, "sqlgen.DB has no batchFetch field any more: the batch function cannot be observed"
	}
	// (observation, not a failure) committed changes to rows that lay outside an enforced limit
	var mu sync.Mutex
	env.Srv.OnCommit(func(table string, before, after []driver.Value) {
		if before == nil {
			return
		}
		for _, l := range c.Handle.Enforced() {
			for k, lv := range l {
				for i := range t.Cols {
					if t.Cols[i].Name == k && !sqlh.SQLEqual(before[i], sqlh.DriverOf(&t.Cols[i], lv.Go(sqlh.Pool{}))) {
						mu.Lock()
						res.foreign++
						mu.Unlock()
						return
					}
				}
			}
		}
	})

	if c.Op == "batch" || c.Op == "mbatch" {
		filters := make([]sqlgen.Filter, len(c.Filters))
		dbs := make([]*sqlgen.DB, len(c.Filters))
		derived := map[int]*sqlgen.DB{}
		for i, f := range c.Filters {
			filters[i] = f.Go(env.Pool)
			if filters[i] == nil {
				filters[i] = sqlgen.Filter{}
			}
			dbs[i] = env.DB
			if c.Op == "mbatch" {
				if i >= len(c.Owners) || c.Owners[i] >= len(c.Handles) {
					return res, "mbatch: bad owner"
				}
				if _, ok := derived[c.Owners[i]]; !ok {
					d, err := env.Restrict(c.Handles[c.Owners[i]])
					if err != nil {
						return res, "environment: " + err.Error()
					}
					derived[c.Owners[i]] = d
				}
				dbs[i] = derived[c.Owners[i]]
			}
		}
		if len(filters) == 0 {
			return res, "batch without callers"
		}
		env.Srv.ResetLog()
		br := sqlh.RunBatchedOn(dbs, t, filters)
		res.log = env.Srv.Log()
		res.arrival = br.Arrival
		for i := range filters {
			o := mkObs(nil, br.Errs[i], br.Panics[i], -1)
			o.outcome, o.dbErr = sqlh.Classify(br.Errs[i], br.Panics[i], sqlh.AnyFailed(res.log))
			res.subs = append(res.subs, o)
			// rows handed to a caller of a limited handle lie in its shard -- for every filter inside the exact
			// premise of the transparency theorem (Props/C12.v c12_batched_rows_lie_in_the_shard); outside it
			// the matcher's Go equality is not SQL equality (open finding c10-batch-matcher-go-type: e.g. a
			// pointer to "" on an implicitnull column also matches NULL rows fetched for another caller)
			// On a tree with C10-fix-2 (the batch function asks the row tester) the oracle applies to EVERY filter
			// (c12_batched_rows_lie_in_the_shard_repaired).
			if _, tr := sqlh.Transparent(t, c.Filters[i]); !tr && !sqlh.Fixed && len(c.callerHandle(i).Enforced()) > 0 {
				run.Hist("rows-in-shard-oracle-skipped:filter-in-known-matcher-class")
				continue
			}
			if len(c.callerHandle(i).Enforced()) > 0 {
				run.Hist("rows-in-shard-oracle-applied")
			}
			for _, l := range c.callerHandle(i).Enforced() {
				for _, row := range br.Rows[i] {
					for k, lv := range l {
						col := t.Col(k)
						fv := reflect.ValueOf(row).Elem().FieldByName(col.Field).Interface()
						if !sqlh.SQLEqual(sqlh.DriverOf(col, fv), sqlh.DriverOf(col, lv.Go(env.Pool))) {
							run.Fail(idx, "c12-batched-row-outside-shard", fmt.Sprintf("caller %d received a row with %s = %v", i, k, fv), c)
						}
					}
				}
			}
		}
		for _, b := range br.Arrival {
			for _, k := range b {
				if k < 0 {
					return res, "an item of the batch function could not be attributed to a caller"
				}
			}
		}
		return res, ""
	}

	ctx := context.Background()
	if c.Batching {
		ctx = batch.WithBatching(ctx)
	}
	db := env.DB
	if len(c.Steps) > 0 { // the handle is derived from the fresh DB by the case's own chain of With* calls
		var refused []bool
		db, refused = env.Derive(c.Steps)
		res.refused = refused
	}
	var extTx *sql.Tx
	if c.Op == "withexistingtx" {
		if extTx, err = env.Begin(); err != nil {
			return res, "Begin: " + err.Error()
		}
		defer extTx.Rollback()
	}
	var tx interface {
		Commit() error
		Rollback() error
	}
	if c.InTx || c.Op == "txseq" {
		c2, t2, e2 := db.WithTx(ctx)
		if e2 != nil {
			return res, "WithTx: " + e2.Error()
		}
		ctx, tx = c2, t2
	}
	env.Srv.ResetLog()
	subs := []Sub{c.Sub}
	if c.Op == "txseq" {
		subs = c.Ops
	}
	for _, s := range subs {
		before := len(env.Srv.Log())
		e, pt, n := execSub(db, ctx, t, env.Pool, s, extTx)
		log := env.Srv.Log()
		ob := mkObs(log[before:], e, pt, n)
		if s.Op == "hastx" && !ob.errored {
			ob.outcome = int(n) // 10 = false, 11 = true
		}
		res.subs = append(res.subs, ob)
	}
	res.log = env.Srv.Log()
	for _, f := range cleanups {
		f()
	}
	cleanups = nil
	if tx != nil {
		if c.Commit {
			tx.Commit()
		} else {
			tx.Rollback()
		}
	}
	return res, ""
}

func statements(log []fakesql.Entry) []fakesql.Entry {
	var out []fakesql.Entry
	for _, e := range log {
		if e.Kind == "query" || e.Kind == "exec" {
			out = append(out, e)
		}
	}
	return out
}

// ---- oracle ----

// oracleSub: what the property asks of one method call on a handle with the given enforced limits.
func oracleSub(c Case, t *sqlh.TableDesc, limits []sqlh.Filter, s Sub, o obs, countable bool, run *vh.Run, idx int) {
	pool := sqlh.Pool{}
	stmts := statements(o.log)
	if o.outcome == sqlh.Panicked {
		sig := "c12-panic"
		if strings.Contains(o.panicTx, "comparing uncomparable") {
			// "any call that does not comply returns an error": a panic is not an error return (and a call
			// that complies must not panic either)
			sig = "c12-limit-check-panics-on-uncomparable-value"
		}
		run.Fail(idx, sig, o.detail, c)
		return
	}
	for _, e := range stmts {
		for _, l := range limits {
			if why := confined(t, e, l, pool); why != "" {
				run.Fail(idx, "c12-unconfined-statement", why+" :: "+e.SQL+" "+fmt.Sprint(e.Args), c)
				return
			}
		}
	}
	if configOp(s.Op) {
		// these methods derive handles and contexts: none of them may send a row-level statement, and a limit
		// or setting that is already there cannot be replaced (the call must be refused)
		if len(stmts) > 0 {
			run.Fail(idx, "c12-config-method-issued-statement", methodOf[s.Op]+": "+stmts[0].SQL, c)
		}
		h, explain, _ := sqlh.HandleOf(c.steps())
		already := s.Op == "withshardlimit" && h.Shard != nil || s.Op == "withdynamiclimit" && h.HasDyn || s.Op == "withpaniconnoindex" && explain
		if already && !o.errored {
			run.Fail(idx, "c12-existing-limit-replaced", methodOf[s.Op]+" on a handle that already has one was not refused", c)
		}
		if s.Op == "hastx" && !o.errored && (o.outcome == 11) != (c.InTx || c.Op == "txseq") {
			run.Fail(idx, "c12-hastx-wrong", fmt.Sprintf("HasTx answered %v", o.outcome == 11), c)
		}
		return
	}
	switch s.Op {
	case "query", "queryrow", "fullscan", "basequery", "count":
		for _, l := range limits {
			if !filterComplies(t, s.Filter, l, pool) {
				if !o.errored {
					run.Fail(idx, "c12-noncomplying-read-not-rejected", o.detail, c)
				}
				if len(stmts) > 0 {
					run.Fail(idx, "c12-noncomplying-read-issued-statement", stmts[0].SQL, c)
				}
			}
		}
		if s.Op == "count" && countable && o.outcome == sqlh.Proceeds && !o.dbErr && !o.errored {
			want := int64(0)
			for _, row := range contents()[t.Name] {
				match := true
				for k, v := range s.Filter {
					col := t.Col(k)
					if col == nil {
						match = false
						break
					}
					w := sqlh.DriverOf(col, v.Go(pool))
					var cell driver.Value
					for i := range t.Cols {
						if t.Cols[i].Name == k {
							cell, _ = fakesql.Coerce(t.Cols[i].SQL, row[i])
						}
					}
					if (w == nil) != (cell == nil) || (w != nil && !sqlh.SQLEqual(cell, w)) {
						match = false
					}
				}
				if match {
					want++
				}
			}
			if o.count != want {
				run.Fail(idx, "c12-count-wrong", fmt.Sprintf("Count answered %d, %d rows match the filter", o.count, want), c)
			}
		}
	case "insert", "upsert", "update", "delete":
		for _, l := range limits {
			if !rowComplies(t, s.Row, carried(t, s.Op), l, pool) {
				if !o.errored {
					run.Fail(idx, "c12-noncomplying-write-not-rejected", o.detail, c)
				}
				if len(stmts) > 0 {
					run.Fail(idx, "c12-noncomplying-write-issued-statement", stmts[0].SQL, c)
				}
			}
		}
	case "insertrows", "upsertrows":
		if s.Chunk <= 0 && len(s.Rows) > 0 { // cannot make progress: an error, nothing written, nothing committed
			if !o.errored {
				run.Fail(idx, "c12-bulk-write-without-progress-not-refused", o.detail, c)
			}
			for _, e := range o.log {
				if e.Kind == "commit" || e.Kind == "exec" {
					run.Fail(idx, "c12-bulk-write-without-progress-touched-the-database", e.Kind+" "+e.SQL, c)
				}
			}
			return
		}
		bad := false
		for _, l := range limits {
			for _, r := range s.Rows {
				if !rowComplies(t, r, carried(t, s.Op), l, pool) {
					bad = true
				}
			}
		}
		if bad && s.Chunk > 0 {
			if !o.errored { // an error of the database on an earlier (confined) chunk also ends the call
				run.Fail(idx, "c12-noncomplying-bulk-write-not-rejected", o.detail, c)
			}
			for _, e := range o.log {
				if e.Kind == "commit" {
					run.Fail(idx, "c12-noncomplying-bulk-write-committed", "", c)
				}
			}
		}
	}
	// an error that is not the database's means nothing was issued by that call (single-statement methods)
	if s.Op != "insertrows" && s.Op != "upsertrows" && o.outcome != sqlh.Proceeds && len(stmts) > 0 {
		run.Fail(idx, "c12-rejected-call-issued-statement", stmts[0].SQL, c)
	}
}

// expand turns the WHERE of a combined statement into its disjuncts, one per value of every IN list:
// each a list of (column, value) with nil = IS NULL.  ok=false when an atom is not of the shapes
// makeBatchQuery writes.
type pin struct {
	col string
	val interface{}
}

func expand(st *fakesql.Stmt, args []interface{}) (out [][]pin, ok bool) {
	for _, conj := range fakesql.Disjuncts(st.Where) {
		alts := [][]pin{{}}
		for _, a := range conj {
			if a.Neg {
				return nil, false
			}
			var vals []interface{}
			switch a.Op {
			case "=", "in":
				for _, v := range a.Vals {
					vals = append(vals, v.Resolve(args))
				}
			case "is":
				if a.Vals[0].Resolve(args) != nil {
					return nil, false
				}
				vals = []interface{}{nil}
			default:
				return nil, false
			}
			var next [][]pin
			for _, alt := range alts {
				for _, v := range vals {
					if v == nil && a.Op != "is" {
						continue // "= NULL" / "IN (NULL)": never true, selects nothing
					}
					next = append(next, append(append([]pin{}, alt...), pin{a.Col, v}))
				}
			}
			alts = next
		}
		out = append(out, alts...)
	}
	return out, true
}

// justified: every disjunct of the combined statement is exactly the filter of one of the callers of that
// invocation (who, by the other oracle clauses, complied with the limit of its own handle).
func justified(c Case, t *sqlh.TableDesc, e fakesql.Entry, callers []int) string {
	pool := sqlh.Pool{}
	st, err := fakesql.Parse(e.SQL)
	if err != nil {
		return "unparsable statement: " + err.Error()
	}
	if st.Where == nil {
		for _, i := range callers {
			if len(c.Filters[i]) == 0 {
				return ""
			}
		}
		return "statement without WHERE although no caller of the invocation has an empty filter"
	}
	ds, ok := expand(st, e.Args)
	if !ok {
		return "WHERE clause is not a disjunction of equalities"
	}
	for _, d := range ds {
		found := false
		for _, i := range callers {
			f := c.Filters[i]
			if len(f) != len(d) {
				continue
			}
			all := true
			for _, p := range d {
				v, has := f[p.col]
				if !has || !sqlh.SQLEqual(sqlh.DriverOf(t.Col(p.col), v.Go(pool)), p.val) {
					all = false
				}
			}
			if all {
				found = true
				break
			}
		}
		if !found {
			return fmt.Sprintf("disjunct %v is not the filter of any caller of the invocation %v", d, callers)
		}
	}
	return ""
}

func oracle(c Case, res result, run *vh.Run, idx int) {
	t := sqlh.TableByName(c.Table)
	pool := sqlh.Pool{}
	switch c.Op {
	case "batch", "mbatch":
		stmts := statements(res.log)
		for i, o := range res.subs {
			if o.outcome == sqlh.Panicked {
				sig := "c12-panic"
				if strings.Contains(o.panicTx, "comparing uncomparable") {
					sig = "c12-limit-check-panics-on-uncomparable-value"
				}
				run.Fail(idx, sig, fmt.Sprintf("caller %d: %s", i, o.detail), c)
				return
			}
		}
		if len(stmts) != len(res.arrival) {
			run.Fail(idx, "c12-batch-statement-count", fmt.Sprintf("%d invocations of the batch function, %d statements", len(res.arrival), len(stmts)), c)
			return
		}
		for k, e := range stmts {
			if c.Op == "batch" {
				for _, l := range c.Handle.Enforced() {
					if why := confined(t, e, l, pool); why != "" {
						run.Fail(idx, "c12-unconfined-statement", why+" :: "+e.SQL+" "+fmt.Sprint(e.Args), c)
						return
					}
				}
			}
			if why := justified(c, t, e, res.arrival[k]); why != "" {
				run.Fail(idx, "c12-batched-disjunct-without-caller", why+" :: "+e.SQL+" "+fmt.Sprint(e.Args), c)
				return
			}
		}
		for i, f := range c.Filters {
			for _, l := range c.callerHandle(i).Enforced() {
				if !filterComplies(t, f, l, pool) {
					if !res.subs[i].errored {
						run.Fail(idx, "c12-noncomplying-batched-read-not-rejected", fmt.Sprintf("caller %d", i), c)
					}
					for _, b := range res.arrival {
						for _, k := range b {
							if k == i {
								run.Fail(idx, "c12-noncomplying-batched-read-reached-batch", fmt.Sprintf("caller %d", i), c)
							}
						}
					}
				}
			}
		}
	case "txseq":
		for k, s := range c.Ops {
			oracleSub(c, t, c.Handle.Enforced(), s, res.subs[k], false, run, idx)
		}
	default:
		if len(c.Steps) > 0 {
			h, _, want := sqlh.HandleOf(c.Steps)
			hj, _ := json.Marshal(h)
			cj, _ := json.Marshal(c.Handle)
			if string(hj) != string(cj) {
				run.Fail(idx, "c12-harness-cannot-run", "the case's handle is not what its steps yield", c)
				return
			}
			for i := range want {
				if i < len(res.refused) && want[i] && !res.refused[i] {
					run.Fail(idx, "c12-existing-limit-replaced", fmt.Sprintf("With* call %d of the chain was accepted although the handle already had that limit", i), c)
					return
				}
			}
		}
		oracleSub(c, t, c.Handle.Enforced(), c.Sub, res.subs[0], true, run, idx)
	}
}

// ---- Coq terms ----

func coqSub(s Sub) string {
	f := s.Filter
	if f == nil {
		f = sqlh.Filter{}
	}
	rows := func() string {
		xs := make([]string, len(s.Rows))
		for i, r := range s.Rows {
			xs[i] = r.Coq()
		}
		return vh.CoqList(xs)
	}
	switch s.Op {
	case "query", "queryrow":
		return fmt.Sprintf("(OQuery %s %s)", f.Coq(), s.Opts.Coq())
	case "fullscan":
		o := s.Opts
		if o == nil {
			o = &sqlh.Opts{}
		}
		return fmt.Sprintf("(OQuery %s %s)", f.Coq(), o.Coq())
	case "count":
		return fmt.Sprintf("(OCount %s)", f.Coq())
	case "insert":
		return fmt.Sprintf("(OInsertRow %s)", s.Row.Coq())
	case "upsert":
		return fmt.Sprintf("(OUpsertRow %s)", s.Row.Coq())
	case "update":
		return fmt.Sprintf("(OUpdateRow %s)", s.Row.Coq())
	case "delete":
		return fmt.Sprintf("(ODeleteRow %s)", s.Row.Coq())
	case "insertrows":
		return fmt.Sprintf("(OInsertRows %s %d)", rows(), s.Chunk)
	case "upsertrows":
		return fmt.Sprintf("(OUpsertRows %s %d)", rows(), s.Chunk)
	}
	panic("coqSub " + s.Op)
}

// coqCall prints a Sub as the model's [call]: one constructor per exported method of sqlgen.DB.
func coqCall(s Sub) string {
	f := s.Filter
	if f == nil {
		f = sqlh.Filter{}
	}
	rows := func() string {
		xs := make([]string, len(s.Rows))
		for i, r := range s.Rows {
			xs[i] = r.Coq()
		}
		return vh.CoqList(xs)
	}
	switch s.Op {
	case "query":
		return fmt.Sprintf("(CQuery %s %s)", f.Coq(), s.Opts.CoqCall())
	case "queryrow":
		return fmt.Sprintf("(CQueryRow %s %s)", f.Coq(), s.Opts.CoqCall())
	case "fullscan":
		return fmt.Sprintf("(CFullScanQuery %s %s)", f.Coq(), s.Opts.CoqCall())
	case "basequery":
		return fmt.Sprintf("(CBaseQuery %s %s)", f.Coq(), s.Opts.CoqCall())
	case "count":
		return fmt.Sprintf("(CCount %s)", f.Coq())
	case "insert":
		return fmt.Sprintf("(CInsertRow %s)", s.Row.Coq())
	case "upsert":
		return fmt.Sprintf("(CUpsertRow %s)", s.Row.Coq())
	case "update":
		return fmt.Sprintf("(CUpdateRow %s)", s.Row.Coq())
	case "delete":
		return fmt.Sprintf("(CDeleteRow %s)", s.Row.Coq())
	case "insertrows":
		return fmt.Sprintf("(CInsertRows %s %d)", rows(), s.Chunk)
	case "upsertrows":
		return fmt.Sprintf("(CUpsertRows %s %d)", rows(), s.Chunk)
	case "withtx":
		return "CWithTx"
	case "withexistingtx":
		return "CWithExistingTx"
	case "hastx":
		return "CHasTx"
	case "queryexecer":
		return "CQueryExecer"
	case "withpaniconnoindex":
		return "CWithPanicOnNoIndex"
	case "withshardlimit":
		f := sqlh.Filter{}
		if s.Step != nil && s.Step.Filter != nil {
			f = s.Step.Filter
		}
		return "(CWithShardLimit " + f.Coq() + ")"
	case "withdynamiclimit":
		st := sqlh.Step{Kind: "dyn"}
		if s.Step != nil {
			st = *s.Step
		}
		return "(CWithDynamicLimit " + strings.TrimSuffix(strings.TrimPrefix(st.Coq(), "(StDyn "), ")") + ")"
	}
	panic("coqCall " + s.Op)
}

func coqCaseOp(c Case, res result) string {
	switch c.Op {
	case "batch":
		fs := make([]string, len(c.Filters))
		for i, f := range c.Filters {
			fs[i] = f.Coq()
		}
		return fmt.Sprintf("(Batched %s %s)", vh.CoqList(fs), sqlh.CoqArrival(res.arrival))
	case "mbatch":
		cs := make([]string, len(c.Filters))
		for i, f := range c.Filters {
			cs[i] = "(" + c.callerHandle(i).Coq() + ", " + f.Coq() + ")"
		}
		return fmt.Sprintf("(BatchedMulti %s %s)", vh.CoqList(cs), sqlh.CoqArrival(res.arrival))
	case "txseq":
		ops := make([]string, len(c.Ops))
		for i, s := range c.Ops {
			ops[i] = coqSub(s)
		}
		return "(Seq " + vh.CoqList(ops) + ")"
	}
	steps := c.steps()
	xs := make([]string, len(steps))
	rs := make([]string, len(steps))
	for i, st := range steps {
		xs[i] = st.Coq()
		rs[i] = vh.CoqBool(i < len(res.refused) && res.refused[i])
	}
	return fmt.Sprintf("(SingleCall %s %s %s)", vh.CoqList(xs), vh.CoqList(rs), coqCall(c.Sub))
}

func main() {
	o := vh.ParseFlags()
	run := vh.NewRun("C12", o)
	run.Rule = "one case = (table of a 3-table catalogue, shard and/or dynamic limit, in/out of a transaction, with/without batch.WithBatching, and one DB method incl. SelectOptions and Count / 2-6 concurrent batched Query calls on one handle / the same on 2-3 handles sharing the batch function / 2-4 methods inside one transaction; filters and rows derived from the limit: 50-60% complying, else key dropped / other value / same value with another Go type or pointer / unknown column / empty); non-trivial = some handle of the case enforces a limit and some call reached a limit check (not all rejected for bad input); distinct by JSON of the case"
	r := vh.NewRng(o.Seed)
	if fixed, err := sqlh.MatcherAsksTester(); err != nil {
		run.Fail(-1, "c12-harness-cannot-run", "probe of the batch function: "+err.Error(), nil)
	} else {
		sqlh.Fixed = fixed
		if fixed {
			run.Hist("tree: batch function asks the row tester (C10-fix-2 applied): rows-in-shard oracle on every batched caller")
		}
	}
	g := &gen{&sqlh.Gen{R: r}}
	searching := o.Search != ""

	var cases []Case
	switch {
	case searching:
		cases = searchCases(o, r)
	case o.Replay != "":
		var c Case
		if vh.ReadReplayCase(o.Replay, &c) {
			c.Origin = "replay"
			cases = append(cases, c)
		}
	default:
		for _, f := range vh.CorpusFiles(o.Corpus) {
			var c Case
			if vh.ReadReplayCase(f, &c) {
				c.Origin = "corpus:" + filepath.Base(f)
				cases = append(cases, c)
			}
		}
		for i := 0; i < o.N; i++ {
			g.R = r.Fork()
			g.Addr = 0
			cases = append(cases, g.genCase())
		}
	}

	exercised := map[string]int{}
	const shard = 250
	var terms []string
	start := 0
	flush := func() {
		if len(terms) == 0 {
			return
		}
		run.WriteCasesV(fmt.Sprintf("cases_%d.v", start), []string{"Sql.Model", "Sql.Methods", "Sql.ModelCheck"}, "", "mismatches_c12", 0, terms)
		start += len(terms)
		terms = nil
	}

	for idx, c := range cases {
		run.LogCase(idx, c)
		res, fatal := runCase(c, run, idx)
		if fatal != "" {
			run.Fail(idx, "c12-harness-cannot-run", fatal, c)
			continue
		}
		oracle(c, res, run, idx)

		run.Hist("op:" + c.Op)
		run.Hist("table:" + c.Table)
		for _, s := range append([]Sub{c.Sub}, c.Ops...) {
			if m, ok := methodOf[s.Op]; ok {
				exercised[m]++
			}
		}
		if c.Op == "batch" || c.Op == "mbatch" {
			exercised["Query"] += len(c.Filters)
		}
		if c.InTx || c.Op == "txseq" {
			exercised["WithTx"]++
		}
		if len(c.Steps) > 0 {
			run.Hist(fmt.Sprintf("handle-chain:%d With* calls", len(c.Steps)))
			for i, st := range c.Steps {
				exercised[map[string]string{"shard": "WithShardLimit", "dyn": "WithDynamicLimit", "explain": "WithPanicOnNoIndex"}[st.Kind]]++
				if i < len(res.refused) && res.refused[i] {
					run.Hist("handle-chain:a With* call refused (limit already set)")
				}
			}
			if _, ex, _ := sqlh.HandleOf(c.Steps); ex {
				run.Hist("handle:panic-on-no-index (EXPLAIN before every statement of its own)")
			}
		} else {
			if c.Handle.Shard != nil {
				exercised["WithShardLimit"]++
			}
			if c.Handle.HasDyn {
				exercised["WithDynamicLimit"]++
			}
		}
		enforced := len(c.Handle.Enforced()) > 0
		for _, h := range c.Handles {
			enforced = enforced || len(h.Enforced()) > 0
		}
		allBad, dbErr := true, false
		for _, ob := range res.subs {
			if ob.outcome >= 10 {
				run.Hist("outcome:answer")
			} else {
				run.Hist([]string{"outcome:proceeds", "outcome:rejected", "outcome:bad-input", "outcome:panic"}[ob.outcome])
			}
			if ob.outcome != sqlh.BadInput {
				allBad = false
			}
			dbErr = dbErr || ob.dbErr
		}
		if c.InTx {
			run.Hist("ctx:in-tx")
		}
		if c.Batching {
			run.Hist("ctx:batching")
		}
		for _, s := range append([]Sub{c.Sub}, c.Ops...) {
			if s.Opts != nil {
				run.Hist("select-options")
			}
		}
		switch {
		case c.Handle.Shard != nil && c.Handle.HasDyn:
			run.Hist("handle:shard+dynamic")
		case c.Handle.Shard != nil:
			run.Hist("handle:shard")
		case c.Handle.HasDyn && !c.Handle.DynCb:
			run.Hist("handle:dynamic-without-callback (not enforced by sqlgen)")
		case c.Handle.HasDyn:
			run.Hist("handle:dynamic")
		default:
			run.Hist("handle:unrestricted")
		}
		if c.Op == "batch" || c.Op == "mbatch" {
			run.Hist(fmt.Sprintf("batch:invocations=%d", len(res.arrival)))
		}
		if c.Op == "mbatch" {
			mixed := map[int]bool{}
			for _, b := range res.arrival {
				for _, k := range b {
					mixed[c.Owners[k]] = true
				}
			}
			if len(mixed) > 1 {
				run.Hist("mbatch:handles-combined-in-one-run")
			}
		}
		if res.foreign > 0 {
			run.Hist("observed:committed-write-changed-a-row-of-another-shard (UPDATE/UPSERT carry the value; not a failure)")
		}
		nontrivial := enforced && !allBad
		kc := c
		kc.Origin = ""
		kb, _ := json.Marshal(kc)
		run.Count(string(kb), nontrivial)
		if nontrivial && !searching {
			var st []string
			for _, e := range statements(res.log) {
				st = append(st, e.SQL+" "+fmt.Sprint(e.Args))
			}
			outs := []int{}
			for _, ob := range res.subs {
				outs = append(outs, ob.outcome)
			}
			run.Sample(map[string]interface{}{"case": c, "outcomes": outs, "statements": st})
		}
		if searching {
			continue
		}

		if dbErr {
			run.Hist("skipped-model:database-error")
			continue
		}
		panicked := false
		for _, ob := range res.subs {
			if ob.outcome == sqlh.Panicked {
				panicked = true
			}
		}
		if panicked {
			run.Hist("skipped-model:panic")
			continue
		}
		ev, ok := sqlh.CoqEvents(res.log)
		if !ok {
			run.Hist("skipped-model:value-outside-model")
			continue
		}
		// InsertRows / UpsertRows with a chunk size that cannot make progress through a non-empty list of rows:
		// the call fails, and whether it notices before or after BEGIN is not the property's business (the oracle
		// asks for an error, no row-level statement and no COMMIT); such calls are not compared with the model
		zeroChunk := false
		for _, s := range append([]Sub{c.Sub}, c.Ops...) {
			if (s.Op == "insertrows" || s.Op == "upsertrows") && s.Chunk <= 0 && len(s.Rows) > 0 {
				zeroChunk = true
			}
		}
		if zeroChunk {
			run.Hist("skipped-model:bulk-write-with-chunk-size-zero (fails either way)")
			continue
		}
		outsideSeq := false
		for _, s := range c.Ops {
			if configOp(s.Op) || s.Op == "basequery" {
				outsideSeq = true // the sequence model speaks of the row-level methods only
			}
		}
		if c.Op == "txseq" && outsideSeq {
			run.Hist("skipped-model:sequence-with-config-method")
			continue
		}
		outs := make([]string, len(res.subs))
		for i, ob := range res.subs {
			outs[i] = fmt.Sprint(ob.outcome)
		}
		t := sqlh.TableByName(c.Table)
		inTx := c.InTx || c.Op == "txseq"
		terms = append(terms, fmt.Sprintf("(%d, mk_c12 %s %s (mk_ctx %s %s) %s %s %s)", idx, t.Coq(), c.Handle.Coq(),
			vh.CoqBool(inTx), vh.CoqBool(c.Batching), coqCaseOp(c, res), ev, vh.CoqList(outs)))
		if len(terms) >= shard {
			flush()
		}
	}
	if searching {
		run.Finish()
		return
	}
	flush()
	// every exported method of sqlgen.DB (as the compiled package shows them) and how often this run called it
	dbType := reflect.TypeOf(&sqlgen.DB{})
	called := 0
	for i := 0; i < dbType.NumMethod(); i++ {
		m := dbType.Method(i).Name
		known := false
		for _, k := range methodOf {
			known = known || k == m
		}
		switch {
		case !known:
			run.Hist("method-outside-the-harness:" + m + " (the table extracted from the source decides whether it reaches the database: see component 6)")
		case exercised[m] > 0:
			called++
			run.Histogram["method:"+m] += exercised[m]
		default:
			run.Hist("method-not-called-in-this-run:" + m)
		}
	}
	run.Hist(fmt.Sprintf("methods: %d of the %d exported methods of sqlgen.DB called", called, dbType.NumMethod()))
	// the table of exported methods of the tree under test, extracted from its source (go/ast), for the evaluator:
	// written into the run's own directory (concurrent runs on other trees have their own)
	if o.Replay == "" {
		rows, problem := sqlh.ExtractDBMethods(o.Repo)
		var terms, noAccess []string
		for _, r := range rows {
			terms = append(terms, fmt.Sprintf("  (%s, (%s, %s, %s))", vh.CoqString(r.Name), vh.CoqBool(r.Query), vh.CoqBool(r.Exec), vh.CoqBool(r.Tx)))
			if _, known := exercisedName(r.Name); !known && !r.Query && !r.Exec && !r.Tx {
				noAccess = append(noAccess, r.Name)
			}
		}
		if problem != "" { // a table the model cannot cover: the evaluator reports it
			terms = append(terms, fmt.Sprintf("  (%s, (true, true, true))", vh.CoqString("extraction problem: "+problem)))
		}
		if len(noAccess) > 0 {
			run.Hist("exported methods without database access (no case in the model needed): " + strings.Join(noAccess, ", "))
		}
		src := "From Coq Require Import List ZArith String.\nFrom Thunder Require Import Sql.Model Sql.Methods Sql.ModelCheck.\nImport ListNotations.\nOpen Scope string_scope.\nOpen Scope list_scope.\n" +
			"(* exported methods of sqlgen.DB in " + o.Repo + "/sqlgen: (method, (reaches a query call, an exec call, a transaction begin)) *)\n" +
			"Definition cases : list (string * (bool * bool * bool)) := [\n" + strings.Join(terms, ";\n") + "\n].\n" +
			"Definition M := Eval vm_compute in methods_mismatch 0 cases.\nPrint M.\n"
		if err := ioutil.WriteFile(filepath.Join(o.Out, "cases_methods.v"), []byte(src), 0o644); err == nil {
			run.CasesV = append(run.CasesV, "cases_methods.v")
		} else {
			run.Fail(-1, "c12-harness-cannot-run", "cannot write the table of exported methods: "+err.Error(), nil)
		}
	}
	run.Finish()
}
