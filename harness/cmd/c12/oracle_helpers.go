package main

import (
	"database/sql/driver"
	"fmt"
	"strings"

	"verifharness/pkg/fakesql"
	"verifharness/pkg/sqlh"
)

// ---- fixed contents ----

func contents() map[string][][]driver.Value {
	m := map[string][][]driver.Value{}
	for i := int64(1); i <= 9; i++ {
		var nick driver.Value
		if i%3 != 0 {
			nick = sqlh.SmallStrings[i%4]
		}
		m["users"] = append(m["users"], []driver.Value{i, i % 4, sqlh.SmallStrings[i%5], nick, i % 5, i%2 == 0})
		var note driver.Value
		if i%2 == 0 {
			note = "n"
		}
		m["items"] = append(m["items"], []driver.Value{i % 4, i, i % 3, sqlh.SmallStrings[i%3], note, []byte(sqlh.SmallStrings[i%4]), float64(i%5) / 4})
		var org driver.Value
		if i%3 != 1 {
			org = i % 4
		}
		m["events"] = append(m["events"], []driver.Value{fmt.Sprintf("e%d", i), org, sqlh.SmallStrings[i%3], i % 4})
		m["tags"] = append(m["tags"], []driver.Value{i, sqlh.SmallStrings[i%3], sqlh.SmallStrings[i%4], sqlh.SmallStrings[i%5], i % 3, i % 4, i % 5})
	}
	return m
}

// ---- oracle ----

// pins says whether a conjunction of atoms constrains column col to the SQL value want (nil = NULL): it has
// an un-negated atom  col = want,  col IS NULL (want NULL),  or  col IN (want, ..., want).  A comparison
// with NULL (never true) also confines the disjunct: it selects nothing.
func pins(conj []fakesql.Atom, args []interface{}, col string, want interface{}) bool {
	for _, a := range conj {
		if !strings.EqualFold(a.Col, col) || a.Neg {
			continue
		}
		switch a.Op {
		case "=", "in":
			all := len(a.Vals) > 0
			for _, o := range a.Vals {
				v := o.Resolve(args)
				if v == nil {
					continue // never true
				}
				if want == nil || !sqlh.SQLEqual(v, want) {
					all = false
				}
			}
			if all {
				return true
			}
		case "is":
			if v := a.Vals[0].Resolve(args); v == nil && want == nil {
				return true
			}
		}
	}
	return false
}

// confined checks one recorded statement against one limit; "" = confined.
func confined(t *sqlh.TableDesc, e fakesql.Entry, limit sqlh.Filter, pool sqlh.Pool) string {
	st, err := fakesql.Parse(e.SQL)
	if err != nil {
		return "unparsable statement: " + err.Error()
	}
	if st.Kind == fakesql.Explain && st.Inner != nil {
		st = st.Inner // the EXPLAIN of a statement reaches the database too: the statement must be confined
	}
	if !strings.EqualFold(st.Table, t.Name) {
		return "statement on another table " + st.Table
	}
	for _, k := range limit.Keys() {
		want := sqlh.DriverOf(t.Col(k), limit[k].Go(pool))
		wherePins := func() bool {
			for _, conj := range fakesql.Disjuncts(st.Where) {
				if !pins(conj, e.Args, k, want) {
					return false
				}
			}
			return true
		}
		switch st.Kind {
		case fakesql.Select, fakesql.Count, fakesql.Delete:
			if !wherePins() {
				return fmt.Sprintf("%s: a disjunct of WHERE does not constrain %s to %v", st.Kind, k, want)
			}
		case fakesql.InsertStmt, fakesql.Upsert:
			ci := -1
			for i, c := range st.Cols {
				if strings.EqualFold(c, k) {
					ci = i
				}
			}
			if ci < 0 {
				return fmt.Sprintf("%s does not carry column %s", st.Kind, k)
			}
			for _, row := range st.Rows {
				if v := row[ci].Resolve(e.Args); !sqlh.SQLEqual(v, want) {
					return fmt.Sprintf("%s carries %s = %v, limit is %v", st.Kind, k, v, want)
				}
			}
		case fakesql.Update:
			ok := wherePins()
			for i, c := range st.Set {
				if strings.EqualFold(c, k) && sqlh.SQLEqual(st.SetVals[i].Resolve(e.Args), want) {
					ok = true
				}
			}
			if !ok {
				return fmt.Sprintf("UPDATE neither sets nor filters %s = %v", k, want)
			}
		default:
			return "unexpected statement kind " + string(st.Kind)
		}
	}
	return ""
}

// filterComplies: property-level compliance of a read filter: it filters on each limit column with the
// value the limit denotes.
func filterComplies(t *sqlh.TableDesc, f, limit sqlh.Filter, pool sqlh.Pool) bool {
	for k, lv := range limit {
		fv, ok := f[k]
		if !ok {
			return false
		}
		c := t.Col(k)
		if !sqlh.SQLEqual(sqlh.DriverOf(c, fv.Go(pool)), sqlh.DriverOf(c, lv.Go(pool))) {
			return false
		}
	}
	return true
}

// rowComplies: the row's column values are those of the limit.  cols = the columns the statement carries.
func rowComplies(t *sqlh.TableDesc, r sqlh.Row, cols map[string]bool, limit sqlh.Filter, pool sqlh.Pool) bool {
	for k, lv := range limit {
		if !cols[k] {
			return false
		}
		for i := range t.Cols {
			if t.Cols[i].Name == k {
				if !sqlh.SQLEqual(sqlh.DriverOf(&t.Cols[i], r[i].Go(pool)), sqlh.DriverOf(&t.Cols[i], lv.Go(pool))) {
					return false
				}
			}
		}
	}
	return true
}

func carried(t *sqlh.TableDesc, op string) map[string]bool {
	m := map[string]bool{}
	for _, c := range t.Cols {
		switch op {
		case "insert", "insertrows":
			if !(c.Primary && t.Auto) {
				m[c.Name] = true
			}
		case "delete":
			if c.Primary {
				m[c.Name] = true
			}
		default:
			m[c.Name] = true
		}
	}
	return m
}
