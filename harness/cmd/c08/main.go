// C08: the reactive cache never serves superseded values and releases every resource.  All code is shared
// with C04 (pkg/reactsim); the two commands differ in the oracle clauses they report and in the bias of
// the generator.
package main

import "verifharness/pkg/reactsim"

func main() { reactsim.Main("C08") }
