// C17: websocket connection lifecycle.  The harness lives in pkg/fakesock (shared with C02).
package main

import "verifharness/pkg/fakesock"

func main() { fakesock.Main("C17") }
