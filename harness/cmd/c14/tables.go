package main

import (
	"go/ast"
	"go/parser"
	"go/token"
	"go/types"
	"path/filepath"
	"sort"
	"strconv"

	"verifharness/pkg/vh"
)

// scalarTable reads the `scalars` map literal of graphql/schemabuilder/build.go of the tree under test
// with go/ast (nothing is executed): one (Go type expression, scalar name) pair per entry, sorted.  It is
// data, compared with the model's scalar table in every case file (component 11).  A table that cannot
// be read yields a marker entry the model's table cannot match.
func scalarTable(repo string) string {
	bad := func(why string) string {
		return vh.CoqList([]string{"(" + vh.CoqString("unreadable: "+why) + ", " + vh.CoqString("") + ")"})
	}
	fset := token.NewFileSet()
	f, err := parser.ParseFile(fset, filepath.Join(repo, "graphql/schemabuilder/build.go"), nil, 0)
	if err != nil {
		return bad("parse")
	}
	var lit *ast.CompositeLit
	for _, d := range f.Decls {
		gd, ok := d.(*ast.GenDecl)
		if !ok || gd.Tok != token.VAR {
			continue
		}
		for _, sp := range gd.Specs {
			vs := sp.(*ast.ValueSpec)
			for i, n := range vs.Names {
				if n.Name == "scalars" && i < len(vs.Values) {
					lit, _ = vs.Values[i].(*ast.CompositeLit)
				}
			}
		}
	}
	if lit == nil {
		return bad("no scalars literal")
	}
	var rows [][2]string
	for _, el := range lit.Elts {
		kv, ok := el.(*ast.KeyValueExpr)
		if !ok {
			return bad("element without key")
		}
		call, ok := kv.Key.(*ast.CallExpr)
		if !ok || len(call.Args) != 1 || types.ExprString(call.Fun) != "reflect.TypeOf" {
			return bad("key is not reflect.TypeOf(x)")
		}
		var goType string
		switch a := call.Args[0].(type) {
		case *ast.CallExpr: // bool(false), int64(0)
			goType = types.ExprString(a.Fun)
		case *ast.CompositeLit: // time.Time{}, []byte{}
			goType = types.ExprString(a.Type)
		default:
			goType = types.ExprString(a)
		}
		val, ok := kv.Value.(*ast.BasicLit)
		if !ok || val.Kind != token.STRING {
			return bad("value is not a string literal")
		}
		name, err := strconv.Unquote(val.Value)
		if err != nil {
			return bad("unquote")
		}
		rows = append(rows, [2]string{goType, name})
	}
	sort.Slice(rows, func(i, j int) bool { return rows[i][0] < rows[j][0] })
	xs := make([]string, len(rows))
	for i, r := range rows {
		xs[i] = "(" + vh.CoqString(r[0]) + ", " + vh.CoqString(r[1]) + ")"
	}
	return vh.CoqList(xs)
}
