// C14: validated queries cannot go wrong and responses match the advertised schema.  Each case is a
// generated schema (Go type shapes the builder accepts) with several well- and ill-formed queries.
package main

import (
	"context"
	"encoding/json"
	"fmt"
	"io/ioutil"
	"log"
	"path/filepath"
	"regexp"
	"runtime"
	"strings"
	"time"

	"github.com/graphql-go/graphql/language/ast"
	"github.com/graphql-go/graphql/language/parser"
	"github.com/samsarahq/thunder/graphql"
	"github.com/samsarahq/thunder/graphql/introspection"
	"verifharness/pkg/gqlty"
	"verifharness/pkg/vh"
)

type Case struct {
	Seed     uint64 `json:"seed"`
	NQueries int    `json:"n_queries"`
	Origin   string `json:"origin,omitempty"`
	// a replayed / corpus case may pin one query text instead of generating them
	Query string `json:"query,omitempty"`
	// Clash: let different fields share an alias (what detectConflicts misses below the top level)
	Clash bool `json:"clash,omitempty"`
	// QSeed, when set, seeds the queries independently of the schema (failing-input search: other queries
	// against the schema of a disagreeing case); IllPct overrides the share of queries with an ill-formed spot.
	QSeed  uint64 `json:"qseed,omitempty"`
	IllPct int    `json:"ill_pct,omitempty"`
	// CrossArgs: cross-type fragment spreads may involve fields with arguments (known finding)
	CrossArgs bool `json:"cross_args,omitempty"`
	// OmitMarshalers: no longer used (the generator always lets batch resolvers leave out text-marshaler results
	// since C14-fix-3 is in the tree); kept so that older replay files still load
	OmitMarshalers bool `json:"omit_marshalers,omitempty"`
	// Edited: the pinned query is a textual edit of another one and need not be syntactically valid
	Edited bool `json:"edited,omitempty"`
	// Extra: the schema also draws from the second generator stream (input-object arguments, deep lists); set on
	// every generated case, so that a replay file of one rebuilds the same schema
	Extra bool `json:"extra,omitempty"`
}

// aliasClash reports whether some alias names two different fields anywhere in the document.
func aliasClash(doc *ast.Document) bool {
	names := map[string]string{}
	clash := false
	var walk func(ss *ast.SelectionSet)
	walk = func(ss *ast.SelectionSet) {
		if ss == nil {
			return
		}
		for _, sel := range ss.Selections {
			switch sel := sel.(type) {
			case *ast.Field:
				a := sel.Name.Value
				if sel.Alias != nil {
					a = sel.Alias.Value
				}
				if n, ok := names[a]; ok && n != sel.Name.Value {
					clash = true
				}
				names[a] = sel.Name.Value
				walk(sel.SelectionSet)
			case *ast.InlineFragment:
				walk(sel.SelectionSet)
			}
		}
	}
	for _, d := range doc.Definitions {
		switch d := d.(type) {
		case *ast.OperationDefinition:
			walk(d.SelectionSet)
		case *ast.FragmentDefinition:
			walk(d.SelectionSet)
		}
	}
	return clash
}

type F = gqlty.Finding

var thunderFrame = regexp.MustCompile(`github\.com/samsarahq/thunder/([A-Za-z0-9_/]+\.[A-Za-z0-9_.()*]+)\(`)

func safe(f func()) (pan string) {
	defer func() {
		if e := recover(); e != nil {
			pan = fmt.Sprint(e)
		}
	}()
	f()
	return ""
}

func firstLine(s string) string {
	if i := strings.IndexByte(s, '\n'); i >= 0 {
		s = s[:i]
	}
	if len(s) > 300 {
		s = s[:300]
	}
	return s
}

// editQuery makes one small textual edit of a pinned query: drop or duplicate a token, put a sub-selection
// on something, remove one, rename a field.
func editQuery(r *vh.Rng, q string) string {
	toks := strings.Fields(q)
	if len(toks) == 0 {
		return q
	}
	i := r.Intn(len(toks))
	switch r.Intn(5) {
	case 0:
		toks = append(toks[:i], toks[i+1:]...)
	case 1:
		toks = append(toks[:i], append([]string{toks[i]}, toks[i:]...)...)
	case 2:
		toks[i] = toks[i] + " { x }"
	case 3:
		toks[i] = "nope"
	default:
		toks[i] = "__typename"
	}
	return strings.Join(toks, " ")
}

func runCase(c *Case) ([]F, map[string]interface{}) {
	var fs []F
	obs := map[string]interface{}{}
	r := vh.NewRng(c.Seed)
	var extra *vh.Rng
	if c.Extra {
		// shapes added later come from a second stream; pinned seeds (corpus, replay) keep their schema
		extra = vh.NewRng(c.Seed ^ 0x9e3779b97f4a7c15)
	}
	g := gqlty.NewGenSchemaX(r.Fork(), extra)
	schema, err := g.Build()
	obs["shapes"] = g.Shapes
	if err != nil {
		obs["builder_error"] = firstLine(err.Error())
		return fs, obs
	}
	desc := gqlty.Walk(schema.Query, schema.Mutation) // before the introspection fields are added
	if len(desc.Clash) > 0 {
		fs = append(fs, F{"type-name-clash", fmt.Sprint(desc.Clash)})
		return fs, obs
	}
	var isJSON []byte
	if p := safe(func() { isJSON, err = introspection.ComputeSchemaJSON(*g.Builder) }); p != "" || err != nil {
		fs = append(fs, F{"introspection-fails", firstLine(p + fmt.Sprint(err))})
		return fs, obs
	}
	isch, err := gqlty.ParseIntrospection(isJSON)
	if err != nil {
		fs = append(fs, F{"introspection-json-unreadable", err.Error()})
		return fs, obs
	}
	obs["sch"] = desc.Coq()
	obs["isch"] = isch.Coq()
	obs["types"] = len(desc.Defs)
	// the built schema with everything introspection prints (Go map entries shuffled), and what it printed
	xs := gqlty.WalkX(vh.NewRng(c.Seed^0x5bd1e995), schema.Query, schema.Mutation)
	var top struct {
		Schema struct {
			Types interface{} `json:"types"`
		} `json:"__schema"`
	}
	if err := json.Unmarshal(isJSON, &top); err == nil && xs.Safe() && gqlty.CoqStringSafe(string(isJSON)) {
		obs["x"] = xs.Coq()
		obs["itypes"] = vh.CoqJSON(top.Schema.Types)
	}
	obs["gofields"] = g.GoFieldsCoq()
	var resps []string

	if c.QSeed != 0 {
		r = vh.NewRng(c.QSeed)
	}
	illPct := 35
	if c.IllPct > 0 {
		illPct = c.IllPct
	}
	exec := graphql.NewExecutor(graphql.NewImmediateGoroutineScheduler())
	var qterms []string
	var samples []string
	nq := c.NQueries
	if c.Query != "" {
		nq = 1
	}
	var crafted []string
	if c.CrossArgs && c.Query == "" {
		crafted = gqlty.CraftCrossArgs(desc, g.ArgSamples, "Query")
		nq += len(crafted)
	}
	for k := 0; k < nq; k++ {
		qr := r.Fork()
		gen := &gqlty.QGen{R: qr, D: desc, ArgSamples: g.ArgSamples, PAlias: 12, PCross: 30, CrossArgs: c.CrossArgs, ClashAliases: c.Clash, AliasPool: []string{"al1", "al2"}, PFrag: 15, PInline: 12, PTypename: 10}
		if qr.Chance(illPct) {
			gen.WantIll = qr.Pick(gqlty.IllKinds)
		}
		text := c.Query
		if text == "" && k >= nq-len(crafted) {
			text = crafted[k-(nq-len(crafted))]
		} else if text == "" {
			text = gen.Document("query", "Query", 2+qr.Intn(3))
		}
		if len(samples) < 2 {
			samples = append(samples, text)
		}
		doc, gerr := parser.Parse(parser.ParseParams{Source: text})
		if gerr != nil && c.Edited {
			continue
		}
		if gerr != nil {
			fs = append(fs, F{"harness-query-does-not-parse", firstLine(gerr.Error()) + " :: " + text})
			continue
		}
		var q *graphql.Query
		var perr error
		if p := safe(func() { q, perr = graphql.Parse(text, nil) }); p != "" {
			fs = append(fs, F{"parse-panic", firstLine(p) + " :: " + text})
			continue
		}
		if perr != nil {
			// e.g. the same alias for two different fields at the top level: not a C14 matter
			obs["parse_rejected"] = true
			continue
		}
		var prep error
		if p := safe(func() { prep = graphql.PrepareQuery(context.Background(), schema.Query, q.SelectionSet) }); p != "" {
			fs = append(fs, F{"prepare-panic", firstLine(p) + " :: " + text})
			continue
		}
		// the verdict is compared, not the wording
		code := gqlty.VerdictOK
		if prep != nil {
			code = gqlty.VerdictOtherError
			if _, ok := prep.(graphql.ClientError); ok {
				code = gqlty.VerdictClientError
			}
			obs[fmt.Sprintf("prepare-error-text-class:%d", gqlty.PrepareErrCode(prep.Error()))] = true
		}
		// the reference verdict comes from the introspection JSON alone, not from what the generator intended
		ill, crossSpread := isch.Analyse(doc, "Query")
		// (with cross_args a fragment's argument-carrying selections are validated under several types: the verdict
		// then depends on argument parsing, which is outside the model of PrepareQuery - C18)
		if term, terr := gqlty.DocToCoq(doc); terr == nil && gqlty.CoqStringSafe(text) && !(c.CrossArgs && crossSpread) {
			qterms = append(qterms, fmt.Sprintf("(%s, %d)", term, code))
		}
		if gen.Cross > 0 {
			obs["cross-type-spread"] = true
			if ill != "" {
				obs["ill:cross-type-spread"] = true
			}
		}
		if c.Query == "" && gen.Ill != "" && ill == "" {
			fs = append(fs, F{"harness-generator-and-reference-disagree", "generator injected " + gen.Ill + ", reference finds the query well-formed :: " + text})
		}
		switch {
		case ill != "" && prep == nil:
			fs = append(fs, F{"ill-formed-selection-accepted:" + ill, text})
		case ill == "" && prep != nil && !c.CrossArgs: // (with cross_args the arguments of a shared selection may not fit the second type)
			fs = append(fs, F{"well-formed-selection-rejected", firstLine(prep.Error()) + " :: " + text})
		}
		if ill != "" {
			obs["ill:"+ill] = true
		}
		if prep != nil {
			continue
		}
		var val interface{}
		var xerr error
		ctx, cancel := context.WithTimeout(context.Background(), 5*time.Second)
		g.ResetExcuses()
		p := safe(func() { val, xerr = exec.Execute(ctx, schema.Query, nil, q) })
		cancel()
		if p != "" {
			fs = append(fs, F{"execute-panic", firstLine(p) + " :: " + text})
			continue
		}
		clash := aliasClash(doc)
		if xerr != nil {
			// the legitimate execution errors: a generated resolver broke its own promise during this query
			if why := g.Excused(); why != "" {
				obs[why] = true
				continue
			}
		}
		if xerr != nil {
			sig := "validated-query-errors"
			if crossSpread && (strings.Contains(xerr.Error(), "zero Value argument") || strings.Contains(xerr.Error(), "args")) {
				// a fragment with argument-carrying fields under a type it was not written for: the arguments of
				// the shared selection are parsed for the first type only
				sig = "fragment-under-another-type-arguments-parsed-once:validated-query-errors"
			}
			if clash {
				sig = "alias-shared-by-different-fields:validated-query-errors"
			}
			fs = append(fs, F{sig, firstLine(xerr.Error()) + " :: " + text})
			continue
		}
		// the response as a client sees it
		b, merr := json.Marshal(val)
		if merr != nil {
			fs = append(fs, F{"response-not-serialisable", firstLine(merr.Error()) + " :: " + text})
			continue
		}
		var resp interface{}
		json.Unmarshal(b, &resp)
		cf := &gqlty.Conformer{S: isch, Frags: map[string]*ast.FragmentDefinition{}}
		var op *ast.OperationDefinition
		for _, d := range doc.Definitions {
			switch d := d.(type) {
			case *ast.FragmentDefinition:
				cf.Frags[d.Name.Value] = d
			case *ast.OperationDefinition:
				op = d
			}
		}
		root := isch.Types["Query"]
		obj, ok := resp.(map[string]interface{})
		if root == nil || !ok || op == nil {
			fs = append(fs, F{"response-not-an-object", firstLine(string(b))})
			continue
		}
		cf.ObjectRoot(root, op.SelectionSet, obj)
		if term, terr := gqlty.DocToCoq(doc); terr == nil && gqlty.CoqStringSafe(text) && !clash {
			// the response goes to the model's conformance check against the schema the model reads from the
			// printed introspection JSON (an alias shared by different fields is the known finding)
			resps = append(resps, fmt.Sprintf("(%s, %s)", term, gqlty.ResponseCoq(resp)))
		}
		seen := map[string]bool{}
		for _, v := range cf.Out {
			if !seen[v.Class] {
				seen[v.Class] = true
				sig := "response-does-not-conform:" + v.Class
				if clash {
					sig = "alias-shared-by-different-fields:response-does-not-conform"
				}
				fs = append(fs, F{sig, v.Path + ": " + v.Msg + " :: " + text})
			}
		}
		obs["executed"] = true
	}
	obs["queries"] = qterms
	obs["resps"] = resps
	obs["samples"] = samples
	return fs, obs
}

func main() {
	o := vh.ParseFlags()
	var cases []Case
	if o.Search != "" {
		// failing-input search (FRAMEWORK.md): other queries, more of them ill-formed, against the schemas of the
		// disagreeing cases, and textual edits of pinned queries; fresh schemas when the file is empty.  Oracle only.
		var seeds []Case
		if b, err := ioutil.ReadFile(o.Search); err == nil {
			for _, line := range strings.Split(string(b), "\n") {
				var w struct {
					Case Case `json:"case"`
				}
				if strings.TrimSpace(line) != "" && json.Unmarshal([]byte(line), &w) == nil && w.Case.Seed != 0 {
					seeds = append(seeds, w.Case)
				}
			}
		}
		r := vh.NewRng(o.Seed)
		for i := 0; i < o.N; i++ {
			cr := r.Fork()
			if len(seeds) == 0 {
				cases = append(cases, Case{Seed: cr.U64() >> 1, NQueries: 6, IllPct: 50, Origin: "search-fresh", Extra: true})
				continue
			}
			sd := seeds[cr.Intn(len(seeds))]
			c := Case{Seed: sd.Seed, NQueries: 8, QSeed: cr.U64()>>1 | 1, IllPct: 30 + cr.Intn(50), Clash: sd.Clash, Origin: "search", Extra: sd.Extra}
			if sd.Query != "" && cr.Chance(50) {
				c.Query, c.NQueries, c.Edited = editQuery(cr, sd.Query), 1, true
			}
			cases = append(cases, c)
		}
	} else if o.Replay != "" {
		var c Case
		if vh.ReadReplayCase(o.Replay, &c) {
			c.Origin = "replay"
			cases = append(cases, c)
		}
	} else {
		for _, f := range vh.CorpusFiles(o.Corpus) {
			var c Case
			if vh.ReadReplayCase(f, &c) {
				c.Origin = "corpus:" + filepath.Base(f)
				cases = append(cases, c)
			}
		}
		r := vh.NewRng(o.Seed)
		for i := 0; i < o.N; i++ {
			cases = append(cases, Case{Seed: r.U64() >> 1, NQueries: 6, Origin: "generated", Extra: true})
		}
	}
	if from, to, results, ok := gqlty.IsChild(); ok {
		log.SetOutput(ioutil.Discard)
		gqlty.ChildLoop(from, to, results, 60*time.Second, func(i int) ([]gqlty.Finding, map[string]interface{}) {
			return runCase(&cases[i])
		})
		return
	}
	run := vh.NewRun("C14", o)
	run.Rule = "case = one generated schema (1-4 reflect.StructOf object types with scalar/pointer/slice/named-scalar/enum/text-marshaler/time/bytes fields, key fields, static struct members, FieldFuncs made with reflect.MakeFunc in every signature form returning objects, lists (up to 7 List/NonNull wrappers), unions and scalars, arguments incl. input objects) + 6 queries that follow the schema (35% with one seeded ill-formed spot); non-trivial = the builder accepted the schema and at least one query was executed; distinct by seed"
	workers := runtime.NumCPU() / 2
	if workers > 8 {
		workers = 8
	}
	if workers < 2 {
		workers = 2
	}
	results := gqlty.RunIsolated(len(cases), workers, o.Out, 10*time.Minute)
	var terms []string
	scalars := scalarTable(o.Repo)
	nResp := 0
	for idx := range cases {
		c := &cases[idx]
		run.LogCase(idx, c)
		res := results[idx]
		for _, f := range res.Findings {
			sig := f.Sig
			if sig == "process-died" {
				// name the thunder function on top of the crashing goroutine's stack
				if m := thunderFrame.FindStringSubmatch(f.Detail); m != nil {
					sig += ":" + m[1]
				}
			}
			run.Fail(idx, sig, f.Detail, c)
		}
		ex, _ := res.Obs["executed"].(bool)
		run.Count(fmt.Sprint(c.Seed, c.QSeed, c.Query), ex)
		if _, bad := res.Obs["builder_error"]; bad {
			run.Hist("builder:rejected")
			continue
		}
		run.Hist("builder:ok")
		if sh, ok := res.Obs["shapes"].(map[string]interface{}); ok {
			for k := range sh {
				run.Hist(k)
			}
		}
		for k := range res.Obs {
			if strings.HasPrefix(k, "ill:") || k == "cross-type-spread" || k == "nonnullable-nil-rejected" || k == "enum-without-value-rejected" || strings.HasPrefix(k, "prepare-error-text-class:") {
				run.Hist(k)
			}
		}
		if s, ok := res.Obs["samples"].([]interface{}); ok && len(s) > 0 && len(run.Samples) < 4 {
			run.Sample(map[string]interface{}{"seed": c.Seed, "query": s[0]})
		}
		sch, _ := res.Obs["sch"].(string)
		isch, _ := res.Obs["isch"].(string)
		if sch == "" || isch == "" {
			continue
		}
		var qs []string
		if l, ok := res.Obs["queries"].([]interface{}); ok {
			for _, x := range l {
				qs = append(qs, x.(string))
			}
		}
		x, _ := res.Obs["x"].(string)
		itypes, _ := res.Obs["itypes"].(string)
		if x == "" || itypes == "" {
			run.Hist("introspection-json-not-printable-as-coq-term")
			continue
		}
		var rs []string
		if l, ok := res.Obs["resps"].([]interface{}); ok {
			for _, e := range l {
				rs = append(rs, e.(string))
			}
		}
		nResp += len(rs)
		gofields, _ := res.Obs["gofields"].(string)
		if gofields == "" {
			gofields = "[]"
		}
		terms = append(terms, fmt.Sprintf("(%d, mk14 %s %s %s %s %s %s %s %s)", idx, sch, isch, vh.CoqList(qs), x, itypes, vh.CoqList(rs), scalars, gofields))
	}
	if o.Search != "" {
		run.Finish()
		return
	}
	run.Histogram["responses-checked-by-the-model"] = nResp
	// premises of the theorems, decided by the model on every evaluated case (components 3 and 13 report a case
	// outside them): schema_closed of the walked schema, xwf of the built schema
	run.Histogram["premise:schema_closed+xwf-checked-on-cases"] = len(terms)
	nFields := 0
	for idx := range cases {
		if gf, ok := results[idx].Obs["gofields"].(string); ok {
			nFields += strings.Count(gf, "KStructField") + strings.Count(gf, "(KFunc") + strings.Count(gf, "(KBatch")
		}
	}
	run.Histogram["go-field-types-compared-with-the-model"] = nFields
	const shard = 20
	for s := 0; s < len(terms); s += shard {
		end := s + shard
		if end > len(terms) {
			end = len(terms)
		}
		prelude, shared := gqlty.ShareCoqStrings(terms[s:end])
		run.WriteCasesV(fmt.Sprintf("cases_%d.v", s), []string{"Lib.Json", "GqlTyping.Types", "GqlTyping.Parse", "GqlTyping.Typing", "GqlTyping.Introspect", "GqlTyping.GoTypes", "GqlTyping.Check14"}, prelude,
			"mismatches_c14", 0, shared)
	}
	run.Finish()
}
